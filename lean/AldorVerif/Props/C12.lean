import AldorVerif.Lemmas.JMap

/-! # C12: the Java back end's reading of the integer / boolean builtins

`Gen.JMap.X` is what the Java back end emits for FOAM builtin `X` (translated from
`gjBValInfoTable`, the operator tables of `javacode.c` and the bodies in `foamj/Math.java`, with
Java's arithmetic from `Model/JSem.lean`).  `Spec.X` (`Model/JSpec.lean`) is the operation's
meaning at a width `w`; at `w = 32` it is the meaning on Java `int`, at `w = 64` the meaning on
the C routes' `long`.

* `jmap_X_spec32` — the emitted Java computes the 32-bit meaning (rows where this is false have a
  `_refuted` theorem with a witness instead: the two `Byte` rows, FOAM `Byte` being unsigned and
  Java `byte` signed; see the check's findings).
* `agree_within_31bit_X` — when the operands and the exact result fit the signed 32-bit range,
  the 32-bit meaning and the 64-bit meaning denote the same integer.  This is exactly the region
  in which the Java route can agree with the interpreter / C routes: FOAM `SInt` is 64 bit there
  and 32 bit in Java, so outside the region the routes differ BY CONSTRUCTION
  (`routes_differ_outside_31bit`).  The generated program family of the end-to-end search stays
  inside it.
* `jmap_agrees_on_31bit_X` — the two combined: emitted Java = 64-bit meaning on that region.

Not modelled (`partial`): the 5 000-line emitter `genjava.c` itself (statement and control
structure, closures, records, formats); it is covered by the end-to-end search only. -/
namespace AldorVerif.C12
open AldorVerif AldorVerif.JSpec AldorVerif.Gen

/-! ## booleans -/
theorem jmap_BoolNot_spec32 (a : Bool) : JMap.BoolNot a = Spec.BoolNot a := rfl
theorem jmap_BoolAnd_spec32 (a b : Bool) : JMap.BoolAnd a b = Spec.BoolAnd a b := rfl
theorem jmap_BoolOr_spec32 (a b : Bool) : JMap.BoolOr a b = Spec.BoolOr a b := rfl
theorem jmap_BoolEQ_spec32 (a b : Bool) : JMap.BoolEQ a b = Spec.BoolEQ a b := by
  cases a <;> cases b <;> rfl
theorem jmap_BoolNE_spec32 (a b : Bool) : JMap.BoolNE a b = Spec.BoolNE a b := by
  cases a <;> cases b <;> rfl

theorem jmap_BoolFalse_spec32 : JMap.BoolFalse = Spec.BoolFalse := rfl
theorem jmap_BoolTrue_spec32 : JMap.BoolTrue = Spec.BoolTrue := rfl

/-! ## characters -/
theorem jmap_CharEQ_spec32 (a b : BitVec 16) : JMap.CharEQ a b = Spec.CharEQ a b := by
  simp only [JMap.CharEQ, JSem.eq, JSem.c2i, Spec.CharEQ]
  rw [Bool.eq_iff_iff]; simp only [beq_iff_eq, decide_eq_true_eq]
  constructor
  · intro h
    have := congrArg BitVec.toNat h
    simp only [BitVec.toNat_setWidth] at this
    have ha := a.isLt; have hb := b.isLt; omega
  · intro h; rw [BitVec.eq_of_toNat_eq h]

theorem jmap_CharNE_spec32 (a b : BitVec 16) : JMap.CharNE a b = Spec.CharNE a b := by
  have h := jmap_CharEQ_spec32 a b
  simp only [JMap.CharEQ, JSem.eq, Spec.CharEQ] at h
  simp only [JMap.CharNE, JSem.ne, Spec.CharNE, bne, h]
  simp

theorem jmap_CharLT_spec32 (a b : BitVec 16) : JMap.CharLT a b = Spec.CharLT a b := by
  simp only [JMap.CharLT, JSem.lt, Spec.CharLT, BitVec.slt_eq_decide, c2i_toInt]
  simp
theorem jmap_CharLE_spec32 (a b : BitVec 16) : JMap.CharLE a b = Spec.CharLE a b := by
  simp only [JMap.CharLE, JSem.le, Spec.CharLE, BitVec.sle_eq_decide, c2i_toInt]
  simp
theorem jmap_CharOrd_spec32 (a : BitVec 16) : JMap.CharOrd a = Spec.CharOrd 32 a := by
  apply BitVec.eq_of_toNat_eq
  simp [JMap.CharOrd, JSem.c2i, Spec.CharOrd]
theorem jmap_CharNum_spec32 (a : BitVec 32) : JMap.CharNum a = Spec.CharNum 16 a := by
  apply BitVec.eq_of_toNat_eq
  simp [JMap.CharNum, JSem.i2c, Spec.CharNum]

/-! ## integer constants -/
theorem jmap_SInt0_spec32 : JMap.SInt0 = Spec.SInt0 := by decide
theorem jmap_SInt1_spec32 : JMap.SInt1 = Spec.SInt1 := by decide
theorem jmap_SIntMax_spec32 : JMap.SIntMax = Spec.SIntMax := by decide
theorem jmap_SIntMin_spec32 : JMap.SIntMin = Spec.SIntMin := by decide

/-! ## integer predicates -/
theorem jmap_SIntIsZero_spec32 (a : BitVec 32) : JMap.SIntIsZero a = Spec.SIntIsZero a := by
  simp only [JMap.SIntIsZero, JSem.eq, Spec.SIntIsZero]
  rw [Bool.eq_iff_iff]; simp [toInt_eq_zero_iff]
theorem jmap_SIntIsNeg_spec32 (a : BitVec 32) : JMap.SIntIsNeg a = Spec.SIntIsNeg a := by
  simp [JMap.SIntIsNeg, JSem.lt, Spec.SIntIsNeg, BitVec.slt_eq_decide]
theorem jmap_SIntIsPos_spec32 (a : BitVec 32) : JMap.SIntIsPos a = Spec.SIntIsPos a := by
  simp [JMap.SIntIsPos, JSem.gt, Spec.SIntIsPos, BitVec.slt_eq_decide]

theorem jmap_SIntIsOdd_spec32 (a : BitVec 32) : JMap.SIntIsOdd a = Spec.SIntIsOdd a := by
  simp only [JMap.SIntIsOdd, JMap.Math_isOdd, JSem.eq, JSem.band, Spec.SIntIsOdd, and_one_eq]
  split <;> simp_all
theorem jmap_SIntIsEven_spec32 (a : BitVec 32) : JMap.SIntIsEven a = Spec.SIntIsEven a := by
  simp only [JMap.SIntIsEven, JMap.Math_isEven, JSem.eq, JSem.band, Spec.SIntIsEven, and_one_eq]
  split <;> simp_all <;> omega

/-! ## integer comparisons -/
theorem jmap_SIntEQ_spec32 (a b : BitVec 32) : JMap.SIntEQ a b = Spec.SIntEQ a b := by
  simp only [JMap.SIntEQ, JSem.eq, Spec.SIntEQ]
  rw [Bool.eq_iff_iff]; simp [BitVec.toInt_inj]
theorem jmap_SIntNE_spec32 (a b : BitVec 32) : JMap.SIntNE a b = Spec.SIntNE a b := by
  simp only [JMap.SIntNE, JSem.ne, Spec.SIntNE]
  rw [Bool.eq_iff_iff]; simp [BitVec.toInt_inj]
theorem jmap_SIntLT_spec32 (a b : BitVec 32) : JMap.SIntLT a b = Spec.SIntLT a b := by
  simp [JMap.SIntLT, JSem.lt, Spec.SIntLT, BitVec.slt_eq_decide]
theorem jmap_SIntLE_spec32 (a b : BitVec 32) : JMap.SIntLE a b = Spec.SIntLE a b := by
  simp [JMap.SIntLE, JSem.le, Spec.SIntLE, BitVec.sle_eq_decide]

/-! ## integer arithmetic -/
theorem jmap_SIntNegate_spec32 (a : BitVec 32) : JMap.SIntNegate a = Spec.SIntNegate a := by
  apply BitVec.eq_of_toInt_eq
  simp [JMap.SIntNegate, JSem.neg, Spec.SIntNegate, BitVec.toInt_neg, BitVec.toInt_ofInt]
theorem jmap_SIntPrev_spec32 (a : BitVec 32) : JMap.SIntPrev a = Spec.SIntPrev a := by
  apply BitVec.eq_of_toInt_eq
  simp [JMap.SIntPrev, JSem.sub, Spec.SIntPrev, BitVec.toInt_sub, BitVec.toInt_ofInt]
theorem jmap_SIntNext_spec32 (a : BitVec 32) : JMap.SIntNext a = Spec.SIntNext a := by
  apply BitVec.eq_of_toInt_eq
  simp [JMap.SIntNext, JSem.add, Spec.SIntNext, BitVec.toInt_add, BitVec.toInt_ofInt]
theorem jmap_SIntPlus_spec32 (a b : BitVec 32) : JMap.SIntPlus a b = Spec.SIntPlus a b := by
  apply BitVec.eq_of_toInt_eq
  simp [JMap.SIntPlus, JSem.add, Spec.SIntPlus, BitVec.toInt_add, BitVec.toInt_ofInt]
theorem jmap_SIntMinus_spec32 (a b : BitVec 32) : JMap.SIntMinus a b = Spec.SIntMinus a b := by
  apply BitVec.eq_of_toInt_eq
  simp [JMap.SIntMinus, JSem.sub, Spec.SIntMinus, BitVec.toInt_sub, BitVec.toInt_ofInt]
theorem jmap_SIntTimes_spec32 (a b : BitVec 32) : JMap.SIntTimes a b = Spec.SIntTimes a b := by
  apply BitVec.eq_of_toInt_eq
  simp [JMap.SIntTimes, JSem.mul, Spec.SIntTimes, BitVec.toInt_mul, BitVec.toInt_ofInt]
theorem jmap_SIntTimesPlus_spec32 (a b c : BitVec 32) :
    JMap.SIntTimesPlus a b c = Spec.SIntTimesPlus a b c := by
  apply BitVec.eq_of_toInt_eq
  simp [JMap.SIntTimesPlus, JSem.add, JSem.mul, Spec.SIntTimesPlus, BitVec.toInt_add,
    BitVec.toInt_mul, BitVec.toInt_ofInt]

theorem jmap_SIntQuo_spec32 (a b : BitVec 32) : JMap.SIntQuo a b = Spec.SIntQuo a b := by
  simp [JMap.SIntQuo, jsem_div_spec]
theorem jmap_SIntRem_spec32 (a b : BitVec 32) : JMap.SIntRem a b = Spec.SIntRem a b := by
  simp [JMap.SIntRem, jsem_rem_spec]
theorem jmap_SIntMod_spec32 (a b : BitVec 32) : JMap.SIntMod a b = Spec.SIntMod a b := by
  simp [JMap.SIntMod, Spec.SIntMod, jsem_rem_spec]
theorem jmap_SIntPlusMod_spec32 (a b n : BitVec 32) :
    JMap.SIntPlusMod a b n = Spec.SIntPlusMod a b n := by
  have h := jmap_SIntPlus_spec32 a b
  simp only [JMap.SIntPlus] at h
  simp [JMap.SIntPlusMod, Spec.SIntPlusMod, jsem_rem_spec, h]
theorem jmap_SIntMinusMod_spec32 (a b n : BitVec 32) :
    JMap.SIntMinusMod a b n = Spec.SIntMinusMod a b n := by
  have h := jmap_SIntMinus_spec32 a b
  simp only [JMap.SIntMinus] at h
  simp [JMap.SIntMinusMod, Spec.SIntMinusMod, jsem_rem_spec, h]
theorem jmap_SIntTimesMod_spec32 (a b n : BitVec 32) :
    JMap.SIntTimesMod a b n = Spec.SIntTimesMod a b n := by
  have h := jmap_SIntTimes_spec32 a b
  simp only [JMap.SIntTimes] at h
  simp [JMap.SIntTimesMod, Spec.SIntTimesMod, jsem_rem_spec, h]

/-! ## shifts and bits: Java masks the count with 31, so the meaning is met for counts 0..31 -/
theorem jmap_SIntShiftUp_spec32 (a n : BitVec 32) (hn : n.toNat < 32) :
    JMap.SIntShiftUp a n = Spec.SIntShiftUp a n := by
  apply BitVec.eq_of_toInt_eq
  simp only [JMap.SIntShiftUp, JSem.shl, Spec.SIntShiftUp, Nat.mod_eq_of_lt hn,
    BitVec.toInt_shiftLeft, BitVec.toInt_ofInt, Nat.shiftLeft_eq]
  rw [BitVec.toInt_eq_toNat_bmod]
  have : ((a.toNat * 2 ^ n.toNat : Nat) : Int) = (a.toNat : Int) * 2 ^ n.toNat := by simp
  rw [this, Int.bmod_mul_bmod]

theorem jmap_SIntShiftDn_spec32 (a n : BitVec 32) (hn : n.toNat < 32) :
    JMap.SIntShiftDn a n = Spec.SIntShiftDn a n := by
  apply BitVec.eq_of_toInt_eq
  have h := inI32_toInt (a.sshiftRight n.toNat)
  rw [BitVec.toInt_sshiftRight, Int.shiftRight_eq_div_pow] at h
  simp only [JMap.SIntShiftDn, JSem.shr, Spec.SIntShiftDn, Nat.mod_eq_of_lt hn,
    BitVec.toInt_sshiftRight, Int.shiftRight_eq_div_pow]
  have hc : ((2 ^ n.toNat : Nat) : Int) = (2 : Int) ^ n.toNat := by simp
  rw [hc] at h ⊢
  rw [toInt_ofInt32 h]

theorem jmap_SIntBit_spec32 (a i : BitVec 32) (hi : i.toNat < 32) :
    JMap.SIntBit a i = Spec.SIntBit a i := by
  simp only [JMap.SIntBit, JMap.Math_bit, JSem.ne, JSem.band, JSem.shl, Spec.SIntBit,
    Nat.mod_eq_of_lt hi, bit_toInt a _ hi]
  have h1 : (a &&& (1#32 <<< i.toNat) != 0#32) = a.getLsbD i.toNat := by
    rw [Bool.eq_iff_iff]
    simp only [bne_iff_ne, ne_eq]
    constructor
    · intro h
      apply Classical.byContradiction; intro hb
      apply h
      apply BitVec.eq_of_getLsbD_eq
      intro j hj
      simp only [BitVec.getLsbD_and, BitVec.getLsbD_shiftLeft, BitVec.getLsbD_zero]
      by_cases hji : j = i.toNat
      · subst hji; simp at hb; simp [hb]
      · simp only [BitVec.getLsbD_one]
        by_cases hlt : j < i.toNat
        · simp [hlt]
        · have : j - i.toNat ≠ 0 := by omega
          simp [this]
    · intro hb h
      have := congrArg (fun x => BitVec.getLsbD x i.toNat) h
      simp [hi] at this
      rw [BitVec.getLsbD_eq_getElem hi] at hb
      rw [hb] at this; exact Bool.noConfusion this
  rw [h1, BitVec.getLsbD, Nat.testBit_eq_decide_div_mod_eq]
  rw [Bool.eq_iff_iff]; simp only [decide_eq_true_eq]
  omega

/-- `{FOAM_BVal_SIntNot, GJ_Op, JCO_OP_XOr, "-1"}`: `a ^ -1` is the one's complement `-a - 1` -/
theorem jmap_SIntNot_spec32 (a : BitVec 32) : JMap.SIntNot a = Spec.SIntNot a := by
  apply BitVec.eq_of_toInt_eq
  have h : InI32 (-a.toInt - 1) := by have := inI32_toInt a; unfold InI32 at *; omega
  simp only [JMap.SIntNot, JSem.bxor, JSem.neg, Spec.SIntNot, xor_m1]
  rw [toInt_ofInt32 h, toInt_not32]

theorem jmap_SIntAnd_spec32 (a b : BitVec 32) : JMap.SIntAnd a b = Spec.SIntAnd a b := rfl
theorem jmap_SIntOr_spec32 (a b : BitVec 32) : JMap.SIntOr a b = Spec.SIntOr a b := rfl
theorem jmap_SIntXOr_spec32 (a b : BitVec 32) : JMap.SIntXOr a b = Spec.SIntXOr a b := rfl

/-! ## bytes and half integers -/
theorem jmap_Byte0_spec32 : JMap.Byte0 = Spec.Byte0 := by decide
theorem jmap_Byte1_spec32 : JMap.Byte1 = Spec.Byte1 := by decide
theorem jmap_ByteMin_spec32 : JMap.ByteMin = Spec.ByteMin := by decide
/-- FOAM `Byte` is unsigned (`fiByteMax` is `UCHAR_MAX`), Java `byte` is signed: the row emits
`Byte.MAX_VALUE` = 127 for 255 -/
theorem jmap_ByteMax_spec32_refuted : JMap.ByteMax ≠ Spec.ByteMax := by decide
theorem jmap_HInt0_spec32 : JMap.HInt0 = Spec.HInt0 := by decide
theorem jmap_HInt1_spec32 : JMap.HInt1 = Spec.HInt1 := by decide
theorem jmap_HIntMin_spec32 : JMap.HIntMin = Spec.HIntMin := by decide
theorem jmap_HIntMax_spec32 : JMap.HIntMax = Spec.HIntMax := by decide

def jmap_ByteToSInt_spec32_statement : Prop :=
  ∀ a : BitVec 8, JMap.ByteToSInt a = (Spec.ByteToSInt a : BitVec 32)
/-- `(int) b` sign-extends: bytes 128..255 become negative -/
theorem jmap_ByteToSInt_spec32_statement_refuted : ¬ jmap_ByteToSInt_spec32_statement := by
  intro h; exact absurd (h 200#8) (by decide)
theorem jmap_ByteToSInt_spec32_partial (a : BitVec 8) (h : a.toNat < 128) :
    JMap.ByteToSInt a = (Spec.ByteToSInt a : BitVec 32) := by
  apply BitVec.eq_of_toInt_eq
  have hm : a.msb = false := by
    rw [BitVec.msb_eq_decide]; simp; omega
  simp only [JMap.ByteToSInt, JSem.b2i, Spec.ByteToSInt]
  rw [BitVec.toInt_signExtend_of_le (by decide), BitVec.toInt_eq_toNat_of_msb hm,
    BitVec.toInt_eq_toNat_bmod]
  simp only [BitVec.toNat_ofNat]
  rw [Nat.mod_eq_of_lt (by omega)]
  symm; apply Int.bmod_eq_of_le <;> simp <;> omega

theorem jmap_SIntToByte_spec32 (a : BitVec 32) : JMap.SIntToByte a = Spec.SIntToByte a := by
  apply BitVec.eq_of_toNat_eq
  simp only [JMap.SIntToByte, JSem.i2b, Spec.SIntToByte, BitVec.toNat_setWidth, BitVec.toNat_ofInt]
  rcases toInt_cases32 a with h | h <;> rw [h] <;> simp <;> omega
theorem jmap_SIntToHInt_spec32 (a : BitVec 32) : JMap.SIntToHInt a = Spec.SIntToHInt a := by
  apply BitVec.eq_of_toNat_eq
  simp only [JMap.SIntToHInt, JSem.i2s, Spec.SIntToHInt, BitVec.toNat_setWidth, BitVec.toNat_ofInt]
  rcases toInt_cases32 a with h | h <;> rw [h] <;> simp <;> omega
theorem jmap_HIntToSInt_spec32 (a : BitVec 16) :
    JMap.HIntToSInt a = (Spec.HIntToSInt a : BitVec 32) := by
  apply BitVec.eq_of_toInt_eq
  simp only [JMap.HIntToSInt, JSem.s2i, Spec.HIntToSInt]
  rw [BitVec.toInt_signExtend_of_le (by decide), BitVec.toInt_ofInt]
  have h1 := BitVec.toInt_lt (x := a); have h2 := BitVec.le_toInt a
  simp at h1 h2
  symm; apply Int.bmod_eq_of_le <;> simp <;> omega

/-! ## where the 32-bit and the 64-bit meaning coincide -/
abbrev sx (a : BitVec 32) : BitVec 64 := a.signExtend 64

theorem agree_within_31bit_SIntPlus (a b : BitVec 32) (h : InI32 (a.toInt + b.toInt)) :
    (Spec.SIntPlus a b).toInt = (Spec.SIntPlus (sx a) (sx b)).toInt := by
  simp only [Spec.SIntPlus, sx, toInt_sx]; rw [toInt_ofInt32 h, toInt_ofInt64 h]
theorem agree_within_31bit_SIntMinus (a b : BitVec 32) (h : InI32 (a.toInt - b.toInt)) :
    (Spec.SIntMinus a b).toInt = (Spec.SIntMinus (sx a) (sx b)).toInt := by
  simp only [Spec.SIntMinus, sx, toInt_sx]; rw [toInt_ofInt32 h, toInt_ofInt64 h]
theorem agree_within_31bit_SIntTimes (a b : BitVec 32) (h : InI32 (a.toInt * b.toInt)) :
    (Spec.SIntTimes a b).toInt = (Spec.SIntTimes (sx a) (sx b)).toInt := by
  simp only [Spec.SIntTimes, sx, toInt_sx]; rw [toInt_ofInt32 h, toInt_ofInt64 h]
theorem agree_within_31bit_SIntTimesPlus (a b c : BitVec 32)
    (h : InI32 (a.toInt * b.toInt + c.toInt)) :
    (Spec.SIntTimesPlus a b c).toInt = (Spec.SIntTimesPlus (sx a) (sx b) (sx c)).toInt := by
  simp only [Spec.SIntTimesPlus, sx, toInt_sx]; rw [toInt_ofInt32 h, toInt_ofInt64 h]
theorem agree_within_31bit_SIntNegate (a : BitVec 32) (h : InI32 (-a.toInt)) :
    (Spec.SIntNegate a).toInt = (Spec.SIntNegate (sx a)).toInt := by
  simp only [Spec.SIntNegate, sx, toInt_sx]; rw [toInt_ofInt32 h, toInt_ofInt64 h]
theorem agree_within_31bit_SIntPrev (a : BitVec 32) (h : InI32 (a.toInt - 1)) :
    (Spec.SIntPrev a).toInt = (Spec.SIntPrev (sx a)).toInt := by
  simp only [Spec.SIntPrev, sx, toInt_sx]; rw [toInt_ofInt32 h, toInt_ofInt64 h]
theorem agree_within_31bit_SIntNext (a : BitVec 32) (h : InI32 (a.toInt + 1)) :
    (Spec.SIntNext a).toInt = (Spec.SIntNext (sx a)).toInt := by
  simp only [Spec.SIntNext, sx, toInt_sx]; rw [toInt_ofInt32 h, toInt_ofInt64 h]
/-- quotient: the only excluded pair is `MIN / -1` (exact quotient 2^31) -/
theorem agree_within_31bit_SIntQuo (a b : BitVec 32) (h : InI32 (a.toInt.tdiv b.toInt)) :
    (Spec.SIntQuo a b).map BitVec.toInt = (Spec.SIntQuo (sx a) (sx b)).map BitVec.toInt := by
  simp only [Spec.SIntQuo, sx, toInt_sx]
  split
  · rfl
  · simp only [Option.map_some]; rw [toInt_ofInt32 h, toInt_ofInt64 h]
/-- remainder: always (the result is smaller than the divisor in magnitude) -/
theorem agree_within_31bit_SIntRem (a b : BitVec 32) :
    (Spec.SIntRem a b).map BitVec.toInt = (Spec.SIntRem (sx a) (sx b)).map BitVec.toInt := by
  simp only [Spec.SIntRem, sx, toInt_sx]
  split
  · rfl
  · rename_i h0
    have h := inI32_tmod a.toInt (inI32_toInt b) h0
    simp only [Option.map_some]; rw [toInt_ofInt32 h, toInt_ofInt64 h]
theorem agree_within_31bit_SIntShiftUp (a n : BitVec 32) (h : InI32 (a.toInt * 2 ^ n.toNat)) :
    (Spec.SIntShiftUp a n).toInt = (Spec.SIntShiftUp (sx a) (BitVec.ofNat 64 n.toNat)).toInt := by
  have hn : n.toNat % 2 ^ 64 = n.toNat := Nat.mod_eq_of_lt (by have := n.isLt; omega)
  simp only [Spec.SIntShiftUp, sx, toInt_sx, BitVec.toNat_ofNat, hn]
  rw [toInt_ofInt32 h, toInt_ofInt64 h]
theorem agree_within_31bit_SIntShiftDn (a n : BitVec 32) :
    (Spec.SIntShiftDn a n).toInt = (Spec.SIntShiftDn (sx a) (BitVec.ofNat 64 n.toNat)).toInt := by
  have hn : n.toNat % 2 ^ 64 = n.toNat := Nat.mod_eq_of_lt (by have := n.isLt; omega)
  have h := inI32_shiftDn a n.toNat
  simp only [Spec.SIntShiftDn, sx, toInt_sx, BitVec.toNat_ofNat, hn]
  rw [toInt_ofInt32 h, toInt_ofInt64 h]
theorem agree_within_31bit_SIntNot (a : BitVec 32) :
    (Spec.SIntNot a).toInt = (Spec.SIntNot (sx a)).toInt := by
  have h : InI32 (-a.toInt - 1) := by have := inI32_toInt a; unfold InI32 at *; omega
  simp only [Spec.SIntNot, sx, toInt_sx]; rw [toInt_ofInt32 h, toInt_ofInt64 h]
theorem agree_within_31bit_SIntAnd (a b : BitVec 32) :
    (Spec.SIntAnd a b).toInt = (Spec.SIntAnd (sx a) (sx b)).toInt := by
  simp only [Spec.SIntAnd, sx]; rw [← BitVec.signExtend_and, toInt_sx]
theorem agree_within_31bit_SIntOr (a b : BitVec 32) :
    (Spec.SIntOr a b).toInt = (Spec.SIntOr (sx a) (sx b)).toInt := by
  simp only [Spec.SIntOr, sx]; rw [← BitVec.signExtend_or, toInt_sx]
theorem agree_within_31bit_SIntXOr (a b : BitVec 32) :
    (Spec.SIntXOr a b).toInt = (Spec.SIntXOr (sx a) (sx b)).toInt := by
  simp only [Spec.SIntXOr, sx]; rw [← BitVec.signExtend_xor, toInt_sx]
theorem agree_within_31bit_SIntLT (a b : BitVec 32) :
    Spec.SIntLT a b = Spec.SIntLT (sx a) (sx b) := by simp only [Spec.SIntLT, sx, toInt_sx]
theorem agree_within_31bit_SIntLE (a b : BitVec 32) :
    Spec.SIntLE a b = Spec.SIntLE (sx a) (sx b) := by simp only [Spec.SIntLE, sx, toInt_sx]
theorem agree_within_31bit_SIntEQ (a b : BitVec 32) :
    Spec.SIntEQ a b = Spec.SIntEQ (sx a) (sx b) := by simp only [Spec.SIntEQ, sx, toInt_sx]
theorem agree_within_31bit_SIntNE (a b : BitVec 32) :
    Spec.SIntNE a b = Spec.SIntNE (sx a) (sx b) := by simp only [Spec.SIntNE, sx, toInt_sx]
theorem agree_within_31bit_SIntIsZero (a : BitVec 32) :
    Spec.SIntIsZero a = Spec.SIntIsZero (sx a) := by simp only [Spec.SIntIsZero, sx, toInt_sx]
theorem agree_within_31bit_SIntIsNeg (a : BitVec 32) :
    Spec.SIntIsNeg a = Spec.SIntIsNeg (sx a) := by simp only [Spec.SIntIsNeg, sx, toInt_sx]
theorem agree_within_31bit_SIntIsPos (a : BitVec 32) :
    Spec.SIntIsPos a = Spec.SIntIsPos (sx a) := by simp only [Spec.SIntIsPos, sx, toInt_sx]
theorem agree_within_31bit_SIntIsEven (a : BitVec 32) :
    Spec.SIntIsEven a = Spec.SIntIsEven (sx a) := by simp only [Spec.SIntIsEven, sx, toInt_sx]
theorem agree_within_31bit_SIntIsOdd (a : BitVec 32) :
    Spec.SIntIsOdd a = Spec.SIntIsOdd (sx a) := by simp only [Spec.SIntIsOdd, sx, toInt_sx]

/-! ## combined: emitted Java = 64-bit meaning on the region -/
theorem jmap_agrees_on_31bit_SIntPlus (a b : BitVec 32) (h : InI32 (a.toInt + b.toInt)) :
    (JMap.SIntPlus a b).toInt = (Spec.SIntPlus (sx a) (sx b)).toInt := by
  rw [jmap_SIntPlus_spec32]; exact agree_within_31bit_SIntPlus a b h
theorem jmap_agrees_on_31bit_SIntMinus (a b : BitVec 32) (h : InI32 (a.toInt - b.toInt)) :
    (JMap.SIntMinus a b).toInt = (Spec.SIntMinus (sx a) (sx b)).toInt := by
  rw [jmap_SIntMinus_spec32]; exact agree_within_31bit_SIntMinus a b h
theorem jmap_agrees_on_31bit_SIntTimes (a b : BitVec 32) (h : InI32 (a.toInt * b.toInt)) :
    (JMap.SIntTimes a b).toInt = (Spec.SIntTimes (sx a) (sx b)).toInt := by
  rw [jmap_SIntTimes_spec32]; exact agree_within_31bit_SIntTimes a b h
theorem jmap_agrees_on_31bit_SIntNegate (a : BitVec 32) (h : InI32 (-a.toInt)) :
    (JMap.SIntNegate a).toInt = (Spec.SIntNegate (sx a)).toInt := by
  rw [jmap_SIntNegate_spec32]; exact agree_within_31bit_SIntNegate a h
theorem jmap_agrees_on_31bit_SIntQuo (a b : BitVec 32) (h : InI32 (a.toInt.tdiv b.toInt)) :
    (JMap.SIntQuo a b).map BitVec.toInt = (Spec.SIntQuo (sx a) (sx b)).map BitVec.toInt := by
  rw [jmap_SIntQuo_spec32]; exact agree_within_31bit_SIntQuo a b h
theorem jmap_agrees_on_31bit_SIntRem (a b : BitVec 32) :
    (JMap.SIntRem a b).map BitVec.toInt = (Spec.SIntRem (sx a) (sx b)).map BitVec.toInt := by
  rw [jmap_SIntRem_spec32]; exact agree_within_31bit_SIntRem a b
theorem jmap_agrees_on_31bit_SIntLT (a b : BitVec 32) :
    JMap.SIntLT a b = Spec.SIntLT (sx a) (sx b) := by
  rw [jmap_SIntLT_spec32]; exact agree_within_31bit_SIntLT a b
theorem jmap_agrees_on_31bit_SIntEQ (a b : BitVec 32) :
    JMap.SIntEQ a b = Spec.SIntEQ (sx a) (sx b) := by
  rw [jmap_SIntEQ_spec32]; exact agree_within_31bit_SIntEQ a b

theorem jmap_agrees_on_31bit_SIntTimesPlus (a b c : BitVec 32)
    (h : InI32 (a.toInt * b.toInt + c.toInt)) :
    (JMap.SIntTimesPlus a b c).toInt = (Spec.SIntTimesPlus (sx a) (sx b) (sx c)).toInt := by
  rw [jmap_SIntTimesPlus_spec32]; exact agree_within_31bit_SIntTimesPlus a b c h
theorem jmap_agrees_on_31bit_SIntPrev (a : BitVec 32) (h : InI32 (a.toInt - 1)) :
    (JMap.SIntPrev a).toInt = (Spec.SIntPrev (sx a)).toInt := by
  rw [jmap_SIntPrev_spec32]; exact agree_within_31bit_SIntPrev a h
theorem jmap_agrees_on_31bit_SIntNext (a : BitVec 32) (h : InI32 (a.toInt + 1)) :
    (JMap.SIntNext a).toInt = (Spec.SIntNext (sx a)).toInt := by
  rw [jmap_SIntNext_spec32]; exact agree_within_31bit_SIntNext a h
theorem jmap_agrees_on_31bit_SIntShiftUp (a n : BitVec 32) (hn : n.toNat < 32)
    (h : InI32 (a.toInt * 2 ^ n.toNat)) :
    (JMap.SIntShiftUp a n).toInt = (Spec.SIntShiftUp (sx a) (BitVec.ofNat 64 n.toNat)).toInt := by
  rw [jmap_SIntShiftUp_spec32 a n hn]; exact agree_within_31bit_SIntShiftUp a n h
theorem jmap_agrees_on_31bit_SIntShiftDn (a n : BitVec 32) (hn : n.toNat < 32) :
    (JMap.SIntShiftDn a n).toInt = (Spec.SIntShiftDn (sx a) (BitVec.ofNat 64 n.toNat)).toInt := by
  rw [jmap_SIntShiftDn_spec32 a n hn]; exact agree_within_31bit_SIntShiftDn a n
theorem jmap_agrees_on_31bit_SIntLE (a b : BitVec 32) :
    JMap.SIntLE a b = Spec.SIntLE (sx a) (sx b) := by
  rw [jmap_SIntLE_spec32]; exact agree_within_31bit_SIntLE a b
theorem jmap_agrees_on_31bit_SIntNE (a b : BitVec 32) :
    JMap.SIntNE a b = Spec.SIntNE (sx a) (sx b) := by
  rw [jmap_SIntNE_spec32]; exact agree_within_31bit_SIntNE a b
theorem jmap_agrees_on_31bit_SIntAnd (a b : BitVec 32) :
    (JMap.SIntAnd a b).toInt = (Spec.SIntAnd (sx a) (sx b)).toInt := by
  rw [jmap_SIntAnd_spec32]; exact agree_within_31bit_SIntAnd a b

/-- non-vacuity: operands meeting the hypotheses with a non-trivial result -/
example : InI32 ((1000000#32).toInt * (2000#32).toInt) := by decide
example : InI32 ((BitVec.ofInt 32 (-2147483648)).toInt.tdiv (7#32).toInt) := by decide

/-- outside the region the two meanings differ: `2147483647 + 1` is `-2147483648` at 32 bit and
`2147483648` at 64 bit — the Java route and the interpreter / C routes disagree BY CONSTRUCTION
(`corpus/java/witness/width_plus.as` shows it on the real routes) -/
theorem routes_differ_outside_31bit :
    ∃ a b : BitVec 32, (Spec.SIntPlus a b).toInt ≠ (Spec.SIntPlus (sx a) (sx b)).toInt :=
  ⟨2147483647#32, 1#32, by decide⟩
/-- … and so do shifts whose count is 32..63 although every value involved is small:
`1 >> 32` is `1` in Java (count masked to 0) and `0` on a 64-bit `long` -/
theorem shift_count_differs_outside_0_31 :
    (JMap.SIntShiftDn 1#32 32#32).toInt ≠ (Spec.SIntShiftDn (sx 1#32) 32#64).toInt := by decide

/-! ## big-integer constants: `gj0BInt` emits `BigInteger.valueOf(<int literal>)` for short values and
`new BigInteger("<digits>")` otherwise.  `Gen.JMap.bintLit` is that choice with the bound read from the
source (`bintLength(val) < 30`).  The `valueOf` form passes a Java `int` literal printed with `%d`, so
it must only be chosen for values of the signed 32-bit range: widening the bound beyond 32 breaks
`bint_literal_fits_int`, and with it the literal would no longer denote the constant
(`bint_literal_text_exact`). -/
theorem bint_literal_fits_int (v p : Int) (h : JMap.bintLit v = .valueOf p) :
    -2 ^ 31 ≤ v ∧ v < 2 ^ 31 := by
  have := bint_literal_range v p h
  omega

theorem bint_literal_text_exact (v p : Int) (h : JMap.bintLit v = .valueOf p) : p = v := by
  have hr := bint_literal_fits_int v p h
  unfold JMap.bintLit at h
  split at h
  · exact absurd h (by simp)
  · split at h
    · split at h
      · exact absurd h (by simp)
      · simp only [JMap.BIntLit.valueOf.injEq] at h
        rw [← h]; exact toInt_ofInt32 (by unfold InI32; omega)
    · exact absurd h (by simp)
/-- the switch-over itself: 2^29 - 1 is the largest `valueOf` constant, 2^29 the first string one -/
example : JMap.bintLit 536870911 = .valueOf 536870911 := by decide
example : JMap.bintLit (-536870911) = .valueOf (-536870911) := by decide
example : JMap.bintLit 536870912 = .string 536870912 := by decide

end AldorVerif.C12
