import AldorVerif.Lemmas.Scan
import AldorVerif.Model.Exit

/-! # C07 — total on arbitrary text, honest exit status: the part a model can carry

* `keyIx` (token.c) is the only table of the scanner/includer sources that is subscripted by a
  value of character origin and has a declared length (`Gen.CharIndex.sites`, regenerated from
  the sources on every run).  `keytag_index_safe_statement`: every string the scanner hands to
  `keyTag` subscripts `keyIx` within its bounds.
* `exit_honest_statement`: the exit status is non-zero exactly when an error was reported.

Both are **false of the code as it is** (`…_refuted`, witnesses replayed on the real compiler by
checks/parts/scanfuzz.py) and proved under the recorded guards (`…_partial`).

## Switching after a repair in /repo
* keyIx: if `keyTag`/`keyLongest` are repaired to reject `ch <= 0` (the one-character repair
  `(ch = str[0]) <= 0`), change `Scan.keyLookupIdx` in Model/Scan.lean to
  `if toSChar b ≤ 0 then none else some (toSChar b)`; then delete
  `keytag_index_safe_statement_refuted`, and prove the statement with
  `theorem keytag_index_safe : keytag_index_safe_statement := keytag_index_safe_of_lookup (by decide +kernel)`.
  If instead the index becomes `unsigned char` and the table gets `UCHAR_MAX+1` entries, change
  `keyLookupIdx` to `if b = 0 then none else some (b : Int)` and `modelIndexSigned := false`
  (`keyIxLen` is regenerated); the same proof goes through.  In both cases the correspondence
  (checks/parts/scanfuzz.py) stops seeing FAULT answers.
* exit status: change `Exit.mainClamp` to what the repaired `main` computes (e.g. `min n 255`),
  delete `exit_honest_statement_refuted` and prove
  `theorem exit_honest : exit_honest_statement := exit_honest_of_clamp (by intro e; simp [mainClamp]; omega)`.
  Update THEOREMS in checks/parts/scanfuzz.py accordingly. -/
namespace AldorVerif.C07
open AldorVerif.Scan AldorVerif.Exit AldorVerif.Gen.CharIndex

/-! ## keyIx -/

/-- every string handed to `keyTag` while scanning an admissible text subscripts `keyIx` within
    its declared bounds -/
def keytag_index_safe_statement : Prop :=
  ∀ src, SrcOK src → ∀ t ∈ scan src, ∀ w, t.word? = some w →
    ∀ i, keyLookupIdx ((cstr w).headD 0) = some i → IdxOK i

/-- `x := _\xe9;` — the escape character lets byte 0xE9 start a word; `ch = str[0]` is −23 -/
def witnessKeyIx : List Nat := [120, 32, 58, 61, 32, 95, 233, 59, 10]

theorem keytag_index_safe_statement_refuted : ¬ keytag_index_safe_statement := by
  intro h
  have := h witnessKeyIx (by decide) (.fault [233] (-23)) (by decide +kernel) [233] rfl (-23) (by decide +kernel)
  revert this; decide

/-- the statement reduces to a fact about single bytes: which first bytes can a word have?
    (this is the lemma that proves the full statement once `keyLookupIdx` never yields a
    subscript outside the table) -/
theorem keytag_index_safe_of_lookup (h : ∀ b, b < 256 → (keyLookupIdx b).all (fun i => decide (IdxOK i)) = true) :
    keytag_index_safe_statement := by
  intro src hsrc t ht w hw i hi
  have hb := scan_word_bytes src t ht w hw
  have hlt : (cstr w).headD 0 < 256 := by
    cases hc : cstr w with
    | nil => simp
    | cons a r =>
      have : a ∈ w := by
        have : a ∈ cstr w := by rw [hc]; simp
        exact (List.takeWhile_sublist _).subset this
      rcases hb a this with h | h
      · simpa using (hsrc a h).2
      · subst h; simp
  have := h _ hlt
  rw [hi] at this
  simpa using this

/-- texts made of bytes < 0x80 are safe (with or without the escape character) -/
theorem keytag_index_safe_partial (src : List Nat) (_hsrc : SrcOK src) (hascii : ∀ b ∈ src, b < 128) :
    ∀ t ∈ scan src, ∀ w, t.word? = some w → ∀ i, keyLookupIdx ((cstr w).headD 0) = some i → IdxOK i := by
  intro t ht w hw i hi
  have hb := scan_word_bytes src t ht w hw
  have hlt : (cstr w).headD 0 < 128 := by
    cases hc : cstr w with
    | nil => simp
    | cons a r =>
      have : a ∈ w := by
        have : a ∈ cstr w := by rw [hc]; simp
        exact (List.takeWhile_sublist _).subset this
      rcases hb a this with h | h
      · simpa using hascii a h
      · subst h; simp
  generalize (cstr w).headD 0 = b at hlt hi
  unfold keyLookupIdx toSChar at hi
  simp only [if_pos hlt] at hi
  split at hi
  · cases hi
  · cases hi
    unfold IdxOK keyIxLen
    omega

example : ∃ src, SrcOK src ∧ (∀ b ∈ src, b < 128) ∧ (scan src).any (fun t => t.word?.isSome) = true :=
  ⟨[120, 32, 95, 43, 10], by decide, by decide, by decide +kernel⟩

/-- without the escape character only ASCII letters, `%` and `?` start the strings that reach
    `keyTag` (so an unescaped byte ≥ 0x80 is rejected by `scanError`, never looked up) -/
theorem unescaped_word_start_ascii (src : List Nat) (hn : ESC ∉ src) :
    ∀ t ∈ scan src, ∀ w, t.word? = some w →
      ∃ c, w.head? = some c ∧ (isAlpha c || c == 37 || c == 63) = true :=
  scan_word_start_unescaped src hn

example : ESC ∉ [233, 97, 32, 105, 102, 10] ∧ scan [233, 97, 32, 105, 102, 10] =
    [.badChar false 233, .id [97], .kw 38 [105, 102], .newline] := by decide +kernel

/-- `keyLongest` (called by `scanSpecial` only) is reached only for printable ASCII first bytes:
    its subscript is always inside the table -/
theorem keylongest_index_safe (c cn : Nat) (esc : Bool) (fs : FloatState)
    (h : dispatch c cn esc fs = .special) : ∀ i, keyLookupIdx c = some i → IdxOK i := by
  have hp : isPrint c = true := by
    unfold dispatch at h
    repeat' (first | cases h | split at h)
    all_goals assumption
  intro i hi
  unfold isPrint at hp
  simp only [Bool.and_eq_true, decide_eq_true_eq] at hp
  unfold keyLookupIdx toSChar at hi
  have : c < 128 := by omega
  simp only [if_pos this] at hi
  split at hi
  · cases hi
  · cases hi; unfold IdxOK keyIxLen; omega

/-- `keyInit` itself stores inside the table (its subscripts come from `tokInfoTable`) -/
theorem keyinit_stores_in_range : keyIxInit.2 = false := by decide +kernel

/-! ## every char-indexed table of the scanner sources is accounted for -/

/-- is the index expression of the modelled lookups signed?  (`ch = str[0]`, `String = char *`) -/
def modelIndexSigned : Bool := true

inductive Account where
  | keyIxLookup    -- `keyIx[ch]` in keyTag / keyLongest: `Scan.keyLookupIdx`, `IdxOK`
  | keyIxInit      -- `keyIx[ch]` in keyInit: subscripts from tokInfoTable, `keyinit_stores_in_range`
  | ctype          -- glibc's `(*__ctype_b_loc())[(int)(c)]` behind isalpha & co: valid for −128 … 255
  deriving DecidableEq, Repr

def account (s : Site) : Option Account :=
  if s.array = "keyIx" ∧ s.length = some keyIxLen ∧ s.file = "token.c" then
    if (s.func = "keyTag" ∨ s.func = "keyLongest") ∧ s.signed = modelIndexSigned then some .keyIxLookup
    else if s.func = "keyInit" then some .keyIxInit
    else none
  else if s.array = "*__ctype_b_loc()" ∧ s.length = none then some .ctype
  else none

/-- a new table subscripted by a character, a new function subscripting `keyIx`, or a change
    of the declared length or of the signedness of the index breaks this obligation -/
theorem char_index_sites_covered : ∀ s ∈ sites, (account s).isSome = true := by decide

/-- the ctype tables tolerate every value a `char` or `unsigned char` can hold -/
theorem ctype_index_in_glibc_range (b : Nat) (hb : b < 256) : -128 ≤ toSChar b ∧ toSChar b < 256 ∧ (b : Int) < 256 := by
  unfold toSChar; split <;> omega

/-! ## exit status -/

def exit_honest_statement : Prop := ∀ e : Nat, exitStatus e ≠ 0 ↔ e > 0

/-- 256 errors (reachable with `-M no-emax`) exit with status 0 -/
theorem exit_honest_statement_refuted : ¬ exit_honest_statement := by
  intro h
  have := (h 256).2 (by decide)
  revert this; decide

theorem exit_wrap_exact (e : Nat) : exitStatus e = e % 256 := rfl

theorem exit_honest_partial (e : Nat) (h : e < 256) : exitStatus e ≠ 0 ↔ e > 0 := by
  rw [exit_wrap_exact, Nat.mod_eq_of_lt h]; omega

example : exitStatus 255 = 255 ∧ exitStatus 256 = 0 ∧ exitStatus 257 = 1 := by decide

/-- what a repaired `main` has to satisfy for the statement to hold -/
theorem exit_honest_of_clamp (h : ∀ e, mainClamp e < 256 ∧ (mainClamp e = 0 ↔ e = 0)) : exit_honest_statement := by
  intro e
  obtain ⟨h1, h2⟩ := h e
  unfold exitStatus osStatus
  rw [Nat.mod_eq_of_lt h1]
  omega

end AldorVerif.C07
