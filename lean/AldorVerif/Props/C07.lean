import AldorVerif.Lemmas.Scan
import AldorVerif.Lemmas.IfState
import AldorVerif.Gen.Diagnostics
import AldorVerif.Gen.Catalogue
import AldorVerif.Model.Exit

/-! # C07 — total on arbitrary text, honest exit status: the part a model can carry

* `keyIx` (token.c) is the only table of the scanner/includer sources that is subscripted by a
  value of character origin and has a declared length (`Gen.CharIndex.sites`, regenerated from
  the sources on every run).  `keytag_index_safe`: every string the scanner hands to `keyTag`
  subscripts `keyIx` within its bounds.
* `exit_honest`: the exit status is non-zero exactly when an error was reported.

Both were false of the code before the repairs f6aff20 (token.c: `(ch = str[0]) <= 0`) and
20d6e38 (main.c: status saturated at 255); `old_keylookup_out_of_range` and `old_exit_wraps`
keep the witnesses as lemmas about the old text.  If the model and the code drift apart
again the correspondence in checks/parts/scanfuzz.py (token dumps for every first byte with and
without the escape character; exit status of 255/256/257/512 errors) reports it. -/
namespace AldorVerif.C07
open AldorVerif.Scan AldorVerif.Exit AldorVerif.Gen.CharIndex

/-! ## keyIx -/

/-- every string handed to `keyTag` while scanning an admissible text subscripts `keyIx` within
    its declared bounds -/
def keytag_index_safe_statement : Prop :=
  ∀ src, SrcOK src → ∀ t ∈ scan src, ∀ w, t.word? = some w →
    ∀ i, keyLookupIdx ((cstr w).headD 0) = some i → IdxOK i

/-- the statement reduces to a fact about single bytes: which first bytes can a word have? -/
theorem keytag_index_safe_of_lookup (h : ∀ b, b < 256 → (keyLookupIdx b).all (fun i => decide (IdxOK i)) = true) :
    keytag_index_safe_statement := by
  intro src hsrc t ht w hw i hi
  have hb := scan_word_bytes src t ht w hw
  have hlt : (cstr w).headD 0 < 256 := by
    cases hc : cstr w with
    | nil => simp
    | cons a r =>
      have : a ∈ w := by
        have : a ∈ cstr w := by rw [hc]; simp
        exact (List.takeWhile_sublist _).subset this
      rcases hb a this with h | h
      · simpa using (hsrc a h).2
      · subst h; simp
  have := h _ hlt
  rw [hi] at this
  simpa using this

/-- **full statement**: whatever bytes the text contains, with or without the escape character -/
theorem keytag_index_safe : keytag_index_safe_statement :=
  keytag_index_safe_of_lookup (by decide +kernel)

/-- `x := _\xe9;` — the escape character lets byte 0xE9 start a word -/
def witnessKeyIx : List Nat := [120, 32, 58, 61, 32, 95, 233, 59, 10]

/-- non-vacuity: the witness of the old defect is an admissible text, its word [0xE9] reaches
    `keyTag`, and no subscript is evaluated for it any more -/
example : SrcOK witnessKeyIx ∧ Tok.id [233] ∈ scan witnessKeyIx ∧ keyLookupIdx 233 = none := by
  refine ⟨by decide, by decide +kernel, by decide +kernel⟩

/-- about the text before f6aff20 (`(ch = str[0]) == 0`): byte 0xE9 gave the subscript −23 -/
theorem old_keylookup_out_of_range : keyLookupIdxOld 233 = some (-23) ∧ ¬ IdxOK (-23) := by
  constructor <;> decide +kernel

/-- without the escape character only ASCII letters, `%` and `?` start the strings that reach
    `keyTag` (so an unescaped byte ≥ 0x80 is rejected by `scanError`, never looked up) -/
theorem unescaped_word_start_ascii (src : List Nat) (hn : ESC ∉ src) :
    ∀ t ∈ scan src, ∀ w, t.word? = some w →
      ∃ c, w.head? = some c ∧ (isAlpha c || c == 37 || c == 63) = true :=
  scan_word_start_unescaped src hn

example : ESC ∉ [233, 97, 32, 105, 102, 10] ∧ scan [233, 97, 32, 105, 102, 10] =
    [.badChar false 233, .id [97], .kw 38 [105, 102], .newline] := by decide +kernel

/-- `keyLongest` (called by `scanSpecial` only) is reached only for printable ASCII first bytes:
    its subscript is always inside the table -/
theorem keylongest_index_safe (c cn : Nat) (esc : Bool) (fs : FloatState)
    (h : dispatch c cn esc fs = .special) : ∀ i, keyLookupIdx c = some i → IdxOK i := by
  have hp : isPrint c = true := by
    unfold dispatch at h
    repeat' (first | cases h | split at h)
    all_goals assumption
  intro i hi
  unfold isPrint at hp
  simp only [Bool.and_eq_true, decide_eq_true_eq] at hp
  unfold keyLookupIdx toSChar at hi
  have : c < 128 := by omega
  simp only [if_pos this] at hi
  split at hi
  · cases hi
  · cases hi; unfold IdxOK keyIxLen; omega

/-- `keyInit` itself stores inside the table (its subscripts come from `tokInfoTable`) -/
theorem keyinit_stores_in_range : keyIxInit.2 = false := by decide +kernel

/-! ## every char-indexed table of the scanner sources is accounted for -/

/-- is the index expression of the modelled lookups signed?  (`ch = str[0]`, `String = char *`) -/
def modelIndexSigned : Bool := true

inductive Account where
  | keyIxLookup    -- `keyIx[ch]` in keyTag / keyLongest: `Scan.keyLookupIdx`, `IdxOK`
  | keyIxInit      -- `keyIx[ch]` in keyInit: subscripts from tokInfoTable, `keyinit_stores_in_range`
  | ctype          -- glibc's `(*__ctype_b_loc())[(int)(c)]` behind isalpha & co: valid for −128 … 255
  deriving DecidableEq, Repr

def account (s : Site) : Option Account :=
  if s.array = "keyIx" ∧ s.length = some keyIxLen ∧ s.file = "token.c" then
    if (s.func = "keyTag" ∨ s.func = "keyLongest") ∧ s.signed = modelIndexSigned then some .keyIxLookup
    else if s.func = "keyInit" then some .keyIxInit
    else none
  else if s.array = "*__ctype_b_loc()" ∧ s.length = none then some .ctype
  else none

/-- a new table subscripted by a character, a new function subscripting `keyIx`, or a change
    of the declared length or of the signedness of the index breaks this obligation -/
theorem char_index_sites_covered : ∀ s ∈ sites, (account s).isSome = true := by decide

/-- the ctype tables tolerate every value a `char` or `unsigned char` can hold -/
theorem ctype_index_in_glibc_range (b : Nat) (hb : b < 256) : -128 ≤ toSChar b ∧ toSChar b < 256 ∧ (b : Int) < 256 := by
  unfold toSChar; split <;> omega

/-! ## exit status -/

def exit_honest_statement : Prop := ∀ e : Nat, exitStatus e ≠ 0 ↔ e > 0

/-- what `main` has to satisfy for the statement to hold -/
theorem exit_honest_of_clamp (h : ∀ e, mainClamp e < 256 ∧ (mainClamp e = 0 ↔ e = 0)) : exit_honest_statement := by
  intro e
  obtain ⟨h1, h2⟩ := h e
  unfold exitStatus osStatus
  rw [Nat.mod_eq_of_lt h1]
  omega

/-- **full statement**: the exit status is non-zero exactly when an error was reported -/
theorem exit_honest : exit_honest_statement :=
  exit_honest_of_clamp (by intro e; simp only [mainClamp]; omega)

/-- the status is the error count saturated at 255 -/
theorem exit_status_saturates (e : Nat) : exitStatus e = min e 255 := by
  unfold exitStatus osStatus mainClamp
  exact Nat.mod_eq_of_lt (by omega)

example : exitStatus 0 = 0 ∧ exitStatus 255 = 255 ∧ exitStatus 256 = 255 ∧ exitStatus 257 = 255 ∧ exitStatus 512 = 255 := by decide

/-- several files: the sum of the per-file counts is what is saturated -/
theorem exit_honest_files (fs : List Nat) : exitStatusFiles fs ≠ 0 ↔ compFilesLoop fs > 0 := exit_honest _

/-- about the text before 20d6e38 (`return compCmd(argc, argv);`): 256 errors exited with status 0 -/
theorem old_exit_wraps : osStatus (mainClampOld 256) = 0 ∧ osStatus (mainClampOld 255) = 255 ∧ osStatus (mainClampOld 257) = 1 := by decide

/-! ## conditional inclusion: an `#if` that is open at the end of the file is an error -/

section IfState
open AldorVerif.IfState

/-- the includer reports `InclIfEof` once for every `#if` that is still open at the end of the
    file — whether the end falls in a taken branch, a skipped branch, an `#else` or an `#elseif`
    part (the branch only decides `IfState`, which the count does not depend on) -/
theorem eof_errors_equal_open_ifs (as : List Nat) (ls : List Line) (d : Nat)
    (h : depthAtEof 0 ls = some d) : eofCount (runFile as ls) = d := by
  unfold runFile
  rcases top_ok (ls.length + 1) as ls (by omega) with h' | h'
  · rw [h] at h'; cases h'
  · rw [h] at h'; exact (Option.some.inj h').symm

/-- every input whose directive sequence leaves an `#if` open at the end of the file produces the
    end-of-file error -/
theorem eof_in_open_if_is_error (as : List Nat) (ls : List Line) (d : Nat)
    (h : depthAtEof 0 ls = some (d + 1)) : Ev.ifEof ∈ runFile as ls := by
  have := eof_errors_equal_open_ifs as ls (d + 1) h
  unfold eofCount at this
  exact List.count_pos_iff.mp (by omega)

/-- and a file whose `#if`s are all closed produces none -/
theorem balanced_has_no_eof_error (as : List Nat) (ls : List Line)
    (h : depthAtEof 0 ls = some 0) : Ev.ifEof ∉ runFile as ls := by
  have := eof_errors_equal_open_ifs as ls 0 h
  unfold eofCount at this
  exact List.count_eq_zero.mp this

/-- non-vacuity: end of file in a taken branch, in a skipped branch, in the `#else` part of a taken
    `#if`, in an `#elseif` part, and two levels deep inside a skipped branch -/
example : runFile [1] [.ifD 1, .text 7] = [.line 7, .ifEof]
    ∧ runFile [] [.ifD 1, .text 7] = [.ifEof]
    ∧ runFile [1] [.ifD 1, .text 7, .elseD, .text 8] = [.line 7, .ifEof]
    ∧ runFile [] [.ifD 1, .elseifD 2, .text 8] = [.ifEof]
    ∧ runFile [] [.ifD 1, .ifD 1, .text 7] = [.ifEof, .ifEof] := by decide

/-- the three unbalanced directives at the file level are errors -/
theorem stray_directive_is_error (as : List Nat) (r : List Line) :
    Ev.unbalElse ∈ runFile as (.elseD :: r) ∧ Ev.unbalElseif ∈ runFile as (.elseifD 0 :: r) ∧
    Ev.unbalEndif ∈ runFile as (.endifD :: r) := by
  refine ⟨?_, ?_, ?_⟩ <;> simp [runFile, contents]

end IfState

/-! ## every diagnostic of abcheck.c, syscmd.c, linear.c, include.c has a catalogue entry -/

/-- `Gen.Diagnostics.sites` is regenerated from the sources, `Gen.Catalogue.targets` from the catalogue of
    checks/parts/scancat.py (violating programs with a recorded verdict, or the reason why a site cannot be
    reached): a new check without a catalogue entry breaks this obligation -/
theorem diagnostic_sites_catalogued :
    ∀ s ∈ AldorVerif.Gen.Diagnostics.sites,
      AldorVerif.Gen.Catalogue.targets.any (fun t => t.file == s.file && t.func == s.func && t.msg == s.msg) = true := by
  decide +kernel

end AldorVerif.C07
