import AldorVerif.Lemmas.GcSim

/-! # C09 — garbage collection never changes what a program computes

Property theorems about the model of `store.c`'s collector (`Model/Gc.lean`).

What the model cannot exhibit (the property stays *partial* for these, they are covered only by the
schedule sweep of `checks/parts/gc.py` on real programs): pointers that live only in machine
registers or in temporaries the C compiler optimised away, `fintFreeJunk`'s stack cleaning,
`of_killp.c` pointer killing, the allocator's re-use of swept pieces (C10), and the page-map
arithmetic that `pointee` abstracts. -/
namespace AldorVerif.Gc

/-- **C09, collector.**  A collection leaves every piece the roots reach exactly as it was:
same address, same size, same kind, same contents, still busy. -/
theorem collect_preserves_reachable (h : Heap) (roots : List Nat) (i : Nat) (hr : Reach h roots i) :
    (collect h roots)[i]? = h[i]? :=
  collect_reachable_unchanged h roots hr

/-- no reachable piece is freed -/
theorem collect_no_reachable_freed (h : Heap) (roots : List Nat) (i : Nat) (b : Block)
    (hr : Reach h roots i) (hb : h[i]? = some b) (hbusy : b.busy = true) :
    ∃ b', (collect h roots)[i]? = some b' ∧ b'.busy = true ∧ b'.words = b.words ∧ b'.base = b.base :=
  ⟨b, by rw [collect_preserves_reachable h roots i hr]; exact hb, hbusy, rfl, rfl⟩

/-- a collection never moves, resizes or retags any piece (reachable or not) -/
theorem collect_keeps_layout (h : Heap) (roots : List Nat) :
    (collect h roots).map Block.shape = h.map Block.shape :=
  collect_shape h roots

/-- whatever a collection changes was a busy piece that is now free and washed -/
theorem collect_changes_only_by_freeing (h : Heap) (roots : List Nat) (i : Nat) (b b' : Block)
    (hb : h[i]? = some b) (hb' : (collect h roots)[i]? = some b') (hne : b' ≠ b) :
    b.busy = true ∧ b'.busy = false ∧ b'.words = List.replicate b.words.length poison ∧ ¬ Reach h roots i := by
  rw [collect_getElem?, hb] at hb'
  simp only [Option.map_some, Option.some.injEq] at hb'
  unfold sweepBlock at hb'
  by_cases hc : (b.busy && !(mark h roots).getD i false) = true
  · simp only [hc, if_true] at hb'
    subst hb'
    simp only [Bool.and_eq_true, Bool.not_eq_true'] at hc
    refine ⟨hc.1, rfl, rfl, fun hr => ?_⟩
    have := mark_complete hr
    unfold Marked at this
    rw [this] at hc; cases hc.2
  · simp only [hc] at hb'
    exact absurd hb'.symm hne


/-- the collector does collect: a busy piece the roots do not reach is freed and washed -/
theorem collect_frees_unreachable (h : Heap) (roots : List Nat) (i : Nat) (b : Block)
    (hb : h[i]? = some b) (hbusy : b.busy = true) (hnr : ¬ Reach h roots i) :
    (collect h roots)[i]? = some { b with busy := false, words := List.replicate b.words.length poison } := by
  have hm : (mark h roots).getD i false = false := by
    cases hv : (mark h roots).getD i false with
    | false => rfl
    | true => exact absurd (mark_sound hv) hnr
  rw [collect_getElem?, hb, hm]
  simp [sweepBlock, hbusy]

-- non-vacuity: three pieces; the root holds an interior pointer into piece 0, piece 0 points to the
-- header of the mixed piece 2; piece 1 is garbage and is washed
example :
    let h : Heap := [⟨0x1000, 0, [0x1005, 7], 0, true⟩, ⟨0x1002, 0, [0x1000, 5], 0, true⟩,
                     ⟨0x1004, 4, List.replicate 40 1, 0, true⟩]
    collect h [3, 0x1001] =
      [⟨0x1000, 0, [0x1005, 7], 0, true⟩, ⟨0x1002, 0, [poison, poison], 0, false⟩,
       ⟨0x1004, 4, List.replicate 40 1, 0, true⟩] := by decide

example : Reach [⟨0x1000, 0, [0x1005, 7], 0, true⟩, ⟨0x1002, 4, [1, 1], 0, true⟩] [0x1001] 1 :=
  Reach.step (i := 0) (w := 0x1005) (b := ⟨0x1000, 0, [0x1005, 7], 0, true⟩)
    (Reach.root (w := 0x1001) (by simp) (by decide)) rfl rfl (by decide) (by simp) (by decide)

-- a piece of a pointer-free kind is marked but not scanned (`QmIsPtrFree`)
example :
    collect [⟨0x1000, 0, [0x1002], 16, true⟩, ⟨0x1002, 0, [9], 0, true⟩] [0x1000] =
      [⟨0x1000, 0, [0x1002], 16, true⟩, ⟨0x1002, 0, [poison], 0, false⟩] := by decide

/-- **C09, programs.**  For every program that does not make up addresses (`Safe`: every constant is
below the heap), every register count, every number of steps and every schedule of forced
collections at allocation points, output and final status equal those of the run that never
collects. -/
theorem gc_transparent (prog : List Instr) (hsafe : Safe prog) (sched : Nat → Bool) (nregs fuel : Nat) :
    trace (runWith sched prog nregs fuel) = trace (runWith never prog nregs fuel) := by
  have hs := runFrom_sim sched hsafe fuel (init_sim nregs)
  unfold runWith trace
  rw [hs.eq]

/-- any two schedules give the same observable run -/
theorem gc_schedule_independent (prog : List Instr) (hsafe : Safe prog) (s1 s2 : Nat → Bool) (nregs fuel : Nat) :
    trace (runWith s1 prog nregs fuel) = trace (runWith s2 prog nregs fuel) := by
  rw [gc_transparent prog hsafe s1, gc_transparent prog hsafe s2]

/-- stronger form used by the correspondence: registers, allocation addresses, program counter and
every reachable piece agree, not only the output -/
theorem gc_transparent_state (prog : List Instr) (hsafe : Safe prog) (sched : Nat → Bool) (nregs fuel : Nat) :
    let s := runWith sched prog nregs fuel
    let s' := runWith never prog nregs fuel
    s.regs = s'.regs ∧ s.next = s'.next ∧ s.pc = s'.pc ∧ s.out = s'.out ∧ s.status = s'.status ∧
      ∀ i, Reach s'.heap s'.regs i → s.heap[i]? = s'.heap[i]? := by
  have hs := runFrom_sim sched hsafe fuel (init_sim nregs)
  unfold runWith
  refine ⟨?_, ?_, ?_, ?_, ?_, hs.agree.eq⟩ <;> (rw [hs.eq])

theorem runFrom_ref_not_freed (sched : Nat → Bool) {prog : List Instr} (hsafe : Safe prog) :
    ∀ (fuel : Nat) {s s' : State}, Sim s s' → s'.status ≠ .freedAccess →
      (runFrom never prog fuel s').status ≠ .freedAccess
  | 0, _, _, _, hst => hst
  | fuel + 1, _, _, hs, hst =>
    runFrom_ref_not_freed sched hsafe fuel (step_sim sched hsafe hs) (step_ref_not_freed hs.inv hst)

/-- **C09, poison.**  A program that does not make up addresses never reads or writes a swept
(washed) piece, under any schedule: the `0xDD` fill is unobservable. -/
theorem poison_unobservable (prog : List Instr) (hsafe : Safe prog) (sched : Nat → Bool) (nregs fuel : Nat) :
    (runWith sched prog nregs fuel).status ≠ .freedAccess := by
  have h1 := gc_transparent prog hsafe sched nregs fuel
  have h2 : (runWith never prog nregs fuel).status ≠ .freedAccess :=
    runFrom_ref_not_freed never hsafe fuel (init_sim nregs) (by simp [State.init])
  simp only [trace, Prod.mk.injEq] at h1
  rw [h1.2]; exact h2

/-- the unrestricted statement (no condition on the program) -/
def gc_transparent_statement : Prop :=
  ∀ (prog : List Instr) (sched : Nat → Bool) (nregs fuel : Nat),
    trace (runWith sched prog nregs fuel) = trace (runWith never prog nregs fuel)

/-- a program that builds a list cell, drops it, allocates again and then *makes up* the address of
the dropped cell -/
def forgeProg : List Instr :=
  [.alloc 0 2 0, .const 1 7, .store 0 0 1, .drop 0, .alloc 2 1 0, .const 0 0x1000, .load 3 0 0, .out 3, .halt]

/-- The unrestricted statement is false for every tracing collector, this one included: a program
that makes up an address it does not hold observes the collection.  This is why `gc_transparent`
carries `Safe` (well-typed Aldor programs cannot make up addresses); it is not a defect of
`store.c`. -/
theorem gc_transparent_statement_refuted : ¬ gc_transparent_statement := by
  intro h
  have := h forgeProg (fun n => n == 1) 4 20
  revert this
  decide

-- non-vacuity of `Safe`/`gc_transparent`: a safe program that builds a two-cell list, drops the
-- head, allocates under a schedule that collects at every allocation, and still reads the tail
def listProg : List Instr :=
  [.alloc 0 2 0, .const 3 5, .store 0 0 3,          -- a := cell(5, _)
   .alloc 1 2 0, .const 3 6, .store 1 0 3,          -- b := cell(6, _)
   .store 1 1 0,                                     -- b.next := a
   .drop 0,                                          -- forget a (reachable through b only)
   .alloc 2 40 16,                                   -- a pointer-free array; a collection is forced here
   .load 0 1 1, .load 3 0 0, .out 3,                 -- print b.next.first
   .drop 1, .drop 0, .alloc 2 1 0,                   -- everything becomes garbage
   .halt]

example : Safe listProg := by
  intro ins hi
  simp only [listProg, List.mem_cons, List.not_mem_nil, or_false] at hi
  rcases hi with h | h | h | h | h | h | h | h | h | h | h | h | h | h | h | h <;> (subst h; rfl)

example : trace (runWith (fun _ => true) listProg 4 30) = ([5], .halted) := by decide
example : trace (runWith never listProg 4 30) = ([5], .halted) := by decide
-- and the collector did free pieces in that run
example : ((runWith (fun _ => true) listProg 4 30).heap.map (·.busy)) = [false, false, true, true] := by decide

end AldorVerif.Gc
