import AldorVerif.Lemmas.MiniAldor.FuelMono
import AldorVerif.Lemmas.MiniAldor.LexLemmas
import AldorVerif.Lemmas.MiniAldor.ArgOrder
import AldorVerif.Model.MiniAldor.Typecheck
import AldorVerif.Lemmas.MiniAldor.Sound
import AldorVerif.Lemmas.MiniAldor.Overload
/-!
# C01 — Programs produce the result the language defines

The property itself ("running the compiled program prints exactly the text and yields the exit
status the language definition assigns to it") is an agreement between the compiler and the
reference evaluator `evalProg` of `Model/MiniAldor`; it is decided by the correspondence run by
`checks/c01.py` on generated programs, not by a theorem (the compiler pipeline is not modelled).
The theorems here make the right-hand side of that agreement a well-defined function of the
program: the outcome does not depend on the fuel, on the order in which arguments are evaluated
(for `OrderIndependent` programs; proved for the expression fragment), or on the layout the
program text is rendered with.
-/
namespace AldorVerif.MiniAldor

/-- **more fuel never changes a defined result** (expression level): if evaluating with fuel
`n` gives a result other than `timeout`, every larger fuel gives the same result -/
theorem eval_fuel_mono (tops : List Top) (π : List Expr → Bool) {n m : Nat} (h : n ≤ m)
    (env : Env) (e : Expr) (s : State) (r : Res Val)
    (hr : eval tops π n env e s = r) (hne : r ≠ .timeout) :
    eval tops π m env e s = r := by
  rcases eval_le_of_le tops π h env e s with h1 | h1
  · exact absurd (hr ▸ h1) hne
  · rw [← h1]; exact hr

/-- **more fuel never changes a defined outcome** (program level, any argument order) -/
theorem evalWith_fuel_mono (π : List Expr → Bool) {n m : Nat} (h : n ≤ m) (p : Prog) (o : Outcome)
    (ho : evalWith π n p = some o) : evalWith π m p = some o := by
  unfold evalWith at ho ⊢
  rcases evalTops_le_of_le p.tops π h p.tops State.init with h1 | h1
  · rw [h1] at ho; simp [outcomeOf] at ho
  · rw [← h1]; exact ho

theorem evalProg_fuel_mono {n m : Nat} (h : n ≤ m) (p : Prog) (o : Outcome)
    (ho : evalProg n p = some o) : evalProg m p = some o :=
  evalWith_fuel_mono _ h p o ho

/-- **the outcome is well defined**: whatever two amounts of fuel suffice, they give the same
outcome — "the result the language assigns to the program" is the common value -/
theorem eval_deterministic (p : Prog) {n m : Nat} {o₁ o₂ : Outcome}
    (h₁ : evalProg n p = some o₁) (h₂ : evalProg m p = some o₂) : o₁ = o₂ := by
  have a := evalProg_fuel_mono (Nat.le_max_left n m) p o₁ h₁
  have b := evalProg_fuel_mono (Nat.le_max_right n m) p o₂ h₂
  rw [a] at b
  exact Option.some.inj b

/-- non-vacuity: a small program with a defined outcome -/
example : (evalProg 20 ⟨[.stmt (.print [.bin .add (.litMI 9223372036854775807) (.litMI 1), .newline])]⟩).map (·.stdout)
    = some "-9223372036854775808\n" := by decide +kernel

end AldorVerif.MiniAldor

namespace AldorVerif.MiniAldor

/-! ### the rendered text does not depend on the layout parameters -/

/-- **what the lexer sees in `render l p`**: exactly the logical lines of `p` — the tokens of
each line and the column it starts in — whatever indent width, tabs or spaces, blank lines,
comments and spaces between tokens the layout `l` chose.  (`tokensOK` is the executable
well-formedness of the renderer's tokens; the driver evaluates it for every program it renders.) -/
theorem lex_render (l : Layout) (p : Prog) (h : tokensOK (linesOf l.piled p) = true) :
    lexChars (render l p).toList = expectedLex l (linesOf l.piled p) := by
  unfold render renderChars
  rw [String.toList_ofList]
  exact lexChars_layoutChars l _ h

/-- width of one indentation level, in columns -/
def Layout.unit (l : Layout) : Nat := if l.tabs then 8 else l.indent

theorem colOf_eq (l : Layout) (d : Nat) : colOf l d = d * l.unit := by
  unfold colOf Layout.unit; split <;> rfl

/-- **layout irrelevance** (shared with C14): two renderings of one program in the same form
(both braced or both `#pile`) under different layout parameters have the same token sequence,
line by line, and — what the `#pile` form needs — the same relative indentation of any two lines. -/
theorem render_layout_irrelevant (l₁ l₂ : Layout) (p : Prog) (hf : l₁.piled = l₂.piled)
    (h : tokensOK (linesOf l₁.piled p) = true) (h₁ : 0 < l₁.unit) (h₂ : 0 < l₂.unit) :
    (lexChars (render l₁ p).toList).map (·.2) = (lexChars (render l₂ p).toList).map (·.2)
    ∧ ∀ (i j : Nat) (a b c d : Nat × List String), (lexChars (render l₁ p).toList)[i]? = some a → (lexChars (render l₁ p).toList)[j]? = some b →
        (lexChars (render l₂ p).toList)[i]? = some c → (lexChars (render l₂ p).toList)[j]? = some d →
        (a.1 < b.1 ↔ c.1 < d.1) := by
  have e₁ := lex_render l₁ p h
  have e₂ := lex_render l₂ p (hf ▸ h)
  rw [expectedLex_of_ok _ _ h] at e₁
  rw [expectedLex_of_ok _ _ (hf ▸ h), ← hf] at e₂
  rw [e₁, e₂]
  constructor
  · rw [List.map_map, List.map_map]; rfl
  · intro i j a b c d ha hb hc hd
    simp only [List.getElem?_map, Option.map_eq_some_iff] at ha hb hc hd
    obtain ⟨x, hx, rfl⟩ := ha
    obtain ⟨y, hy, rfl⟩ := hb
    obtain ⟨x', hx', rfl⟩ := hc
    obtain ⟨y', hy', rfl⟩ := hd
    rw [hx] at hx'; rw [hy] at hy'
    cases hx'; cases hy'
    simp only [colOf_eq]
    constructor
    · intro hlt
      have := Nat.lt_of_mul_lt_mul_right hlt
      exact Nat.mul_lt_mul_of_pos_right this h₂
    · intro hlt
      have := Nat.lt_of_mul_lt_mul_right hlt
      exact Nat.mul_lt_mul_of_pos_right this h₁

/-- non-vacuity: a program whose tokens are well formed, and two layouts that differ in everything -/
example : tokensOK (linesOf true ⟨[.stmt (.print [.litStr "a \"b\" -- c", .newline])]⟩) = true := by decide +kernel

end AldorVerif.MiniAldor

namespace AldorVerif.MiniAldor

/-! ### argument order -/

/-- what a run shows to the outside: the text written and how the program ended -/
def Outcome.obs (o : Outcome) : String × ExitClass := (o.stdout, o.exit)

/-- the full statement (not proved here; its instances on generated programs are checked by the
driver, which evaluates every program left-to-right and right-to-left): for an accepted,
`OrderIndependent` program every choice of argument orders gives the reference outcome -/
def arg_order_irrelevant_statement : Prop :=
  ∀ (p : Prog), typecheck p = .ok () → OrderIndependent p → ∀ (π : List Expr → Bool) (fuel : Nat) (o : Outcome),
    evalProg fuel (expand p) = some o → ∃ fuel' o', evalWith π fuel' (expand p) = some o' ∧ o'.obs = o.obs

/-- **argument order is irrelevant — proved for the expression fragment** `Frag` (literals,
variables, strict unary and binary operators, assignment; effects: reading and writing mutable
variables).  If every application inside `e` satisfies the commuting-effects test of
`OrderIndependent` (`oi`), then whatever result the reference order `π₁` computes, any other
assignment `π₂` of evaluation orders computes the same value and leaves the same store, output
and globals (the states may differ in the coverage counters only).
Missing for the full statement: the remaining constructs (calls, closures, loops, exceptions,
generators, printing) and the soundness of the interprocedural effect summaries. -/
theorem arg_order_irrelevant_partial (tops : List Top) (muts : List String) (σ : Summ) {e : Expr}
    (hf : Frag e) (hoi : oi muts σ e = true) (π₁ π₂ : List Expr → Bool) (n : Nat) (env : Env) (s : State)
    (henv : CellsIn muts env) (hg : CellsIn muts s.globals) (v : Val) (s₁ : State)
    (h : eval tops π₁ n env e s = .ok v s₁) :
    ∃ s₂, eval tops π₂ n env e s = .ok v s₂ ∧ s₁.heap = s₂.heap ∧ s₁.out = s₂.out ∧ s₁.globals = s₂.globals := by
  obtain ⟨s₂, h1, h2⟩ := frag_order tops muts σ hf π₁ π₂ hoi n env henv s s (SEq.refl s) hg v s₁ h
  exact ⟨s₂, h1, h2⟩

/-- non-vacuity: `x := x + 1` next to a constant is in the fragment and passes the test,
`(x := 1) + x` does not pass it -/
example : oi ["x"] [] (.bin .add (.assign "x" (.bin .add (.var "x") (.litMI 1))) (.litMI 2)) = true := by decide
example : oi ["x"] [] (.bin .add (.assign "x" (.litMI 1)) (.var "x")) = false := by decide

/-- the coverage counters never influence a result: states that differ only in the counters
are mapped to results that differ only in the counters (whole evaluator) -/
theorem counts_irrelevant (tops : List Top) (π : List Expr → Bool) (n : Nat) (env : Env) (e : Expr) :
    MEq (eval tops π n env e) (eval tops π n env e) := (stepEq tops π n).eval env e

end AldorVerif.MiniAldor

namespace AldorVerif.MiniAldor

/-! ### well-typed programs do not get stuck -/

/-- the full statement (not proved here; the driver reports any `stuck` outcome of an accepted
program as a harness error, and none has occurred on the generated programs) -/
def type_soundness_statement : Prop :=
  ∀ (p : Prog), typecheck p = .ok () → ∀ (fuel : Nat) (o : Outcome), evalProg fuel (expand p) = some o →
    ∀ w, o.exit ≠ .stuck w

/-- **type soundness — proved for the closed scalar fragment** `ScalarE` (literals of the four
scalar types, all arithmetic, comparison and logical operators including the short-circuit ones,
unary operators, conditional expressions): an expression the checker gives type `t` evaluates,
for every fuel, argument order, environment and state, to a value of type `t`, or runs out of
fuel, or reaches a point the language leaves undefined (division by zero …).  It never gets
stuck and never raises a stray signal.
Missing for the full statement: variables and the store typing, aggregates, functions,
closures, control flow, exceptions, generators, domains. -/
theorem type_soundness_partial (tops : List Top) (π : List Expr → Bool) {e : Expr} (hs : ScalarE e)
    (c : Ctx) (t : Ty) (h : tyOf c e = .ok t) (n : Nat) (env : Env) (s : State) :
    match eval tops π n env e s with
    | .ok v _ => HasTy v t
    | .timeout => True
    | .undef _ => True
    | .sig _ _ => False
    | .stuck _ => False := by
  have := scalar_sound tops π hs c t h n env s
  cases hr : eval tops π n env e s <;> rw [hr] at this <;> exact this

/-- non-vacuity: `if 2 < 3 then 2^10 quo 0 else -1` is in the fragment and has type MachineInteger -/
example : (match tyOf {} (.ite (.bin .lt (.litMI 2) (.litMI 3)) (.bin .quo (.bin .pow (.litMI 2) (.litMI 10)) (.litMI 0))
    (.un .neg (.litMI 1))) with
    | .ok t => t == .mi
    | .error _ => false) = true := by decide +kernel

/-! ### every call has exactly one meaning -/

theorem typecheck_sigsDistinct {p : Prog} (h : typecheck p = .ok ()) :
    sigsDistinct (funDefs (expand p).tops) = true := by
  unfold typecheck typecheckWith at h
  cases h1 : checkTops { lenient := false } (expand p).tops with
  | error e => simp [h1, bind, Except.bind] at h
  | ok u =>
    simp only [h1, bind, Except.bind] at h
    by_cases hd : sigsDistinct (funDefs (expand p).tops) = true
    · exact hd
    · simp [hd, throw, throwThe, MonadExceptOf.throw] at h

/-- **overload resolution is unambiguous**: in an accepted program the lookup by name, argument
types and result type — what a call node carries — finds exactly the definition with that
signature; no second definition could have been meant -/
theorem overload_unique {p : Prog} (h : typecheck p = .ok ()) (d : FunDef) (hd : d ∈ funDefs (expand p).tops) :
    findFun (expand p).tops d.name (d.params.map (·.2)) d.res = some d := by
  rw [findFun_funDefs]
  exact find_of_distinct _ (typecheck_sigsDistinct h) d hd

/-- macros mean their expansion: the reference outcome of a program with macros is, by
definition, that of the macro-free program `expand p` (what the compiler's `macex` phase
produces); `expand` leaves macro-free programs alone up to the removed definitions. -/
def runProg (fuel : Nat) (p : Prog) : Option Outcome := evalProg fuel (expand p)

theorem macro_expansion_sound (fuel : Nat) (p : Prog) : runProg fuel p = evalProg fuel (expand p) := rfl

end AldorVerif.MiniAldor
