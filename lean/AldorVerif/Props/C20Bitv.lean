import AldorVerif.Lemmas.Bitv

/-! # C20 (bit-vector part): property theorems about the model of `bitv.c`

A class `c` is `ok` when `nwords` is the number of 64-bit words needed for `nbits`
(`classCreate_ok`: every `bitvClassCreate` is).  `WF c a`: the vector has `nwords` words.
All statements are about the positions `i < c.nbits`, observed with `bitvTest`; the padding
bits of the last word are unconstrained (and do differ: `bitvSetAll`/`bitvNot` set them). -/
namespace AldorVerif.Bitv

/-- **C20 / bit vectors implement set algebra.**  Membership after `bitvAnd/Or/Minus/Not`,
`bitvSetAll/ClearAll` and `bitvCopy` is the boolean combination of the memberships before. -/
theorem bitv_set_algebra (c : BClass) (hc : c.ok) (a b : Bitv) (ha : WF c a) (hb : WF c b)
    (i : Nat) (hi : i < c.nbits) :
    test c (and c a b) i = (test c a i && test c b i) ∧
    test c (or c a b) i = (test c a i || test c b i) ∧
    test c (minus c a b) i = (test c a i && !test c b i) ∧
    test c (not c a) i = (!test c a i) ∧
    test c (setAll c) i = true ∧
    test c (clearAll c) i = false ∧
    test c (copy c a) i = test c a i := by
  have ia := idx_lt hc ha hi
  have ib := idx_lt hc hb hi
  simp only [test_eq_bitAt]
  refine ⟨bitAt_and a b i ia ib c, bitAt_or a b i ia ib c, bitAt_minus a b i ia ib c, bitAt_not a i ia c,
    bitAt_setAll c i (by rw [← ha]; exact ia), bitAt_clearAll c i, rfl⟩

/-- the results are again vectors of the class -/
theorem bitv_wf (c : BClass) (a b : Bitv) (ha : WF c a) (hb : WF c b) (ix : Nat) :
    WF c (and c a b) ∧ WF c (or c a b) ∧ WF c (minus c a b) ∧ WF c (not c a) ∧ WF c (setAll c) ∧
    WF c (clearAll c) ∧ WF c (copy c a) ∧ WF c (set c a ix) ∧ WF c (clear c a ix) := by
  unfold WF at *
  simp [AldorVerif.Bitv.and, AldorVerif.Bitv.or, minus, AldorVerif.Bitv.not, setAll, clearAll, copy, set, clear, ha, hb]

/-- `bitvSet`/`bitvClear` change exactly the addressed position. -/
theorem bitv_set_clear_test (c : BClass) (hc : c.ok) (a : Bitv) (ha : WF c a) (ix i : Nat)
    (hix : ix < c.nbits) :
    test c (set c a ix) i = (decide (i = ix) || test c a i) ∧
    test c (clear c a ix) i = (!decide (i = ix) && test c a i) := by
  have := idx_lt hc ha hix
  simp only [test_eq_bitAt]
  exact ⟨bitAt_set c a ix i this, bitAt_clear c a ix i this⟩

/-- `bitvEqual` is extensional equality on the positions `< nbits`: padding bits are ignored
    (last word masked when `nbits` is not a multiple of 64, compared whole when it is). -/
theorem bitv_equal_iff (c : BClass) (hc : c.ok) (a b : Bitv) (ha : WF c a) (hb : WF c b) :
    equal c a b = true ↔ ∀ i, i < c.nbits → test c a i = test c b i := by
  simp only [test_eq_bitAt]
  exact equal_iff c hc a b ha hb

/-- `bitvCount`/`bitvCountTo` count the members (below `n`). -/
theorem bitv_count_spec (c : BClass) (a : Bitv) (n : Nat) :
    countTo c a n = ((List.range n).filter (fun i => test c a i)).length ∧
    count c a = ((List.range c.nbits).filter (fun i => test c a i)).length :=
  ⟨countTo_eq c a n, countTo_eq c a c.nbits⟩

/-- `bitvMax` is the largest member, `-1` for the empty set. -/
theorem bitv_max_spec (c : BClass) (a : Bitv) :
    (max c a = -1 ∧ ∀ i, i < c.nbits → test c a i = false) ∨
    (∃ m, m < c.nbits ∧ max c a = (m : Int) ∧ test c a m = true ∧
      ∀ j, m < j → j < c.nbits → test c a j = false) :=
  maxLoop_spec c a c.nbits

/-- `bitvUnique1IndexInRange` is the member of `[org, lim)` when there is exactly one, else `-1`. -/
theorem bitv_unique_spec (c : BClass) (a : Bitv) (org lim : Nat) :
    unique1IndexInRange c a org lim =
      match ((List.range (lim - org)).map (· + org)).filter (fun i => test c a i) with
      | [i] => (i : Int)
      | _ => -1 :=
  unique_eq c a org lim

/-- `bitvFromInt` makes the set of the one-bits of `n`, whatever the fresh words held, and
    `bitvToInt` reads a set back as the integer with those one-bits. -/
theorem bitv_fromInt_test (c : BClass) (hc : c.ok) (n : Nat) (fresh : Bitv) (hf : WF c fresh) :
    WF c (fromInt c n fresh) ∧
    (∀ i, i < c.nbits → test c (fromInt c n fresh) i = n.testBit i) ∧
    (∀ (a : Bitv) i, (toInt c a).testBit i = (decide (i < c.nbits) && test c a i)) := by
  have h := fromIntFold c n fresh c.nbits (by rw [hf]; exact hc.1)
  refine ⟨h.1.trans hf, fun i hi => ?_, fun a i => toIntFold (fun j => test c a j) c.nbits i⟩
  rw [test_eq_bitAt]
  have := h.2 i
  simp only [hi, if_true] at this
  exact this

/-- `bitvResize` keeps the members below the old size (new positions are undefined in C:
    they are whatever `fresh` or the old padding held). -/
theorem bitv_resize_test (newc oldc : BClass) (ho : oldc.ok) (b fresh : Bitv) (hb : WF oldc b)
    (i : Nat) (hi : i < oldc.nbits) :
    test newc (resize newc oldc b fresh) i = test oldc b i := by
  simp only [test_eq_bitAt]
  exact bitAt_resize newc oldc b fresh hb i (by have := ho.1; omega)

/-! non-vacuity: a 70-bit class (two words, six padding bits); `not (clearAll)` and a vector built
    bit by bit agree on all 70 positions but not on the padding, and `bitvEqual` says equal. -/
example :
    let c := classCreate 70
    let x := not c (clearAll c)
    let y := (List.range 70).foldl (fun r i => set c r i) (clearAll c)
    c.ok ∧ WF c x ∧ WF c y ∧ x ≠ y ∧ equal c x y = true ∧ count c x = 70 ∧ max c y = 69 := by
  decide +kernel

example :
    let c := classCreate 64
    let x := set c (clearAll c) 63
    c.ok ∧ c.nwords = 1 ∧ equal c x (clearAll c) = false ∧ max c x = 63 := by
  decide +kernel

end AldorVerif.Bitv
