import AldorVerif.Lemmas.Dnf

/-! # C20 (normal-form part): property theorems about the model of `dnf.c`

`Form.toDnf` builds a normal form with the modelled `dnfAtom/dnfNot/dnfAnd/dnfOr`;
`Form.multi` is the instrumented run telling whether `dnfOrMerge`'s cancel rule fired
against a disjunct with two or more literals (the recorded unsound case, see
known_findings.json: C20|dnfOrMerge-multi-cancel). -/
namespace AldorVerif.Dnf

def Form.NZ : Form → Prop
  | .tt => True
  | .ff => True
  | .atom a => a ≠ 0
  | .not f => f.NZ
  | .and f g => f.NZ ∧ g.NZ
  | .or f g => f.NZ ∧ g.NZ

/-- full-strength statement: the normal form is logically equivalent to the formula. -/
def dnf_sem_statement : Prop :=
  ∀ (f : Form) (ρ : Nat → Bool), f.NZ → sem ρ f.toDnf = f.sem ρ

theorem form_spec (ρ : Nat → Bool) (f : Form) (hnz : f.NZ) :
    NZ f.toDnf ∧ (f.multi = false → sem ρ f.toDnf = f.sem ρ) := by
  induction f with
  | tt => exact ⟨by intro c hc; simp [Form.toDnf, dnfTrue] at hc; subst hc; intro l hl; simp at hl,
                 fun _ => by simp [Form.toDnf, Form.sem, sem_true]⟩
  | ff => exact ⟨by intro c hc; simp [Form.toDnf, dnfFalse] at hc,
                 fun _ => by simp [Form.toDnf, Form.sem, sem_false]⟩
  | atom a =>
    refine ⟨?_, fun _ => by simp [Form.toDnf, Form.sem, dnfAtom, sem, conjSem]⟩
    intro c hc; simp [Form.toDnf, dnfAtom] at hc; subst hc; intro l hl; simp at hl; subst hl; exact hnz
  | not f ih =>
    have hf := ih hnz
    have hn := dnfNot_spec ρ f.toDnf hf.1
    refine ⟨hn.1, fun hm => ?_⟩
    simp only [Form.multi, Bool.or_eq_false_iff] at hm
    simp only [Form.toDnf, Form.sem]
    rw [hn.2 hm.2, hf.2 hm.1]
  | and f g ihf ihg =>
    have hf := ihf hnz.1
    have hg := ihg hnz.2
    have ha := dnfAnd_spec ρ f.toDnf g.toDnf hf.1 hg.1
    refine ⟨ha.1, fun hm => ?_⟩
    simp only [Form.multi, Bool.or_eq_false_iff] at hm
    simp only [Form.toDnf, Form.sem]
    rw [ha.2 hm.2, hf.2 hm.1.1, hg.2 hm.1.2]
  | or f g ihf ihg =>
    have hf := ihf hnz.1
    have hg := ihg hnz.2
    have ha := dnfOr_spec ρ f.toDnf g.toDnf hf.1 hg.1
    refine ⟨ha.1, fun hm => ?_⟩
    simp only [Form.multi, Bool.or_eq_false_iff] at hm
    simp only [Form.toDnf, Form.sem]
    rw [ha.2 hm.2, hf.2 hm.1.1, hg.2 hm.1.2]

/-- **C20 / DNF, proved part.**  For every formula built with the modelled operations, as long
as the multi-literal cancel rule never fires, the normal form denotes the formula. -/
theorem dnf_sem_partial (f : Form) (ρ : Nat → Bool) (hnz : f.NZ) (hm : f.multi = false) :
    sem ρ f.toDnf = f.sem ρ := (form_spec ρ f hnz).2 hm

/-- the full statement is false of the code as it is: (x₁∧x₂) ∨ (¬x₁∧¬x₂) becomes TRUE. -/
theorem dnf_sem_statement_refuted : ¬ dnf_sem_statement := by
  intro h
  have := h (.or (.and (.atom 1) (.atom 2)) (.and (.atom (-1)) (.atom (-2))))
    (fun n => n == 1) (by simp [Form.NZ])
  revert this; decide +kernel

/-- the single operations, each with its own guard -/
theorem dnf_or_sem_partial (ρ) (x y : DNF) (hx : NZ x) (hy : NZ y) (hm : dnfOrMulti x y = false) :
    sem ρ (dnfOr x y) = (sem ρ x || sem ρ y) := (dnfOr_spec ρ x y hx hy).2 hm

theorem dnf_and_sem_partial (ρ) (x y : DNF) (hx : NZ x) (hy : NZ y) (hm : dnfAndMulti x y = false) :
    sem ρ (dnfAnd x y) = (sem ρ x && sem ρ y) := (dnfAnd_spec ρ x y hx hy).2 hm

theorem dnf_not_sem_partial (ρ) (x : DNF) (hx : NZ x) (hm : dnfNotMulti x = false) :
    sem ρ (dnfNot x) = !(sem ρ x) := (dnfNot_spec ρ x hx).2 hm

/-- `dnfImplies` answers "yes" only when the implication holds under every assignment. -/
theorem dnf_implies_sound (x y : DNF) (h : dnfImplies x y = true) :
    ∀ ρ, sem ρ x = true → sem ρ y = true := fun ρ => dnfImplies_sound ρ x y h

/-- `dnfEqual` answers "yes" only for logically equivalent normal forms. -/
theorem dnf_equal_sound (x y : DNF) (h : dnfEqual x y = true) : ∀ ρ, sem ρ x = sem ρ y := by
  intro ρ
  unfold dnfEqual at h
  have h1 := dnfImplies_sound ρ x y (Bool.and_eq_true_iff.mp h).1
  have h2 := dnfImplies_sound ρ y x (Bool.and_eq_true_iff.mp h).2
  cases hx : sem ρ x <;> cases hy : sem ρ y <;> simp_all

/-- the converse is not what the code computes: x₁ ⇒ (x₁∧x₂)∨(x₁∧¬x₂) is valid but refused. -/
theorem dnf_implies_incomplete :
    dnfImplies [[1]] [[1, 2], [1, -2]] = false ∧
    ∀ ρ, sem ρ [[1]] = true → sem ρ [[1, 2], [1, -2]] = true := by
  refine ⟨by decide, fun ρ h => ?_⟩
  simp [sem, conjSem, litSem] at h ⊢
  cases h2 : ρ 2 <;> simp [h]

/-- `dnfAndMerge` is exact, with no side condition. -/
theorem and_merge_exact (ρ) (xs ys : Conj) :
    match andMerge xs ys with
    | some r => conjSem ρ r = (conjSem ρ xs && conjSem ρ ys)
    | none => (conjSem ρ xs && conjSem ρ ys) = false := andMerge_sem ρ xs ys

/-! non-vacuity: a formula whose construction does use the (single-literal) cancel rule and
    absorbs a disjunct, meets the hypotheses, and has a non-trivial normal form. -/
example :
    let f : Form := .or (.and (.atom 1) (.not (.atom 2))) (.or (.atom 2) (.and (.atom 2) (.atom 3)))
    f.NZ ∧ f.multi = false ∧ f.toDnf = [[1], [2]] := by
  refine ⟨by simp [Form.NZ], by decide +kernel, by decide +kernel⟩

end AldorVerif.Dnf
