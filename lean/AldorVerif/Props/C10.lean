import AldorVerif.Lemmas.StoreSweep

/-! # C10: the storage manager never hands out or reclaims live memory

Property theorems about the model of `store.c` (Model/Store.lean).  `Inv` (Lemmas/Store.lean)
is the allocator's consistency: sections are disjoint and page aligned; the pieces of a section
tile its data area exactly, with sizes that are multiples of the quantum; no two adjacent free
mixed pieces; the entries of the free index are exactly the free mixed pieces, keyed by their
size (and the index is key-ordered with non-empty duplicate-free lists); the members of the free
list of class `i` are exactly the free quanta of the class-`i` sections; the frontier pointer is
the one piece in the frontier state.  The live blocks are the busy pieces. -/
namespace AldorVerif.Store

/-- `(pointer, usable size)` of a busy piece -/
def VP.block? (v : VP) : Option (Nat × Nat) :=
  match v.st with
  | .busy _ => some (v.ptr, v.usable)
  | _ => none

/-- the live blocks of a state -/
def State.live (s : State) : List (Nat × Nat) := s.view.filterMap VP.block?

/-- `[p, p+n)` and `[q, q+m)` do not intersect -/
def Disjoint (b1 b2 : Nat × Nat) : Prop := b1.1 + b1.2 ≤ b2.1 ∨ b2.1 + b2.2 ≤ b1.1

theorem mem_live {s : State} {b : Nat × Nat} :
    b ∈ s.live ↔ ∃ v ∈ s.view, v.busy ∧ b = (v.ptr, v.usable) := by
  unfold State.live
  rw [List.mem_filterMap]
  constructor
  · rintro ⟨v, hv, hb⟩
    unfold VP.block? at hb
    split at hb
    · next c hc => exact ⟨v, hv, ⟨c, hc⟩, by simpa using hb.symm⟩
    · simp at hb
  · rintro ⟨v, hv, ⟨c, hc⟩, rfl⟩
    exact ⟨v, hv, by simp [VP.block?, hc]⟩

/-- header is smaller than the piece -/
theorem Inv.hdr_lt {s : State} (h : Inv s) {v : VP} (hv : v ∈ s.view) : v.hdr < v.n := by
  obtain ⟨sc, x, _, hx, hxn, _, hcls, hscm⟩ := h.lookup hv
  obtain ⟨b, t, hP, _⟩ := pcsAt_some hx
  have hg := h.geo sc hscm
  have hxm : x ∈ sc.pieces := by rw [hP]; simp
  unfold VP.hdr
  cases hc : v.cls with
  | some i => simp only; rw [← hxn]; exact hg.pos x hxm
  | none => simp only; rw [← hxn]; rw [hc] at hcls; exact (hg.mixed_ok hcls).1 x hxm

/-- the initial state (`stoInit`) is consistent -/
theorem inv_init : Inv init := by
  refine ⟨by simp [init, Sorted], by simp [init], rfl, ?_, ?_, ⟨by simp [init], by simp [init], by simp [init]⟩, ?_, ?_⟩
  · intro i
    have : init.fl.getD i [] = [] := by
      simp only [init, List.getD_eq_getElem?_getD]
      cases h : (List.replicate fixedSizes.length ([] : List Nat))[i]? with
      | none => rfl
      | some l =>
        have := List.mem_of_getElem? h
        rw [List.mem_replicate] at this
        simp [this.2]
    rw [this]; simp
  · intro i a
    have : init.fl.getD i [] = [] := by
      simp only [init, List.getD_eq_getElem?_getD]
      cases h : (List.replicate fixedSizes.length ([] : List Nat))[i]? with
      | none => rfl
      | some l =>
        have := List.mem_of_getElem? h
        rw [List.mem_replicate] at this
        simp [this.2]
    rw [this]; simp [State.view, init]
  · intro a k; simp [inTree, init, State.view]
  · intro a; simp [init, State.view]

/-- **Live blocks never overlap.** -/
theorem live_pairwise_disjoint {s : State} (h : Inv s) : s.live.Pairwise Disjoint := by
  unfold State.live
  rw [List.pairwise_filterMap]
  have hs := h.view_sorted
  have : s.view.Pairwise (fun v w => v ∈ s.view ∧ w ∈ s.view ∧ v.addr + v.n ≤ w.addr) := by
    rw [List.pairwise_iff_forall_sublist] at hs ⊢
    intro a b hab
    have := hab.subset
    exact ⟨this (by simp), this (by simp), hs hab⟩
  refine this.imp ?_
  intro v w ⟨hv, hw, hle⟩ b1 hb1 b2 hb2
  unfold VP.block? at hb1 hb2
  split at hb1 <;> simp at hb1
  split at hb2 <;> simp at hb2
  subst hb1 hb2
  have h1 := h.hdr_lt hv
  left
  simp [VP.ptr, VP.usable]
  omega

/-- every live block lies in the data area of a section, behind its header -/
theorem live_inside_section {s : State} (h : Inv s) {b : Nat × Nat} (hb : b ∈ s.live) :
    ∃ sc ∈ s.sects, sc.data + sc.hdr ≤ b.1 ∧ b.1 + b.2 ≤ sc.lim := by
  obtain ⟨v, hv, _, rfl⟩ := mem_live.1 hb
  obtain ⟨sc, hsc, hvs⟩ := mem_viewSects.1 hv
  have := (h.geo sc hsc).mem_view hvs
  have h1 := h.hdr_lt hv
  have hh : v.hdr = sc.hdr := by unfold VP.hdr Sect.hdr; rw [this.2.2.2]; cases sc.cls <;> rfl
  refine ⟨sc, hsc, ?_, ?_⟩ <;> simp [VP.ptr, VP.usable] <;> omega

/-- the effect of an allocation on the live blocks -/
theorem AllocEff.live {s s' : State} {new : VP} (_h : Inv s) (h' : Inv s') (he : AllocEff s s' new) :
    (∀ b, b ∈ s'.live ↔ b ∈ s.live ∨ b = (new.ptr, new.usable)) ∧
    (∀ b ∈ s.live, Disjoint b (new.ptr, new.usable)) := by
  have hiff : ∀ b, b ∈ s'.live ↔ b ∈ s.live ∨ b = (new.ptr, new.usable) := by
    intro b
    rw [mem_live, mem_live]
    constructor
    · rintro ⟨v, hv, hvb, rfl⟩
      rcases (he.busy_iff v hvb).1 hv with hh | rfl
      · exact Or.inl ⟨v, hh, hvb, rfl⟩
      · exact Or.inr rfl
    · rintro (⟨v, hv, hvb, rfl⟩ | rfl)
      · exact ⟨v, (he.busy_iff v hvb).2 (Or.inl hv), hvb, rfl⟩
      · exact ⟨new, (he.busy_iff new he.is_busy).2 (Or.inr rfl), he.is_busy, rfl⟩
  refine ⟨hiff, ?_⟩
  intro b hb
  obtain ⟨v, hv, hvb, rfl⟩ := mem_live.1 hb
  have hv' := (he.busy_iff v hvb).2 (Or.inl hv)
  have hn' := (he.busy_iff new he.is_busy).2 (Or.inr rfl)
  have hne : v ≠ new := fun e => he.fresh (e ▸ hv)
  have hva : v.addr ≠ new.addr := fun e => hne (h'.view_inj hv' hn' e)
  have h1 := h'.hdr_lt hv'
  have h2 := h'.hdr_lt hn'
  unfold Disjoint
  simp only [VP.ptr, VP.usable]
  rcases Nat.lt_or_gt_of_ne hva with hlt | hlt
  · have := h'.no_inside hv' hn' hlt; left; omega
  · have := h'.no_inside hn' hv' hlt; right; omega

/-- **alloc_aligned**: the pointer returned is aligned for pointers (`sizeof(Pointer)`, which is
also `alignof(MostAlignedType)` on this target). -/
theorem alloc_aligned {s s' : State} {code n grant p : Nat} (h : Inv s)
    (hr : alloc s code n grant = some (s', p)) : p % ptrSize = 0 := by
  obtain ⟨h', new, he, hp, _, _⟩ := inv_alloc h hr
  have hn' := (he.busy_iff new he.is_busy).2 (Or.inr rfl)
  obtain ⟨sc, hsc, hvs⟩ := mem_viewSects.1 hn'
  have := (h'.geo sc hsc).view_aligned hvs
  rw [← hp]; unfold VP.ptr
  simp only [ptrSize] at *
  omega

/-- **alloc_size_ge**: the block returned is at least as large as requested (`stoSize`). -/
theorem alloc_size_ge {s s' : State} {code n grant p : Nat} (h : Inv s)
    (hr : alloc s code n grant = some (s', p)) : ∃ u, s'.usable p = some u ∧ n ≤ u := by
  obtain ⟨h', new, he, hp, hn, _⟩ := inv_alloc h hr
  have hn' := (he.busy_iff new he.is_busy).2 (Or.inr rfl)
  obtain ⟨c, hc⟩ := he.is_busy
  obtain ⟨sc, x, hb, hxn, hh, _⟩ := h'.view_blockAt hn' hc
  refine ⟨new.usable, ?_, hn⟩
  unfold State.usable
  rw [← hp, hb]
  simp [VP.usable, hxn, hh]

/-- `stoSize` of a live block -/
theorem usable_of_view {s : State} (h : Inv s) {v : VP} (hv : v ∈ s.view) (hb : v.busy) :
    s.usable v.ptr = some v.usable := by
  obtain ⟨c, hc⟩ := hb
  obtain ⟨sc, x, hb, hxn, hh, _⟩ := h.view_blockAt hv hc
  unfold State.usable
  rw [hb]
  simp [VP.usable, hxn, hh]

/-- **alloc_disjoint_from_live**: the block returned is disjoint from every block that was live,
and allocation changes the set of live blocks by exactly that block. -/
theorem alloc_disjoint_from_live {s s' : State} {code n grant p : Nat} (h : Inv s)
    (hr : alloc s code n grant = some (s', p)) :
    ∃ u, s'.usable p = some u ∧ (∀ b ∈ s.live, Disjoint b (p, u)) ∧
      (∀ b, b ∈ s'.live ↔ b ∈ s.live ∨ b = (p, u)) := by
  obtain ⟨h', new, he, hp, hn, _⟩ := inv_alloc h hr
  have hn' := (he.busy_iff new he.is_busy).2 (Or.inr rfl)
  obtain ⟨hiff, hdis⟩ := he.live h h'
  refine ⟨new.usable, ?_, ?_, ?_⟩
  · rw [← hp]; exact usable_of_view h' hn' he.is_busy
  · rw [← hp]; exact hdis
  · rw [← hp]; exact hiff

/-- two live blocks with the same pointer are the same piece -/
theorem Inv.ptr_inj {s : State} (h : Inv s) {v w : VP} (hv : v ∈ s.view) (hw : w ∈ s.view)
    (hp : v.ptr = w.ptr) : v = w := by
  apply h.view_inj hv hw
  have h1 := h.hdr_lt hv
  have h2 := h.hdr_lt hw
  unfold VP.ptr at hp
  rcases Nat.lt_trichotomy v.addr w.addr with hlt | heq | hlt
  · have := h.no_inside hv hw hlt; omega
  · exact heq
  · have := h.no_inside hw hv hlt; omega

/-- **free_only_that_block**: `stoFree(p)` removes exactly the block at `p` from the live blocks;
every other live block keeps its address and size. -/
theorem free_only_that_block {s s' : State} {p : Nat} (h : Inv s) (hr : free s p = some s') :
    ∃ u, s.usable p = some u ∧ (p, u) ∈ s.live ∧ ∀ b, b ∈ s'.live ↔ b ∈ s.live ∧ b ≠ (p, u) := by
  obtain ⟨h', old, hold, hob, hop, heff⟩ := inv_free h hr
  refine ⟨old.usable, by rw [← hop]; exact usable_of_view h hold hob,
    mem_live.2 ⟨old, hold, hob, by rw [hop]⟩, fun b => ?_⟩
  rw [mem_live, mem_live]
  constructor
  · rintro ⟨v, hv, hvb, rfl⟩
    obtain ⟨hvs, hne⟩ := (heff v hvb).1 hv
    refine ⟨⟨v, hvs, hvb, rfl⟩, fun e => ?_⟩
    simp only [Prod.mk.injEq] at e
    have := h.ptr_inj hvs hold (by rw [e.1, hop])
    exact hne (by rw [this])
  · rintro ⟨⟨v, hv, hvb, rfl⟩, hne⟩
    refine ⟨v, (heff v hvb).2 ⟨hv, fun e => hne ?_⟩, hvb, rfl⟩
    have := h.view_inj hv hold e
    rw [this, hop]

/-- `stoRecode` keeps all live blocks -/
theorem recode_live {s s' : State} {p code : Nat} (h : Inv s) (hr : recode s p code = some s') :
    Inv s' ∧ ∀ b, b ∈ s'.live ↔ b ∈ s.live := by
  obtain ⟨h', old, hold, hob, hop, heff⟩ := inv_recode h hr
  refine ⟨h', fun b => ?_⟩
  rw [mem_live, mem_live]
  have hnb : ({ old with st := PSt.busy (code % (codeMask + 1)) } : VP).busy := ⟨_, rfl⟩
  constructor
  · rintro ⟨v, hv, hvb, rfl⟩
    rcases (heff v).1 hv with ⟨hvs, _⟩ | rfl
    · exact ⟨v, hvs, hvb, rfl⟩
    · exact ⟨old, hold, hob, rfl⟩
  · rintro ⟨v, hv, hvb, rfl⟩
    by_cases hva : v.addr = old.addr
    · have := h.view_inj hv hold hva
      subst this
      exact ⟨_, (heff _).2 (Or.inr rfl), hnb, rfl⟩
    · exact ⟨v, (heff v).2 (Or.inl ⟨hv, hva⟩), hvb, rfl⟩

/-- **resize_prefix_partial.**  Byte contents are not part of the model; what is proved is the
bookkeeping that makes `memcpy(np, p, MIN(nbytes, osz))` copy the common prefix into fresh
memory: `stoResize(p, n)` either returns `p` unchanged (true sizes equal, nothing moves), or it
returns a block of at least `n` bytes that was allocated while the old block was still live --
hence disjoint from it and from every other live block -- and only then frees the old block;
all other live blocks are untouched.  (The copy itself is checked on the implementation by the
byte-pattern oracle of checks/parts/store.py.) -/
theorem resize_prefix_partial {s s' : State} {p n grant q : Nat} (h : Inv s)
    (hr : resize s p n grant = some (s', q)) :
    Inv s' ∧ ∃ ou, s.usable p = some ou ∧ (p, ou) ∈ s.live ∧
      ((q = p ∧ ou = trueSize n ∧ ∀ b, b ∈ s'.live ↔ b ∈ s.live) ∨
       (∃ nu, n ≤ nu ∧ Disjoint (p, ou) (q, nu) ∧ (∀ b ∈ s.live, Disjoint b (q, nu)) ∧
          ∀ b, b ∈ s'.live ↔ (b ∈ s.live ∧ b ≠ (p, ou)) ∨ b = (q, nu))) := by
  refine ⟨inv_resize h hr, ?_⟩
  obtain ⟨sc, x, c, hb, hcase⟩ := resize_cases hr
  obtain ⟨v, hv, hvp, hvst, hvn, hvc, hva, hle, hvh⟩ := h.blockAt_view hb
  have hvb : v.busy := ⟨c, hvst⟩
  have hou : s.usable p = some v.usable := by rw [← hvp]; exact usable_of_view h hv hvb
  have hlive : (p, v.usable) ∈ s.live := mem_live.2 ⟨v, hv, hvb, by rw [hvp]⟩
  refine ⟨v.usable, hou, hlive, ?_⟩
  rcases hcase with ⟨hsz, rfl, rfl⟩ | ⟨_, s1, ha, hf⟩
  · left
    refine ⟨rfl, ?_, fun b => by simp [State.live]⟩
    rw [← hsz]; simp [VP.usable, hvn, hvh]
  · right
    have ht : Inv (s.tag "rs-move") := h.tag _
    obtain ⟨u, hu, hdis, hiff⟩ := alloc_disjoint_from_live ht ha
    obtain ⟨u', hu', hnu'⟩ := alloc_size_ge ht ha
    rw [hu] at hu'; cases hu'
    have h1 := (inv_alloc ht ha).1
    obtain ⟨u2, hu2, _, hiff2⟩ := free_only_that_block h1 hf
    have hlive1 : (p, v.usable) ∈ s1.live := (hiff _).2 (Or.inl hlive)
    have hn0 : n ≠ 0 := by intro e; subst e; simp [alloc] at ha
    have hpq : p ≠ q := by
      intro e
      have := hdis _ hlive
      subst e
      have h1' := h.hdr_lt hv
      unfold Disjoint at this
      simp [VP.usable] at this
      omega
    -- the size the free sees is the old size
    have hu2' : u2 = v.usable := by
      obtain ⟨w, hw, hwb, hwe⟩ := mem_live.1 hlive1
      simp only [Prod.mk.injEq] at hwe
      have := usable_of_view h1 hw hwb
      rw [← hwe.1, hu2] at this
      simp at this; omega
    subst hu2'
    refine ⟨u, hnu', hdis _ hlive, hdis, fun b => ?_⟩
    rw [hiff2, hiff]
    constructor
    · rintro ⟨hb1 | rfl, hne⟩
      · exact Or.inl ⟨hb1, hne⟩
      · exact Or.inr rfl
    · rintro (⟨hb1, hne⟩ | rfl)
      · exact ⟨Or.inl hb1, hne⟩
      · exact ⟨Or.inr rfl, fun e => hpq (by simp at e; exact e.1.symm)⟩


/-- **sweep_keeps_survivors**: `stoGcSweep` keeps every live block that carries a mark (address
and size unchanged), and it reclaims nothing else than unmarked live blocks: the live blocks
afterwards are exactly the marked live blocks. -/
theorem sweep_keeps_survivors {s s' : State} {surv : List Nat} (h : Inv s) (hr : sweep s surv = some s') :
    (∀ b ∈ s.live, b.1 ∈ surv → b ∈ s'.live) ∧ (∀ b, b ∈ s'.live ↔ b ∈ s.live ∧ b.1 ∈ surv) := by
  obtain ⟨_, heff⟩ := inv_sweep h hr
  have hiff : ∀ b, b ∈ s'.live ↔ b ∈ s.live ∧ b.1 ∈ surv := by
    intro b
    rw [mem_live, mem_live]
    constructor
    · rintro ⟨v, hv, hvb, rfl⟩
      obtain ⟨h1, h2⟩ := (heff v hvb).1 hv
      exact ⟨⟨v, h1, hvb, rfl⟩, h2⟩
    · rintro ⟨⟨v, hv, hvb, rfl⟩, hs⟩
      exact ⟨v, (heff v hvb).2 ⟨hv, hs⟩, hvb, rfl⟩
  exact ⟨fun b hb hs => (hiff b).2 ⟨hb, hs⟩, hiff⟩

/-- **inv_step**: every operation preserves the invariant. -/
theorem inv_step {s s' : State} (op : Op) (h : Inv s) (hr : step s op = some s') : Inv s' := by
  cases op with
  | alloc c n g =>
    simp only [step] at hr
    cases ha : alloc s c n g with
    | none => rw [ha] at hr; simp at hr
    | some r => rw [ha] at hr; simp at hr; subst hr; exact (inv_alloc h ha).1
  | free p => exact (inv_free h hr).1
  | resize p n g =>
    simp only [step] at hr
    cases ha : resize s p n g with
    | none => rw [ha] at hr; simp at hr
    | some r => rw [ha] at hr; simp at hr; subst hr; exact inv_resize h ha
  | recode p c => exact (inv_recode h hr).1
  | sweep sv => exact (inv_sweep h hr).1

/-- **inv_history**: the invariant holds after every history of allocate, free, resize, recode and
collect requests (with arbitrary page grants and arbitrary mark sets). -/
theorem inv_history {s s' : State} (ops : List Op) (h : Inv s) (hr : run s ops = some s') : Inv s' := by
  induction ops generalizing s with
  | nil => simp [run] at hr; subst hr; exact h
  | cons o r ih =>
    simp only [run] at hr
    cases hs : step s o with
    | none => rw [hs] at hr; simp at hr
    | some s1 => rw [hs] at hr; exact ih (inv_step o h hs) hr

/-- after any history from the initial state: live blocks are pairwise disjoint -/
theorem history_live_disjoint {s' : State} (ops : List Op) (hr : run init ops = some s') :
    s'.live.Pairwise Disjoint := live_pairwise_disjoint (inv_history ops inv_init hr)

/-! ### non-vacuity: the hypotheses are met by concrete states -/

/-- a history that allocates a fixed and two mixed blocks, frees, resizes, recodes and sweeps -/
def sampleOps : List Op :=
  [.alloc 0 24 8192, .alloc 1 300 16384, .alloc 2 5000 0, .free 8400, .resize 16672 9000 28672,
   .recode 17184 7, .alloc 3 200 40960, .sweep [17184], .alloc 0 70000 49152]

example : (run init sampleOps).isSome = true := by decide +kernel
example : (alloc init 0 24 8192).isSome = true := by decide +kernel
example : ((run init sampleOps).map (fun s => s.live.length)) = some 2 := by decide +kernel

end AldorVerif.Store
