import AldorVerif.Props.C05
import AldorVerif.Props.C19

/-! # C05 × C19: the float hypothesis of `decode_encode` discharged

`decode_encode` takes the external float format as a parameter `X : XF` with the round trip
`X.OK` as hypothesis.  Part `xfloat` (C19) models xfloat.c and proves that round trip for every bit
pattern; here its functions are plugged in. -/
namespace AldorVerif.Foam
open AldorVerif

def toU8 (b : BitVec 8) : UInt8 := UInt8.ofBitVec b
def ofU8 (u : UInt8) : BitVec 8 := u.toBitVec

theorem ofU8_toU8_map (l : List (BitVec 8)) : (l.map toU8).map ofU8 = l := by
  induction l with
  | nil => rfl
  | cons x xs ih => simp [toU8, ofU8, ih]

/-- bufWrSFloat/bufRdSFloat and bufWrDFloat/bufRdDFloat over the model of xfloat.c -/
def xfIEEE : XF where
  encSF b := (XFloat.xsfFrNative b).map toU8
  decSF bs := if bs.length < XFloat.XSFLOAT_BYTES then none
              else some (XFloat.xsfToNative ((bs.take XFloat.XSFLOAT_BYTES).map ofU8), bs.drop XFloat.XSFLOAT_BYTES)
  encDF b := (XFloat.xdfFrNative b).map toU8
  decDF bs := if bs.length < XFloat.XDFLOAT_BYTES then none
              else some (XFloat.xdfToNative ((bs.take XFloat.XDFLOAT_BYTES).map ofU8), bs.drop XFloat.XDFLOAT_BYTES)

theorem xfIEEE_ok : xfIEEE.OK := by
  constructor
  · intro b rest
    have hl : ((XFloat.xsfFrNative b).map toU8).length = XFloat.XSFLOAT_BYTES := by
      rw [List.length_map]; exact XFloat.xsf_size b
    simp only [xfIEEE]
    rw [if_neg (by rw [List.length_append, hl]; omega)]
    rw [take_append_len _ _ _ hl.symm, drop_append_len _ _ _ hl.symm, ofU8_toU8_map, XFloat.xsf_roundtrip]
  · intro b rest
    have hl : ((XFloat.xdfFrNative b).map toU8).length = XFloat.XDFLOAT_BYTES := by
      rw [List.length_map]; exact XFloat.xdf_size b
    simp only [xfIEEE]
    rw [if_neg (by rw [List.length_append, hl]; omega)]
    rw [take_append_len _ _ _ hl.symm, drop_append_len _ _ _ hl.symm, ofU8_toU8_map, XFloat.xdf_roundtrip]

/-- `decode_encode` with the modelled xfloat.c: no hypothesis about floats is left. -/
theorem decode_encode_ieee (T : Table) (hT : FoamInfoOK T = true) (lf : Int) (f : Foam) (rest : List UInt8)
    (h : WF T lf f) :
    decode T xfIEEE lf ((encode T xfIEEE lf f).1 ++ rest) = some (norm T f, rest, (encode T xfIEEE lf f).2.1) :=
  decode_encode T xfIEEE hT xfIEEE_ok lf f rest h

end AldorVerif.Foam
