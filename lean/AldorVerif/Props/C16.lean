import AldorVerif.Lemmas.Mangle
import AldorVerif.Lemmas.CSplit
import AldorVerif.Lemmas.CLit

/-! # C16 (part `mangle`): property theorems about C identifier generation and file splitting

"Distinct program entities, however long their names and however long a prefix they share,
never end up with the same C name" splits into

* names that carry an index (`gc0VarId`, non-global branch of `gc0MultVarId`): true, for every
  identifier-length limit (`local_names_injective`, `varId_injective`, `kinds_distinct`);
* global names (`G_<hash>_<name>`, the names by which separately compiled files find each
  other's exports): true without truncation (`global_names_injective_unlimited`), **false**
  with the default `idlen = 30` (`global_names_injective_statement_refuted`, a concrete pair of
  exports); `global_collision_iff` is the exact characterisation;
* the special-character renaming is injective on the characters it keeps
  (`spec_char_injective`) and not on all strings (`spec_char_injective_statement_refuted`).

File splitting: `split_partition`, `split_part_guarantee`, `split_count`,
`split_names_distinct_partial`, `split_names_distinct_statement_refuted`. -/
namespace AldorVerif.Mangle

def s (x : String) : Name := x.toList

/-! ## indexed ("local") names -/

/-- **gc0MultVarId, non-global kinds.** Two names built with the same kind string and different
indices differ, whatever the attached identifiers and whatever the length limit: the index is
written in full *before* the identifier, and truncation only ever cuts the identifier. -/
theorem local_names_injective (idlen : Nat) (kind : Name) (i j : Nat) (b₁ b₂ : Name)
    (hk : isGlobalKind kind = false) (hij : i ≠ j) :
    multVarId idlen true kind i b₁ ≠ multVarId idlen true kind j b₂ := by
  intro h
  simp only [multVarId, hk, Bool.false_eq_true, if_false] at h
  unfold indexedId at h
  -- both sides: kindPrefix ++ putI _ ++ tail, tail empty or starting with '_'
  have key : ∀ (b : Name) (n : Nat), ∃ t : List Char,
      (if b = [] then kindPrefix idlen kind ++ putI n
        else kindPrefix idlen kind ++ putI n ++ ['_'] ++
          validIdFrom idlen ((kindPrefix idlen kind ++ putI n).length + 1) b)
        = kindPrefix idlen kind ++ (putI n ++ t) ∧ (∀ a, t.head? = some a → ¬ (a.isDigit = true)) := by
    intro b n
    by_cases hb : b = []
    · exact ⟨[], by simp [hb], by simp⟩
    · refine ⟨'_' :: validIdFrom idlen ((kindPrefix idlen kind ++ putI n).length + 1) b, by simp [hb], ?_⟩
      intro a ha; simp at ha; subst ha; decide
  obtain ⟨t₁, e₁, g₁⟩ := key b₁ i
  obtain ⟨t₂, e₂, g₂⟩ := key b₂ j
  rw [e₁, e₂] at h
  have h' := List.append_cancel_left h
  have := span_unique (fun c => c.isDigit = true) (putI i) (putI j) t₁ t₂ (putI_digits i) (putI_digits j) g₁ g₂ h'
  exact hij (putI_inj this.1)

/-- non-vacuity: `C1_x`/`C2_x`-style names with a long shared identifier and the default limit -/
example : multVarId 30 true (s "C") 1 (s "aVeryLongExportedFunctionNameNumberOne")
    = s "C1_aVeryLongExportedFunctionNa" := by decide +kernel
example : multVarId 30 true (s "CF") 12 (s "x!") = s "CF12_x_BANG_" := by decide +kernel

/-- **gc0VarId.** Same string, different index → different name (the index is appended after
the string, without a length check). -/
theorem varId_injective (idlen : Nat) (str : Name) (i j : Nat) (hij : i ≠ j) :
    varId idlen str i ≠ varId idlen str j := by
  intro h
  exact hij (putI_inj (List.append_cancel_left h))

/-- the kind strings that genc.c passes to `gc0VarId`/`gc0MultVarId` for indexed names -/
def kinds : List Name :=
  ["F", "C", "CF", "X", "P", "R", "T", "J", "L", "l", "e", "tmp", "tmpClos", "GA", "GB", "GRRFmt",
   "Fmt", "TFmt", "PFmt", "INIT_", "fiEnvLevel", "fiCCall", "fiRecNewFmt"].map s

/-- shape needed of a kind string: a single letter that is written as itself, or a longer
string not starting with a digit -/
def KindOk (k : Name) : Prop :=
  match k with
  | [c] => c.isAlpha = true ∧ emit c = [c]
  | c :: _ => c.isDigit = false
  | [] => False

instance : DecidablePred KindOk := fun k => by unfold KindOk; split <;> infer_instance

theorem kinds_prefix (idlen : Nat) (h : idlen = 0 ∨ 30 ≤ idlen) :
    ∀ k ∈ kinds, isGlobalKind k = false ∧ kindPrefix idlen k = k.flatMap emit ∧
      (∀ c ∈ k.flatMap emit, ¬ (c.isDigit = true)) := by
  have hlen : ∀ k ∈ kinds, (k.flatMap emit).length ≤ 30 := by decide +kernel
  have hfacts : ∀ k ∈ kinds, isGlobalKind k = false ∧ (∀ c ∈ k.flatMap emit, ¬ (c.isDigit = true)) ∧
      KindOk k := by
    decide +kernel
  intro k hk
  obtain ⟨hg, hd, hm⟩ := hfacts k hk
  refine ⟨hg, ?_, hd⟩
  have hnc : validIdFrom idlen 0 k = k.flatMap emit :=
    validIdFrom_noCut idlen 0 k (by have := hlen k hk; omega)
  match k, hm with
  | [c], hm => simp [kindPrefix, hm.1, hm.2]
  | c :: d :: r, hm =>
    have hm' : c.isDigit = false := hm
    simp only [kindPrefix, kindGeneric, hm', Bool.false_eq_true, if_false, List.length_nil, List.nil_append]
    exact hnc

/-- **Across kinds.** With no limit or any limit ≥ the default 30, two indexed names built from
the kind strings used in genc.c coincide only if kind and index coincide. -/
theorem kinds_distinct (idlen : Nat) (h : idlen = 0 ∨ 30 ≤ idlen)
    (k₁ k₂ : Name) (h₁ : k₁ ∈ kinds) (h₂ : k₂ ∈ kinds) (i j : Nat) (b₁ b₂ : Name)
    (heq : multVarId idlen true k₁ i b₁ = multVarId idlen true k₂ j b₂) :
    k₁.flatMap emit = k₂.flatMap emit ∧ i = j := by
  obtain ⟨g₁, p₁, d₁⟩ := kinds_prefix idlen h k₁ h₁
  obtain ⟨g₂, p₂, d₂⟩ := kinds_prefix idlen h k₂ h₂
  simp only [multVarId, g₁, g₂, Bool.false_eq_true, if_false] at heq
  unfold indexedId at heq
  have key : ∀ (k b : Name) (n : Nat), ∃ t : List Char,
      (if b = [] then kindPrefix idlen k ++ putI n
        else kindPrefix idlen k ++ putI n ++ ['_'] ++
          validIdFrom idlen ((kindPrefix idlen k ++ putI n).length + 1) b)
        = kindPrefix idlen k ++ (putI n ++ t) ∧ (∀ a, t.head? = some a → ¬ (a.isDigit = true)) := by
    intro k b n
    by_cases hb : b = []
    · exact ⟨[], by simp [hb], by simp⟩
    · refine ⟨'_' :: validIdFrom idlen ((kindPrefix idlen k ++ putI n).length + 1) b, by simp [hb], ?_⟩
      intro a ha; simp at ha; subst ha; decide
  obtain ⟨t₁, e₁, f₁⟩ := key k₁ b₁ i
  obtain ⟨t₂, e₂, f₂⟩ := key k₂ b₂ j
  rw [e₁, e₂, p₁, p₂] at heq
  -- the kind prefixes are digit free, what follows starts with a digit
  have hd : ∀ n t a, (putI n ++ t).head? = some a → ¬ ¬ (a.isDigit = true) := by
    intro n t a ha
    have hne : putI n ≠ [] := by
      unfold putI; split
      · simp
      · next hn => simpa [digits10Rev] using digitsRev_ne_nil 10 (by decide) hn
    match hp : putI n, hne with
    | c :: r, _ =>
      rw [hp] at ha; simp at ha; subst ha
      simpa using putI_digits n c (by rw [hp]; simp)
  have sp := span_unique (fun c => ¬ (c.isDigit = true)) _ _ _ _ d₁ d₂ (hd i t₁) (hd j t₂) heq
  refine ⟨sp.1, ?_⟩
  have := span_unique (fun c => c.isDigit = true) (putI i) (putI j) t₁ t₂ (putI_digits i) (putI_digits j) f₁ f₂ sp.2
  exact putI_inj this.1

/-- the kind strings have pairwise different spellings, so `kinds_distinct` really separates them -/
theorem kinds_spellings_distinct : (kinds.map (·.flatMap emit)).Nodup := by decide +kernel

/-! ## module initialiser names -/

/-- **All sites agree**: for every module string, index and identifier-length limit, the name
under which a unit's initialiser is *defined* is the name under which the main unit declares
and calls it (split units), under which the generated `main` declares and calls it, under which
an importing unit declares and calls it, and which `gc0ExportInit` calls. -/
theorem init_sites_agree (idlen : Nat) (name : Name) (k : Nat) :
    siteDefinition idlen name false k = siteBrotherDecl idlen name k ∧
    siteDefinition idlen name false k = siteBrotherCall idlen name k ∧
    siteDefinition idlen name true k = siteMainDecl idlen name ∧
    siteDefinition idlen name true k = siteMainCall idlen name ∧
    siteDefinition idlen name true k = siteImport idlen name ∧
    siteDefinition idlen name true k = siteExportInit idlen name := by
  simp [siteDefinition, siteBrotherDecl, siteBrotherCall, siteMainDecl, siteMainCall, siteImport,
    siteExportInit, moduleInitFun]

theorem moduleInitFun_zero (idlen : Nat) (h : idlen = 0 ∨ 30 ≤ idlen) (a : Name) (ha : a ≠ []) :
    moduleInitFun idlen a 0 = s "INIT__0_" ++ validIdFrom idlen 8 a := by
  have hk : initPrefix ∈ kinds := by decide
  obtain ⟨hg, hp, _⟩ := kinds_prefix idlen h initPrefix hk
  have e1 : initPrefix.flatMap emit = s "INIT__" := by decide +kernel
  have e2 : putI 0 = ['0'] := by decide +kernel
  have e3 : s "INIT__" ++ ['0'] ++ ['_'] = s "INIT__0_" := by decide +kernel
  have e4 : (s "INIT__" ++ ['0']).length + 1 = 8 := by decide +kernel
  simp only [moduleInitFun, multVarId, hg, Bool.false_eq_true, if_false, indexedId, hp, e1, e2, ha]
  rw [e4, e3]

/-- **Exact characterisation**: two units get the same `INIT__0_…` name iff what is left of their
names after `INIT__0_` (8 characters) within `idlen` agrees — there is no hash in these names. -/
theorem init_name_eq_iff (idlen : Nat) (h : idlen = 0 ∨ 30 ≤ idlen) (a b : Name) (ha : a ≠ []) (hb : b ≠ []) :
    moduleInitFun idlen a 0 = moduleInitFun idlen b 0 ↔ validIdFrom idlen 8 a = validIdFrom idlen 8 b := by
  rw [moduleInitFun_zero idlen h a ha, moduleInitFun_zero idlen h b hb]
  constructor
  · exact List.append_cancel_left
  · intro e; rw [e]

/-- unit names that fit (with the default limit: at most 22 characters of valid identifier)
get different initialiser names -/
theorem module_init_names_injective_fit (idlen : Nat) (h : idlen = 0 ∨ 30 ≤ idlen) (a b : Name)
    (ha : ∀ c ∈ a, Kept c) (hb : ∀ c ∈ b, Kept c) (hane : a ≠ []) (hbne : b ≠ [])
    (fa : idlen = 0 ∨ 8 + (a.flatMap emit).length ≤ idlen) (fb : idlen = 0 ∨ 8 + (b.flatMap emit).length ≤ idlen)
    (heq : moduleInitFun idlen a 0 = moduleInitFun idlen b 0) : a = b := by
  have := (init_name_eq_iff idlen h a b hane hbne).mp heq
  rw [validIdFrom_noCut idlen 8 a fa, validIdFrom_noCut idlen 8 b fb] at this
  exact flatMap_emit_inj a b ha hb this

/-- full-strength statement: distinct units have distinct initialisers -/
def module_init_names_injective_statement : Prop :=
  ∀ (idlen : Nat), (idlen = 0 ∨ 30 ≤ idlen) → ∀ (a b : Name), (∀ c ∈ a, Kept c) → (∀ c ∈ b, Kept c) →
    a ≠ b → moduleInitFun idlen a 0 ≠ moduleInitFun idlen b 0

/-- **Refuted with the default limit**: two source files whose names share their first 22
characters define the same C function (replayed by the check: the link fails with
`multiple definition of INIT__0_modulenamemodulenamemo`). -/
theorem module_init_names_injective_statement_refuted : ¬ module_init_names_injective_statement := by
  intro h
  exact h 30 (Or.inr (Nat.le_refl _)) (s "modulenamemodulenamemoLibraryPart") (s "modulenamemodulenamemoClientPart")
    (by decide +kernel) (by decide +kernel) (by decide +kernel) (by decide +kernel)

example : moduleInitFun 30 (s "modulenamemodulenamemoLibraryPart") 0 = s "INIT__0_modulenamemodulenamemo" := by
  decide +kernel

/-! ## special characters -/

/-- **The special-character renaming is injective** on identifiers made of characters it
keeps (alphanumerics and the characters of `ccSpecCharIdTable`), when nothing is cut off:
the table texts together with the single alphanumerics form a prefix code (`_` is written
`__`, every other text is `_LETTERS_`). -/
theorem spec_char_injective (a b : Name) (ha : ∀ c ∈ a, Kept c) (hb : ∀ c ∈ b, Kept c)
    (h : validIdFrom 0 0 a = validIdFrom 0 0 b) : a = b := by
  rw [validIdFrom_noCut 0 0 a (Or.inl rfl), validIdFrom_noCut 0 0 b (Or.inl rfl)] at h
  exact flatMap_emit_inj a b ha hb h

/-- an operator character and an identifier spelling its table name stay apart -/
example : validIdFrom 0 0 (s "x!") = s "x_BANG_" ∧ validIdFrom 0 0 (s "x_BANG_") = s "x__BANG__" := by
  decide +kernel

/-- every character an Aldor identifier can be made of without escapes is kept -/
example : ∀ c ∈ s "azAZ09!?_<=>+-*/^~#$%&|@'`:.,;()[]{}\"\\", Kept c := by decide +kernel

/-- full-strength statement over all in-domain strings (blanks and control characters can occur
in an escaped Aldor identifier) -/
def spec_char_injective_statement : Prop :=
  ∀ a b : Name, (∀ c ∈ a, InDomain c) → (∀ c ∈ b, InDomain c) →
    validIdFrom 0 0 a = validIdFrom 0 0 b → a = b

/-- … which is false: characters that are neither alphanumeric nor in the table are dropped. -/
theorem spec_char_injective_statement_refuted : ¬ spec_char_injective_statement := by
  intro h
  have := h (s "a b") (s "ab") (by decide) (by decide) (by decide +kernel)
  exact absurd this (by decide)

/-! ## global names -/

/-- the part of a global name that comes from the identifier: what `gc0ValidIdInBuf` can still
write after `kind _ hash _` within `idlen` -/
def validPrefix (idlen : Nat) (kind x : Name) : List Char :=
  validIdFrom idlen (kind.length + 1 + (idHash x).length + 1) x

/-- **Exact characterisation of global-name collisions** (idhash on): two identifiers get the
same global C name iff their string hashes agree modulo `VAR_HASH` and what is left of them
after truncation agrees. -/
theorem global_collision_iff (idlen : Nat) (kind x y : Name) :
    globalId idlen true kind x = globalId idlen true kind y ↔
      (strHash x % VAR_HASH = strHash y % VAR_HASH ∧ validPrefix idlen kind x = validPrefix idlen kind y) := by
  rw [globalId_hash, globalId_hash]
  constructor
  · intro h
    have h1 := List.append_cancel_left h
    simp only [List.cons.injEq, true_and] at h1
    have sp := span_unique (fun c => c ≠ '_') (idHash x) (idHash y) _ _
      (fun c hc he => hash36_no_us _ (he ▸ hc)) (fun c hc he => hash36_no_us _ (he ▸ hc))
      (by intro a ha; simp at ha; simp [← ha]) (by intro a ha; simp at ha; simp [← ha]) h1
    refine ⟨hash36_inj sp.1, ?_⟩
    have := sp.2
    simp only [List.cons.injEq, true_and] at this
    exact this
  · rintro ⟨hh, hv⟩
    have hid : idHash x = idHash y := by unfold idHash; rw [hh]
    unfold validPrefix at hv
    rw [hid] at hv ⊢
    rw [hv]

/-- with hashing off the name is just the truncated identifier -/
theorem global_collision_nohash_iff (idlen : Nat) (kind x y : Name) :
    globalId idlen false kind x = globalId idlen false kind y ↔
      validIdFrom idlen (kind.length + 1) x = validIdFrom idlen (kind.length + 1) y := by
  rw [globalId_nohash, globalId_nohash]
  constructor
  · intro h; simpa using List.append_cancel_left h
  · intro h; rw [h]

/-- **Without truncation global names are injective** on identifiers of kept characters. -/
theorem global_names_injective_unlimited (kind x y : Name) (hx : ∀ c ∈ x, Kept c) (hy : ∀ c ∈ y, Kept c)
    (h : globalId 0 true kind x = globalId 0 true kind y) : x = y := by
  have := ((global_collision_iff 0 kind x y).mp h).2
  unfold validPrefix at this
  rw [validIdFrom_noCut 0 _ x (Or.inl rfl), validIdFrom_noCut 0 _ y (Or.inl rfl)] at this
  exact flatMap_emit_inj x y hx hy this

/-- full-strength statement: for every limit the options allow (none, or at least the default),
distinct identifiers get distinct global names. -/
def global_names_injective_statement : Prop :=
  ∀ (idlen : Nat), (idlen = 0 ∨ 30 ≤ idlen) → ∀ (x y : Name), (∀ c ∈ x, Kept c) → (∀ c ∈ y, Kept c) →
    x ≠ y → multVarId idlen true ['G'] 0 x ≠ multVarId idlen true ['G'] 0 y

/-- the two global identifiers of the exports `sharedPrefixOfTwoExportsAjqv` and
`sharedPrefixOfTwoExportsAlah : MachineInteger -> MachineInteger` of a file `f.as`
(found by a birthday search over 7444 candidate names) -/
def witnessA : Name := s "f_sharedPrefixOfTwoExportsAjqv_218754658"
def witnessB : Name := s "f_sharedPrefixOfTwoExportsAlah_218754658"

theorem witness_hash : strHash witnessA % VAR_HASH = 14101778 ∧ strHash witnessB % VAR_HASH = 14101778 := by
  decide +kernel

theorem witness_collides : multVarId 30 true ['G'] 0 witnessA = multVarId 30 true ['G'] 0 witnessB := by
  have : isGlobalKind ['G'] = true := by decide
  simp only [multVarId, this, if_true]
  rw [global_collision_iff]
  decide +kernel

/-- the C name both exports get with the default options -/
theorem witness_name : multVarId 30 true ['G'] 0 witnessA = s "G_8E902_f__sharedPrefixOfTwoEx" := by
  decide +kernel

/-- **Global names are not injective with the default limit**: the two exports above get the
same C name `G_8E902_f__sharedPrefixOfTwoEx` (replayed on the real compiler by the check: the
importing file calls the wrong function). -/
theorem global_names_injective_statement_refuted : ¬ global_names_injective_statement := by
  intro h
  exact h 30 (Or.inr (Nat.le_refl _)) witnessA witnessB (by decide +kernel) (by decide +kernel) (by decide)
    witness_collides

/-- pigeonhole bound behind the refutation: a global name carries at most `idlen` characters,
of which the hash residue (< `VAR_HASH` = 60 466 169 values) is the only part that depends on
the identifier beyond its truncated prefix. -/
theorem global_collision_of_same_prefix (idlen : Nat) (kind x y : Name)
    (hh : strHash x % VAR_HASH = strHash y % VAR_HASH)
    (hp : validPrefix idlen kind x = validPrefix idlen kind y) :
    globalId idlen true kind x = globalId idlen true kind y :=
  (global_collision_iff idlen kind x y).mpr ⟨hh, hp⟩

end AldorVerif.Mangle

namespace AldorVerif.CLit

/-! ## string and character literals (`ccoPrToken`) -/

/-- bytes a token text can hold -/
def Bytes (s : List Char) : Prop := ∀ c ∈ s, c.toNat < 256

/-- **Old and standard C denote the same text**: for every token text, the literal printed with
`-Cold` (`?` written bare) and the one printed with `-Cstandard` (`\?`) are read back by a C
compiler as the same character sequence (or are both rejected). -/
theorem literal_escape_dialects_agree (q : Char) (hq : q = dq ∨ q = sq) (s : List Char) (hs : Bytes s) :
    denote q (escapeLit true s) = denote q (escapeLit false s) :=
  dialects_aux q hq s hs .normal (by decide)

/-- **The printed literal denotes the token text** (both dialects) for texts of bytes 1 … 126 in
which no byte 1 … 7 is directly followed by an octal digit character. -/
theorem literal_escape_roundtrip_partial (std : Bool) (q : Char) (hq : q = dq ∨ q = sq) (s : List Char)
    (hs : Safe s) : denote q (escapeLit std s) = some s :=
  (roundtrip_aux std q hq s hs).1

set_option maxRecDepth 8000 in
/-- non-vacuity: every printable ASCII character, trigraph-like sequences, tab and newline -/
example : Safe (" !\"#$%&'()*+,-./0123456789:;<=>?@ABCDEFGHIJKLMNOPQRSTUVWXYZ[\\]^_`abcdefghijklmnopqrstuvwxyz{|}~" ++
    "??= ??/ ??' \t\n %d %s _").toList := safe_of_safeB _ (by decide +kernel)

/-- full-strength statement over all byte strings -/
def literal_escape_roundtrip_statement : Prop :=
  ∀ (std : Bool) (q : Char), (q = dq ∨ q = sq) → ∀ s : List Char, (∀ c ∈ s, 0 < c.toNat ∧ c.toNat < 256) →
    denote q (escapeLit std s) = some s

/-- **Refuted**: `"\%#o"` writes one to four (or eleven) octal digits; a C compiler reads at most
three and keeps reading digits that follow.  Byte 1 followed by `7` is printed `\017` (one
character, code 15), DEL is printed `\0177` (code 15, then `7`), byte 0xE9 (negative as a `char`)
is printed `\037777777751`. -/
theorem literal_escape_roundtrip_statement_refuted : ¬ literal_escape_roundtrip_statement := by
  intro h
  have := h false dq (Or.inl rfl) [Char.ofNat 1, '7'] (by decide)
  exact absurd this (by decide +kernel)

example : denote dq (escapeLit false [Char.ofNat 1, '7']) = some [Char.ofNat 15] := by decide +kernel
example : denote dq (escapeLit true [Char.ofNat 127]) = some [Char.ofNat 15, '7'] := by decide +kernel
example : escapeLit false [Char.ofNat 233] = "\\037777777751".toList := by decide +kernel

end AldorVerif.CLit

namespace AldorVerif.CSplit

/-! ## file splitting -/

/-- **The parts are consecutive, disjoint and cover all definitions**: concatenating the parts
written by the loop and the remainder kept for the last file gives back the definitions
1 … nDefs-1 in order (for every limit, in particular every `smax > 0`). -/
theorem split_partition (smax : Nat) (bodies : List Nat) (nGlo : Nat) :
    (split smax bodies nGlo).1.flatten ++ (split smax bodies nGlo).2 = weights bodies :=
  splitLoop_flatten smax _ _

/-- no splitting when the limit is 0 -/
theorem split_off (bodies : List Nat) (nGlo : Nat) : split 0 bodies nGlo = ([], weights bodies) :=
  splitLoop_zero _ _

/-- **What the loop guarantees for each part before the last**: dropping its last definition
brings it under the limit (it is never over-full by more than one definition), and it reaches
the limit unless the definitions ran out (then it and all later parts may even be empty: the
number of parts is fixed by the statement estimate alone, `split_count`). -/
theorem split_part_guarantee (smax : Nat) (bodies : List Nat) (nGlo : Nat) :
    ∀ p ∈ (split smax bodies nGlo).1,
      (p ≠ [] → p.dropLast.sum < smax) ∧ (smax ≤ p.sum ∨ (split smax bodies nGlo).2 = []) :=
  splitLoop_parts smax _ _

/-- the number of files before the last depends only on the statement estimate -/
theorem split_count (smax : Nat) (hs : 0 < smax) (bodies : List Nat) (nGlo : Nat) :
    (split smax bodies nGlo).1.length = (guessStmts bodies nGlo - 1) / smax :=
  splitLoop_length smax _ _ hs

/-- non-vacuity: a unit whose definitions run out before the estimate does produces empty parts -/
example : split 1 [3, 2, 2, 4] 2 = ([[3], [3], [5], [], [], [], [], [], [], [], [], []], []) := by
  decide +kernel
example : split 5 [3, 2, 2, 4, 1, 1, 1] 0 = ([[3, 3], [5]], [2, 2, 2]) := by decide +kernel

/-- **Every part gets its own initialiser**: in a split unit the elements after the header
define pairwise different `INIT__k` functions. -/
theorem init_distinct (l i j : Nat) (hi : 0 < i) (hj : 0 < j) (hij : i ≠ j) :
    initIndex true l i ≠ initIndex true l j ∧ (initIndex true l i).isSome := by
  unfold initIndex
  have h1 : ¬ i = 0 := by omega
  have h2 : ¬ j = 0 := by omega
  simp only [if_true, h1, h2, if_false]
  constructor
  · split <;> split <;> simp <;> omega
  · split <;> simp

/-- full-strength statement: all `.c` files of one unit have different names -/
def split_names_distinct_statement : Prop :=
  ∀ (base : List Char) (nparts : Nat), (partFiles base nparts).Nodup

/-- **File names are distinct** as long as the unit's own name is not itself of the form
"first five characters + number" used for the continuation files. -/
theorem split_names_distinct_partial (base : List Char) (nparts : Nat)
    (h : ∀ k, 1 ≤ k → k < nparts → base ≠ base.take prefLen ++ pad3 k) :
    (partFiles base nparts).Nodup := by
  unfold partFiles
  rw [List.nodup_iff_pairwise_ne, List.pairwise_map]
  refine List.Pairwise.imp_of_mem ?_ (List.nodup_iff_pairwise_ne.mp (List.nodup_range (n := nparts)))
  intro a b ha hb hab heq
  simp only [List.mem_range] at ha hb
  by_cases ha0 : a = 0
  · subst ha0
    have hb0 : b ≠ 0 := fun e => hab e.symm
    have : partFile base (b + 1) = base.take prefLen ++ pad3 b := by
      unfold partFile; have : ¬ b + 1 ≤ 1 := by omega
      simp [this]
    rw [this] at heq
    have : partFile base (0 + 1) = base := by unfold partFile; simp
    rw [this] at heq
    exact h b (by omega) hb heq
  · by_cases hb0 : b = 0
    · subst hb0
      have : partFile base (a + 1) = base.take prefLen ++ pad3 a := by
        unfold partFile; have : ¬ a + 1 ≤ 1 := by omega
        simp [this]
      rw [this] at heq
      have : partFile base (0 + 1) = base := by unfold partFile; simp
      rw [this] at heq
      exact h a (by omega) ha heq.symm
    · have := partFile_inj base (i := a + 1) (j := b + 1) (by omega) (by omega) heq
      omega

/-- in particular for every unit name shorter than eight characters -/
theorem split_names_distinct_short (base : List Char) (nparts : Nat) (hl : base.length < 8) :
    (partFiles base nparts).Nodup := by
  apply split_names_distinct_partial
  intro k _ _ heq
  have := congrArg List.length heq
  simp only [List.length_append, List.length_take, prefLen] at this
  have := pad3_length k
  omega

/-- the continuation files always differ among themselves -/
theorem split_names_distinct (base : List Char) (i j : Nat) (hi : 2 ≤ i) (hj : 2 ≤ j) (hij : i ≠ j) :
    partFile base i ≠ partFile base j :=
  fun h => hij (partFile_inj base hi hj h)

/-- **Refutation of the full statement**: a unit called `abcde001` that is split into two or
more files has its second part written to `abcde001.c` again, over the first. -/
theorem split_names_distinct_statement_refuted : ¬ split_names_distinct_statement := by
  intro h
  exact absurd (h "abcde001".toList 2) (by decide +kernel)

end AldorVerif.CSplit
