import AldorVerif.Model.Emit
import AldorVerif.Gen.EmitSites

/-! # C18 — a successful exit means every requested output was written

`Gen.EmitSites.sites` (regenerated on every run from the clang AST of the tree under test) lists
every stdio call on an output stream with the flag `checked`.  The decision logic is honest
when all sites are checked (`checked_implies_honest`); they are (`all_sites_checked`, by
`decide` over the generated table, so a new unchecked `fclose` or a removed check breaks it),
hence `honest_today`.  A single unchecked site would be enough for a run that exits 0 with an
incomplete file (`unchecked_site_dishonest`; that was the state before the repair
"failed writes and closes of output files passed for success"). -/
namespace AldorVerif.Emit
open AldorVerif.Gen

def opOf : EmitSites.Op → Op
  | .write => .write
  | .flush => .flush
  | .close => .close

def stepOf (s : EmitSites.Site) : Step := ⟨opOf s.op, s.checked⟩

/-- the `open` performed by `fileMustOpen` (result tested) -/
def openStep : Step := ⟨.opn, true⟩

/-- an output whose every step is an `open` or the execution of one of the listed sites of its kind -/
def FromSites (sites : List EmitSites.Site) (o : Output) : Prop :=
  ∀ st ∈ o.steps, st = openStep ∨ ∃ s ∈ sites, s.kind = o.kind ∧ stepOf s = st

theorem runSteps_honest (steps : List Step) (hc : ∀ s ∈ steps, s.checked = true) (st : St) (faults : List Bool)
    (hinv : st.noticed = false → st.complete = true) :
    (runSteps st steps faults).noticed = false → (runSteps st steps faults).complete = true := by
  induction steps generalizing st faults with
  | nil => cases faults <;> simpa [runSteps] using hinv
  | cons s ss ih =>
    have hs := hc s (by simp)
    have hss : ∀ t ∈ ss, t.checked = true := fun t ht => hc t (by simp [ht])
    cases faults with
    | nil =>
      simp only [runSteps]
      exact ih hss _ _ (by simpa [stepRun] using hinv)
    | cons f fs =>
      simp only [runSteps]
      apply ih hss
      unfold stepRun
      cases f
      · simpa using hinv
      · simp [hs]

theorem runOutputs_honest (outs : List Output) (hc : ∀ o ∈ outs, ∀ s ∈ o.steps, s.checked = true)
    (faults : List (List Bool)) :
    ∀ st ∈ runOutputs outs faults, st.noticed = false → st.complete = true := by
  induction outs generalizing faults with
  | nil => intro st h; cases faults <;> simp [runOutputs] at h
  | cons o os ih =>
    have ho := hc o (by simp)
    have hos : ∀ p ∈ os, ∀ s ∈ p.steps, s.checked = true := fun p hp => hc p (by simp [hp])
    intro st h
    cases faults with
    | nil =>
      simp only [runOutputs, List.mem_cons] at h
      rcases h with rfl | h
      · exact runSteps_honest _ ho _ _ (by simp [St.init])
      · exact ih hos [] st h
    | cons f fs =>
      simp only [runOutputs, List.mem_cons] at h
      rcases h with rfl | h
      · exact runSteps_honest _ ho _ _ (by simp [St.init])
      · exact ih hos fs st h

/-- **C18, decision logic**: if every site is checked then, whatever fails, exit status 0 means
every requested output is complete. -/
theorem checked_implies_honest (sites : List EmitSites.Site) (hall : ∀ s ∈ sites, s.checked = true)
    (outs : List Output) (hfrom : ∀ o ∈ outs, FromSites sites o) (faults : List (List Bool)) :
    (run outs faults).exit = 0 → (run outs faults).allComplete = true := by
  have hc : ∀ o ∈ outs, ∀ s ∈ o.steps, s.checked = true := by
    intro o ho st hst
    rcases hfrom o ho st hst with rfl | ⟨s, hs, _, rfl⟩
    · rfl
    · exact hall s hs
  have hh := runOutputs_honest outs hc faults
  unfold run Result.allComplete
  simp only
  intro hexit
  have hnone : (runOutputs outs faults).any (·.noticed) = false := by
    cases h : (runOutputs outs faults).any (·.noticed)
    · rfl
    · simp [h] at hexit
  rw [List.all_eq_true]
  intro b hb
  rw [List.mem_map] at hb
  obtain ⟨st, hst, rfl⟩ := hb
  have : st.noticed = false := by
    have := List.any_eq_false.mp hnone st hst
    simpa using this
  simpa using hh st hst this

/-- the hypothesis of `checked_implies_honest`, for the repository's sources -/
def all_sites_checked_statement : Prop := ∀ s ∈ EmitSites.sites, s.checked = true

/-- every stdio call on an output stream is checked: its result is tested, or (write/flush) the
function that closes that output consults `ferror` before the tested close. -/
theorem all_sites_checked : all_sites_checked_statement := by
  unfold all_sites_checked_statement; decide +kernel

/-- **C18 for the sources as they are**: any outputs produced by executing the listed sites,
under any faults: exit status 0 implies every requested output is complete. -/
theorem honest_today (outs : List Output) (hfrom : ∀ o ∈ outs, FromSites EmitSites.sites o)
    (faults : List (List Bool)) :
    (run outs faults).exit = 0 → (run outs faults).allComplete = true :=
  checked_implies_honest EmitSites.sites all_sites_checked outs hfrom faults

/-- the table is not vacuous: every output kind has a close site (and it is checked) -/
theorem every_kind_has_checked_close :
    (∀ k ∈ ["ai", "ap", "asy", "ao", "fm", "lsp", "c", "java"], k ∈ EmitSites.kinds) ∧
    ∀ k ∈ EmitSites.kinds, ∃ s ∈ EmitSites.sites, s.kind = k ∧ s.op = .close ∧ s.checked = true := by
  decide +kernel

/-- **one unchecked site suffices for a dishonest run**: open the file, execute the site, let it
fail: exit status 0, file incomplete. -/
theorem unchecked_site_dishonest (s : EmitSites.Site) (hs : s.checked = false) :
    let o : Output := ⟨s.kind, [openStep, stepOf s]⟩
    FromSites [s] o ∧ (run [o] [[false, true]]).exit = 0 ∧ (run [o] [[false, true]]).allComplete = false := by
  refine ⟨?_, ?_, ?_⟩
  · intro st hst
    simp only [List.mem_cons, List.not_mem_nil, or_false] at hst
    rcases hst with rfl | rfl
    · exact Or.inl rfl
    · exact Or.inr ⟨s, by simp, rfl, rfl⟩
  · simp [run, runOutputs, runSteps, stepRun, stepOf, St.init, hs]
  · simp [run, runOutputs, runSteps, stepRun, stepOf, St.init, Result.allComplete]

/-! non-vacuity: a checked close notices a failure; unchecked steps let it pass -/
example : ∃ o, FromSites EmitSites.sites o ∧ o.steps.length = 3 :=
  ⟨⟨"c", [openStep, openStep, openStep]⟩, fun st hst => Or.inl (by simp at hst; exact hst), rfl⟩
example : (run [⟨"c", [openStep, ⟨.write, true⟩, ⟨.close, true⟩]⟩] [[false, false, true]]).exit = 1 := by decide
example : (run [⟨"c", [openStep, ⟨.write, false⟩, ⟨.close, true⟩]⟩] [[false, true, false]]) = ⟨0, [false]⟩ := by decide
example : (run [⟨"c", [openStep, ⟨.write, false⟩, ⟨.close, false⟩]⟩, ⟨"fm", [openStep, ⟨.close, false⟩]⟩] [[], [false, true]])
    = ⟨0, [true, false]⟩ := by decide

end AldorVerif.Emit
