import AldorVerif.Model.Emit
import AldorVerif.Gen.EmitSites

/-! # C18 — a successful exit means every requested output was written

`Gen.EmitSites.sites` (generated from the clang AST of the repository's sources) lists every
stdio call on an output stream with the flag `checked`.  The decision logic is honest when all
sites are checked (`checked_implies_honest`); today none is (`all_sites_checked_refuted`), and a
single unchecked site is enough for a run that exits 0 with an incomplete file
(`unchecked_site_dishonest`, replayed on the real compiler by checks/parts/emit.py). -/
namespace AldorVerif.Emit
open AldorVerif.Gen

def opOf : EmitSites.Op → Op
  | .write => .write
  | .flush => .flush
  | .close => .close

def stepOf (s : EmitSites.Site) : Step := ⟨opOf s.op, s.checked⟩

/-- the `open` performed by `fileMustOpen` (result tested) -/
def openStep : Step := ⟨.opn, true⟩

/-- an output whose every step is an `open` or the execution of one of the listed sites of its kind -/
def FromSites (sites : List EmitSites.Site) (o : Output) : Prop :=
  ∀ st ∈ o.steps, st = openStep ∨ ∃ s ∈ sites, s.kind = o.kind ∧ stepOf s = st

theorem runSteps_honest (steps : List Step) (hc : ∀ s ∈ steps, s.checked = true) (st : St) (faults : List Bool)
    (hinv : st.noticed = false → st.complete = true) :
    (runSteps st steps faults).noticed = false → (runSteps st steps faults).complete = true := by
  induction steps generalizing st faults with
  | nil => cases faults <;> simpa [runSteps] using hinv
  | cons s ss ih =>
    have hs := hc s (by simp)
    have hss : ∀ t ∈ ss, t.checked = true := fun t ht => hc t (by simp [ht])
    cases faults with
    | nil =>
      simp only [runSteps]
      exact ih hss _ _ (by simpa [stepRun] using hinv)
    | cons f fs =>
      simp only [runSteps]
      apply ih hss
      unfold stepRun
      cases f
      · simpa using hinv
      · simp [hs]

theorem runOutputs_honest (outs : List Output) (hc : ∀ o ∈ outs, ∀ s ∈ o.steps, s.checked = true)
    (faults : List (List Bool)) :
    ∀ st ∈ runOutputs outs faults, st.noticed = false → st.complete = true := by
  induction outs generalizing faults with
  | nil => intro st h; cases faults <;> simp [runOutputs] at h
  | cons o os ih =>
    have ho := hc o (by simp)
    have hos : ∀ p ∈ os, ∀ s ∈ p.steps, s.checked = true := fun p hp => hc p (by simp [hp])
    intro st h
    cases faults with
    | nil =>
      simp only [runOutputs, List.mem_cons] at h
      rcases h with rfl | h
      · exact runSteps_honest _ ho _ _ (by simp [St.init])
      · exact ih hos [] st h
    | cons f fs =>
      simp only [runOutputs, List.mem_cons] at h
      rcases h with rfl | h
      · exact runSteps_honest _ ho _ _ (by simp [St.init])
      · exact ih hos fs st h

/-- **C18, decision logic**: if every site is checked then, whatever fails, exit status 0 means
every requested output is complete. -/
theorem checked_implies_honest (sites : List EmitSites.Site) (hall : ∀ s ∈ sites, s.checked = true)
    (outs : List Output) (hfrom : ∀ o ∈ outs, FromSites sites o) (faults : List (List Bool)) :
    (run outs faults).exit = 0 → (run outs faults).allComplete = true := by
  have hc : ∀ o ∈ outs, ∀ s ∈ o.steps, s.checked = true := by
    intro o ho st hst
    rcases hfrom o ho st hst with rfl | ⟨s, hs, _, rfl⟩
    · rfl
    · exact hall s hs
  have hh := runOutputs_honest outs hc faults
  unfold run Result.allComplete
  simp only
  intro hexit
  have hnone : (runOutputs outs faults).any (·.noticed) = false := by
    cases h : (runOutputs outs faults).any (·.noticed)
    · rfl
    · simp [h] at hexit
  rw [List.all_eq_true]
  intro b hb
  rw [List.mem_map] at hb
  obtain ⟨st, hst, rfl⟩ := hb
  have : st.noticed = false := by
    have := List.any_eq_false.mp hnone st hst
    simpa using this
  simpa using hh st hst this

/-- the hypothesis of `checked_implies_honest`, for the repository's sources -/
def all_sites_checked_statement : Prop := ∀ s ∈ EmitSites.sites, s.checked = true

/-- **false today**: no output `fclose` (nor any write) is checked. -/
theorem all_sites_checked_refuted : ¬ all_sites_checked_statement := by
  unfold all_sites_checked_statement; decide +kernel

/-- the unchecked close sites, by file, function and output kind -/
theorem unchecked_close_sites :
    ((EmitSites.sites.filter (fun s => decide (s.op = .close) && !s.checked)).map
      (fun s => (s.file, s.func, s.kind))) =
    [("emit.c", "emitTheAnnotatedAbSyn", "abn"), ("emit.c", "emitTheIncluded", "ai"),
     ("emit.c", "emitTheIntermed", "ao"), ("lib.c", "libClose", "ao"),
     ("emit.c", "emitTheAbSyn", "ap"), ("emit.c", "emitTheSymbolExpr", "asy"), ("emit.c", "emitTheOldAbSyn", "ax"),
     ("emit.c", "emitTheC", "c"), ("emit.c", "emitTheC", "c"), ("emit.c", "emitTheFoamExpr", "fm"),
     ("emit.c", "emitOneJavaFile", "java"), ("emit.c", "emitTheLisp", "lsp")] := by decide +kernel

/-- today not a single site is checked -/
theorem no_site_checked : EmitSites.sites.all (fun s => !s.checked) = true := by decide +kernel

/-- every output kind has an unchecked close -/
theorem every_kind_has_unchecked_close :
    ∀ k ∈ EmitSites.kinds, ∃ s ∈ EmitSites.sites, s.kind = k ∧ s.op = .close ∧ s.checked = false := by
  decide +kernel

/-- **one unchecked site suffices for a dishonest run**: open the file, execute the site, let it
fail: exit status 0, file incomplete. -/
theorem unchecked_site_dishonest (s : EmitSites.Site) (hs : s.checked = false) :
    let o : Output := ⟨s.kind, [openStep, stepOf s]⟩
    FromSites [s] o ∧ (run [o] [[false, true]]).exit = 0 ∧ (run [o] [[false, true]]).allComplete = false := by
  refine ⟨?_, ?_, ?_⟩
  · intro st hst
    simp only [List.mem_cons, List.not_mem_nil, or_false] at hst
    rcases hst with rfl | rfl
    · exact Or.inl rfl
    · exact Or.inr ⟨s, by simp, rfl, rfl⟩
  · simp [run, runOutputs, runSteps, stepRun, stepOf, St.init, hs]
  · simp [run, runOutputs, runSteps, stepRun, stepOf, St.init, Result.allComplete]

/-- the concrete witness replayed on the compiler: `fclose(fout)` of the C file in `emitTheC` -/
theorem dishonest_today :
    ∃ s ∈ EmitSites.sites, s.file = "emit.c" ∧ s.func = "emitTheC" ∧ s.op = .close ∧
      (run [⟨s.kind, [openStep, stepOf s]⟩] [[false, true]]).exit = 0 ∧
      (run [⟨s.kind, [openStep, stepOf s]⟩] [[false, true]]).allComplete = false := by
  decide +kernel

/-! non-vacuity: a fully checked site list exists and yields honest runs; a checked close notices -/
example : (run [⟨"c", [openStep, ⟨.write, true⟩, ⟨.close, true⟩]⟩] [[false, false, true]]).exit = 1 := by decide
example : (run [⟨"c", [openStep, ⟨.write, false⟩, ⟨.close, true⟩]⟩] [[false, true, false]]) = ⟨0, [false]⟩ := by decide
example : (run [⟨"c", [openStep, ⟨.write, false⟩, ⟨.close, false⟩]⟩, ⟨"fm", [openStep, ⟨.close, false⟩]⟩] [[], [false, true]])
    = ⟨0, [true, false]⟩ := by decide

end AldorVerif.Emit
