import AldorVerif.Lemmas.LibHdr
import AldorVerif.Lemmas.Archive

/-! # C17 — damaged library files are refused, never silently used: theorems about the models
of `lib.c` (header code, as repaired) and `archive.c` (member walk).

`libChkHeader` by itself checks magic, version, the number of sections, the name ↔ index maps
and *contiguity* of the section table, never the file size (`chk_exactly`,
`chk_alone_does_not_bound`).  The repaired `libGetHeader` tests the `fread` count, honours that
verdict and compares the end of the last section with the file size, so an accepted header
describes sections inside the file (`accepted_in_bounds`), every section read is complete
(`accepted_sections_complete`) and every truncation of a file that ends with its last section
is refused (`truncation_refused`).  Not covered by any check of the code: the *content* of the
section bodies (no checksum; `checks/parts/libhdr.py` records what the decoders do with single
byte substitutions there), and bytes after the last section (`trailing_bytes_accepted`). -/
namespace AldorVerif.LibHdr

/-- **what `libChkHeader` guarantees** -/
theorem chk_contiguous (h : Hdr) (hok : chk h = .ok) :
    h.magic = hdrMagic ∧ majorVersion ≤ h.verMajor ∧ h.numSect ≤ nameLimit ∧
    (∀ i, i < h.numSect → (h.sectAt i).name < nameLimit ∧ h.index (h.sectAt i).name = i) ∧
    (h.sectAt 0).offset = hdrSize ∧
    (∀ i, 0 < i → i < h.numSect →
      (h.sectAt i).offset = (h.sectAt (i - 1)).offset + (h.sectAt (i - 1)).length) ∧
    (∀ i j, i < j → j < h.numSect → (h.sectAt i).offset + (h.sectAt i).length ≤ (h.sectAt j).offset) := by
  have hf := (chk_ok_iff h).mp hok
  refine ⟨hf.magic, ?_, hf.num, hf.names, hf.off0, hf.contig, hf.mono⟩
  have := hf.version
  omega

/-- … and nothing else: any header with these facts is accepted -/
theorem chk_exactly (h : Hdr) : chk h = .ok ↔ ChkFacts h := chk_ok_iff h

/-- the section names of an accepted header are pairwise different -/
theorem chk_names_distinct (h : Hdr) (hok : chk h = .ok) (i j : Nat) (hi : i < h.numSect)
    (hj : j < h.numSect) (he : (h.sectAt i).name = (h.sectAt j).name) : i = j := by
  have hf := (chk_ok_iff h).mp hok
  have h1 := (hf.names i hi).2
  have h2 := (hf.names j hj).2
  rw [he] at h1; omega

/-- every section of a header accepted by `chk` ends no later than the last one -/
theorem chk_sections_below_end (h : Hdr) (hok : chk h = .ok) (i : Nat) (hi : i < h.numSect) :
    (h.sectAt i).offset + (h.sectAt i).length ≤ endOf h := by
  have hf := (chk_ok_iff h).mp hok
  unfold endOf
  have hne : ¬ h.numSect = 0 := by omega
  rw [if_neg hne]
  by_cases hlast : i = h.numSect - 1
  · rw [← hlast]; exact Nat.le_refl _
  · have := hf.mono i (h.numSect - 1) (by omega) (by omega)
    omega

theorem getHeader_some (file junk : List Nat) (h : Hdr) :
    getHeader file junk = some h ↔
      readCount file 0 hdrSize = hdrSize ∧ h = readHeader file junk ∧ chk h = .ok ∧ endOf h ≤ file.length := by
  unfold getHeader getHeaderE
  by_cases h1 : readCount file 0 hdrSize = hdrSize
  · rw [if_pos h1]
    simp only
    by_cases h2 : chk (readHeader file junk) = .ok
    · rw [if_pos h2]
      by_cases h3 : endOf (readHeader file junk) ≤ file.length
      · rw [if_pos h3]
        constructor
        · intro he; injection he with he; subst he; exact ⟨h1, rfl, h2, h3⟩
        · intro ⟨_, he, _, _⟩; rw [he]
      · rw [if_neg h3]
        constructor
        · intro he; cases he
        · intro ⟨_, he, _, h4⟩; subst he; exact absurd h4 h3
    · rw [if_neg h2]
      constructor
      · intro he; cases he
      · intro ⟨_, he, h4, _⟩; subst he; exact absurd h4 h2
  · rw [if_neg h1]
    constructor
    · intro he; cases he
    · intro ⟨h4, _⟩; exact absurd h4 h1

/-- **C17, header part**: a header `libGetHeader` accepts passes `libChkHeader` and describes
sections that lie within the file. -/
theorem accepted_in_bounds (file junk : List Nat) (h : Hdr) (hc : getHeader file junk = some h) :
    chk h = .ok ∧ ∀ i, i < h.numSect → (h.sectAt i).offset + (h.sectAt i).length ≤ file.length := by
  obtain ⟨_, _, hok, hfin⟩ := (getHeader_some file junk h).mp hc
  exact ⟨hok, fun i hi => Nat.le_trans (chk_sections_below_end h hok i hi) hfin⟩

/-- the whole header was read from the file: no uninitialised byte takes part -/
theorem accepted_independent_of_junk (file junk junk' : List Nat) (h : Hdr)
    (hc : getHeader file junk = some h) : getHeader file junk' = some h := by
  obtain ⟨hcnt, hh, hok, hfin⟩ := (getHeader_some file junk h).mp hc
  have hlen : hdrSize ≤ file.length := by simp [readCount] at hcnt; omega
  have hb : ∀ j, readBuf file 0 hdrSize j = (file.drop 0).take hdrSize :=
    fun j => readBuf_exact file j 0 hdrSize (by omega)
  rw [getHeader_some]
  refine ⟨hcnt, ?_, hok, hfin⟩
  rw [hh]; unfold readHeader; rw [hb junk, hb junk']

/-- the test of the file size is needed: `libChkHeader` alone accepts headers of files that
are too short (this was the state of the code before the repair). -/
def witnessHdr : Hdr := (build newHeader [(15, 10)]).getD newHeader
def witnessFile : List Nat := putHeader witnessHdr ++ List.replicate 10 65

theorem chk_alone_does_not_bound :
    ¬ ∀ (file junk : List Nat), chk (readHeader file junk) = .ok → endOf (readHeader file junk) ≤ file.length := by
  intro h
  have := h (witnessFile.take 170) [] (by decide +kernel)
  revert this; decide +kernel

/-- a cut after the header leaves the parsed header unchanged (so only the size test can
refuse it) -/
theorem truncation_keeps_header (file junk : List Nat) (n : Nat) (hn : hdrSize ≤ n) :
    readHeader (file.take n) junk = readHeader file junk := by
  simp only [readHeader, readBuf_take _ _ _ _ hn]

/-- **every strict truncation of an accepted file that ends with its last section is refused** -/
theorem truncation_refused (file junk : List Nat) (h : Hdr) (n : Nat)
    (hc : getHeader file junk = some h) (hend : endOf h = file.length) (hlt : n < file.length) :
    getHeader (file.take n) junk = none := by
  obtain ⟨hcnt, hh, hok, hfin⟩ := (getHeader_some file junk h).mp hc
  cases hx : getHeader (file.take n) junk with
  | none => rfl
  | some h' =>
    exfalso
    obtain ⟨hcnt', hh', _, hfin'⟩ := (getHeader_some _ junk h').mp hx
    have hn : hdrSize ≤ n := by
      simp [readCount, List.take_take] at hcnt'; omega
    rw [truncation_keeps_header file junk n hn, ← hh] at hh'
    subst hh'
    rw [hend, List.length_take] at hfin'
    omega

/-- bytes after the last section are not looked at (the equality `end = size` is not tested) -/
theorem trailing_bytes_accepted (file junk extra : List Nat) (h : Hdr)
    (hc : getHeader file junk = some h) : getHeader (file ++ extra) junk = some h := by
  obtain ⟨hcnt, hh, hok, hfin⟩ := (getHeader_some file junk h).mp hc
  have hlen : hdrSize ≤ file.length := by simp [readCount] at hcnt; omega
  rw [getHeader_some]
  have hrb : readBuf (file ++ extra) 0 hdrSize junk = readBuf file 0 hdrSize junk := by
    rw [readBuf_exact _ _ _ _ (by simp; omega), readBuf_exact _ _ _ _ (by omega)]
    simp [List.take_append_of_le_length hlen]
  refine ⟨by simp [readCount]; omega, ?_, hok, by simp; omega⟩
  rw [hh]; unfold readHeader; rw [hrb]

/-! ### the writer -/

/-- the widths of the fields in the file -/
def FitsWidths (h : Hdr) : Prop := ∀ s ∈ h.sects, s.InRange

theorem putHeader_length (h : Hdr) (hl : h.sects.length = nameLimit) : (putHeader h).length = hdrSize := by
  simp [putHeader, putHInt, putSInt, putSects_length, hl, hdrSize, fixedSize, sectSize, nameLimit]

/-- reading back what `libPutHeader` wrote gives the same header fields and table -/
theorem readHeader_putHeader (h : Hdr) (hb : Built h) (hw : FitsWidths h) (body junk : List Nat) :
    let h' := readHeader (putHeader h ++ body) junk
    h'.magic = h.magic ∧ h'.verMajor = h.verMajor ∧ h'.verMinor = h.verMinor ∧
    h'.numSect = h.numSect ∧ h'.sects = h.sects ∧
    h'.index = setupIndex (h.sects.take h.numSect) 0 (fun _ => nameLimit) := by
  have hlen := putHeader_length h hb.len
  have hr : readBuf (putHeader h ++ body) 0 hdrSize junk = putHeader h := by
    rw [← hlen]; exact readBuf_prefix _ _ _
  simp only [readHeader, hr]
  have hs : getSects nameLimit (putSects h.sects) = h.sects := by
    have := getSects_putSects h.sects [] hw
    rw [hb.len, List.append_nil] at this
    exact this
  have hm : h.magic < 65536 := by rw [hb.magic]; decide
  have hn : h.numSect < 65536 := by have := hb.num; unfold nameLimit at this; omega
  have ha : h.verMajor < 4294967296 := by rw [hb.vmaj]; decide
  have hi : h.verMinor < 4294967296 := by rw [hb.vmin]; decide
  simp only [putHeader, putHInt, putSInt, List.cons_append, List.nil_append, decode, hs]
  simp only [getHInt_putHInt _ hm, getHInt_putHInt _ hn, getSInt_putSInt _ ha, getSInt_putSInt _ hi]
  exact ⟨trivial, trivial, trivial, trivial, trivial, trivial⟩

/-- **every library produced by the writer is accepted when read back**: sections added with
`libAddSection`/`libPutSection` in any order, distinct names below `LIB_NAME_LIMIT`, at least
one section (an empty header is refused by `libChkHeader`, and `libPutHeader` then stops with
`bug("bad header given to libPutHeader")`), all offsets within 32 bits, the bodies present. -/
theorem intact_accepted (reqs : List (Nat × Nat)) (h : Hdr) (hbuild : build newHeader reqs = some h)
    (hne : reqs ≠ []) (hn : ∀ r ∈ reqs, r.1 < nameLimit) (hw : FitsWidths h) (body junk : List Nat)
    (hbody : endOf h ≤ hdrSize + body.length) :
    ∃ h', getHeader (putHeader h ++ body) junk = some h' ∧ h'.numSect = h.numSect ∧ h'.sects = h.sects := by
  obtain ⟨hb, hnum⟩ := built_build reqs built_new hn hbuild
  have hpos : 0 < h.numSect := by
    rw [hnum]; cases reqs with
    | nil => exact absurd rfl hne
    | cons r rs => simp [newHeader]
  obtain ⟨e1, e2, e3, e4, e5, e6⟩ := readHeader_putHeader h hb hw body junk
  have hplen := putHeader_length h hb.len
  refine ⟨readHeader (putHeader h ++ body) junk, ?_, e4, e5⟩
  rw [getHeader_some]
  have hsa : ∀ i, (readHeader (putHeader h ++ body) junk).sectAt i = h.sectAt i := by
    intro i; simp only [Hdr.sectAt, e5]
  have hend : endOf (readHeader (putHeader h ++ body) junk) = endOf h := by
    unfold endOf; rw [e4, hsa]
  refine ⟨by simp [readCount, hplen], rfl, ?_, by rw [hend]; simp [hplen]; omega⟩
  rw [chk_ok_iff]
  constructor
  · rw [e1]; exact hb.magic
  · rw [e2, e3, hb.vmaj, hb.vmin]; decide
  · rw [e4]; exact hb.num
  · intro i hi
    rw [e4] at hi
    rw [hsa, e6]
    have hu := hb.used i hi
    refine ⟨hu.1, ?_⟩
    have hnl := hb.num
    have hlen := hb.len
    have hgd : ∀ j, j < h.numSect → (h.sects.take h.numSect).getD j Sect.none = h.sectAt j := by
      intro j hj
      simp [Hdr.sectAt, List.getD_eq_getElem?_getD, List.getElem?_take, hj]
    have := setupIndex_unique (h.sects.take h.numSect) 0 (fun _ => nameLimit) (h.sectAt i).name i
      (by simp; omega) (by rw [hgd i hi]) hu.1
      (by
        intro j hj hjn
        have hj' : j < h.numSect := by simp at hj; omega
        rw [hgd j hj'] at hjn
        have h2 := (hb.used j hj').2
        rw [hjn, hu.2] at h2; exact h2.symm)
    rw [this]; omega
  · rw [hsa]; exact hb.off0 hpos
  · intro i hi0 hi
    rw [e4] at hi
    rw [hsa, hsa]; exact hb.contig i hi0 hi

/-! ### `libGetSection` -/

/-- a section that is handed to a decoder was read completely and is exactly the bytes of the file -/
theorem getSection_exact (file : List Nat) (h : Hdr) (name : Nat) (junk : List Nat) (r : SectRead)
    (hr : getSection file h name junk = some (some r)) :
    r.want = sectLength h name ∧ r.got = r.want ∧
    r.data = (file.drop (sectOffset h name)).take (sectLength h name) := by
  unfold getSection at hr
  by_cases hs : hasSection h name = true
  · rw [if_pos hs] at hr
    by_cases hg : readCount file (sectOffset h name) (sectLength h name) = sectLength h name
    · rw [if_pos hg] at hr
      injection hr with hr; injection hr with hr; subst hr
      refine ⟨rfl, hg, ?_⟩
      simp only [readSection, readBuf]
      simp only [readCount] at hg
      rw [hg]; simp
    · rw [if_neg hg] at hr; cases hr
  · rw [if_neg hs] at hr; cases hr

/-- a read that the file cannot satisfy is refused (never handed on) -/
theorem getSection_short_refused (file : List Nat) (h : Hdr) (name : Nat) (junk : List Nat)
    (hs : hasSection h name = true) (hb : file.length < sectOffset h name + sectLength h name)
    (hpos : 0 < sectLength h name) : getSection file h name junk = none := by
  unfold getSection
  rw [if_pos hs, if_neg]
  simp [readCount]; omega

/-- `Index[]` of a parsed header points to an entry in use or is `LIB_INDEX_LIMIT` -/
theorem readHeader_index (file junk : List Nat) (n : Nat) :
    (readHeader file junk).index n = nameLimit ∨
    (readHeader file junk).index n < (readHeader file junk).numSect := by
  simp only [readHeader]
  generalize readBuf file 0 hdrSize junk = buf
  unfold decode
  split
  · simp only
    rename_i m0 m1 a0 a1 a2 a3 b0 b1 b2 b3 n0 n1 rest
    rcases setupIndex_range ((getSects nameLimit rest).take (getHInt n0 n1)) 0 (fun _ => nameLimit) n with h | h
    · exact Or.inl h
    · refine Or.inr ?_
      have := h.2
      simp only [List.length_take] at this
      omega
  · exact Or.inl rfl

/-- **every section of an accepted file is read completely**: after `libGetHeader` succeeded,
`libGetSection` never meets a short read, whatever the name asked for. -/
theorem accepted_sections_complete (file junk junk2 : List Nat) (h : Hdr) (name : Nat)
    (hc : getHeader file junk = some h) : getSection file h name junk2 ≠ none := by
  obtain ⟨hok, hin⟩ := accepted_in_bounds file junk h hc
  obtain ⟨_, hh, _, _⟩ := (getHeader_some file junk h).mp hc
  unfold getSection
  by_cases hs : hasSection h name = true
  · rw [if_pos hs]
    have hidx := readHeader_index file junk name
    rw [← hh] at hidx
    rcases hidx with h17 | hlt
    · exfalso
      have hl : h.sects.length = nameLimit := by rw [hh]; exact decode_sects_length _
      have h0 := sectAt_limit h hl
      simp [hasSection, sectOffset, h17, h0, Sect.none] at hs
    · have hb := hin (h.index name) hlt
      rw [if_pos (by simp [readCount, sectOffset, sectLength]; omega)]
      simp
  · rw [if_neg hs]; simp

/-! ### truncation classes -/

/-- **a truncation point falls in exactly one class**: for a file whose header is accepted and
whose last section ends at the end of the file, cutting at `n < file length` removes a first
byte that lies in the fixed header (`n < 12`), in the section table (`12 ≤ n < 165`) or in the
body of exactly one section `i`; `truncClass` computes that class. -/
theorem truncation_classes (h : Hdr) (fileLen n : Nat) (hok : chk h = .ok) (hpos : 0 < h.numSect)
    (hend : (h.sectAt (h.numSect - 1)).offset + (h.sectAt (h.numSect - 1)).length = fileLen)
    (hn : n < fileLen) :
    (truncClass h n = .header ↔ n < fixedSize) ∧
    (truncClass h n = .table ↔ fixedSize ≤ n ∧ n < hdrSize) ∧
    (∀ i, truncClass h n = .section i ↔ hdrSize ≤ n ∧ i < h.numSect ∧ InSect h n i) ∧
    truncClass h n ≠ .beyond ∧
    (hdrSize ≤ n → ∃ i, i < h.numSect ∧ InSect h n i ∧ ∀ j, j < h.numSect → InSect h n j → j = i) := by
  have hf := (chk_ok_iff h).mp hok
  have hfs : fixedSize ≤ hdrSize := by decide
  have hcov : hdrSize ≤ n → ∃ i, i < h.numSect ∧ InSect h n i ∧ ∀ j, j < h.numSect → InSect h n j → j = i := by
    intro hge
    obtain ⟨i, hi, hin⟩ := hf.cover n h.numSect hpos (Nat.le_refl _) hge (by rw [hend]; exact hn)
    exact ⟨i, hi, hin, fun j hj hjn => hf.inSect_unique n j i hj hi hjn hin⟩
  unfold truncClass
  by_cases h1 : n < fixedSize
  · simp only [if_pos h1]
    refine ⟨by simp [h1], by simp; omega, fun i => by simp; omega, by simp, fun hge => by omega⟩
  · by_cases h2 : n < hdrSize
    · simp only [if_neg h1, if_pos h2]
      refine ⟨by simp [h1], by simp; omega, fun i => by simp; omega, by simp, fun hge => by omega⟩
    · simp only [if_neg h1, if_neg h2]
      have hge : hdrSize ≤ n := by omega
      obtain ⟨i, hi, hin, hu⟩ := hcov hge
      have hfs' := findSect_of_unique h n (List.range h.numSect) i (List.mem_range.mpr hi) hin
        (fun j hj => hu j (List.mem_range.mp hj))
      rw [hfs']
      refine ⟨by simp [h1], by simp; omega, fun k => ?_, by simp, fun _ => ⟨i, hi, hin, hu⟩⟩
      constructor
      · intro he; injection he with he; subst he; exact ⟨hge, hi, hin⟩
      · intro ⟨_, hk, hkin⟩; rw [hu k hk hkin]

/-! ### non-vacuity -/

/-- a three-section library that meets every hypothesis above -/
def sampleHdr : Hdr := (build newHeader [(5, 552), (0, 1748), (15, 10)]).getD newHeader
def sampleFile : List Nat := putHeader sampleHdr ++ List.replicate 2310 7

example : (build newHeader [(5, 552), (0, 1748), (15, 10)]).isSome = true := by decide +kernel
example : chk sampleHdr = .ok ∧ sampleHdr.numSect = 3 ∧ endOf sampleHdr = 2475 ∧ sampleFile.length = 2475 := by
  decide +kernel
example : truncClass sampleHdr 5 = .header ∧ truncClass sampleHdr 100 = .table ∧
    truncClass sampleHdr 165 = .section 0 ∧ truncClass sampleHdr 716 = .section 0 ∧
    truncClass sampleHdr 717 = .section 1 ∧ truncClass sampleHdr 2474 = .section 2 ∧
    truncClass sampleHdr 2475 = .beyond := by decide +kernel
example : (getHeader sampleFile []).isSome = true ∧ (getHeader (sampleFile.take 2000) []).isNone = true ∧
    refusal (sampleFile.take 2000) [] = some .outOfBounds ∧
    refusal (sampleFile.take 100) [] = some .shortRead ∧
    (getHeader (sampleFile ++ [1, 2, 3]) []).isSome = true := by decide +kernel
example : ((getHeader sampleFile []).bind fun h => getSection sampleFile h 15 []) =
    some (some ⟨List.replicate 10 7, 10, 10⟩) := by decide +kernel
/-- the verdicts are all reachable -/
example : chk { sampleHdr with magic := 0 } = .badMagic ∧ chk { sampleHdr with verMajor := 27 } = .badVersion ∧
    chk { sampleHdr with numSect := 18 } = .badNumSect ∧ chk { sampleHdr with numSect := 4 } = .badSectName ∧
    chk { sampleHdr with index := fun _ => 0 } = .dupSect ∧ chk newHeader = .badSectHdr := by decide +kernel

end AldorVerif.LibHdr

/-! # archive member walk -/
namespace AldorVerif.Archive

/-- every member the walk reports has its data *starting* inside the file (`arSeek`) … -/
theorem walk_members_start_in_file (fuel : Nat) (file : List Nat) (p : Nat) :
    ∀ m ∈ (walk fuel file p).1, m.dataPos < file.length := walk_members_in_file fuel file p

/-- with a size field that is not negative the walk moves forward -/
theorem step_forward_partial (file : List Nat) (p : Nat) (n : List Nat) (d next b : Nat)
    (hlen : file.length + 64 < two64 / 2) (h : step file p = .member n d next b)
    (hsz : (parseNum 10 (slice file (p + 48) 10)).value < two64 / 2) : p < next := by
  obtain ⟨_, hd, hdl, hn⟩ := step_member file p n d next b h
  have hr := roundUp_ge (parseNum 10 (slice file (p + 48) 10)).value (by unfold two64 at *; omega)
  rw [hn, Nat.mod_eq_of_lt (by unfold two64 memberHdrSize at *; omega)]
  unfold memberHdrSize at hd; omega

def pad (n : Nat) (s : List Nat) : List Nat := s ++ List.replicate (n - s.length) 32

/-- a member header as `ar` writes it -/
def mkHeader (name size : List Nat) : List Nat :=
  pad 16 (name ++ [47]) ++ pad 12 [48] ++ pad 6 [48] ++ pad 6 [48] ++ pad 8 [54, 52, 52] ++ pad 10 size ++ [96, 10]

/-- "a.ao", announced size 100, only 10 bytes present -/
def shortArchive : List Nat := magicArch ++ mkHeader [97, 46, 97, 111] [49, 48, 48] ++ List.replicate 10 7

/-- **target**: the data of every reported member lies within the file. -/
def member_in_bounds_statement : Prop :=
  ∀ (file : List Nat) (p : Nat) (n : List Nat) (d next b : Nat),
    step file p = .member n d next b → d ≤ next ∧ next ≤ file.length + 1

/-- … but not ending inside it: the size field is trusted. -/
theorem member_in_bounds_statement_refuted : ¬ member_in_bounds_statement := by
  intro h
  have := h shortArchive 8 [97, 46, 97, 111] 68 168 0 (by decide +kernel)
  revert this; decide +kernel

/-- size field "-60": the next header position is the current one -/
def loopArchive : List Nat := magicArch ++ mkHeader [97, 46, 97, 111] [45, 54, 48] ++ List.replicate 10 7

def walk_terminates_statement : Prop :=
  ∀ file : List Nat, ∃ fuel, (walk fuel file firstPos).2.1 ≠ .outOfFuel

theorem loop_step : step loopArchive 8 = .member [97, 46, 97, 111] 68 8 0 := by decide +kernel

/-- the walk over `loopArchive` never ends (observed on the real compiler: no progress until
killed) -/
theorem walk_terminates_statement_refuted : ¬ walk_terminates_statement := by
  intro h
  obtain ⟨fuel, hf⟩ := h loopArchive
  apply hf
  have : ∀ fuel, (walk fuel loopArchive 8).2.1 = .outOfFuel := by
    intro fuel
    induction fuel with
    | zero => rfl
    | succ k ih => unfold walk; rw [loop_step]; exact ih
  exact this fuel

example : (walk 10 shortArchive firstPos) = ([⟨[97, 46, 97, 111], 68⟩], .finished, 0) := by decide +kernel
example : parseNum 10 [54, 56, 56, 53, 32, 32, 32, 32, 32, 32] = ⟨6885, false⟩ ∧
    parseNum 10 [32, 32, 32] = ⟨0, false⟩ ∧ parseNum 10 [54, 120, 32] = ⟨0, true⟩ ∧
    parseNum 8 [54, 52, 52, 32] = ⟨420, false⟩ ∧ parseNum 10 [0, 49] = ⟨0, true⟩ := by decide +kernel

end AldorVerif.Archive
