import AldorVerif.Lemmas.LibHdr
import AldorVerif.Lemmas.Archive


/-! # C17 — damaged library files are refused, never silently used: theorems about the models
of `lib.c` (header code) and `archive.c` (member walk).

What the code guarantees is much less than the property asks: `libChkHeader` checks magic,
version, the number of sections, the name ↔ index maps and *contiguity* of the section table,
never the file size; `libGetHeader` throws its verdict away; `FILE_GET_CHARS` throws the
`fread` count away.  `accepted_in_bounds_statement` is therefore false of the code as it is
(`accepted_in_bounds_statement_refuted`, witness: any cut after the header) and is a theorem of
the repaired reader (`checked_accepted_in_bounds`). -/
namespace AldorVerif.LibHdr

/-- **what `libChkHeader` really guarantees** -/
theorem chk_contiguous (h : Hdr) (hok : chk h = .ok) :
    h.magic = hdrMagic ∧ majorVersion ≤ h.verMajor ∧ h.numSect ≤ nameLimit ∧
    (∀ i, i < h.numSect → (h.sectAt i).name < nameLimit ∧ h.index (h.sectAt i).name = i) ∧
    (h.sectAt 0).offset = hdrSize ∧
    (∀ i, 0 < i → i < h.numSect →
      (h.sectAt i).offset = (h.sectAt (i - 1)).offset + (h.sectAt (i - 1)).length) ∧
    (∀ i j, i < j → j < h.numSect → (h.sectAt i).offset + (h.sectAt i).length ≤ (h.sectAt j).offset) := by
  have hf := (chk_ok_iff h).mp hok
  refine ⟨hf.magic, ?_, hf.num, hf.names, hf.off0, hf.contig, hf.mono⟩
  have := hf.version
  omega

/-- … and nothing else: any header with these facts is accepted (so `chk` says nothing about
the size of the file). -/
theorem chk_exactly (h : Hdr) : chk h = .ok ↔ ChkFacts h := chk_ok_iff h

/-- the section names of an accepted header are pairwise different -/
theorem chk_names_distinct (h : Hdr) (hok : chk h = .ok) (i j : Nat) (hi : i < h.numSect)
    (hj : j < h.numSect) (he : (h.sectAt i).name = (h.sectAt j).name) : i = j := by
  have hf := (chk_ok_iff h).mp hok
  have h1 := (hf.names i hi).2
  have h2 := (hf.names j hj).2
  rw [he] at h1; omega

/-- the widths of the fields in the file -/
def FitsWidths (h : Hdr) : Prop := ∀ s ∈ h.sects, s.InRange

theorem putHeader_length (h : Hdr) (hl : h.sects.length = nameLimit) : (putHeader h).length = hdrSize := by
  simp [putHeader, putHInt, putSInt, putSects_length, hl, hdrSize, fixedSize, sectSize, nameLimit]

/-- reading back what `libPutHeader` wrote gives the same header fields and table -/
theorem getHeader_putHeader (h : Hdr) (hb : Built h) (hw : FitsWidths h) (body junk : List Nat) :
    let h' := getHeader (putHeader h ++ body) junk
    h'.magic = h.magic ∧ h'.verMajor = h.verMajor ∧ h'.verMinor = h.verMinor ∧
    h'.numSect = h.numSect ∧ h'.sects = h.sects ∧
    h'.index = setupIndex h.sects 0 (fun _ => nameLimit) := by
  have hlen := putHeader_length h hb.len
  have hr : readBuf (putHeader h ++ body) 0 hdrSize junk = putHeader h := by
    rw [← hlen]; exact readBuf_prefix _ _ _
  simp only [getHeader, hr]
  have hs : getSects nameLimit (putSects h.sects) = h.sects := by
    have := getSects_putSects h.sects [] hw
    rw [hb.len, List.append_nil] at this
    exact this
  have hm : h.magic < 65536 := by rw [hb.magic]; decide
  have hn : h.numSect < 65536 := by have := hb.num; unfold nameLimit at this; omega
  have ha : h.verMajor < 4294967296 := by rw [hb.vmaj]; decide
  have hi : h.verMinor < 4294967296 := by rw [hb.vmin]; decide
  simp only [putHeader, putHInt, putSInt, List.cons_append, List.nil_append, decode, hs]
  simp only [getHInt_putHInt _ hm, getHInt_putHInt _ hn, getSInt_putSInt _ ha, getSInt_putSInt _ hi]
  exact ⟨trivial, trivial, trivial, trivial, trivial, trivial⟩

/-- **every header produced by the writer is accepted when read back**: sections added with
`libAddSection`/`libPutSection` in any order, distinct names below `LIB_NAME_LIMIT`, at least
one section (an empty header is refused by `libChkHeader`, and `libPutHeader` then stops with
`bug("bad header given to libPutHeader")`), all offsets within 32 bits. -/
theorem intact_accepted (reqs : List (Nat × Nat)) (h : Hdr) (hbuild : build newHeader reqs = some h)
    (hne : reqs ≠ []) (hn : ∀ r ∈ reqs, r.1 < nameLimit) (hw : FitsWidths h) (body junk : List Nat) :
    chk (getHeader (putHeader h ++ body) junk) = .ok := by
  obtain ⟨hb, hnum⟩ := built_build reqs built_new hn hbuild
  have hpos : 0 < h.numSect := by
    rw [hnum]; cases reqs with
    | nil => exact absurd rfl hne
    | cons r rs => simp [newHeader]
  obtain ⟨e1, e2, e3, e4, e5, e6⟩ := getHeader_putHeader h hb hw body junk
  rw [chk_ok_iff]
  have hsa : ∀ i, (getHeader (putHeader h ++ body) junk).sectAt i = h.sectAt i := by
    intro i; simp only [Hdr.sectAt, e5]
  constructor
  · rw [e1]; exact hb.magic
  · rw [e2, e3, hb.vmaj, hb.vmin]; decide
  · rw [e4]; exact hb.num
  · intro i hi
    rw [e4] at hi
    rw [hsa, e6]
    have hu := hb.used i hi
    refine ⟨hu.1, ?_⟩
    have := setupIndex_unique h.sects 0 (fun _ => nameLimit) (h.sectAt i).name i
      (by rw [hb.len]; have := hb.num; omega) rfl hu.1
      (by
        intro j _ hj
        by_cases hjn : j < h.numSect
        · have h2 := (hb.used j hjn).2
          have hj' : (h.sectAt j).name = (h.sectAt i).name := hj
          rw [hj', hu.2] at h2; exact h2.symm
        · have h3 := hb.unused j (by omega)
          have hj' : (h.sectAt j).name = (h.sectAt i).name := hj
          rw [h3] at hj'
          have : (Sect.none).name = nameLimit := rfl
          omega)
    rw [this]; omega
  · rw [hsa]; exact hb.off0 hpos
  · intro i hi0 hi
    rw [e4] at hi
    rw [hsa, hsa]; exact hb.contig i hi0 hi

/-- the verdict on a file cut anywhere after the header equals the verdict on the whole file -/
theorem truncation_keeps_header (file junk : List Nat) (n : Nat) (hn : hdrSize ≤ n) :
    getHeader (file.take n) junk = getHeader file junk := by
  simp only [getHeader, readBuf_take _ _ _ _ hn]

/-- **C17 target (header part)**: an accepted header describes sections that lie within the file. -/
def accepted_in_bounds_statement : Prop :=
  ∀ (file junk : List Nat), chk (getHeader file junk) = .ok →
    ∀ i, i < (getHeader file junk).numSect →
      ((getHeader file junk).sectAt i).offset + ((getHeader file junk).sectAt i).length ≤ file.length

/-- a one-section library: header + 10 body bytes -/
def witnessHdr : Hdr := (build newHeader [(15, 10)]).getD newHeader
def witnessFile : List Nat := putHeader witnessHdr ++ List.replicate 10 65

/-- the code as it is accepts the header of *every* strict truncation that keeps the header
(here: 5 of the 10 body bytes are missing). -/
theorem accepted_in_bounds_statement_refuted : ¬ accepted_in_bounds_statement := by
  intro h
  have := h (witnessFile.take 170) [] (by decide +kernel) 0 (by decide +kernel)
  revert this; decide +kernel

/-- general form of the witness: whenever the intact file is accepted and its last section
ends where the file ends, every cut at `n ≥ hdrSize` is accepted too and its last section
sticks out of the file. -/
theorem strict_truncation_accepted (file junk : List Nat) (n : Nat) (hn : hdrSize ≤ n)
    (hlt : n < file.length) (hok : chk (getHeader file junk) = .ok)
    (hend : let h := getHeader file junk
            (h.sectAt (h.numSect - 1)).offset + (h.sectAt (h.numSect - 1)).length = file.length) :
    let h' := getHeader (file.take n) junk
    chk h' = .ok ∧ (file.take n).length < (h'.sectAt (h'.numSect - 1)).offset + (h'.sectAt (h'.numSect - 1)).length := by
  simp only [truncation_keeps_header file junk n hn]
  refine ⟨hok, ?_⟩
  simp only at hend
  rw [hend, List.length_take]; omega

theorem getHeaderChecked_some (file junk : List Nat) (h : Hdr) :
    getHeaderChecked file junk = some h ↔
      readCount file 0 hdrSize = hdrSize ∧ h = reindex (decode (readBuf file 0 hdrSize junk)) ∧
      chk h = .ok ∧ endOf h = file.length := by
  unfold getHeaderChecked
  by_cases h1 : readCount file 0 hdrSize = hdrSize
  · rw [if_pos h1]
    simp only
    by_cases h2 : chk (reindex (decode (readBuf file 0 hdrSize junk))) = .ok
    · rw [if_pos h2]
      by_cases h3 : endOf (reindex (decode (readBuf file 0 hdrSize junk))) = file.length
      · rw [if_pos h3]
        constructor
        · intro he; injection he with he; subst he; exact ⟨h1, rfl, h2, h3⟩
        · intro ⟨_, he, _, _⟩; rw [he]
      · rw [if_neg h3]
        constructor
        · intro he; cases he
        · intro ⟨_, he, _, h4⟩; subst he; exact absurd h4 h3
    · rw [if_neg h2]
      constructor
      · intro he; cases he
      · intro ⟨_, he, h4, _⟩; subst he; exact absurd h4 h2
  · rw [if_neg h1]
    constructor
    · intro he; cases he
    · intro ⟨h4, _⟩; exact absurd h4 h1

/-- the repaired reader does satisfy the target -/
theorem checked_accepted_in_bounds (file junk : List Nat) (h : Hdr)
    (hc : getHeaderChecked file junk = some h) :
    chk h = .ok ∧ ∀ i, i < h.numSect → (h.sectAt i).offset + (h.sectAt i).length ≤ file.length := by
  obtain ⟨_, _, hok, hfin⟩ := (getHeaderChecked_some file junk h).mp hc
  refine ⟨hok, fun i hi => ?_⟩
  have hf := (chk_ok_iff _).mp hok
  unfold endOf at hfin
  have hne : ¬ h.numSect = 0 := by omega
  rw [if_neg hne] at hfin
  rw [← hfin]
  by_cases hlast : i = h.numSect - 1
  · rw [← hlast]; exact Nat.le_refl _
  · have := hf.mono i (h.numSect - 1) (by omega) (by omega)
    omega

/-- the repaired reader refuses every strict truncation of a file it accepts -/
theorem checked_refuses_truncation (file junk : List Nat) (h : Hdr) (n : Nat)
    (hc : getHeaderChecked file junk = some h) (hlt : n < file.length) :
    getHeaderChecked (file.take n) junk = none := by
  obtain ⟨hcnt, hh, hok, hfin⟩ := (getHeaderChecked_some file junk h).mp hc
  cases hx : getHeaderChecked (file.take n) junk with
  | none => rfl
  | some h' =>
    exfalso
    obtain ⟨hcnt', hh', _, hfin'⟩ := (getHeaderChecked_some _ junk h').mp hx
    have hn : hdrSize ≤ n := by
      simp [readCount, List.take_take] at hcnt'; omega
    rw [readBuf_take file junk n hdrSize hn] at hh'
    rw [← hh] at hh'
    subst hh'
    rw [hfin, List.length_take] at hfin'
    omega

/-! ### `libGetSection` -/

/-- the decoders always get a buffer of the announced length … -/
theorem getSection_length (file : List Nat) (h : Hdr) (name : Nat) (junk : List Nat) (r : SectRead)
    (hr : getSection file h name junk = some r) : r.data.length = r.want ∧ r.want = sectLength h name := by
  unfold getSection at hr
  split at hr
  · injection hr with hr; subst hr; exact ⟨readBuf_length _ _ _ _, rfl⟩
  · cases hr

/-- … filled from the file exactly when the section lies within the file … -/
theorem getSection_in_bounds (file : List Nat) (h : Hdr) (name : Nat) (junk : List Nat) (r : SectRead)
    (hr : getSection file h name junk = some r)
    (hb : sectOffset h name + sectLength h name ≤ file.length) :
    r.got = r.want ∧ r.data = (file.drop (sectOffset h name)).take (sectLength h name) := by
  unfold getSection at hr
  split at hr
  · injection hr with hr; subst hr
    exact ⟨by simp [readCount]; omega, readBuf_exact _ _ _ _ hb⟩
  · cases hr

/-- … and otherwise short, which the code never notices (the count is discarded):
the tail of the buffer is the allocation's previous content. -/
theorem getSection_short (file : List Nat) (h : Hdr) (name : Nat) (junk : List Nat) (r : SectRead)
    (hr : getSection file h name junk = some r)
    (hb : file.length < sectOffset h name + sectLength h name) (hpos : 0 < sectLength h name) :
    r.got < r.want := by
  unfold getSection at hr
  split at hr
  · injection hr with hr; subst hr
    simp [readCount]; omega
  · cases hr

theorem getSectionChecked_exact (file : List Nat) (h : Hdr) (name : Nat) (junk : List Nat) (r : SectRead)
    (hr : getSectionChecked file h name junk = some (some r)) : r.got = r.want := by
  unfold getSectionChecked at hr
  split at hr
  · cases hr
  · split at hr
    · cases hr
    · rename_i hg; injection hr with hr; injection hr with hr; subst hr
      simpa using hg

/-! ### truncation classes -/

/-- **a truncation point falls in exactly one class**: for a file whose header is accepted and
whose last section ends at the end of the file, cutting at `n < file length` removes a first
byte that lies in the fixed header (`n < 12`), in the section table (`12 ≤ n < 165`) or in the
body of exactly one section `i`; `truncClass` computes that class. -/
theorem truncation_classes (h : Hdr) (fileLen n : Nat) (hok : chk h = .ok) (hpos : 0 < h.numSect)
    (hend : (h.sectAt (h.numSect - 1)).offset + (h.sectAt (h.numSect - 1)).length = fileLen)
    (hn : n < fileLen) :
    (truncClass h n = .header ↔ n < fixedSize) ∧
    (truncClass h n = .table ↔ fixedSize ≤ n ∧ n < hdrSize) ∧
    (∀ i, truncClass h n = .section i ↔ hdrSize ≤ n ∧ i < h.numSect ∧ InSect h n i) ∧
    truncClass h n ≠ .beyond ∧
    (hdrSize ≤ n → ∃ i, i < h.numSect ∧ InSect h n i ∧ ∀ j, j < h.numSect → InSect h n j → j = i) := by
  have hf := (chk_ok_iff h).mp hok
  have hfs : fixedSize ≤ hdrSize := by decide
  have hcov : hdrSize ≤ n → ∃ i, i < h.numSect ∧ InSect h n i ∧ ∀ j, j < h.numSect → InSect h n j → j = i := by
    intro hge
    obtain ⟨i, hi, hin⟩ := hf.cover n h.numSect hpos (Nat.le_refl _) hge (by rw [hend]; exact hn)
    exact ⟨i, hi, hin, fun j hj hjn => hf.inSect_unique n j i hj hi hjn hin⟩
  unfold truncClass
  by_cases h1 : n < fixedSize
  · simp only [if_pos h1]
    refine ⟨by simp [h1], by simp; omega, fun i => by simp; omega, by simp, fun hge => by omega⟩
  · by_cases h2 : n < hdrSize
    · simp only [if_neg h1, if_pos h2]
      refine ⟨by simp [h1], by simp; omega, fun i => by simp; omega, by simp, fun hge => by omega⟩
    · simp only [if_neg h1, if_neg h2]
      have hge : hdrSize ≤ n := by omega
      obtain ⟨i, hi, hin, hu⟩ := hcov hge
      have hfs' := findSect_of_unique h n (List.range h.numSect) i (List.mem_range.mpr hi) hin
        (fun j hj => hu j (List.mem_range.mp hj))
      rw [hfs']
      refine ⟨by simp [h1], by simp; omega, fun k => ?_, by simp, fun _ => ⟨i, hi, hin, hu⟩⟩
      constructor
      · intro he; injection he with he; subst he; exact ⟨hge, hi, hin⟩
      · intro ⟨_, hk, hkin⟩; rw [hu k hk hkin]

/-! ### non-vacuity -/

/-- a three-section library that meets every hypothesis above -/
def sampleHdr : Hdr := (build newHeader [(5, 552), (0, 1748), (15, 10)]).getD newHeader

example : (build newHeader [(5, 552), (0, 1748), (15, 10)]).isSome = true := by decide +kernel
example : chk sampleHdr = .ok ∧ sampleHdr.numSect = 3 ∧
    (sampleHdr.sectAt 2).offset + (sampleHdr.sectAt 2).length = 2475 := by decide +kernel
example : truncClass sampleHdr 5 = .header ∧ truncClass sampleHdr 100 = .table ∧
    truncClass sampleHdr 165 = .section 0 ∧ truncClass sampleHdr 716 = .section 0 ∧
    truncClass sampleHdr 717 = .section 1 ∧ truncClass sampleHdr 2474 = .section 2 ∧
    truncClass sampleHdr 2475 = .beyond := by decide +kernel
example : chk (getHeader (putHeader sampleHdr ++ List.replicate 2310 7) []) = .ok := by decide +kernel
example : (getHeaderChecked (putHeader sampleHdr ++ List.replicate 2310 7) []).isSome = true ∧
    getHeaderChecked ((putHeader sampleHdr ++ List.replicate 2310 7).take 2000) [] = none := by
  decide +kernel
/-- the verdicts are all reachable -/
example : chk { sampleHdr with magic := 0 } = .badMagic ∧ chk { sampleHdr with verMajor := 27 } = .badVersion ∧
    chk { sampleHdr with numSect := 18 } = .badNumSect ∧ chk { sampleHdr with numSect := 4 } = .badSectName ∧
    chk { sampleHdr with index := fun _ => 0 } = .bugIndex ∧ chk newHeader = .badSectHdr := by decide +kernel

end AldorVerif.LibHdr

/-! # archive member walk -/
namespace AldorVerif.Archive

/-- every member the walk reports has its data *starting* inside the file (`arSeek`) … -/
theorem walk_members_start_in_file (fuel : Nat) (file : List Nat) (p : Nat) :
    ∀ m ∈ (walk fuel file p).1, m.dataPos < file.length := walk_members_in_file fuel file p

/-- with a size field that is not negative the walk moves forward -/
theorem step_forward_partial (file : List Nat) (p : Nat) (n : List Nat) (d next b : Nat)
    (hlen : file.length + 64 < two64 / 2) (h : step file p = .member n d next b)
    (hsz : (parseNum 10 (slice file (p + 48) 10)).value < two64 / 2) : p < next := by
  obtain ⟨_, hd, hdl, hn⟩ := step_member file p n d next b h
  have hr := roundUp_ge (parseNum 10 (slice file (p + 48) 10)).value (by unfold two64 at *; omega)
  rw [hn, Nat.mod_eq_of_lt (by unfold two64 memberHdrSize at *; omega)]
  unfold memberHdrSize at hd; omega

def pad (n : Nat) (s : List Nat) : List Nat := s ++ List.replicate (n - s.length) 32

/-- a member header as `ar` writes it -/
def mkHeader (name size : List Nat) : List Nat :=
  pad 16 (name ++ [47]) ++ pad 12 [48] ++ pad 6 [48] ++ pad 6 [48] ++ pad 8 [54, 52, 52] ++ pad 10 size ++ [96, 10]

/-- "a.ao", announced size 100, only 10 bytes present -/
def shortArchive : List Nat := magicArch ++ mkHeader [97, 46, 97, 111] [49, 48, 48] ++ List.replicate 10 7

/-- **target**: the data of every reported member lies within the file. -/
def member_in_bounds_statement : Prop :=
  ∀ (file : List Nat) (p : Nat) (n : List Nat) (d next b : Nat),
    step file p = .member n d next b → d ≤ next ∧ next ≤ file.length + 1

/-- … but not ending inside it: the size field is trusted. -/
theorem member_in_bounds_statement_refuted : ¬ member_in_bounds_statement := by
  intro h
  have := h shortArchive 8 [97, 46, 97, 111] 68 168 0 (by decide +kernel)
  revert this; decide +kernel

/-- size field "-60": the next header position is the current one -/
def loopArchive : List Nat := magicArch ++ mkHeader [97, 46, 97, 111] [45, 54, 48] ++ List.replicate 10 7

def walk_terminates_statement : Prop :=
  ∀ file : List Nat, ∃ fuel, (walk fuel file firstPos).2.1 ≠ .outOfFuel

theorem loop_step : step loopArchive 8 = .member [97, 46, 97, 111] 68 8 0 := by decide +kernel

/-- the walk over `loopArchive` never ends (observed on the real compiler: no progress until
killed) -/
theorem walk_terminates_statement_refuted : ¬ walk_terminates_statement := by
  intro h
  obtain ⟨fuel, hf⟩ := h loopArchive
  apply hf
  have : ∀ fuel, (walk fuel loopArchive 8).2.1 = .outOfFuel := by
    intro fuel
    induction fuel with
    | zero => rfl
    | succ k ih => unfold walk; rw [loop_step]; exact ih
  exact this fuel

example : (walk 10 shortArchive firstPos) = ([⟨[97, 46, 97, 111], 68⟩], .finished, 0) := by decide +kernel
example : parseNum 10 [54, 56, 56, 53, 32, 32, 32, 32, 32, 32] = ⟨6885, false⟩ ∧
    parseNum 10 [32, 32, 32] = ⟨0, false⟩ ∧ parseNum 10 [54, 120, 32] = ⟨0, true⟩ ∧
    parseNum 8 [54, 52, 52, 32] = ⟨420, false⟩ ∧ parseNum 10 [0, 49] = ⟨0, true⟩ := by decide +kernel

end AldorVerif.Archive
