import AldorVerif.Lemmas.XFloat

/-! # C19: floating-point constants keep their exact value — property theorems about the
model of xfloat.c / util.c (bf*) / buffer.c (float I/O) / foam_c.c (dissemble, assemble, literals)

All statements are at full strength (no `_partial`): they hold of every bit pattern, NaNs
included — on this build's formats the portable encoding preserves even the NaN payload, so
"NaN stays NaN" is a corollary of the bit-for-bit round trip. -/
namespace AldorVerif.XFloat

/-! ## the portable encoding of object files -/

/-- every single-precision bit pattern (signed zeros, subnormals, infinities, NaNs included)
survives `xsfFrNative` followed by `xsfToNative` with the same bits -/
theorem xsf_roundtrip (b : BitVec 32) : xsfToNative (xsfFrNative b) = b := by
  unfold xsfToNative xsfFrNative sfBytes
  rw [xsf_roundtrip_nat _ b.isLt]
  exact sfOfBytes_sfBytes b

/-- NaN stays NaN (the form the executable check uses for NaN inputs) -/
theorem xsf_roundtrip_nan (b : BitVec 32) (h : sfIsNaN b) : sfIsNaN (xsfToNative (xsfFrNative b)) := by
  rw [xsf_roundtrip]; exact h

example : sfIsNaN 0x7fc00001#32 := by decide
example : ¬ sfIsNaN 0x7f800000#32 := by decide

/-- every double-precision bit pattern survives `xdfFrNative` followed by `xdfToNative` -/
theorem xdf_roundtrip (b : BitVec 64) : xdfToNative (xdfFrNative b) = b := by
  unfold xdfToNative xdfFrNative dfBytes
  rw [xdf_roundtrip_nat _ b.isLt]
  exact dfOfBytes_dfBytes b

theorem xdf_roundtrip_nan (b : BitVec 64) (h : dfIsNaN b) : dfIsNaN (xdfToNative (xdfFrNative b)) := by
  rw [xdf_roundtrip]; exact h

example : dfIsNaN 0xfff0000000000001#64 := by decide

/-- distinct values have distinct portable encodings -/
theorem xsfFrNative_injective (a b : BitVec 32) (h : xsfFrNative a = xsfFrNative b) : a = b := by
  rw [← xsf_roundtrip a, ← xsf_roundtrip b, h]

theorem xdfFrNative_injective (a b : BitVec 64) (h : xdfFrNative a = xdfFrNative b) : a = b := by
  rw [← xdf_roundtrip a, ← xdf_roundtrip b, h]

/-- the portable encodings have the sizes written to object files -/
theorem xsf_size (b : BitVec 32) : (xsfFrNative b).length = XSFLOAT_BYTES := xsfFrNative_length b
theorem xdf_size (b : BitVec 64) : (xdfFrNative b).length = XDFLOAT_BYTES := xdfFrNative_length b

/-! ## sign / exponent / fraction -/

/-- `sfAssemble` after `sfDissemble` is the identity on all 2^32 bit patterns -/
theorem sf_assemble_dissemble (b : BitVec 32) :
    sfAssemble (sfDissemble b).1 (sfDissemble b).2.1 (sfDissemble b).2.2 = b := by
  unfold sfAssemble sfDissemble sfBytes
  rw [sf_asm_dis_nat _ b.isLt]
  exact sfOfBytes_sfBytes b

/-- `dfAssemble` after `dfDissemble` is the identity on all 2^64 bit patterns -/
theorem df_assemble_dissemble (b : BitVec 64) :
    dfAssemble (dfDissemble b).1 (dfDissemble b).2.1 (dfDissemble b).2.2 = b := by
  unfold dfAssemble dfDissemble dfBytes
  rw [df_asm_dis_nat _ b.isLt]
  exact dfOfBytes_dfBytes b

/-- what the three parts are: sign bit, unbiased exponent field, fraction field moved to the top -/
theorem sf_dissemble_fields (b : BitVec 32) :
    sfDissemble b = (decide (b.toNat / 2 ^ 31 = 1), ((b.toNat / 2 ^ 23 % 256 : Nat) : Int) - 127,
                     beBytes 4 (b.toNat % 2 ^ 23 * 2 ^ 9)) :=
  sf_dissemble_eq _ b.isLt

theorem df_dissemble_fields (b : BitVec 64) :
    dfDissemble b = (decide (b.toNat / 2 ^ 63 = 1), ((b.toNat / 2 ^ 52 % 2048 : Nat) : Int) - 1023,
                     beBytes 8 (b.toNat % 2 ^ 52 * 2 ^ 12)) :=
  df_dissemble_eq _ b.isLt

/-- the runtime entry points (`fiSFloDissemble` stores the fraction bytes into a `FiWord` whose
other bytes keep their old content, `fiSFloAssemble` reads them back): identity for every prior
content `old` of the word -/
theorem fi_sflo_assemble_dissemble (sf : BitVec 32) (old : BitVec 64) :
    fiSFloAssemble (fiSFloDissemble sf old).1 (fiSFloDissemble sf old).2.1 (fiSFloDissemble sf old).2.2 = sf := by
  unfold fiSFloAssemble fiSFloDissemble
  simp only []
  have hl := sf_dissemble_frac_length sf
  rw [wordBytes_wordOfBytes _ (by simp [hl])]
  unfold sfAssemble
  rw [natAssemble_take, show SF.size = 4 from rfl, List.take_left' hl]
  exact sf_assemble_dissemble sf

/-- `fiDFloDissemble` hands out a second word that was never written (`junk`);
`fiDFloAssemble` gives the value back whatever it holds -/
theorem fi_dflo_assemble_dissemble (df : BitVec 64) (junk : BitVec 64) :
    fiDFloAssemble (fiDFloDissemble df junk).1 (fiDFloDissemble df junk).2.1
      (fiDFloDissemble df junk).2.2.1 (fiDFloDissemble df junk).2.2.2 = df := by
  unfold fiDFloAssemble fiDFloDissemble
  simp only []
  have hl := df_dissemble_frac_length df
  rw [List.take_left' hl, wordBytes_wordOfBytes _ hl]
  unfold dfAssemble
  rw [natAssemble_take, show DF.size = 8 from rfl, List.take_left' hl]
  exact df_assemble_dissemble df

/-- `fiDFloAssemble` does not look at its last argument (8-byte `FiWord`) -/
theorem fi_dflo_assemble_sig1_irrelevant (s : Bool) (e : Int) (sig0 sig1 sig1' : BitVec 64) :
    fiDFloAssemble s e sig0 sig1 = fiDFloAssemble s e sig0 sig1' := by
  unfold fiDFloAssemble dfAssemble
  rw [natAssemble_take, natAssemble_take (fr := wordBytes sig0 ++ wordBytes sig1'), show DF.size = 8 from rfl,
    List.take_left' (wordBytes_length _), List.take_left' (wordBytes_length _)]

/-! ## classification agrees with IEEE 754 -/

theorem sf_classify_ieee (b : BitVec 32) :
    sfClassify b = ieeeClass (b.toNat / 2 ^ 23 % 256) (b.toNat % 2 ^ 23) 255 := sfClassify_spec b

theorem df_classify_ieee (b : BitVec 64) :
    dfClassify b = ieeeClass (b.toNat / 2 ^ 52 % 2048) (b.toNat % 2 ^ 52) 2047 := dfClassify_spec b

/-- the `FLOAT_NAN` answer of `sfClassify` is the IEEE notion used in the round-trip statements -/
theorem sf_classify_nan (b : BitVec 32) : sfClassify b = .nan ↔ sfIsNaN b := sfClassify_nan_iff b
theorem df_classify_nan (b : BitVec 64) : dfClassify b = .nan ↔ dfIsNaN b := dfClassify_nan_iff b

/-! ## buffers (object file sections are written through `bufWrSFloat` / `bufWrDFloat`) -/

/-- what was written at a position is what is read back from that position, and reading leaves the
position where writing left it -/
theorem buf_sfloat_roundtrip (b : Buf) (x : BitVec 32) (h : b.pos ≤ b.data.length) :
    bufRdSFloat { bufWrSFloat b x with pos := b.pos } = (x, bufWrSFloat b x) := by
  unfold bufRdSFloat bufWrSFloat
  have hl : ((xsfFrNative x).take XSFLOAT_BYTES) = xsfFrNative x := List.take_of_length_le (by rw [xsfFrNative_length]; decide)
  rw [hl]
  have := bufGetn_bufAddn b (xsfFrNative x) h
  rw [xsfFrNative_length] at this
  show (xsfToNative (bufGetn _ 6).1, (bufGetn _ 6).2) = _
  rw [this, xsf_roundtrip]
  simp [bufAddn, xsfFrNative_length]

theorem buf_dfloat_roundtrip (b : Buf) (x : BitVec 64) (h : b.pos ≤ b.data.length) :
    bufRdDFloat { bufWrDFloat b x with pos := b.pos } = (x, bufWrDFloat b x) := by
  unfold bufRdDFloat bufWrDFloat
  have hl : ((xdfFrNative x).take XDFLOAT_BYTES) = xdfFrNative x := List.take_of_length_le (by rw [xdfFrNative_length]; decide)
  rw [hl]
  have := bufGetn_bufAddn b (xdfFrNative x) h
  rw [xdfFrNative_length] at this
  show (xdfToNative (bufGetn _ 10).1, (bufGetn _ 10).2) = _
  rw [this, xdf_roundtrip]
  simp [bufAddn, xdfFrNative_length]

example : (bufNew).pos ≤ (bufNew).data.length := by decide

/-! ### sequences of constants -/

/-- a float constant of either precision, as object-file sections hold them in sequence -/
inductive Item
  | s (x : BitVec 32)
  | d (x : BitVec 64)
  deriving DecidableEq

def wrItem (b : Buf) : Item → Buf
  | .s x => bufWrSFloat b x
  | .d x => bufWrDFloat b x

def wrAll (b : Buf) (l : List Item) : Buf := l.foldl wrItem b

/-- read back values of the same kinds, in order -/
def rdLike (b : Buf) : List Item → List Item × Buf
  | [] => ([], b)
  | .s _ :: r => ((Item.s (bufRdSFloat b).1) :: (rdLike (bufRdSFloat b).2 r).1, (rdLike (bufRdSFloat b).2 r).2)
  | .d _ :: r => ((Item.d (bufRdDFloat b).1) :: (rdLike (bufRdDFloat b).2 r).1, (rdLike (bufRdDFloat b).2 r).2)

def encItem : Item → List Byte
  | .s x => xsfFrNative x
  | .d x => xdfFrNative x

def encode : List Item → List Byte
  | [] => []
  | it :: r => encItem it ++ encode r

theorem wrItem_end (b : Buf) (it : Item) (h : b.pos = b.data.length) :
    wrItem b it = ⟨b.data ++ encItem it, b.data.length + (encItem it).length⟩ := by
  cases it with
  | s x =>
    simp only [wrItem, bufWrSFloat, bufAddn, encItem, h]
    rw [List.take_of_length_le (l := xsfFrNative x) (by rw [xsfFrNative_length]; decide)]
    simp
  | d x =>
    simp only [wrItem, bufWrDFloat, bufAddn, encItem, h]
    rw [List.take_of_length_le (l := xdfFrNative x) (by rw [xdfFrNative_length]; decide)]
    simp

theorem wrAll_end (b : Buf) (l : List Item) (h : b.pos = b.data.length) :
    wrAll b l = ⟨b.data ++ encode l, b.data.length + (encode l).length⟩ := by
  induction l generalizing b with
  | nil => cases b; simp_all [wrAll, encode]
  | cons it r ih =>
    have := ih (wrItem b it) (by rw [wrItem_end b it h]; simp)
    simp only [wrAll, List.foldl_cons] at this ⊢
    rw [this, wrItem_end b it h]
    simp [encode, Nat.add_assoc]

theorem rdLike_encode (pre post : List Byte) (l : List Item) :
    rdLike ⟨pre ++ encode l ++ post, pre.length⟩ l = (l, ⟨pre ++ encode l ++ post, pre.length + (encode l).length⟩) := by
  induction l generalizing pre with
  | nil => simp [rdLike, encode]
  | cons it r ih =>
    have hassoc : pre ++ encode (it :: r) ++ post = (pre ++ encItem it) ++ encode r ++ post := by
      simp [encode, List.append_assoc]
    cases it with
    | s x =>
      have hrd : bufRdSFloat ⟨pre ++ encode (Item.s x :: r) ++ post, pre.length⟩
          = (x, ⟨pre ++ encode (Item.s x :: r) ++ post, pre.length + 6⟩) := by
        simp only [bufRdSFloat, bufGetn, XSFLOAT_BYTES, encode, encItem, List.append_assoc]
        rw [List.drop_left, List.take_left' (xsfFrNative_length x), xsf_roundtrip]
      simp only [rdLike, hrd]
      have := ih (pre ++ encItem (Item.s x))
      rw [← hassoc] at this
      simp only [List.length_append, encItem, xsfFrNative_length] at this
      rw [this]
      simp [encode, encItem, xsfFrNative_length, Nat.add_assoc]
    | d x =>
      have hrd : bufRdDFloat ⟨pre ++ encode (Item.d x :: r) ++ post, pre.length⟩
          = (x, ⟨pre ++ encode (Item.d x :: r) ++ post, pre.length + 10⟩) := by
        simp only [bufRdDFloat, bufGetn, XDFLOAT_BYTES, encode, encItem, List.append_assoc]
        rw [List.drop_left, List.take_left' (xdfFrNative_length x), xdf_roundtrip]
      simp only [rdLike, hrd]
      have := ih (pre ++ encItem (Item.d x))
      rw [← hassoc] at this
      simp only [List.length_append, encItem, xdfFrNative_length] at this
      rw [this]
      simp [encode, encItem, xdfFrNative_length, Nat.add_assoc]

/-- a sequence of constants written to a fresh buffer is read back unchanged -/
theorem buf_sequence_roundtrip (l : List Item) : (rdLike (bufStart (wrAll bufNew l)) l).1 = l := by
  rw [wrAll_end bufNew l rfl]
  have := rdLike_encode [] [] l
  simp only [bufNew, bufStart, List.nil_append, List.append_nil, List.length_nil] at this ⊢
  rw [this]

example : (rdLike (bufStart (wrAll bufNew [.s 0x3f800000#32, .d 0x8000000000000001#64])) [.s 0, .d 0]).1
    = [.s 0x3f800000#32, .d 0x8000000000000001#64] := by decide +kernel

/-! ## decimal literals: compile-time folding and the runtime use the same conversion -/

/-- `of_cfold.c` (`(SFloat) atof(s)` on the copy made by `cfoldArrToString`) and `foam_c.c`
(`(FiSFlo) atof((String) s)` on the array as emitted for the runtime) are the same function of the
C library's `atof` and of the C cast, for every character array -/
theorem literal_same_conversion {D S : Type} (atof : List Nat → D) (castS : D → S) (eltv : List Nat) :
    cfoldArrToSFlo atof castS eltv = fiArrToSFlo atof castS (rtArray eltv) := rfl

theorem literal_same_conversion_dflo {D : Type} (atof : List Nat → D) (eltv : List Nat) :
    cfoldArrToDFlo atof eltv = fiArrToDFlo atof (rtArray eltv) := rfl

/-- both see exactly the characters of the literal when it contains no NUL -/
theorem literal_characters (eltv : List Nat) (h : ∀ c ∈ eltv, c ≠ 0) :
    cString (cfoldArrToString eltv) = eltv ∧ cString (rtArray eltv) = eltv := by
  have : cString (eltv ++ [0]) = eltv := by
    unfold cString
    rw [List.takeWhile_append_of_pos (by simpa using h)]
    simp
  exact ⟨this, this⟩

/-- non-vacuity: the digits of "1.5" -/
example : cString (rtArray [49, 46, 53]) = [49, 46, 53] := by decide

/-! ## concrete evaluations of the model (kernel-checked) -/

example : xsfFrNative 0x3f800000#32 = [0x3f, 0xfe, 0, 0, 0, 0] := by decide +kernel
example : xsfFrNative 0x00000001#32 = [0x3f, 0x68, 0, 0, 0, 0] := by decide +kernel
example : xsfFrNative 0x7fc00001#32 = [0x7f, 0xff, 0x80, 0, 0x02, 0] := by decide +kernel
example : xsfToNative [0x50, 0, 0, 0, 0, 0] = 0x7f800000#32 := by decide +kernel   -- too large: infinity
example : xdfFrNative 0x0000000000000001#64 = [0x3b, 0xcb, 0, 0, 0, 0, 0, 0, 0, 0] := by decide +kernel

end AldorVerif.XFloat
