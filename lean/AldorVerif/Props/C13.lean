import AldorVerif.Model.Repl

/-! # C13: interactive evaluation equals batch evaluation — property theorems

Two groups.

* **Session** (`repl_eq_batch`, `rejected_is_noop`, `interleave_rejected`, `drop_rejected`,
  `diagnostics_count`): theorems about the *abstract* session `replStep`/`batch` of
  `Model/Repl.lean`.  They say what the loop has to achieve.  The code that achieves it —
  `scobind.c:scoSetUndoState`/`scobindUndo`, the incremental symbol table (`stab.c`), the
  per-step wrapping `fintphase.c:fintWrap`, `axlcomp.c:compGLoopEval` — is **not** modelled
  statement by statement; it is tied to these statements by the end-to-end search only
  (`checks/parts/replsearch.py`: `-Gloop` against `-Ginterp`, erroneous forms interleaved).
* **Reading forms** (`isContinued_balanced`, `splitForms_balanced`, …): theorems about the
  statement-by-statement model of `scan.c:scanIsContinued`, tied by correspondence
  (`harness/scancont_drv.c`). -/
namespace AldorVerif.Repl

/-! ## the session -/

/-- **a rejected form is a no-op**: it leaves the session unchanged and yields one diagnostic -/
theorem rejected_is_noop (s : Session) (f : Form) (h : accepts s f = false) :
    replStep s f = (s, [.diag]) := by
  cases f with
  | define x e =>
    simp only [accepts] at h
    cases he : eval s.env e with
    | none => simp [replStep, he]
    | some v => simp [he] at h
  | output e =>
    simp only [accepts] at h
    cases he : eval s.env e with
    | none => simp [replStep, he]
    | some v => simp [he] at h
  | bad k => rfl

/-- the catalogue's erroneous forms are rejected in every session -/
theorem rejected_is_noop_bad (s : Session) (k : String) : replStep s (.bad k) = (s, [.diag]) := rfl

example : accepts { env := [("a", 1)] } (.output (.var "b")) = false := by decide
example : replStep { env := [("a", 1)] } (.define "c" (.add (.var "a") (.var "zz"))) = ({ env := [("a", 1)] }, [.diag]) := by decide

theorem accepted_no_diag (s : Session) (f : Form) (h : accepts s f = true) :
    diags (replStep s f).2 = [] := by
  cases f with
  | define x e =>
    simp only [accepts] at h
    cases he : eval s.env e with
    | none => simp [he] at h
    | some v => simp [replStep, he, diags]
  | output e =>
    simp only [accepts] at h
    cases he : eval s.env e with
    | none => simp [he] at h
    | some v => simp [replStep, he, diags, Line.isOut]
  | bad k => simp [accepts] at h

theorem lookup_isSome (env : Env) (x : Name) :
    (lookup env x).isSome = (env.map (·.1)).contains x := by
  induction env with
  | nil => simp [lookup]
  | cons p r ih =>
    obtain ⟨y, v⟩ := p
    simp only [lookup, List.map_cons, List.contains_cons]
    by_cases h : y = x
    · subst h; simp
    · have h' : (x == y) = false := by simp; exact fun e => h e.symm
      simp [h, h', ih]

/-- a form's expression that evaluates in the session is well scoped for the file checker, and
the checked file's evaluator computes the same value -/
theorem eval_some (env : Env) (e : Expr) (v : Int) (h : eval env e = some v) :
    e.scoped (env.map (·.1)) = true ∧ evalD env e = v := by
  induction e generalizing v with
  | lit n => simp [eval] at h; simp [Expr.scoped, evalD, h]
  | var x =>
    simp only [eval] at h
    refine ⟨?_, by simp [evalD, h]⟩
    simp only [Expr.scoped, ← lookup_isSome, h, Option.isSome_some]
  | add a b iha ihb =>
    simp only [eval] at h
    cases ha : eval env a with
    | none => simp [ha] at h
    | some x =>
      cases hb : eval env b with
      | none => simp [ha, hb] at h
      | some y =>
        simp [ha, hb] at h
        have := iha x ha; have := ihb y hb
        simp [Expr.scoped, evalD, *]
  | mul a b iha ihb =>
    simp only [eval] at h
    cases ha : eval env a with
    | none => simp [ha] at h
    | some x =>
      cases hb : eval env b with
      | none => simp [ha, hb] at h
      | some y =>
        simp [ha, hb] at h
        have := iha x ha; have := ihb y hb
        simp [Expr.scoped, evalD, *]

theorem repl_run_accepted (env : Env) (fs : List Form) (h : allAccepted { env := env } fs = true) :
    checkFile (env.map (·.1)) fs = true ∧ (replRun { env := env } fs).2 = runFile env fs := by
  induction fs generalizing env with
  | nil => simp [checkFile, replRun, runFile]
  | cons f fs ih =>
    simp only [allAccepted, Bool.and_eq_true] at h
    obtain ⟨hf, hrest⟩ := h
    cases f with
    | define x e =>
      simp only [accepts] at hf
      cases he : eval env e with
      | none => simp [he] at hf
      | some v =>
        have hs := eval_some env e v he
        simp only [replStep, he] at hrest
        have := ih ((x, v) :: env) hrest
        simp only [List.map_cons] at this
        simp [checkFile, replRun, runFile, replStep, he, hs.1, hs.2, this.1, this.2]
    | output e =>
      simp only [accepts] at hf
      cases he : eval env e with
      | none => simp [he] at hf
      | some v =>
        have hs := eval_some env e v he
        simp only [replStep, he] at hrest
        have := ih env hrest
        simp [checkFile, replRun, runFile, replStep, he, hs.1, hs.2, this.1, this.2]
    | bad k => simp [accepts] at hf

/-- **C13, session level.**  If every form is accepted by the loop, the loop's transcript is the
output of the whole file: same lines, same order (and the file checker accepts the file). -/
theorem repl_eq_batch (fs : List Form) (h : allAccepted {} fs = true) :
    (replRun {} fs).2 = batch fs := by
  have := repl_run_accepted [] fs h
  simp only [List.map_nil] at this
  simp [batch, batchFrom, this.1, this.2]

/-- the same from any session the loop has reached -/
theorem repl_eq_batch_from (env : Env) (fs : List Form) (h : allAccepted { env := env } fs = true) :
    (replRun { env := env } fs).2 = batchFrom env fs := by
  have := repl_run_accepted env fs h
  simp [batchFrom, this.1, this.2]

/-- non-vacuity: a session with a definition used by later outputs and a shadowing redefinition -/
example : allAccepted {} [.define "a" (.lit 3), .output (.var "a"), .define "f" (.mul (.var "a") (.lit 2)),
    .define "a" (.add (.var "a") (.var "f")), .output (.add (.var "a") (.var "f"))] = true := by decide
example : batch [.define "a" (.lit 3), .output (.var "a"), .define "f" (.mul (.var "a") (.lit 2)),
    .define "a" (.add (.var "a") (.var "f")), .output (.add (.var "a") (.var "f"))] = [.out 3, .out 15] := by decide
/-- the hypothesis matters: with a rejected form the loop goes on, the file prints nothing -/
example : (replRun {} [.output (.lit 1), .bad "syntax", .output (.lit 2)]).2 = [.out 1, .diag, .out 2]
    ∧ batch [.output (.lit 1), .bad "syntax", .output (.lit 2)] = [] := by decide

/-- `l` is an interleaving of `xs` and `ys` (both keep their order) -/
inductive Interleave {α : Type} : List α → List α → List α → Prop
  | nil : Interleave [] [] []
  | left {x xs ys l} : Interleave xs ys l → Interleave (x :: xs) ys (x :: l)
  | right {y xs ys l} : Interleave xs ys l → Interleave xs (y :: ys) (y :: l)

theorem markers_append (a b : List Line) : markers (a ++ b) = markers a ++ markers b := by
  simp [markers]

theorem diags_append (a b : List Line) : diags (a ++ b) = diags a ++ diags b := by
  simp [diags]

/-- **C13, rejected forms.**  For every interleaving `l` of forms `fs` with forms `bs` that are
rejected wherever they occur, the session ends in the same state and prints the same program
output as `fs` alone, and there is exactly one diagnostic more per rejected form. -/
theorem interleave_rejected (fs bs l : List Form) (hi : Interleave fs bs l)
    (hb : ∀ b ∈ bs, ∀ s, accepts s b = false) (s : Session) :
    (replRun s l).1 = (replRun s fs).1
    ∧ markers (replRun s l).2 = markers (replRun s fs).2
    ∧ (diags (replRun s l).2).length = (diags (replRun s fs).2).length + bs.length := by
  induction hi generalizing s with
  | nil => simp [replRun]
  | @left x xs ys l _ ih =>
    have := ih hb (replStep s x).1
    simp only [replRun, markers_append, diags_append, List.length_append]
    refine ⟨this.1, by rw [this.2.1], by rw [this.2.2]; omega⟩
  | @right y xs ys l _ ih =>
    have hy := rejected_is_noop s y (hb y (by simp) s)
    have := ih (fun b hm => hb b (by simp [hm])) s
    simp only [replRun, hy, markers_append, diags_append, List.length_append]
    refine ⟨this.1, by simpa [markers, Line.isOut] using this.2.1, ?_⟩
    have h3 := this.2.2
    simp [diags, Line.isOut] at h3 ⊢
    omega

/-- the catalogue's forms qualify -/
theorem bad_always_rejected (k : String) (s : Session) : accepts s (.bad k) = false := rfl

example : Interleave [Form.output (.lit 1), .output (.lit 2)] [.bad "a", .bad "b"]
    [.bad "a", .output (.lit 1), .bad "b", .output (.lit 2)] := .right (.left (.right (.left .nil)))

/-- the forms of `l` that the loop accepts, in the sessions they meet -/
def kept : Session → List Form → List Form
  | _, [] => []
  | s, f :: fs => if accepts s f then f :: kept (replStep s f).1 fs else kept s fs

/-- the stronger form, for forms whose rejection depends on the session (an undefined name may be
defined later): entering `l` is the same as entering only the forms of `l` that were accepted -/
theorem drop_rejected (s : Session) (l : List Form) :
    (replRun s l).1 = (replRun s (kept s l)).1
    ∧ markers (replRun s l).2 = markers (replRun s (kept s l)).2
    ∧ allAccepted s (kept s l) = true := by
  induction l generalizing s with
  | nil => simp [replRun, kept, allAccepted]
  | cons f fs ih =>
    by_cases h : accepts s f = true
    · have := ih (replStep s f).1
      simp only [kept, h, if_true, replRun, markers_append, allAccepted, Bool.true_and]
      exact ⟨this.1, by rw [this.2.1], this.2.2⟩
    · have h' : accepts s f = false := by simpa using h
      have hy := rejected_is_noop s f h'
      have := ih s
      simp only [kept, h', replRun, hy, markers_append]
      exact ⟨this.1, by simpa [markers, Line.isOut] using this.2.1, this.2.2⟩

/-- hence: what the loop prints for any input is what the file made of the accepted forms prints -/
theorem loop_markers_eq_batch_of_kept (l : List Form) :
    markers (replRun {} l).2 = markers (batch (kept {} l)) := by
  have h := drop_rejected {} l
  rw [h.2.1, repl_eq_batch _ h.2.2]

/-- number of forms of `l` the loop rejects -/
def rejectedCount : Session → List Form → Nat
  | _, [] => 0
  | s, f :: fs => if accepts s f then rejectedCount (replStep s f).1 fs else rejectedCount s fs + 1

/-- every rejected form draws exactly one diagnostic, accepted forms none -/
theorem diagnostics_count (s : Session) (l : List Form) :
    (diags (replRun s l).2).length = rejectedCount s l := by
  induction l generalizing s with
  | nil => simp [replRun, rejectedCount, diags]
  | cons f fs ih =>
    by_cases h : accepts s f = true
    · simp only [replRun, diags_append, List.length_append, rejectedCount, h, if_true,
        accepted_no_diag s f h, List.length_nil, Nat.zero_add]
      exact ih _
    · have h' : accepts s f = false := by simpa using h
      simp only [replRun, rejected_is_noop s f h', diags_append, List.length_append, rejectedCount, h']
      have h3 := ih s
      simp [diags, Line.isOut] at h3 ⊢
      omega

/-! ## reading forms: `scanIsContinued` -/

/-- `topLine` is never anything but `true` (so `if (topLine && doubleEqualIsLast)` only tests the
second operand) -/
theorem topLine_invariant (st : ContState) (line : Option (List Char)) (h : st.topLine = true) :
    (contStep st line).1.topLine = true := by
  cases line with
  | none => simpa [contStep, contStepB] using h
  | some l =>
    simp only [contStep, contStepB]
    repeat' split
    all_goals first | exact h | simp

/-! ### the character loop on rendered tokens -/

theorem scanChars_append_nolook (s : Scan) (c : Char) (rest : List Char) :
    scanChars s (c :: rest) = scanChars (scanChar s c rest.head?) rest := rfl

/-- a string body is skipped: brackets, `;`, `=` inside it have no effect -/
theorem scan_body (ub : Int) (semi deq : Bool) (b : List SCh) (rest : List Char)
    (hb : b.all SCh.ok = true) :
    scanChars ⟨ub, true, false, semi, deq⟩ (renderBody b ++ '"' :: rest)
      = scanChars ⟨ub, false, false, semi, deq⟩ rest := by
  induction b with
  | nil => simp [renderBody, scanChars, scanChar]
  | cons x xs ih =>
    simp only [List.all_cons, Bool.and_eq_true] at hb
    cases x with
    | plain c =>
      have hc : isStrOrd c = true := hb.1
      simp only [isStrOrd, Bool.not_eq_true', Bool.or_eq_false_iff, decide_eq_false_iff_not] at hc
      simp only [renderBody, SCh.render, List.cons_append, List.nil_append, scanChars, scanChar]
      simp only [Bool.false_eq_true, if_false, if_true, hc.1.1, hc.1.2]
      exact ih hb.2
    | esc c =>
      simp only [renderBody, SCh.render, List.cons_append, List.nil_append, scanChars, scanChar]
      simp only [Bool.false_eq_true, if_false, if_true]
      exact ih hb.2

/-- first character of a rendered token sequence followed by the newline is `=` exactly when the
first token is an ordinary `=` -/
theorem head_render (ts : List Tok) (hok : ts.all Tok.ok = true) :
    ((renderToks ts ++ ['\n']).head? = some '=') ↔ (∃ r, ts = .ord '=' :: r) := by
  cases ts with
  | nil => simp [renderToks]
  | cons t r =>
    cases t with
    | ord c => simp [renderToks, Tok.render]
    | esc c => simp [renderToks, Tok.render]
    | str b => simp [renderToks, Tok.render]
    | opn k => cases k <;> simp [renderToks, Tok.render]
    | cls k => cases k <;> simp [renderToks, Tok.render]

/-- **the character loop computes the token-level quantities**: on a rendered line of well formed
tokens, started outside a string, `unmatchedBraces` moves by the bracket balance of the tokens
(brackets inside strings and escaped brackets do not count), the loop ends outside any string
with no pending escape, and `foundSemicolon` / `doubleEqualIsLast` are `semiT` / `deqT`. -/
theorem scan_render (ts : List Tok) (hok : ts.all Tok.ok = true) (ub : Int) (semi deq : Bool) :
    scanChars ⟨ub, false, false, semi, deq⟩ (renderToks ts ++ ['\n'])
      = ⟨ub + net ts, false, false, semiT semi ts, deqT deq ts⟩ := by
  induction ts generalizing ub semi deq with
  | nil => simp [renderToks, scanChars, scanChar, net, semiT, deqT]
  | cons t r ih =>
    simp only [List.all_cons, Bool.and_eq_true] at hok
    obtain ⟨ht, hr⟩ := hok
    cases t with
    | ord c =>
      have hc : isOrd c = true := ht
      simp only [isOrd, Bool.not_eq_true', Bool.or_eq_false_iff, decide_eq_false_iff_not] at hc
      obtain ⟨⟨⟨⟨⟨⟨h1, h2⟩, h3⟩, h4⟩, h5⟩, h6⟩, h7⟩ := hc
      simp only [renderToks, Tok.render, List.cons_append, List.nil_append, scanChars, scanChar]
      simp only [Bool.false_eq_true, if_false, h1, h2, h3, h4, h5, h6, h7, false_or]
      by_cases hs : c = ';'
      · subst hs
        simp only [if_true]
        rw [ih hr]; simp [net, semiT, deqT]
      · simp only [hs, if_false]
        by_cases he : c = '='
        · subst he
          by_cases hn : (renderToks r ++ ['\n']).head? = some '='
          · obtain ⟨r', hr'⟩ := (head_render r hr).1 hn
            simp only [hn, if_true]
            rw [ih hr]; subst hr'; simp [net, semiT, deqT]
          · simp only [hn, if_false, if_true]
            rw [ih hr]
            have : ¬ ∃ r', r = .ord '=' :: r' := fun h => hn ((head_render r hr).2 h)
            cases r with
            | nil => simp [net, semiT, deqT]
            | cons t2 r2 =>
              cases t2 with
              | ord c2 =>
                have : c2 ≠ '=' := fun h => this ⟨r2, by rw [h]⟩
                simp [net, semiT, deqT, this]
              | _ => simp [net, semiT, deqT]
        · simp only [he, if_false]
          by_cases hsp : c = ' '
          · subst hsp
            simp only [true_or, if_true]
            rw [ih hr]; simp [net, semiT, deqT]
          · simp only [hsp, or_self, if_false]
            rw [ih hr]; simp [net, semiT, deqT, hs, he, hsp]
    | esc c =>
      simp only [renderToks, Tok.render, List.cons_append, List.nil_append, scanChars, scanChar]
      simp only [Bool.false_eq_true, if_false, if_true]
      rw [ih hr]; simp [net, semiT, deqT]
    | str b =>
      have hb : b.all SCh.ok = true := ht
      simp only [renderToks, Tok.render, List.cons_append, List.append_assoc, List.nil_append, scanChars, scanChar]
      simp only [Bool.false_eq_true, if_false, if_true]
      have h0 : ('"' : Char) ≠ '_' := by decide
      simp only [h0, if_false]
      rw [scan_body ub semi false b _ hb, ih hr]; simp [net, semiT, deqT]
    | opn k =>
      cases k <;>
      · simp only [renderToks, Tok.render, List.cons_append, List.nil_append, scanChars, scanChar]
        simp (config := { decide := true }) only [if_false, if_true]
        rw [ih hr]; simp [net, semiT, deqT]; omega
    | cls k =>
      cases k <;>
      · simp only [renderToks, Tok.render, List.cons_append, List.nil_append, scanChars, scanChar]
        simp (config := { decide := true }) only [if_false, if_true]
        rw [ih hr]; simp [net, semiT, deqT]; omega

/-! ### one call on a rendered line -/

theorem head_hash (l : List Tok) (hok : l.all Tok.ok = true) (hne : l ≠ []) :
    ((renderLine l).head? = some '#') ↔ startsHash l = true := by
  cases l with
  | nil => exact absurd rfl hne
  | cons t r =>
    cases t with
    | ord c => simp [renderLine, renderToks, Tok.render, startsHash]
    | esc c => simp [renderLine, renderToks, Tok.render, startsHash]
    | str b => simp [renderLine, renderToks, Tok.render, startsHash]
    | opn k => cases k <;> simp [renderLine, renderToks, Tok.render, startsHash]
    | cls k => cases k <;> simp [renderLine, renderToks, Tok.render, startsHash]

theorem head_not_newline (l : List Tok) (hok : l.all Tok.ok = true) (hne : l ≠ []) :
    (renderLine l).head? ≠ some '\n' := by
  cases l with
  | nil => exact absurd rfl hne
  | cons t r =>
    simp only [List.all_cons, Bool.and_eq_true] at hok
    cases t with
    | ord c =>
      have hc : isOrd c = true := hok.1
      simp only [isOrd, Bool.not_eq_true', Bool.or_eq_false_iff, decide_eq_false_iff_not] at hc
      simp [renderLine, renderToks, Tok.render, hc.2]
    | esc c => simp [renderLine, renderToks, Tok.render]
    | str b => simp [renderLine, renderToks, Tok.render]
    | opn k => cases k <;> simp [renderLine, renderToks, Tok.render]
    | cls k => cases k <;> simp [renderLine, renderToks, Tok.render]

theorem blank_start (l : List Tok) (hok : l.all Tok.ok = true) (hne : l ≠ []) :
    isBlankStart (renderLine l) = startsBlank l := by
  cases l with
  | nil => exact absurd rfl hne
  | cons t r =>
    simp only [List.all_cons, Bool.and_eq_true] at hok
    cases t with
    | ord c =>
      have hc : isOrd c = true := hok.1
      simp only [isOrd, Bool.not_eq_true', Bool.or_eq_false_iff, decide_eq_false_iff_not] at hc
      simp [renderLine, renderToks, Tok.render, isBlankStart, startsBlank, hc.2]
    | esc c => simp [renderLine, renderToks, Tok.render, isBlankStart, startsBlank]
    | str b => simp [renderLine, renderToks, Tok.render, isBlankStart, startsBlank]
    | opn k => cases k <;> simp [renderLine, renderToks, Tok.render, isBlankStart, startsBlank]
    | cls k => cases k <;> simp [renderLine, renderToks, Tok.render, isBlankStart, startsBlank]

/-- the state between forms and between the lines of a laid-out form: outside strings, no
pending escape -/
def ContState.clean (st : ContState) : Prop := st.topLine = true ∧ st.inStr = false ∧ st.esc = false

/-- **one call of `scanIsContinued` on a rendered line**, in token-level terms: the answer is
"continued" iff a definition is being piled (`isDefining`) or brackets remain open; a negative
balance is forgiven (reset to 0, "complete"). -/
theorem contStep_line (st : ContState) (l : List Tok) (hok : l.all Tok.ok = true) (hne : l ≠ [])
    (hst : st.clean) (hh : ¬ (startsHash l = true ∧ st.ub = 0)) :
    contStep st (some (renderLine l)) =
      (let isDef1 := if startsBlank l then st.isDef else false
       let ub' := st.ub + net l
       if ub' < 0 then ({ ub := 0, isDef := isDef1 }, false)
       else ({ ub := ub', isDef := isDef1 || deqT false l }, (isDef1 || deqT false l) || decide (ub' > 0))) := by
  obtain ⟨h1, h2, h3⟩ := hst
  have hhash : ¬ ((renderLine l).head? = some '#' ∧ st.ub = 0) := by
    rw [head_hash l hok hne]; exact hh
  have hnl := head_not_newline l hok hne
  simp only [contStep, contStepB, hhash, hnl, if_false, blank_start l hok hne, h1, h2, h3]
  have hs : scanChars ⟨st.ub, false, false, false, false⟩ (renderLine l)
      = ⟨st.ub + net l, false, false, semiT false l, deqT false l⟩ := scan_render l hok st.ub false false
  simp only [hs, Bool.true_and, Bool.or_false]
  by_cases hneg : st.ub + net l < 0
  · simp [hneg]
  · by_cases hp : st.ub + net l > 0
    · cases startsBlank l <;> cases st.isDef <;> cases deqT false l <;> simp [hneg, hp]
    · cases startsBlank l <;> cases st.isDef <;> cases deqT false l <;> simp [hneg, hp] <;>
        split <;> simp

/-! ### whole forms -/

theorem wellLaidOut_single (d : Int) (l : List Tok) (h : wellLaidOut d [l] = true) :
    l.all Tok.ok = true ∧ l ≠ [] ∧ d + net l = 0 ∧ startsBlank l = false ∧ deqT false l = false
      ∧ ¬ (startsHash l = true ∧ d = 0) := by
  simp only [wellLaidOut, Bool.and_eq_true, Bool.not_eq_true', beq_iff_eq, Bool.or_eq_true, bne_iff_ne,
    List.isEmpty_eq_false_iff] at h
  obtain ⟨⟨⟨⟨⟨h1, h2⟩, h3⟩, h4⟩, h5⟩, h6⟩ := h
  refine ⟨h1, h2, h3, h4, h5, ?_⟩
  rintro ⟨a, b⟩
  cases h6 with
  | inl h => exact h b
  | inr h => rw [a] at h; cases h

theorem wellLaidOut_cons (d : Int) (l l2 : List Tok) (ls : List (List Tok))
    (h : wellLaidOut d (l :: l2 :: ls) = true) :
    l.all Tok.ok = true ∧ l ≠ [] ∧ d + net l > 0 ∧ ¬ (startsHash l = true ∧ d = 0)
      ∧ wellLaidOut (d + net l) (l2 :: ls) = true := by
  simp only [wellLaidOut, Bool.and_eq_true, Bool.not_eq_true', Bool.or_eq_true, bne_iff_ne,
    List.isEmpty_eq_false_iff, decide_eq_true_eq] at h
  obtain ⟨⟨⟨⟨h1, h2⟩, h3⟩, h4⟩, h5⟩ := h
  refine ⟨h1, h2, h3, ?_, h5⟩
  rintro ⟨a, b⟩
  cases h4 with
  | inl h => exact h b
  | inr h => rw [a] at h; cases h

theorem feedLines_cons (st : ContState) (l : List Char) (ls : List (List Char)) :
    feedLines st (l :: ls) = ((feedLines (contStep st (some l)).1 ls).1,
      (contStep st (some l)).2 :: (feedLines (contStep st (some l)).1 ls).2) := rfl

theorem readForm_cons (st : ContState) (l : List Char) (ls : List (List Char)) :
    readForm st (l :: ls) =
      if (contStep st (some l)).2 then
        ⟨(readForm (contStep st (some l)).1 ls).st, l :: (readForm (contStep st (some l)).1 ls).form,
          (readForm (contStep st (some l)).1 ls).rest⟩
      else ⟨(contStep st (some l)).1, [l], ls⟩ := rfl

theorem feed_laid_out (lines : List (List Tok)) (d : Int) (isDef : Bool)
    (h : wellLaidOut d lines = true) :
    feedLines { ub := d, isDef := isDef } (lines.map renderLine)
      = (ContState.init, List.replicate (lines.length - 1) true ++ [false]) := by
  induction lines generalizing d isDef with
  | nil => simp [wellLaidOut] at h
  | cons l rest ih =>
    cases rest with
    | nil =>
      obtain ⟨h1, h2, h3, h4, h5, h6⟩ := wellLaidOut_single d l h
      have hc := contStep_line { ub := d, isDef := isDef } l h1 h2 ⟨rfl, rfl, rfl⟩ h6
      simp only [h3, h4, h5] at hc
      simp [feedLines, hc, ContState.init]
    | cons l2 ls =>
      obtain ⟨h1, h2, h3, h4, h5⟩ := wellLaidOut_cons d l l2 ls h
      have hc := contStep_line { ub := d, isDef := isDef } l h1 h2 ⟨rfl, rfl, rfl⟩ h4
      have hn : ¬ (d + net l < 0) := by omega
      simp only [hn, if_false, h3, decide_true, Bool.or_true] at hc
      have := ih (d + net l) ((if startsBlank l = true then isDef else false) || deqT false l) h5
      simp only [List.map_cons] at this ⊢
      rw [feedLines_cons, hc]
      simp only [this]
      simp [List.replicate_succ]

/-- **a laid-out form is offered to the parser exactly at its last line**: asked line by line
about a well laid out form (brackets balanced only at the end, strings closed on their line,
last line in column one and not ending in `==`), `scanIsContinued` answers "continued" for every
line but the last and "complete" for the last, and is back in its initial state — so feeding
whole forms one after another to `-Gloop` hands the parser exactly one form per step. -/
theorem isContinued_balanced (lines : List (List Tok)) (h : wellLaidOut 0 lines = true) :
    feedLines .init (lines.map renderLine)
      = (.init, List.replicate (lines.length - 1) true ++ [false]) :=
  feed_laid_out lines 0 false h

/-- non-vacuity: `f(x) == {` / `  "}" ;` / `}`  (a closing brace inside a string on the way) -/
example : wellLaidOut 0
    [[.ord 'f', .opn false, .ord 'x', .cls false, .ord ' ', .ord '=', .ord '=', .ord ' ', .opn true],
     [.ord ' ', .ord ' ', .str [.plain '}', .esc '"'], .ord ';'],
     [.cls true]] = true := by decide
/-- the layout conditions matter: an *indented* closing brace after `== {` is not the end of the
form for `scanIsContinued` (`isDefining` stays set) — the C function's behaviour, kept by the model -/
example : (feedLines .init ([[Tok.ord 'a', .ord '=', .ord '=', .opn true], [.ord ' ', .cls true]].map renderLine)).2
    = [true, true] := by decide
/-- … and a bracket in a comment counts (`scanIsContinued` knows nothing of comments) -/
example : (feedLines .init [['-', '-', ' ', '(', '\n'], ['x', '\n']]).2 = [true, true] := by decide

theorem readForm_laid_out (lines : List (List Tok)) (d : Int) (isDef : Bool)
    (h : wellLaidOut d lines = true) (rest : List (List Char)) :
    readForm { ub := d, isDef := isDef } (lines.map renderLine ++ rest)
      = ⟨.init, lines.map renderLine, rest⟩ := by
  induction lines generalizing d isDef with
  | nil => simp [wellLaidOut] at h
  | cons l more ih =>
    cases more with
    | nil =>
      obtain ⟨h1, h2, h3, h4, h5, h6⟩ := wellLaidOut_single d l h
      have hc := contStep_line { ub := d, isDef := isDef } l h1 h2 ⟨rfl, rfl, rfl⟩ h6
      simp only [h3, h4, h5] at hc
      simp [readForm, hc, ContState.init]
    | cons l2 ls =>
      obtain ⟨h1, h2, h3, h4, h5⟩ := wellLaidOut_cons d l l2 ls h
      have hc := contStep_line { ub := d, isDef := isDef } l h1 h2 ⟨rfl, rfl, rfl⟩ h4
      have hn : ¬ (d + net l < 0) := by omega
      simp only [hn, if_false, h3, decide_true, Bool.or_true] at hc
      have := ih (d + net l) ((if startsBlank l = true then isDef else false) || deqT false l) h5
      simp only [List.map_cons, List.cons_append] at this ⊢
      rw [readForm_cons, hc]
      simp only [if_true, this]

theorem splitForms_nil (st : ContState) : splitForms st [] = [] := by
  rw [splitForms]

theorem splitForms_cons (st : ContState) (l : List Char) (ls : List (List Char)) :
    splitForms st (l :: ls) = (readForm st (l :: ls)).form ::
      splitForms (readForm st (l :: ls)).st (readForm st (l :: ls)).rest := by
  rw [splitForms]

/-- **the loop sees the forms one by one**: the input made of well laid out forms, one after
another, is cut by `inclLine`/`scanIsContinued` into exactly those forms. -/
theorem splitForms_balanced (forms : List (List (List Tok)))
    (h : ∀ f ∈ forms, wellLaidOut 0 f = true) :
    splitForms .init (forms.flatMap (fun f => f.map renderLine)) = forms.map (fun f => f.map renderLine) := by
  induction forms with
  | nil => simp [splitForms_nil]
  | cons f fs ih =>
    have hf := h f (by simp)
    have hr := readForm_laid_out f 0 false hf (fs.flatMap (fun f => f.map renderLine))
    cases f with
    | nil => simp [wellLaidOut] at hf
    | cons l ls =>
      simp only [List.flatMap_cons, List.map_cons, List.cons_append] at hr ⊢
      rw [splitForms_cons]
      have h0 : ({ ub := 0, isDef := false } : ContState) = ContState.init := rfl
      rw [h0] at hr
      rw [hr]
      simp only [List.cons.injEq, true_and]
      exact ih (fun g hg => h g (by simp [hg]))

/-- the `String` entry point on concrete text -/
example : isContinued "f(x: Integer): Integer == {\n" = true := by decide +kernel
example : isContinued "stdout << \"(\" << newline;\n" = false := by decide +kernel
example : isContinued "a := \"open string\n" = true := by decide +kernel

end AldorVerif.Repl
