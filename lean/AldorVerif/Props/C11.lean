import AldorVerif.Lemmas.BigInt
import AldorVerif.Lemmas.BigIntShift
import AldorVerif.Lemmas.BigIntKnuth
import AldorVerif.Lemmas.BigIntPow
import AldorVerif.Lemmas.BigIntMod
import AldorVerif.Lemmas.BigIntText
import AldorVerif.Lemmas.BigIntScan

/-! # C11: property theorems about the model of `bigint.c` / `foam_i.c`

`BInt.val : BInt → Int` is the integer a representation denotes and `WF` the normal form every
`bint*` entry point produces and expects: immediates inside `[-(2^62-1), 2^62-1]`, stored numbers
with digits below `2^32`, no leading zero place, and outside the immediate range
(both defined in `Model/BigInt.lean`).  Every theorem also states `WF` of the result. -/
namespace AldorVerif.BigInt

instance : DecidablePred WF := fun b =>
  match b with
  | .imm v => inferInstanceAs (Decidable (MINI ≤ v ∧ v ≤ MAXI))
  | .big _ ds => inferInstanceAs (Decidable ((∀ d ∈ ds, d < R) ∧ ds.getLast? ≠ some 0 ∧ MAXI < (natVal ds : Int)))

/-- the integer denoted -/
abbrev val (a : BInt) : Int := a.val

/-- `bintNegate`: exact, normal form kept. -/
theorem negate_val (a : BInt) (h : WF a) : val (bintNegate a) = - val a ∧ WF (bintNegate a) :=
  bintNegate_spec h

/-- `bintAbs`. -/
theorem abs_val (a : BInt) (h : WF a) : val (bintAbs a) = (val a).natAbs ∧ WF (bintAbs a) :=
  bintAbs_spec h

/-- `bintEQ` decides equality of the denoted integers. -/
theorem eq_iff (a b : BInt) (ha : WF a) (hb : WF b) : bintEQ a b = true ↔ val a = val b :=
  bintEQ_iff ha hb

/-- `bintLT`. -/
theorem lt_iff (a b : BInt) (ha : WF a) (hb : WF b) : bintLT a b = true ↔ val a < val b :=
  bintLT_iff ha hb

/-- `bintGT`. -/
theorem gt_iff (a b : BInt) (ha : WF a) (hb : WF b) : bintGT a b = true ↔ val b < val a :=
  bintGT_iff ha hb

/-- `bintPlus` (immediate fast path, the four sign cases, `iintPlus`/`iintMinus`, renormalisation). -/
theorem plus_val (a b : BInt) (ha : WF a) (hb : WF b) :
    val (bintPlus a b) = val a + val b ∧ WF (bintPlus a b) := bintPlus_spec ha hb

/-- `bintMinus`. -/
theorem minus_val (a b : BInt) (ha : WF a) (hb : WF b) :
    val (bintMinus a b) = val a - val b ∧ WF (bintMinus a b) := bintMinus_spec ha hb

/-- `bintTimes` (half-word fast path, the 0/±1 shortcuts, `iintTimes`). -/
theorem times_val (a b : BInt) (ha : WF a) (hb : WF b) :
    val (bintTimes a b) = val a * val b ∧ WF (bintTimes a b) := bintTimes_spec ha hb

/-- `bintNew`/`fiSIntToBInt` and `fiBIntToSInt`: every C `long` converts exactly, to the normal
form, and converts back to itself. -/
theorem new_small (n : BitVec 64) :
    val (bintNew n) = n.toInt ∧ WF (bintNew n) ∧ fiBIntToSInt (bintNew n) = n := bintNew_spec n

/-- `fiBIntToSInt` is reduction modulo `2^64` (exact whenever the value fits a `long`). -/
theorem toSInt_val (a : BInt) (h : WF a) : fiBIntToSInt a = BitVec.ofInt 64 (val a) :=
  fiBIntToSInt_spec h

/-- `bintBit`: bit `i` of the magnitude. -/
theorem bit_val (a : BInt) (h : WF a) (i : Nat) : bintBit a i = (val a).natAbs.testBit i :=
  bintBit_spec h i

/-- `bintLength`/`fiBIntLength`: the bit length of the magnitude, with the length of zero
defined to be one (as the C comment says). -/
theorem length_val (a : BInt) (h : WF a) :
    bintLength a = max 1 (if val a = 0 then 0 else Nat.log2 (val a).natAbs + 1) := by
  rw [bintLength_spec h]; unfold bitLen
  by_cases h0 : a.val = 0
  · simp [h0]
  · have : a.val.natAbs ≠ 0 := by omega
    simp [h0, this]

/-- `bintShift` (`fiBIntShiftUp`/`fiBIntShiftDn`): multiplication by `2^n`, and for negative `n`
division by `2^-n` truncated toward zero (the magnitude is shifted, the sign kept). -/
theorem shift_val (a : BInt) (h : WF a) (n : Int) :
    val (bintShift a n) = (if 0 ≤ n then val a * 2 ^ n.toNat else Int.tdiv (val a) (2 ^ (-n).toNat)) ∧
      WF (bintShift a n) := by
  obtain ⟨v, w⟩ := bintShift_spec h n
  refine ⟨?_, w⟩
  simp only [val]
  rw [v]
  unfold shiftNat
  by_cases hn : 0 ≤ n
  · simp only [if_pos hn, Nat.shiftLeft_eq]
    by_cases ha : a.val < 0
    · rw [if_pos ha]
      have : a.val = -(a.val.natAbs : Int) := by omega
      conv => rhs; rw [this]
      rw [Int.neg_mul]; simp [Int.natCast_pow]
    · rw [if_neg ha]
      have : a.val = (a.val.natAbs : Int) := by omega
      conv => rhs; rw [this]
      simp [Int.natCast_pow]
  · simp only [if_neg hn, Nat.shiftRight_eq_div_pow]
    by_cases ha : a.val < 0
    · rw [if_pos ha]
      have : a.val = -(a.val.natAbs : Int) := by omega
      conv => rhs; rw [this]
      rw [Int.neg_tdiv, Int.ofNat_tdiv]; simp [Int.natCast_pow]
    · rw [if_neg ha]
      have : a.val = (a.val.natAbs : Int) := by omega
      conv => rhs; rw [this]
      rw [Int.ofNat_tdiv]; simp [Int.natCast_pow]

/-- `bintDivide` (`fiBIntDivide`, `fiBIntQuo`): for a non-zero divisor the quotient is the exact
quotient truncated toward zero and the remainder carries the sign of the dividend — for every
divisor size: one place (`iintDivideS`), dividend smaller than divisor, and Knuth's Algorithm D
with its `qhat` correction loop and add-back step. -/
theorem divide_spec (a b : BInt) (ha : WF a) (hb : WF b) (h0 : val b ≠ 0) :
    val (bintDivide a b).1 = Int.tdiv (val a) (val b) ∧ val (bintDivide a b).2 = Int.tmod (val a) (val b) ∧
    WF (bintDivide a b).1 ∧ WF (bintDivide a b).2 := bintDivide_spec ha hb h0

/-- `a = q*b + r` and `|r| < |b|`. -/
theorem divide_recompose (a b : BInt) (ha : WF a) (hb : WF b) (h0 : val b ≠ 0) :
    val a = val (bintDivide a b).1 * val b + val (bintDivide a b).2 ∧
    (val (bintDivide a b).2).natAbs < (val b).natAbs := by
  obtain ⟨q, r, _, _⟩ := divide_spec a b ha hb h0
  rw [q, r]
  refine ⟨?_, ?_⟩
  · have := Int.tmod_add_mul_tdiv (val a) (val b)
    rw [Int.mul_comm]; omega
  · rw [Int.natAbs_tmod]
    exact Nat.mod_lt _ (by omega)

/-- `bintMod` (`fiBIntMod` = `fiBIntRem`): the remainder of the truncated division, carrying the sign
of the dividend — through `bintModi` (one place and two place divisors, Horner's rule with
`xxModDouble`) and through `bintDivide`. -/
theorem mod_val (a b : BInt) (ha : WF a) (hb : WF b) (h0 : val b ≠ 0) :
    val (bintMod a b) = Int.tmod (val a) (val b) ∧ WF (bintMod a b) := bintMod_spec ha hb h0

/-- `fiBIntGcd`: the non-negative greatest common divisor. -/
theorem gcd_val (a b : BInt) (ha : WF a) (hb : WF b) :
    val (fiBIntGcd a b) = (Int.gcd (val a) (val b) : Int) ∧ WF (fiBIntGcd a b) := fiBIntGcd_spec ha hb

/-- `fiBIntSIPower` for a non-negative machine integer exponent. -/
theorem sipower_val (a : BInt) (ha : WF a) (n : BitVec 64) (hn : 0 ≤ n.toInt) :
    val (fiBIntSIPower a n) = val a ^ n.toNat ∧ WF (fiBIntSIPower a n) := fiBIntSIPower_spec ha n hn

/-- `fiBIntBIPower` for a non-negative exponent. -/
theorem bipower_val (a b : BInt) (ha : WF a) (hb : WF b) (hb0 : 0 ≤ val b) :
    val (fiBIntBIPower a b) = val a ^ (val b).toNat ∧ WF (fiBIntBIPower a b) := fiBIntBIPower_spec ha hb hb0

/-- `fiBIntPowerMod`: `a^b` reduced modulo `c` (remainder of the truncated division, so the sign is
that of `a^b`), for every non-negative exponent and non-zero modulus — exponent 0 included
(`bintMod(bint1, c)`, i.e. 0 for `c = ±1`). -/
theorem powermod_val (a b c : BInt) (ha : WF a) (hb : WF b) (hc : WF c) (hc0 : val c ≠ 0) (hb0 : 0 ≤ val b) :
    val (fiBIntPowerMod a b c) = Int.tmod (val a ^ (val b).toNat) (val c) ∧ WF (fiBIntPowerMod a b c) :=
  fiBIntPowerMod_spec ha hb hc hc0 hb0

example : fiBIntPowerMod (.imm 5) (.imm 0) (.imm 1) = .imm 0 ∧ fiBIntPowerMod (.imm 5) (.imm 0) (.imm (-1)) = .imm 0 ∧
    fiBIntPowerMod (.imm (-3)) (.imm 3) (.imm 5) = .imm (-2) := by decide

/-- `bintSmall`: the value, whenever it fits a C `long` (stored numbers between `2^62` and `2^63` included). -/
theorem small_val (a : BInt) (ha : WF a) (h1 : -9223372036854775808 ≤ val a) (h2 : val a < 9223372036854775808) :
    bintSmall a = val a := bintSmall_spec ha h1 h2

/-- full-strength statement for `bintShiftRem` on non-negative operands: the low `n` bits. -/
def shiftRem_statement : Prop :=
  ∀ (a : BInt) (n : Nat), WF a → 0 ≤ val a → n ≤ bintLength a →
    val (bintShiftRem a n) = ((val a).toNat % 2 ^ n : Nat) ∧ WF (bintShiftRem a n)

/-- false of the code: the mask `(1 << n) - 1` is formed with an `int` shift
(known finding `bigint|shiftrem-mask`). -/
theorem shiftRem_statement_refuted : ¬ shiftRem_statement := by
  intro h
  have := (h (.imm 8589934591) 32 (by decide) (by decide) (by decide)).1
  revert this
  decide

/-- `bintToString` (`bintIntoString`, `fiFormatBInt`): the text is exactly Lean's decimal text of the
value (`toString : Int → String`): minus sign for negatives, no leading zeros, `"0"` for zero. -/
theorem toString_repr (a : BInt) (ha : WF a) : String.ofList (bintToString a) = toString (val a) := by
  rw [bintToString_spec ha]
  simp only [val]
  cases h : a.val with
  | ofNat m =>
    have : ¬ (Int.ofNat m < 0) := Int.not_lt.mpr (Int.natCast_nonneg m)
    rw [if_neg this]
    show String.ofList ([] ++ Nat.toDigits 10 m) = toString m
    rw [Nat.toString_eq_ofList_toDigits]; rfl
  | negSucc m =>
    have : Int.negSucc m < 0 := Int.negSucc_lt_zero m
    rw [if_pos this]
    show String.ofList (['-'] ++ Nat.toDigits 10 (m + 1)) = "-" ++ toString (m + 1)
    rw [Nat.toString_eq_ofList_toDigits, String.ofList_append]

/-- `bintFrString (bintToString a) = a`: the decimal text reads back to the very same normal form
(through the lexer of `bintRadixScanFrString`, the `strtol` path and the chunk path). -/
theorem frString_toString (a : BInt) (ha : WF a) : bintFrString (bintToString a) = a :=
  frString_toString_spec ha

/-- radix conversion from text (`bintRadixScanFrString` after its lexer): for every radix 2..36 and every
string of digits `0-9A-Z` valid in that radix the exact value results, in normal form. -/
theorem radixScan_val (rdx : Nat) (h2 : 2 ≤ rdx) (h36 : rdx ≤ 36) (num : List Char)
    (hv : ∀ c ∈ num, ValidDigit rdx c) (isNeg : Bool) :
    val (radixScanCore isNeg (rdx : Int) num).1 = (if isNeg then -(radVal rdx num : Int) else (radVal rdx num : Int)) ∧
    WF (radixScanCore isNeg (rdx : Int) num).1 := radixScanCore_spec h2 h36 hv isNeg

/-- decimal conversion from text (`bintScanFrString`/`fiScanBInt` after its lexer). -/
theorem scan_val (digs : List Char) (hv : ∀ c ∈ digs, ValidDigit 10 c) (isNeg : Bool) :
    val (scanCore isNeg digs).1 = (if isNeg then -(radVal 10 digs : Int) else (radVal 10 digs : Int)) ∧
    WF (scanCore isNeg digs).1 := scanCore_spec hv isNeg

example : bintFrString "16rFFFFFFFFFFFFFFFFFF".toList = .big false [4294967295, 4294967295, 255] := by decide

/-! non-vacuity: well-formed operands of both representations exist and exercise the
representation switch -/
example : WF (.imm 4611686018427387903) ∧ WF (.big true [0, 1073741824]) ∧
    bintPlus (.imm 4611686018427387903) (.imm 1) = .big false [0, 1073741824] ∧
    bintPlus (.big true [0, 1073741824]) (.imm 1) = .imm (-4611686018427387903) := by
  refine ⟨by decide, by decide, by decide, by decide⟩

end AldorVerif.BigInt
