import AldorVerif.Model.Peep
import AldorVerif.Model.OptControl
import AldorVerif.Model.PeepTable
import AldorVerif.Lemmas.Peep
/-!
# C02 — optimisation settings never change program behaviour (modelled part)

* the peephole pass (`of_peep.c`) on the Bool/SInt expression fragment preserves the meaning of
  expressions (`peep_preserves_partial`, `peep_preserves`, `peepStmt_preserves`); the rules that
  are unsound as written are refuted with witnesses (`peep_preserves_statement_refuted`,
  `peepNegate_swap_refuted`, `peepCast_narrow_refuted`), the loop that does not terminate is
  exhibited (`peepAux_minint_diverges`), the unchecked `Select` index is recorded
  (`peepSelect_guard_statement_refuted`);
* the level table regenerated from `optfoam.c` is monotone (`optlevel_monotone`) and the set of
  switches is the one the end-to-end search enumerates (`opt_switch_names_complete`).

Constant folding (`of_cfold.c`) belongs to C04: `AldorVerif.Gen.Cfold` (regenerated per-builtin folding
functions over `CSem`/`Prims`, results in `CRes`) and `Props/C04Gen*.lean` (`cfold_X_spec : Spec.X a… = some r →
Gen.Cfold.X P a… = CRes.val r`, `cfold_X_notrap`) exist.  The corollary for this fragment,

    def cfold_preserves_statement : Prop :=
      ∀ P F st e, WT e → evalE F (cfold P e) st = evalE F e st

with `cfold P : Expr → Expr` rewriting `b1 op (const)` / `b2 op (const) (const)` through `Gen.Cfold.X P`, needs
one bridging lemma per builtin (`Spec.X a b = some (sem2 op a b)`, Bool operands as `Bool`, Char as `BitVec 8`)
for the 22 builtins of `Op1`/`Op2`, plus the excluded points (division is not in the fragment); it is not
stated here yet - the operator-level content is exactly the C04 theorems, `sem1`/`sem2` above being the
wrap-around `BitVec 64` specification.  The passes that are
neither `peep` nor `cfold` (inline, cprop, cse, emerge, env, flow, deadvar, dassign, hfold, cast,
emerge-rr, killp, argsub) are not modelled; they are covered by the end-to-end search
(checks/parts/optsearch.py) only.
-/
namespace AldorVerif.Peep
open AldorVerif.Gen.OptControl AldorVerif.OptControl

/-! ## the peephole pass preserves meaning -/

/-- Full-strength statement: every well-typed expression keeps its meaning (value, final
state) for every meaning of the unknown functions. False of the code, see below. -/
def peep_preserves_statement : Prop :=
  ∀ (oob : Oob) (fast : Bool) (n : Nat) (F : Calls) (st : St) (e : Expr),
    WT e → evalE F (peepAux oob fast n e) st = evalE F e st

/-- What holds: expressions in which no Cast narrows (`castOK`) and in which the two operands
of every binary builtin commute (`ordered`: both free of side effects, or one of them a
constant expression) keep their meaning — whatever `oob` (the words the C code reads behind
its table), whichever builtin table (`fast`), however long the loop runs (`n`).  The rules
with a `peepNoSideFx` guard in the C text (`x*0`, `false and x`, `x-x`, `x=x`, `gcd(1,x)` …)
need no hypothesis: the guard is modelled and is what makes them sound for expressions with
side effects. -/
theorem peep_preserves_partial (oob : Oob) (fast : Bool) (n : Nat) (F : Calls) (st : St) (e : Expr)
    (hw : WT e) (hc : castOK e = true) (ho : ordered e = true) :
    evalE F (peepAux oob fast n e) st = evalE F e st :=
  (peepAux_sim oob fast n e ⟨hw, hc, ho⟩).ev F st

/-- the hypotheses are not vacuous: an expression with a side effect that meets them and that
the pass rewrites -/
example : WT (.b2 .sintPlus (.call 0 .sint (.sint 5)) (.sint 0)) ∧
    castOK (.b2 .sintPlus (.call 0 .sint (.sint 5)) (.sint 0)) = true ∧
    ordered (.b2 .sintPlus (.call 0 .sint (.sint 5)) (.sint 0)) = true ∧
    peepAux ⟨true, false, false⟩ false 5 (.b2 .sintPlus (.call 0 .sint (.sint 5)) (.sint 0))
      = .call 0 .sint (.sint 5) := by decide

theorem pure_ordered : ∀ (e : Expr), sideFx e = false → ordered e = true := by
  intro e
  induction e with
  | b2 op a b iha ihb =>
    intro h; simp [sideFx] at h
    simp [ordered, iha h.1, ihb h.2, commute, h.1, h.2]
  | b1 op a ih => intro h; simp [sideFx] at h; simpa [ordered] using ih h
  | cast t x ih => intro h; simp [sideFx] at h; simpa [ordered] using ih h
  | call k t a _ => intro h; simp [sideFx] at h
  | bool b => intro _; rfl
  | sint v => intro _; rfl
  | loc i => intro _; rfl
  | b0 op => intro _; rfl

/-- expressions without side effects: no condition on the order of operands is needed, the
state is untouched and the value is kept -/
theorem peep_preserves (oob : Oob) (fast : Bool) (n : Nat) (F : Calls) (st : St) (e : Expr)
    (hw : WT e) (hc : castOK e = true) (hp : sideFx e = false) :
    evalE F (peepAux oob fast n e) st = evalE F e st ∧ (evalE F e st).2 = st :=
  ⟨peep_preserves_partial oob fast n F st e hw hc (pure_ordered e hp), pure_state F e st hp⟩

/-- the pass keeps the type and never introduces a side effect -/
theorem peep_preserves_type (oob : Oob) (fast : Bool) (n : Nat) (e : Expr)
    (hw : WT e) (hc : castOK e = true) (ho : ordered e = true) :
    typeOf (peepAux oob fast n e) = typeOf e ∧
    (sideFx e = false → sideFx (peepAux oob fast n e) = false) :=
  ⟨(peepAux_sim oob fast n e ⟨hw, hc, ho⟩).ty, (peepAux_sim oob fast n e ⟨hw, hc, ho⟩).pure⟩

/-! ### witnesses -/

/-- unknown functions that number their calls: the result is the number of calls made so
far, the argument is recorded -/
def countCalls : Calls := fun _ v st => (BitVec.ofNat 64 st.out.length, { st with out := v :: st.out })

/-- unknown functions that set local 0 to 10 and return their argument -/
def setLoc0 : Calls := fun _ v st => (v, { st with loc := fun i => if i = 0 then 10 else st.loc i })

def st0 : St := ⟨fun _ => 0, []⟩

/-- `(-f()) + g()` becomes `g() - f()`: the calls happen in the opposite order
(`peepAdditiveOp` has no side-effect test at all). -/
def reorderWitness : Expr :=
  .b2 .sintPlus (.b1 .sintNegate (.call 0 .sint (.sint 1))) (.call 1 .sint (.sint 2))

theorem peep_preserves_statement_refuted : ¬ peep_preserves_statement := by
  intro h
  have h1 := h ⟨false, false, false⟩ false 4 countCalls st0 reorderWitness (by decide)
  have h2 := congrArg (fun r => r.1) h1
  revert h2
  decide

example : peepAux ⟨false, false, false⟩ false 4 reorderWitness
    = .b2 .sintMinus (.call 1 .sint (.sint 2)) (.call 0 .sint (.sint 1)) := by decide

/-- `not (f() <= v0)` becomes `v0 < f()` because ONE operand (`v0`) is free of side effects —
the guard `peepNegate` has — although `f` changes `v0`. -/
def negateWitness : Expr :=
  .b1 .boolNot (.b2 .sintLE (.call 0 .sint (.sint 5)) (.loc 0))

theorem peepNegate_swap_refuted :
    WT negateWitness ∧ castOK negateWitness = true ∧
    peepAux ⟨false, false, false⟩ false 4 negateWitness = .b2 .sintLT (.loc 0) (.call 0 .sint (.sint 5)) ∧
    (evalE setLoc0 (peepAux ⟨false, false, false⟩ false 4 negateWitness) st0).1 = 1 ∧
    (evalE setLoc0 negateWitness st0).1 = 0 := by decide

/-- `(Cast SInt (Cast Char v0))` becomes `v0`: the byte view is dropped (the source program
`ord(char 300)` prints 44 without and 300 with the pass). -/
def castWitness : Expr := .cast .sint (.cast .char (.loc 0))

def st300 : St := ⟨fun _ => 300, []⟩

theorem peepCast_narrow_refuted :
    WT castWitness ∧ ordered castWitness = true ∧
    peepAux ⟨false, false, false⟩ false 4 castWitness = .loc 0 ∧
    (evalE countCalls (peepAux ⟨false, false, false⟩ false 4 castWitness) st300).1 = 300 ∧
    (evalE countCalls castWitness st300).1 = 44 := by decide

/-- The guard is necessary: `f() * 0` is NOT rewritten to `0` (first part), and rewriting it
would lose the call (second part: the states differ). -/
theorem sidefx_guard_necessary :
    peepAux ⟨false, false, false⟩ false 4 (.b2 .sintTimes (.call 0 .sint (.sint 5)) (.sint 0))
      = .b2 .sintTimes (.call 0 .sint (.sint 5)) (.sint 0) ∧
    (evalE countCalls (.b2 .sintTimes (.call 0 .sint (.sint 5)) (.sint 0)) st0).1
      = (evalE countCalls (.sint 0) st0).1 ∧
    (evalE countCalls (.b2 .sintTimes (.call 0 .sint (.sint 5)) (.sint 0)) st0).2.out
      ≠ (evalE countCalls (.sint 0) st0).2.out := by decide

/-- without a side effect the same product is folded -/
example : peepAux ⟨false, false, false⟩ false 4 (.b2 .sintTimes (.loc 0) (.sint 0)) = .sint 0 := by decide

/-! ### the loop of `peepAux` need not end -/

def minInt : W := BitVec.twoPow 64 63

theorem peepAux_leaf (oob : Oob) (fast : Bool) (n i : Nat) : peepAux oob fast n (.loc i) = .loc i := by
  cases n <;> simp [peepAux, rule]

theorem peepAux_sint (oob : Oob) (fast : Bool) (n : Nat) (c : W) : peepAux oob fast n (.sint c) = .sint c := by
  cases n <;> simp [peepAux, rule]

/-- `v0 + MinInt` and `v0 - MinInt` are rewritten into each other for ever (`peepPositive`
"negates" the most negative SInt to itself): whatever the fuel, the result is one of the two,
and the rule still fires on it.  The C loop `do … while (subChanged)` does not return
(harness: `0 0 ret SIntPlus v0 #-9223372036854775808` runs until killed). -/
theorem peepAux_minint_diverges (oob : Oob) (fast : Bool) (n : Nat) :
    (peepAux oob fast n (.b2 .sintPlus (.loc 0) (.sint minInt)) = .b2 .sintPlus (.loc 0) (.sint minInt) ∨
     peepAux oob fast n (.b2 .sintPlus (.loc 0) (.sint minInt)) = .b2 .sintMinus (.loc 0) (.sint minInt)) ∧
    normal oob fast (peepAux oob fast n (.b2 .sintPlus (.loc 0) (.sint minInt))) = false := by
  have hp : rule oob fast (.b2 .sintPlus (.loc 0) (.sint minInt)) = some (.b2 .sintMinus (.loc 0) (.sint minInt)) := by
    cases fast <;> rfl
  have hm : rule oob fast (.b2 .sintMinus (.loc 0) (.sint minInt)) = some (.b2 .sintPlus (.loc 0) (.sint minInt)) := by
    cases fast <;> rfl
  have both : ∀ n, (peepAux oob fast n (.b2 .sintPlus (.loc 0) (.sint minInt)) = .b2 .sintPlus (.loc 0) (.sint minInt) ∨
       peepAux oob fast n (.b2 .sintPlus (.loc 0) (.sint minInt)) = .b2 .sintMinus (.loc 0) (.sint minInt)) ∧
      (peepAux oob fast n (.b2 .sintMinus (.loc 0) (.sint minInt)) = .b2 .sintPlus (.loc 0) (.sint minInt) ∨
       peepAux oob fast n (.b2 .sintMinus (.loc 0) (.sint minInt)) = .b2 .sintMinus (.loc 0) (.sint minInt)) := by
    intro n
    induction n with
    | zero => simp [peepAux]
    | succ n ih =>
      simp only [peepAux, peepAux_leaf, peepAux_sint, hp, hm]
      exact ⟨ih.2, ih.1⟩
  refine ⟨(both n).1, ?_⟩
  rcases (both n).1 with h | h <;> rw [h] <;> simp [normal, hp, hm]

/-! ### statements: `peepIf`, `peepSelect` -/

/-- `Return`, `If`, `Select` keep their outcome, provided the operand meets the hypotheses of
`peep_preserves_partial` and a `Select` has fewer than 2^31 labels and an index that is in
range whenever it is evaluated (`peepSelect` has no such test, see below). -/
theorem peepStmt_preserves (oob : Oob) (fast : Bool) (n : Nat) (F : Calls) (st : St) (s : Stmt)
    (hg : ∀ e, (s = .ret e ∨ (∃ l, s = .ifgoto e l) ∨ (∃ ls, s = .select e ls)) →
      WT e ∧ castOK e = true ∧ ordered e = true)
    (hsel : ∀ e ls, s = .select e ls → ls.length < 2 ^ 31 ∧
      ∀ F st, (evalE F e st).1.toNat < ls.length) :
    evalS F (peepStmt oob fast n s) st = evalS F s st := by
  cases s with
  | ret e =>
    obtain ⟨h1, h2, h3⟩ := hg e (Or.inl rfl)
    simp [peepStmt, evalS, peep_preserves_partial oob fast n F st e h1 h2 h3]
  | ifgoto c l =>
    obtain ⟨h1, h2, h3⟩ := hg c (Or.inr (Or.inl ⟨l, rfl⟩))
    have hev := peep_preserves_partial oob fast n F st c h1 h2 h3
    simp only [peepStmt]
    generalize peepAux oob fast n c = c' at hev
    cases c' with
    | bool b =>
      cases b <;> simp [stmtRule, evalS] <;> rw [← hev] <;> simp [evalE, ofBool]
    | _ => simp [stmtRule, evalS, hev]
  | select e ls =>
    obtain ⟨h1, h2, h3⟩ := hg e (Or.inr (Or.inr ⟨ls, rfl⟩))
    obtain ⟨hl, hr⟩ := hsel e ls rfl
    have hev := peep_preserves_partial oob fast n F st e h1 h2 h3
    have hrng := hr F st
    simp only [peepStmt]
    generalize peepAux oob fast n e = e' at hev
    cases e' with
    | sint c =>
      have hc : (evalE F e st).1 = c := by rw [← hev]; rfl
      have hs : (evalE F e st).2 = st := by rw [← hev]; rfl
      rw [hc] at hrng
      have hlt : c.toNat < 2 ^ 31 := Nat.lt_trans hrng hl
      have hidx : (c.setWidth 32).toInt = (c.toNat : Int) := by
        rw [BitVec.toInt_eq_toNat_of_lt]
        · simp [BitVec.toNat_setWidth]; omega
        · simp [BitVec.toNat_setWidth]; omega
      simp only [stmtRule, hidx]
      have hnn : ¬ ((c.toNat : Int) < 0) := by omega
      simp only [hnn, if_false, Int.toNat_natCast]
      simp only [evalS, hc, hs]
      cases hget : ls[c.toNat]? with
      | none => simp at hget; omega
      | some l => simp
    | _ => simp [stmtRule, evalS, hev]
  | goto l => rfl
  | nop => rfl
  | oobRead => rfl

/-- "`peepSelect` never reads outside the Select node" -/
def peepSelect_guard_statement : Prop :=
  ∀ (oob : Oob) (fast : Bool) (n : Nat) (s : Stmt), s ≠ .oobRead → peepStmt oob fast n s ≠ .oobRead

/-- it does: `foam->foamSelect.argv[idx]` is used without comparing `idx` with the number of
labels (harness: `0 0 sel #7 4 5 6` answers `goto <whatever lies behind the node>`). -/
theorem peepSelect_guard_statement_refuted : ¬ peepSelect_guard_statement := by
  intro h
  exact h ⟨false, false, false⟩ false 1 (.select (.sint 7) [4, 5, 6]) (by decide) (by decide)

/-! ## the tables of of_peep.c (regenerated) -/

open AldorVerif.Gen.PeepTable in
/-- The hand-written columns of the model are the columns of the regenerated `peepBValOpInfo[]`,
row by row; every row sits at the number of its operation (the C code indexes the table with
`enum bvalOp` values); the rows `peepMakeUnaryOp` consults for its arity test say what
`NOp.nullary` says. -/
theorem peep_table_matches_model :
    allPOps.all rowMatches = true ∧ rowsAligned = true ∧
    (inTableNOps.all fun n => genNullary n == some (n.nullary ⟨false, false, false⟩)) = true := by decide

/-- `peepFindOpInfo` of the model = lookup in the regenerated `foamBValOpInfoTableFast/Slow[]`, for
every builtin of the fragment and both tables -/
theorem peep_builtin_tables_match_model :
    (allOp1.all fun o => genInfo true o.cname == info1 true o && genInfo false o.cname == info1 false o) = true ∧
    (allOp2.all fun o => genInfo true o.cname == info2 o && genInfo false o.cname == info2 o) = true := by decide

/-- The operations OpNonNeg, OpNonPos and OpId have numbers behind the last row of the table: the
`peepBValOpInfo[op].arity` that `peepMakeUnaryOp` reads for them is outside the array (what is
found there depends on the link; `Oob` carries it, the harness reports it), while OpNonZero hits
the terminating row. -/
theorem peep_table_read_out_of_bounds :
    rowByNumber "OpNonNeg" = none ∧ rowByNumber "OpNonPos" = none ∧ rowByNumber "OpId" = none ∧
    (rowByNumber "OpNonZero").map (·.op) = some "-1" := by decide

/-- Every identity a row of the regenerated table claims for a builtin of the fragment is valid
for ALL operand values: with `r` the row of the builtin's abstract operation, a column entry
other than OpNone says "the call equals this unary expression of the other operand" when the left
(right) operand is the constant 0 (1), or when both operands are the same side-effect-free
expression.  (`x+0 = x`, `x*1 = x`, `x*0 = 0`, `x-x = 0`, `0-x = -x`, `x-1 = prev x`, `gcd(1,x) = 1`,
`0<x = isPos x`, `x<=0 = not isPos x`, `x=x`, … and nothing for `gcd(0,x)`, `x/x`, `0/x`.) -/
theorem peep_table_identities_valid (op : Op2) (t : Ty) (p : POp) (hi : info2 op = some (t, p)) :
    ∃ r, genRow p = some r ∧
      (∀ n, NOp.ofCName r.leftZero = some n → n ≠ .none → ∀ v, sem2 op 0#64 v = nopSem n v) ∧
      (∀ n, NOp.ofCName r.leftOne = some n → n ≠ .none → ∀ v, sem2 op 1#64 v = nopSem n v) ∧
      (∀ n, NOp.ofCName r.rightZero = some n → n ≠ .none → ∀ v, sem2 op v 0#64 = nopSem n v) ∧
      (∀ n, NOp.ofCName r.rightOne = some n → n ≠ .none → ∀ v, sem2 op v 1#64 = nopSem n v) ∧
      (∀ n, NOp.ofCName r.leqr = some n → n ≠ .none → ∀ v, sem2 op v v = nopSem n v) := by
  obtain ⟨_, _, hlz, hlo, hrz, hro, hlr⟩ := table_sound hi
  have hb : binaryPOps.contains p = true := by
    cases op <;> simp [info2] at hi <;> obtain ⟨_, rfl⟩ := hi <;> decide
  have hm : rowMatches p = true := by
    have := peep_table_matches_model.1
    cases p <;> revert this <;> decide
  unfold rowMatches at hm
  cases hr : genRow p with
  | none => simp [hr] at hm
  | some r =>
    simp only [hr, hb, if_true, Bool.and_eq_true, beq_iff_eq] at hm
    obtain ⟨⟨_h0a, _h0b⟩, ⟨⟨⟨⟨⟨_har, h1⟩, h2⟩, h3⟩, h4⟩, h5⟩⟩ := hm
    refine ⟨r, rfl, ?_, ?_, ?_, ?_, ?_⟩
    · intro n hn hne; rw [h4] at hn; cases hn; exact (hlz hne).1
    · intro n hn hne; rw [h2] at hn; cases hn; exact (hlo hne).1
    · intro n hn hne; rw [h5] at hn; cases hn; exact (hrz hne).1
    · intro n hn hne; rw [h3] at hn; cases hn; exact (hro hne).1
    · intro n hn hne; rw [h1] at hn; cases hn; exact (hlr hne).1

/-- the theorem above has teeth: entries the table does NOT have would be false
(`gcd(0,x) = x` fails for x = −1, `x−x` is not `x`, `0<x` is not `isNeg x`) -/
example : ¬ (∀ v, sem2 .sintGcd 0#64 v = nopSem .id v) ∧ ¬ (∀ v, sem2 .sintMinus v v = nopSem .id v) ∧
    ¬ (∀ v, sem2 .sintLT 0#64 v = nopSem (.un .isNeg) v) := by
  refine ⟨fun h => ?_, fun h => ?_, fun h => ?_⟩
  · exact absurd (h (-1)) (by decide)
  · exact absurd (h 1) (by decide)
  · exact absurd (h 1) (by decide)

/-! ## the level table (regenerated from optfoam.c) -/

/-- each `-Q(n+1)` switches on a superset of what `-Qn` switches on and does not lower a limit,
for n = 0 … 8 -/
theorem optlevel_monotone : ∀ lev, lev < maxQLevel → monotoneStep lev = true := by decide

/-- above OPT_MaxLevel only the inline limit changes -/
theorem opt_levels_above_max_only_raise_inline_limit :
    ∀ lev, lev < maxQLevel + 1 → maxLevel < lev →
      (setLevel lev).enabled = (setLevel maxLevel).enabled ∧
      ∀ n ∈ limitNames, n ≠ "inline-limit" → (setLevel lev).get n = (setLevel maxLevel).get n := by decide

/-- The switches of the current table are exactly those the end-to-end search was written
for; the search reads the same names from `Gen/OptControl.json`, written by the same
translator run.  A switch added to or removed from `optControl[]` breaks this theorem (the
search then has to be reviewed), and every name `-Q<name>`/`-Qno-<name>` accepts is one of
these or "all". -/
theorem opt_switch_names_complete :
    flagNames = ["inline", "inline-all", "cfold", "ffold", "hfold", "deadvar", "dassign", "peep",
      "cprop", "cse", "env", "emerge", "emerge-rr", "flow", "cast", "cc", "del-assert",
      "cc-fnonstd", "killp", "argsub"] ∧
    limitNames = ["inline-limit", "inline-size"] ∧
    (∀ n ∈ flagNames, acceptsFlag n = true) ∧
    acceptsFlag "all" = true ∧ acceptsFlag "no-such-switch" = false ∧
    (rows.map (·.values.length)).all (· == maxLevel + 1) = true ∧
    qInlineLimit.length = maxQLevel - maxLevel := by decide

end AldorVerif.Peep
