#!/usr/bin/env python3
"""translate/ptrtables.py <aldor src dir> [-o Gen/PtrTables.lean] [-j N] [--json facts.json]

C08 translator (clang-14 `-Xclang -ast-dump=json`, nothing cached between runs).

WHAT IT COMPUTES  (a conservative, purely syntactic whole-program analysis; read this before
trusting the `iterated` column)

Files analysed: the .c files named in aldor_SOURCES / libport_a_SOURCES / libgen_a_SOURCES /
libstruct_a_SOURCES / libphase_a_SOURCES of <src>/Makefile.am (fallback: <src>/Makefile; fallback:
every *.c in <src> and <src>/java except *_t.c), i.e. exactly what is linked into `aldor`.

1. SITES.  Every call of `tblNew`/`tblNew0` (any function of table.c whose name starts with
   `tblNew`) whose hash-function argument, after removing parentheses and casts, is
     * a null pointer constant (integer literal 0 / NullToPointer cast)            -> hash "null"
     * a function whose own body contains a pointer->integer conversion
       (clang castKind PointerToIntegral) -- e.g. ptrHashFn, aintPtrHash,
       gen0CondHash; only the body itself is inspected, not its callees           -> hash "addr:<fn>"
     * anything that is not a direct reference to a function (after resolving one
       local variable initialiser)                                                -> hash "unknown:<text>"
   All other sites (content hashes: strHash, tfHash, abHash, foamHash, ...) are counted only.

2. WHERE THE TABLE IS STORED.  Only expressions of C type `Table` (= `struct table *`) are
   tracked.  Abstract locations:  G:<global>,  L:<function>:<local or parameter>,
   F:<record>.<field> (field-based: all objects of a record type share one location),
   P:<function>:<i> (i-th parameter), R:<function> (returned value), S:<file>:<line> (a site),
   E (escaped / unknown).  Flow- and context-insensitive unification (Steensgaard style):
   `a = b`, initialisers, argument->parameter, `return e`->R:f, `c ? a : b`, array element and
   `*p` = the array / pointer itself.  A Table converted to or from any non-Table type, the
   address of a Table lvalue, a Table inside an initialiser list, a call through a function
   pointer, and every Table expression the walker does not understand are unified with E.
   Arguments of functions DEFINED IN table.c are *not* unified with those functions' parameters
   (otherwise every table of the compiler would be one class); instead:

3. ITERATION.  A location is iterated when
     * it is passed as a Table argument to a function defined in table.c that is not in the
       fixed list NONITER = {tblNew*, tblFree, tblCopy, tblSize, tblElt, tblSetElt, tblDrop,
       tblEnlarge, _tblSTEP}  (so _tblITER = the tblITER macro, tblNMap, tblPrint,
       tblColumnPrint, tblRemoveIf, tblFreeDeeply and any function ADDED to table.c later,
       e.g. a tblToList, count);  the Table RESULT of any table.c function (tblCopy, tblNMap,
       tblDrop, tblRemoveIf) is treated as an alias of its Table arguments;
     * outside table.c its `buckv` or `buckc` field is read (hand-written bucket walk);
     * it is F:Pointer_TSet.table and some code references the `Iter` member of a
       *_tsetOpsStruct (the typed-set wrapper of ttable.c reaches tblITER through a function
       pointer table, which the unification above cannot follow).
   A site is `iterated` iff its equivalence class contains an iterated location.  `iterAt`
   lists `file:function:primitive` of every such place (line numbers are deliberately not part
   of it, they move with unrelated edits).

   NOT seen: tables smuggled through integer casts, memcpy of structs holding a Table,
   iteration by code outside the listed files.  tblFree walks all buckets too but only frees
   the slots; it is listed in NONITER on purpose.

4. libCodeSort comparator: the function passed as 4th argument of `lisort` inside lib.c:
   libCodeSort, its `return` expression rendered as a small term, and the swap test of
   util.c:lisort's inner loop.

Output: lean/AldorVerif/Gen/PtrTables.lean (deterministic: sorted by file, line).
"""
import argparse, bisect, json, os, re, subprocess, sys
from concurrent.futures import ProcessPoolExecutor

CLANG = os.environ.get("ALDOR_VERIF_CLANG", "clang-14")
NONITER = {"tblFree", "tblCopy", "tblSize", "tblElt", "tblSetElt", "tblDrop", "tblEnlarge", "_tblSTEP"}
LIBS = ("aldor_SOURCES", "libport_a_SOURCES", "libgen_a_SOURCES", "libstruct_a_SOURCES", "libphase_a_SOURCES")


def compiler_files(src):
    for mk in ("Makefile.am", "Makefile"):
        p = os.path.join(src, mk)
        if not os.path.exists(p):
            continue
        txt = open(p, errors="replace").read().replace("\\\n", " ")
        files = []
        for var in LIBS:
            m = re.search(r"^%s\s*=(.*)$" % re.escape(var), txt, re.M)
            if m:
                files += [w for w in m.group(1).split() if w.endswith(".c")]
        files = [f for f in dict.fromkeys(files) if os.path.exists(os.path.join(src, f))]
        if len(files) > 50:
            return files, mk
    files = sorted(f for f in os.listdir(src) if f.endswith(".c") and not f.endswith("_t.c"))
    jd = os.path.join(src, "java")
    if os.path.isdir(jd):
        files += sorted("java/" + f for f in os.listdir(jd) if f.endswith(".c") and not f.endswith("_t.c"))
    return files, "glob"


def is_table_type(t):
    if not t:
        return False
    q = t.get("qualType", "")
    d = t.get("desugaredQualType", "")
    return q in ("Table", "struct table *") or d == "struct table *"


def strip(n):
    """remove parentheses and implicit value/no-op casts"""
    while True:
        k = n.get("kind")
        if k == "ParenExpr":
            n = n["inner"][0]
        elif k == "ImplicitCastExpr" and n.get("castKind") in ("LValueToRValue", "NoOp", "FunctionToPointerDecay"):
            n = n["inner"][0]
        else:
            return n


def strip_casts(n):
    while True:
        n = strip(n)
        if n.get("kind") in ("CStyleCastExpr", "ImplicitCastExpr") and n.get("castKind") != "NullToPointer":
            n = n["inner"][0]
        else:
            return n


def is_null_const(n):
    n = strip(n)
    while n.get("kind") in ("CStyleCastExpr", "ImplicitCastExpr", "ParenExpr"):
        if n.get("castKind") == "NullToPointer":
            return True
        n = strip(n["inner"][0])
    return n.get("kind") == "IntegerLiteral" and n.get("value") == "0"


class FileFacts:
    def __init__(self, fname):
        self.file = fname
        self.unify = []        # (locA, locB)
        self.api_calls = []    # (callee, argindex, loc, func)
        self.ret_calls = []    # (result loc, callee, [Table argument locs])
        self.bucket_walks = [] # (loc, func, field)
        self.tset_iter_refs = []  # func
        self.sites = []        # dict
        self.nonptr_sites = 0
        self.p2i_funcs = []    # functions whose body has a PointerToIntegral cast
        self.defined = []      # function names defined in this file
        self.table_params = {} # func -> [indices of Table-typed params]   (for table.c)
        self.comparator = None
        self.lisort = None
        self.errors = ""


def offset_of(rng):
    b = rng.get("begin", {}) if rng else {}
    if "expansionLoc" in b:
        b = b["expansionLoc"]
    return b.get("offset")


def analyse_file(args):
    src, fname = args
    path = os.path.join(src, fname)
    cmd = [CLANG, "-fsyntax-only", "-w", "-I" + src, "-I" + os.path.join(src, "java"),
           "-Xclang", "-ast-dump=json", path]
    p = subprocess.run(cmd, capture_output=True)
    ff = FileFacts(fname)
    if p.returncode != 0 and not p.stdout:
        ff.errors = p.stderr.decode(errors="replace")[-2000:]
        return ff
    if p.returncode != 0:
        ff.errors = p.stderr.decode(errors="replace")[-2000:]
    tu = json.loads(p.stdout)
    del p
    text = open(path, "rb").read()
    nl = [i for i, c in enumerate(text) if c == 10]

    def line_of(node):
        off = offset_of(node.get("range"))
        if off is None:
            return 0
        return bisect.bisect_left(nl, off) + 1

    # field id -> record name
    field_rec = {}

    def scan_record(n, prefix):
        nm = n.get("name") or (prefix + "<anon>")
        for c in n.get("inner", []):
            k = c.get("kind")
            if k == "FieldDecl":
                field_rec[c["id"]] = nm
            elif k == "RecordDecl":
                scan_record(c, nm + ".")
    for top in tu.get("inner", []):
        if top.get("kind") == "RecordDecl":
            scan_record(top, "")

    base = os.path.basename(fname)

    def in_main_file(top):
        """the declaration's name token sits at its offset in this file's text"""
        loc = top.get("loc", {})
        if "expansionLoc" in loc:
            loc = loc["expansionLoc"]
        off = loc.get("offset")
        nm = top.get("name", "")
        if off is None or not nm:
            return False
        return text[off:off + len(nm)] == nm.encode()

    # ------------------------------------------------------------------ per function walk
    for top in tu.get("inner", []):
        if top.get("kind") == "VarDecl" and is_table_type(top.get("type")) and in_main_file(top):
            # global Table with initialiser: rare; treat initialiser as escaping
            for c in top.get("inner", []):
                if "kind" in c and c["kind"].endswith("Expr") and not is_null_const(c):
                    ff.unify.append(("G:" + top["name"], "E"))
        if top.get("kind") != "FunctionDecl":
            continue
        body = [c for c in top.get("inner", []) if c.get("kind") == "CompoundStmt"]
        if not body or not in_main_file(top):
            continue
        fn = top["name"]
        ff.defined.append(fn)
        locals_ = {}
        pidx = 0
        tparams = []
        for c in top.get("inner", []):
            if c.get("kind") == "ParmVarDecl":
                locals_[c["id"]] = c.get("name", "_p%d" % pidx)
                if is_table_type(c.get("type")):
                    ff.unify.append(("P:%s:%d" % (fn, pidx), "L:%s:%s" % (fn, c.get("name", "_p%d" % pidx))))
                    tparams.append(pidx)
                pidx += 1
        if base == "table.c":
            ff.table_params[fn] = tparams
        var_init = {}
        has_p2i = [False]
        fresh = [0]

        def newloc(tag):
            fresh[0] += 1
            return "T:%s:%s:%s%d" % (fname, fn, tag, fresh[0])

        def collect_locals(n):
            if isinstance(n, dict):
                if n.get("kind") == "VarDecl":
                    locals_[n["id"]] = n.get("name", "")
                    ini = [c for c in n.get("inner", []) if "kind" in c and ("Expr" in c["kind"] or "Literal" in c["kind"] or "Operator" in c["kind"])]
                    if ini:
                        var_init[n["id"]] = ini[0]
                for c in n.get("inner", []):
                    collect_locals(c)
        collect_locals(body[0])

        def loc_of(n):
            """abstract location of a Table-typed expression (None = null constant)"""
            n = strip(n)
            k = n.get("kind")
            if is_null_const(n):
                return None
            if k == "DeclRefExpr":
                rd = n.get("referencedDecl", {})
                if rd.get("kind") in ("VarDecl", "ParmVarDecl"):
                    if rd["id"] in locals_:
                        return "L:%s:%s" % (fn, rd.get("name"))
                    return "G:" + rd.get("name", "?")
                return "E"
            if k == "MemberExpr":
                rec = field_rec.get(n.get("referencedMemberDecl"), "?")
                walk(n["inner"][0])
                return "F:%s.%s" % (rec, n.get("name"))
            if k == "ArraySubscriptExpr":
                walk(n["inner"][1])
                b = strip(n["inner"][0])
                # array of Table: the base has type Table* / Table[]; give it its own location
                return loc_any(b)
            if k == "UnaryOperator" and n.get("opcode") == "*":
                return loc_any(strip(n["inner"][0]))
            if k == "CallExpr":
                return call(n)
            if k == "ConditionalOperator":
                walk(n["inner"][0])
                t = newloc("cond")
                for br in n["inner"][1:3]:
                    l = loc_of(br) if is_table_type(br.get("type")) else ("E" if not is_null_const(br) else None)
                    if l:
                        ff.unify.append((t, l))
                return t
            if k == "BinaryOperator" and n.get("opcode") == "=":
                return assign(n)
            if k == "BinaryOperator" and n.get("opcode") == ",":
                walk(n["inner"][0])
                return loc_of(n["inner"][1])
            if k in ("CStyleCastExpr", "ImplicitCastExpr"):
                inner = n["inner"][0]
                if is_table_type(strip(inner).get("type")) or is_table_type(inner.get("type")):
                    return loc_of(inner)
                walk(inner)
                return "E"
            if k == "StmtExpr":
                walk(n)
                return "E"
            walk_children(n)
            return "E"

        def loc_any(n):
            """location for a non-Table-typed container expression (pointer to / array of Table)"""
            k = n.get("kind")
            if k == "DeclRefExpr":
                rd = n.get("referencedDecl", {})
                if rd.get("kind") in ("VarDecl", "ParmVarDecl"):
                    if rd["id"] in locals_:
                        return "L:%s:%s" % (fn, rd.get("name"))
                    return "G:" + rd.get("name", "?")
            if k == "MemberExpr":
                rec = field_rec.get(n.get("referencedMemberDecl"), "?")
                walk(n["inner"][0])
                return "F:%s.%s" % (rec, n.get("name"))
            if k in ("ImplicitCastExpr", "ParenExpr") and n.get("castKind") in (None, "ArrayToPointerDecay", "LValueToRValue", "NoOp"):
                return loc_any(n["inner"][0])
            walk(n)
            return "E"

        def assign(n):
            lhs, rhs = n["inner"][0], n["inner"][1]
            if is_table_type(lhs.get("type")):
                a = loc_of(lhs)
                b = loc_of(rhs)
                if a and b:
                    ff.unify.append((a, b))
                if isinstance(b, str) and b.startswith("S:"):
                    for s in ff.sites:
                        if s["loc"] == b and not s["storedIn"]:
                            s["storedIn"] = a
                return a
            walk(lhs)
            walk(rhs)
            return None

        def hash_kind(arg):
            a = strip_casts(arg)
            if is_null_const(arg):
                return "null"
            if a.get("kind") == "DeclRefExpr":
                rd = a.get("referencedDecl", {})
                if rd.get("kind") == "FunctionDecl":
                    return "fn:" + rd.get("name", "?")
                if rd.get("kind") == "VarDecl" and rd.get("id") in var_init:
                    ini = var_init[rd["id"]]
                    if is_null_const(ini):
                        return "null"
                    b = strip_casts(ini)
                    if b.get("kind") == "DeclRefExpr" and b.get("referencedDecl", {}).get("kind") == "FunctionDecl":
                        return "fn:" + b["referencedDecl"].get("name", "?")
                return "unknown:" + rd.get("name", "?")
            return "unknown:" + a.get("kind", "?")

        def call(n):
            callee = strip(n["inner"][0])
            args = n["inner"][1:]
            cname = None
            if callee.get("kind") == "DeclRefExpr" and callee.get("referencedDecl", {}).get("kind") == "FunctionDecl":
                cname = callee["referencedDecl"]["name"]
            else:
                walk(callee)
            if cname and cname.startswith("tblNew") and args:
                hk = hash_kind(args[0])
                for a in args:
                    walk(a)
                ln = line_of(n)
                sloc = "S:%s:%d" % (fname, ln)
                ff.sites.append({"file": fname, "func": fn, "line": ln, "hash": hk, "loc": sloc, "storedIn": ""})
                return sloc
            res = None
            targs = []
            for i, a in enumerate(args):
                if is_table_type(a.get("type")) or is_table_type(strip(a).get("type")):
                    l = loc_of(a)
                    if l:
                        targs.append(l)
                        if cname:
                            ff.api_calls.append((cname, i, l, fn))
                        else:
                            ff.unify.append(("E", l))
                else:
                    walk(a)
            if is_table_type(n.get("type")):
                if cname:
                    res = newloc("call-" + cname + "-")
                    ff.ret_calls.append((res, cname, targs))
                else:
                    res = "E"
            return res

        def walk_children(n):
            for c in n.get("inner", []):
                if isinstance(c, dict) and c:
                    walk(c)

        def walk(n):
            """statement / non-Table expression context"""
            k = n.get("kind")
            if k is None:
                return
            if k in ("CStyleCastExpr", "ImplicitCastExpr") and n.get("castKind") == "PointerToIntegral":
                has_p2i[0] = True
            if k == "CallExpr":
                call(n)
                return
            if k == "BinaryOperator" and n.get("opcode") == "=":
                assign(n)
                return
            if k == "VarDecl":
                if is_table_type(n.get("type")):
                    for c in n.get("inner", []):
                        if "kind" in c:
                            l = loc_of(c)
                            me = "L:%s:%s" % (fn, n.get("name"))
                            if l:
                                ff.unify.append((me, l))
                            if isinstance(l, str) and l.startswith("S:"):
                                for s in ff.sites:
                                    if s["loc"] == l and not s["storedIn"]:
                                        s["storedIn"] = me
                    return
                walk_children(n)
                return
            if k == "ReturnStmt":
                for c in n.get("inner", []):
                    if is_table_type(c.get("type")) or is_table_type(strip(c).get("type")):
                        l = loc_of(c)
                        if l:
                            ff.unify.append(("R:" + fn, l))
                        if isinstance(l, str) and l.startswith("S:"):
                            for s in ff.sites:
                                if s["loc"] == l and not s["storedIn"]:
                                    s["storedIn"] = "R:" + fn
                    else:
                        walk(c)
                return
            if k == "MemberExpr":
                b = n["inner"][0]
                if n.get("name") in ("buckv", "buckc") and field_rec.get(n.get("referencedMemberDecl")) == "table":
                    l = loc_of(b)
                    if l and base != "table.c":
                        ff.bucket_walks.append((l, fn, n.get("name")))
                    return
                if n.get("name") == "Iter" and field_rec.get(n.get("referencedMemberDecl"), "").endswith("_tsetOpsStruct"):
                    ff.tset_iter_refs.append(fn)
                if is_table_type(strip(b).get("type")):
                    loc_of(b)      # a use, not a flow
                    return
                walk(b)
                return
            if k in ("CStyleCastExpr", "ImplicitCastExpr"):
                inner = n["inner"][0]
                if not is_table_type(n.get("type")) and (is_table_type(inner.get("type")) or is_table_type(strip(inner).get("type"))):
                    if n.get("castKind") in ("LValueToRValue", "NoOp"):
                        # value use inside a larger non-flow expression (comparison, !t, condition)
                        loc_of(inner)
                        return
                    if n.get("castKind") == "PointerToBoolean":
                        loc_of(inner)
                        return
                    l = loc_of(inner)
                    if l:
                        ff.unify.append(("E", l))
                    return
                walk(inner)
                return
            if k == "UnaryOperator" and n.get("opcode") == "&":
                s = strip(n["inner"][0])
                if is_table_type(s.get("type")):
                    l = loc_of(s)
                    if l:
                        ff.unify.append(("E", l))
                    return
            if k == "InitListExpr":
                for c in n.get("inner", []):
                    if is_table_type(c.get("type")) or is_table_type(strip(c).get("type")):
                        l = loc_of(c)
                        if l:
                            ff.unify.append(("E", l))
                    else:
                        walk(c)
                return
            if k in ("BinaryOperator", "UnaryOperator", "IfStmt", "WhileStmt", "ForStmt", "DoStmt", "ConditionalOperator",
                     "ParenExpr", "SwitchStmt"):
                # comparisons / conditions on tables are uses, not flows
                for c in n.get("inner", []):
                    if not c:
                        continue
                    if is_table_type(c.get("type")) and c.get("kind") not in ("CallExpr",):
                        sc = strip(c)
                        if sc.get("kind") in ("DeclRefExpr", "MemberExpr", "ArraySubscriptExpr", "UnaryOperator"):
                            loc_of(c)
                            continue
                    walk(c)
                return
            if is_table_type(n.get("type")) and k.endswith("Expr"):
                l = loc_of(n)
                if l and k not in ("DeclRefExpr",):
                    ff.unify.append(("E", l))
                return
            walk_children(n)

        walk(body[0])
        if has_p2i[0]:
            ff.p2i_funcs.append(fn)

        # ---- comparator of libCodeSort / lisort's swap test
        if base == "lib.c" and fn == "libCodeSort":
            def find_calls(n, out):
                if isinstance(n, dict):
                    if n.get("kind") == "CallExpr":
                        out.append(n)
                    for c in n.get("inner", []):
                        find_calls(c, out)
            cs = []
            find_calls(body[0], cs)
            for c in cs:
                cal = strip(c["inner"][0])
                if cal.get("referencedDecl", {}).get("name") == "lisort" and len(c["inner"]) >= 5:
                    a = strip_casts(c["inner"][4])
                    esz = render(c["inner"][3], text)
                    ff.comparator = {"sorter": "lisort", "cmpfn": a.get("referencedDecl", {}).get("name", "?"),
                                     "eltsize": esz}
        if base == "util.c" and fn == "lisort":
            ff.lisort = render_lisort(body[0], text)
    # comparator body (needs the whole TU: the function may be defined before or after)
    if ff.comparator:
        for top in tu.get("inner", []):
            if top.get("kind") == "FunctionDecl" and top.get("name") == ff.comparator["cmpfn"]:
                b = [c for c in top.get("inner", []) if c.get("kind") == "CompoundStmt"]
                if b:
                    rets = []
                    def find_ret(n):
                        if isinstance(n, dict):
                            if n.get("kind") == "ReturnStmt":
                                rets.append(n)
                            for c in n.get("inner", []):
                                find_ret(c)
                    find_ret(b[0])
                    ff.comparator["returns"] = [term(r["inner"][0]) for r in rets if r.get("inner")]
                    ff.comparator["rettype"] = top.get("type", {}).get("qualType", "").split("(")[0].strip()
                    ff.comparator["params"] = [c.get("name") for c in top.get("inner", []) if c.get("kind") == "ParmVarDecl"]
    return ff


def render(n, text):
    r = n.get("range", {})
    b, e = r.get("begin", {}), r.get("end", {})
    if "expansionLoc" in b: b = b["expansionLoc"]
    if "expansionLoc" in e: e = e["expansionLoc"]
    if "offset" in b and "offset" in e:
        return re.sub(r"\s+", " ", text[b["offset"]:e["offset"] + e.get("tokLen", 1)].decode(errors="replace"))
    return "?"


def term(n):
    """small canonical term of an expression: casts to a different width are kept, the rest is
    structure only.  Used for the comparator's return expression."""
    n = strip(n)
    k = n.get("kind")
    ty = n.get("type", {})
    if k == "ImplicitCastExpr" or k == "CStyleCastExpr":
        inner = term(n["inner"][0])
        if n.get("castKind") in ("IntegralCast",):
            return "cast<%s>(%s)" % (ty.get("desugaredQualType", ty.get("qualType")), inner)
        return inner
    if k == "BinaryOperator":
        return "(%s %s %s)" % (term(n["inner"][0]), n.get("opcode"), term(n["inner"][1]))
    if k == "UnaryOperator":
        return "%s%s" % (n.get("opcode"), term(n["inner"][0]))
    if k == "MemberExpr":
        return "%s%s%s" % (term(n["inner"][0]), "->" if n.get("isArrow") else ".", n.get("name"))
    if k == "ArraySubscriptExpr":
        return "%s[%s]" % (term(n["inner"][0]), term(n["inner"][1]))
    if k == "DeclRefExpr":
        return n.get("referencedDecl", {}).get("name", "?")
    if k == "IntegerLiteral":
        return n.get("value", "?")
    if k == "CallExpr":
        return "%s(%s)" % (term(n["inner"][0]), ",".join(term(a) for a in n["inner"][1:]))
    if k == "ConditionalOperator":
        return "(%s ? %s : %s)" % tuple(term(c) for c in n["inner"][:3])
    return k or "?"


def render_lisort(body, text):
    """find the inner `for` of lisort: condition `j > 0 && cmpfn(a[j-1], a[j]) OP LIT`"""
    found = []
    def rec(n):
        if isinstance(n, dict):
            if n.get("kind") == "BinaryOperator" and n.get("opcode") in (">", ">=", "<", "<=", "!=", "=="):
                l = strip(n["inner"][0])
                if l.get("kind") == "CallExpr":
                    cal = strip(l["inner"][0])
                    if cal.get("referencedDecl", {}).get("name") == "cmpfn":
                        found.append("%s %s" % (n.get("opcode"), term(n["inner"][1])))
            for c in n.get("inner", []):
                rec(c)
    rec(body)
    nfor = [0]
    def cnt(n):
        if isinstance(n, dict):
            if n.get("kind") == "ForStmt":
                nfor[0] += 1
            for c in n.get("inner", []):
                cnt(c)
    cnt(body)
    return {"swapWhen": found, "forLoops": nfor[0]}


# ---------------------------------------------------------------------------------------------
class UF:
    def __init__(self):
        self.p = {}
    def find(self, x):
        p = self.p
        if x not in p:
            p[x] = x
            return x
        r = x
        while p[r] != r:
            r = p[r]
        while p[x] != r:
            p[x], x = r, p[x]
        return r
    def union(self, a, b):
        ra, rb = self.find(a), self.find(b)
        if ra != rb:
            if ra > rb:
                ra, rb = rb, ra
            self.p[rb] = ra


def analyse(src, jobs):
    files, how = compiler_files(src)
    with ProcessPoolExecutor(max_workers=jobs) as ex:
        facts = list(ex.map(analyse_file, [(src, f) for f in files], chunksize=1))
    errs = [(f.file, f.errors) for f in facts if f.errors]
    table_funcs = {}
    for f in facts:
        if os.path.basename(f.file) == "table.c":
            table_funcs = f.table_params
    p2i = set()
    for f in facts:
        p2i.update(f.p2i_funcs)
    uf = UF()
    for f in facts:
        if os.path.basename(f.file) == "table.c":
            continue            # the API's own bodies are summarised by the rules below
        for a, b in f.unify:
            uf.union(a, b)
    iter_at = {}      # root -> set of descriptions
    def is_iter_fn(c):
        return c in table_funcs and not c.startswith("tblNew") and c not in NONITER
    for f in facts:
        if os.path.basename(f.file) == "table.c":
            continue
        for callee, i, loc, fn in f.api_calls:
            if callee not in table_funcs:
                uf.union("P:%s:%d" % (callee, i), loc)
        for res, callee, targs in f.ret_calls:
            if callee in table_funcs:
                # tblCopy / tblNMap / tblDrop / tblRemoveIf (and anything added later): the result
                # is one of the argument tables or a copy with the same keys and hashes
                for l in targs:
                    uf.union(res, l)
            else:
                uf.union(res, "R:" + callee)
    for f in facts:
        for callee, i, loc, fn in f.api_calls:
            if is_iter_fn(callee):
                iter_at.setdefault(uf.find(loc), set()).add("%s:%s:%s" % (f.file, fn, "tblITER" if callee == "_tblITER" else callee))
        for loc, fn, fld in f.bucket_walks:
            iter_at.setdefault(uf.find(loc), set()).add("%s:%s:%s" % (f.file, fn, fld))
        for fn in f.tset_iter_refs:
            iter_at.setdefault(uf.find("F:Pointer_TSet.table"), set()).add("%s:%s:tsetIter" % (f.file, fn))
    # iteration places may have been recorded under a root that was merged later
    merged = {}
    for r, s in iter_at.items():
        merged.setdefault(uf.find(r), set()).update(s)
    sites, other = [], 0
    for f in facts:
        for s in f.sites:
            hk = s["hash"]
            if hk.startswith("fn:"):
                if hk[3:] in p2i:
                    hk = "addr:" + hk[3:]
                else:
                    other += 1
                    continue
            if os.path.basename(s["file"]) == "table.c":
                # tblNew -> tblNew0(hash, ...) and tblCopy -> tblNew0(ot->hashFun, ...) forward a
                # caller's hash function; they are not sites of their own
                continue
            its = sorted(merged.get(uf.find(s["loc"]), set()))
            cls = sorted(x for x in uf.p if uf.find(x) == uf.find(s["loc"]) and x[0] in "GF")
            sites.append({"file": s["file"], "func": s["func"], "line": s["line"], "hash": hk,
                          "storedIn": s["storedIn"] or "(not stored)", "iterated": bool(its), "iterAt": its,
                          "aliases": cls, "escaped": uf.find(s["loc"]) == uf.find("E")})
    sites.sort(key=lambda s: (s["file"], s["line"]))
    comp = None
    lis = None
    for f in facts:
        if f.comparator: comp = f.comparator
        if f.lisort: lis = f.lisort
    iter_funcs = sorted(c for c in table_funcs if is_iter_fn(c) and table_funcs[c])
    return {"files": len(files), "file_list_from": how, "sites": sites, "content_hash_sites": other,
            "comparator": comp, "lisort": lis, "errors": errs, "p2i_hashfns": sorted(
                {s["hash"][5:] for s in sites if s["hash"].startswith("addr:")}),
            "iterating_table_functions": iter_funcs}


def lean_str(s):
    return '"' + s.replace("\\", "\\\\").replace('"', '\\"') + '"'


def emit_lean(res, src):
    o = []
    o.append("/-! GENERATED by translate/ptrtables.py from the C sources -- do not edit.")
    o.append("Pointer-identity (address-hashed) hash tables of the compiler, whether any code iterates")
    o.append("them, and the comparator of lib.c:libCodeSort.  See the translator's header for exactly what")
    o.append("the (conservative, syntactic) analysis does and does not see. -/")
    o.append("namespace AldorVerif.Gen.PtrTables")
    o.append("")
    o.append("structure Site where")
    o.append("  file : String")
    o.append("  func : String")
    o.append("  line : Nat")
    o.append("  hash : String        -- \"null\" | \"addr:<fn>\" | \"unknown:<what>\"")
    o.append("  storedIn : String    -- abstract location the new table is assigned to")
    o.append("  iterated : Bool")
    o.append("  iterAt : List String -- file:function:primitive of every iteration that may reach it")
    o.append("  deriving DecidableEq, Repr")
    o.append("")
    o.append("def filesAnalysed : Nat := %d" % res["files"])
    o.append("def contentHashSites : Nat := %d" % res["content_hash_sites"])
    o.append("def iteratingTableFunctions : List String := [%s]" % ", ".join(lean_str(x) for x in res["iterating_table_functions"]))
    o.append("")
    o.append("def sites : List Site := [")
    rows = []
    for s in res["sites"]:
        rows.append("  { file := %s, func := %s, line := %d, hash := %s, storedIn := %s,\n    iterated := %s, iterAt := [%s] }" % (
            lean_str(s["file"]), lean_str(s["func"]), s["line"], lean_str(s["hash"]), lean_str(s["storedIn"]),
            "true" if s["iterated"] else "false", ", ".join(lean_str(x) for x in s["iterAt"])))
    o.append(",\n".join(rows))
    o.append("]")
    o.append("")
    c = res["comparator"] or {}
    l = res["lisort"] or {}
    o.append("/-- lib.c:libCodeSort: `<sorter>(lib->codev, lib->symec, <eltsize>, <cmpfn>)`, the comparator's")
    o.append("`return` expression(s) as a term, and the swap test of util.c:lisort's inner loop. -/")
    o.append("structure Comparator where")
    o.append("  sorter : String")
    o.append("  cmpfn : String")
    o.append("  eltsize : String")
    o.append("  rettype : String")
    o.append("  params : List String")
    o.append("  returns : List String")
    o.append("  swapWhen : List String")
    o.append("  sorterForLoops : Nat")
    o.append("  deriving DecidableEq, Repr")
    o.append("")
    o.append("def codeSort : Comparator :=")
    o.append("  { sorter := %s, cmpfn := %s, eltsize := %s, rettype := %s," % (
        lean_str(c.get("sorter", "")), lean_str(c.get("cmpfn", "")), lean_str(c.get("eltsize", "")), lean_str(c.get("rettype", ""))))
    o.append("    params := [%s]," % ", ".join(lean_str(x or "") for x in c.get("params", [])))
    o.append("    returns := [%s]," % ", ".join(lean_str(x) for x in c.get("returns", [])))
    o.append("    swapWhen := [%s], sorterForLoops := %d }" % (", ".join(lean_str(x) for x in l.get("swapWhen", [])), l.get("forLoops", 0)))
    o.append("")
    o.append("end AldorVerif.Gen.PtrTables")
    return "\n".join(o) + "\n"


def main():
    ap = argparse.ArgumentParser()
    ap.add_argument("src")
    ap.add_argument("-o", "--out")
    ap.add_argument("-j", "--jobs", type=int, default=os.cpu_count() or 4)
    ap.add_argument("--json")
    a = ap.parse_args()
    res = analyse(os.path.abspath(a.src), a.jobs)
    if a.json:
        with open(a.json, "w") as f:
            json.dump(res, f, indent=1)
    if res["errors"]:
        for fn, e in res["errors"]:
            sys.stderr.write("clang: %s: %s\n" % (fn, e[-600:]))
    txt = emit_lean(res, a.src)
    if a.out:
        tmp = a.out + ".tmp"
        with open(tmp, "w") as f:
            f.write(txt)
        os.replace(tmp, a.out)
    else:
        sys.stdout.write(txt)
    # a file that did not parse at all makes the list incomplete: fail loudly
    hard = [fn for fn, e in res["errors"] if "error:" in e]
    if hard:
        sys.stderr.write("ptrtables: %d file(s) with clang errors: %s\n" % (len(hard), " ".join(hard)))
        return 3
    if not res["sites"] or not res["comparator"] or not res["comparator"].get("returns"):
        sys.stderr.write("ptrtables: nothing extracted (sites=%d comparator=%r)\n" % (len(res["sites"]), res["comparator"]))
        return 4
    return 0


if __name__ == "__main__":
    sys.exit(main())
