#!/usr/bin/env python3
"""translate/chartables.py <aldor src dir> [<out.lean>]

C07 translator.  Uses clang-14's JSON AST (`-Xclang -ast-dump=json`) of scan.c, token.c,
include.c, syscmd.c and linear.c and lists every ArraySubscriptExpr whose index is of
character origin:

  * after stripping implicit casts, parentheses and value-preserving explicit integer casts
    the index expression has type `char` / `signed char` / `unsigned char`, or
  * it is a reference to an integer variable of the enclosing function that is assigned
    (initialiser or `=`) from such an expression (conditional operators are followed).

For each site: file, enclosing function, the subscripted object, its declared length (none
when the base is a pointer, e.g. glibc's `(*__ctype_b_loc())[(int)(c)]` behind isalpha),
the C type the index originates from, whether that type is signed on the build target
(plain `char` is signed on x86-64 Linux, the Makefile passes no -funsigned-char) and whether
it went through an `int` variable.  Output: lean/AldorVerif/Gen/CharIndex.lean.
The list is deduplicated on everything except the line numbers (kept in a comment)."""
import json, os, re, subprocess, sys

FILES = ["scan.c", "token.c", "include.c", "syscmd.c", "linear.c"]
CHAR_TYPES = {"char": True, "signed char": True, "unsigned char": False}   # name -> signed?
INT_TYPES = {"int", "unsigned int", "long", "unsigned long", "short", "unsigned short",
             "long long", "unsigned long long"}

def clang_ast(srcdir, f):
    cmd = ["clang-14", "-fsyntax-only", "-w", "-Xclang", "-ast-dump=json", "-I" + srcdir,
           "-DHAVE_STDIO_H=1", "-DHAVE_STDLIB_H=1", "-DHAVE_STRING_H=1", "-DSTDC_HEADERS=1",
           os.path.join(srcdir, f)]
    p = subprocess.run(cmd, capture_output=True, text=True)
    if p.returncode != 0 or not p.stdout:
        raise RuntimeError("clang failed on %s: %s" % (f, p.stderr[-2000:]))
    return json.loads(p.stdout)

def qtype(n):
    t = n.get("type", {})
    return t.get("desugaredQualType") or t.get("qualType") or ""

def base_type(t):
    return re.sub(r"\b(const|volatile|register)\b", "", t).strip()

def strip(n):
    """strip implicit casts, parens and explicit casts between integer types"""
    while True:
        k = n.get("kind")
        if k in ("ImplicitCastExpr", "ParenExpr") and n.get("inner"):
            n = n["inner"][0]
        elif k == "CStyleCastExpr" and n.get("inner") and base_type(qtype(n)) in INT_TYPES | set(CHAR_TYPES):
            # a cast *to* a char type is itself a char-typed value: stop there
            if base_type(qtype(n)) in CHAR_TYPES:
                return n
            n = n["inner"][0]
        else:
            return n

def walk(n):
    yield n
    for c in n.get("inner", []) or []:
        if isinstance(c, dict):
            yield from walk(c)

def annotate_lines(root):
    """clang prints "line" only when it differs from the previously printed location; replay
    that in emission order (loc, range.begin, range.end; spellingLoc before expansionLoc) and
    store the line of each node's range.begin as n["_line"]."""
    cur = [0]
    def loc(l):
        if not isinstance(l, dict):
            return
        if "spellingLoc" in l or "expansionLoc" in l:
            loc(l.get("spellingLoc")); loc(l.get("expansionLoc"))
        elif "line" in l:
            cur[0] = l["line"]
    stack = [root]
    while stack:
        n = stack.pop()
        loc(n.get("loc"))
        r = n.get("range") or {}
        loc(r.get("begin"))
        n["_line"] = cur[0]
        loc(r.get("end"))
        for c in reversed(n.get("inner", []) or []):
            if isinstance(c, dict):
                stack.append(c)

def line_of(n):
    return n.get("_line", 0)

class Fun:
    def __init__(self, decl):
        self.decl = decl
        self.name = decl.get("name", "?")
        # assignments: decl id -> list of rhs expressions
        self.assign = {}
        for n in walk(decl):
            k = n.get("kind")
            if k == "VarDecl" and n.get("inner"):
                init = [c for c in n["inner"] if isinstance(c, dict) and c.get("kind", "").endswith(("Expr", "Operator", "Literal"))]
                if init:
                    self.assign.setdefault(n["id"], []).append(init[-1])
            elif k == "BinaryOperator" and n.get("opcode") == "=":
                lhs = strip(n["inner"][0])
                if lhs.get("kind") == "DeclRefExpr":
                    self.assign.setdefault(lhs["referencedDecl"]["id"], []).append(n["inner"][1])

    def origin(self, e, depth=0, seen=None):
        """-> (ctype, viaInt) or None"""
        seen = seen or set()
        e = strip(e)
        t = base_type(qtype(e))
        if t in CHAR_TYPES and e.get("kind") != "CharacterLiteral":
            return (t, False)
        k = e.get("kind")
        if k == "ConditionalOperator":
            for br in e["inner"][1:]:
                o = self.origin(br, depth + 1, seen)
                if o: return o
            return None
        if k == "BinaryOperator" and e.get("opcode") in ("=", ","):
            return self.origin(e["inner"][1], depth + 1, seen)
        if k == "DeclRefExpr" and depth < 6:
            d = e["referencedDecl"]
            if d.get("kind") in ("VarDecl", "ParmVarDecl") and d["id"] not in seen:
                seen = seen | {d["id"]}
                for rhs in self.assign.get(d["id"], []):
                    o = self.origin(rhs, depth + 1, seen)
                    if o:
                        return (o[0], True)
        return None

def base_descr(b):
    """-> (text, declared length or None)"""
    b0 = b
    b = strip(b)
    t = qtype(b)
    m = re.search(r"\[(\d+)\]\s*$", t)
    length = int(m.group(1)) if m else None
    k = b.get("kind")
    if k == "DeclRefExpr":
        return b["referencedDecl"].get("name", "?"), length
    if k == "MemberExpr":
        inner, _ = base_descr(b["inner"][0])
        return inner + ("->" if b.get("isArrow") else ".") + b.get("name", "?"), length
    if k == "UnaryOperator" and b.get("opcode") == "*":
        inner, _ = base_descr(b["inner"][0])
        return "*" + inner, length
    if k == "CallExpr":
        inner, _ = base_descr(b["inner"][0])
        return inner + "()", length
    if k == "ArraySubscriptExpr":
        inner, _ = base_descr(b["inner"][0])
        return inner + "[]", length
    return k or "?", length

def sites_of(srcdir, f):
    ast = clang_ast(srcdir, f)
    annotate_lines(ast)
    out = []
    for top in ast.get("inner", []):
        if top.get("kind") != "FunctionDecl" or not any(
                isinstance(c, dict) and c.get("kind") == "CompoundStmt" for c in top.get("inner", [])):
            continue
        fn = Fun(top)
        for n in walk(top):
            if n.get("kind") != "ArraySubscriptExpr":
                continue
            base, idx = n["inner"][0], n["inner"][1]
            o = fn.origin(idx)
            if not o:
                continue
            name, length = base_descr(base)
            out.append({"file": f, "func": fn.name, "array": name, "length": length,
                        "idxType": o[0], "signed": CHAR_TYPES[o[0]], "viaInt": o[1],
                        "line": line_of(n) or 0})
    return out

def c_unescape(lit):
    """source form of a C string literal (with quotes) -> bytes"""
    assert lit.startswith('"') and lit.endswith('"'), lit
    body, out, i = lit[1:-1], bytearray(), 0
    simple = {"n": 10, "t": 9, "r": 13, "0": 0, "\\": 92, '"': 34, "'": 39, "a": 7, "b": 8, "f": 12, "v": 11}
    while i < len(body):
        c = body[i]
        if c == "\\":
            i += 1
            e = body[i]
            if e == "x":
                j = i + 1
                while j < len(body) and body[j] in "0123456789abcdefABCDEF": j += 1
                out.append(int(body[i + 1:j], 16) & 255); i = j; continue
            if e in "01234567" and e != "0":
                j = i
                while j < len(body) and j < i + 3 and body[j] in "01234567": j += 1
                out.append(int(body[i:j], 8) & 255); i = j; continue
            out.append(simple[e]); i += 1
        else:
            out += c.encode("latin-1"); i += 1
    return bytes(out)

def token_table(srcdir):
    """tokInfoTable of token.c: rows (tag value, str bytes, isCloser) in table order; the enum
    constants delimiting the keyword classes; the declared length of keyIx"""
    ast = clang_ast(srcdir, "token.c")
    enum = {}
    for n in walk(ast):
        if n.get("kind") == "EnumDecl" and any(c.get("name") == "TK_Id" for c in n.get("inner", [])):
            v = -1
            for c in n["inner"]:
                if c.get("kind") != "EnumConstantDecl":
                    continue
                val = None
                for e in walk(c):
                    if e is not c and e.get("kind") == "ConstantExpr" and "value" in e:
                        val = int(e["value"]); break
                v = val if val is not None else v + 1
                enum[c["name"]] = v
    rows, keyix_len = [], None
    for n in ast.get("inner", []):
        if n.get("kind") == "VarDecl" and n.get("name") == "keyIx":
            m = re.search(r"\[(\d+)\]", qtype(n))
            keyix_len = int(m.group(1))
        if n.get("kind") == "VarDecl" and n.get("name") == "tokInfoTable":
            inits = [c for c in n.get("inner", []) if c.get("kind") == "InitListExpr"]
            if not inits:
                continue            # the extern declaration from token.h
            for row in inits[0]["inner"]:
                if row.get("kind") != "InitListExpr":
                    continue
                f = [strip(x) for x in row["inner"]]
                tag = enum[f[0]["referencedDecl"]["name"]]
                st = f[2]
                assert st.get("kind") == "StringLiteral", st.get("kind")
                ints = [int(x["value"]) if x.get("kind") == "IntegerLiteral" else None for x in f]
                rows.append((tag, c_unescape(st["value"]), bool(ints[6])))
    if not rows or keyix_len is None or "TK_START" not in enum:
        raise RuntimeError("token.c: tokInfoTable / keyIx / enum tokenTag not found")
    for i, (tag, _, _) in enumerate(rows):
        if tag != enum["TK_START"] + i:
            raise RuntimeError("tokInfoTable row %d has tag %d: the table is not in enum order" % (i, tag))
    return rows, enum, keyix_len

def lean_str(s):
    return '"' + s.replace("\\", "\\\\").replace('"', '\\"') + '"'

def render_table(srcdir):
    rows, enum, keyix_len = token_table(srcdir)
    L = ["", "/-! token.c: `tokInfoTable` (row i describes tag `tkStart + i`), the enum constants that",
         "delimit the keyword classes, and the declared length of `keyIx`. -/", ""]
    for lean, c in (("tkStart", "TK_START"), ("kwAlphaStart", "KW_ALPHA_START"), ("kwAlphaLimit", "KW_ALPHA_LIMIT"),
                    ("kwSymbolStart", "KW_SYMBOL_START"), ("kwSymbolLimit", "KW_SYMBOL_LIMIT"), ("tkLimit", "TK_LIMIT"),
                    ("tkId", "TK_Id"), ("tkBlank", "TK_Blank"), ("tkInt", "TK_Int"), ("tkFloat", "TK_Float"),
                    ("tkString", "TK_String"), ("kwDot", "KW_Dot"), ("kwNewLine", "KW_NewLine")):
        L.append("def %s : Nat := %d  -- %s" % (lean, enum[c], c))
    L.append("def keyIxLen : Nat := %d  -- short keyIx[CHAR_MAX+1]" % keyix_len)
    L.append("")
    L.append("/-- (bytes of `.str`, `.isCloser`) -/")
    L.append("def tokTable : List (List Nat × Bool) := [")
    for i, (tag, st, closer) in enumerate(rows):
        L.append("  ([%s], %s)%s  -- %d %s" % (", ".join(str(b) for b in st), "true" if closer else "false",
                                            "," if i + 1 < len(rows) else "", tag, repr(st.decode("latin-1"))))
    L.append("]")
    return L

def render(sites, srcdir):
    # dedupe on everything but the line
    groups = {}
    for s in sites:
        key = (s["file"], s["func"], s["array"], s["length"], s["idxType"], s["signed"], s["viaInt"])
        groups.setdefault(key, []).append(s["line"])
    L = []
    L.append("/- GENERATED by translate/chartables.py from scan.c token.c include.c syscmd.c linear.c -- do not edit.")
    L.append("   Every array subscript whose index is of character origin (see the translator's header). -/")
    L.append("namespace AldorVerif.Gen.CharIndex")
    L.append("")
    L.append("structure Site where")
    L.append("  file    : String")
    L.append("  func    : String")
    L.append("  array   : String")
    L.append("  length  : Option Nat   -- declared length; none: the base is a pointer")
    L.append("  idxType : String       -- C type the index value originates from")
    L.append("  signed  : Bool         -- is that type signed on the build target")
    L.append("  viaInt  : Bool         -- went through an `int` variable assigned from it")
    L.append("  deriving DecidableEq, Repr")
    L.append("")
    L.append("def sites : List Site := [")
    keys = sorted(groups, key=lambda k: (FILES.index(k[0]), k[1], k[2], str(k[3]), k[4], k[6]))
    for i, k in enumerate(keys):
        f, fn, arr, ln, it, sg, vi = k
        lines = sorted(set(groups[k]))
        L.append("  { file := %s, func := %s, array := %s, length := %s, idxType := %s, signed := %s, viaInt := %s }%s  -- line%s %s" % (
            lean_str(f), lean_str(fn), lean_str(arr), "none" if ln is None else "some %d" % ln,
            lean_str(it), "true" if sg else "false", "true" if vi else "false",
            "," if i + 1 < len(keys) else "", "s" if len(lines) > 1 else "", " ".join(map(str, lines))))
    L.append("]")
    L += render_table(srcdir)
    L.append("")
    L.append("end AldorVerif.Gen.CharIndex")
    return "\n".join(L) + "\n"

def generate(srcdir, out):
    sites = []
    for f in FILES:
        sites += sites_of(srcdir, f)
    text = render(sites, srcdir)
    old = open(out).read() if os.path.exists(out) else None
    if old != text:
        os.makedirs(os.path.dirname(out), exist_ok=True)
        with open(out, "w") as h:
            h.write(text)
    return sites, old != text

if __name__ == "__main__":
    if len(sys.argv) < 2:
        sys.exit(__doc__)
    here = os.path.dirname(os.path.dirname(os.path.abspath(__file__)))
    out = sys.argv[2] if len(sys.argv) > 2 else os.path.join(here, "lean", "AldorVerif", "Gen", "CharIndex.lean")
    sites, changed = generate(sys.argv[1], out)
    print("%d sites (%s) -> %s" % (len(sites), "changed" if changed else "unchanged", out))
