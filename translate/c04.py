#!/usr/bin/env python3
"""C04 translator: regenerates, from the CURRENT C sources, one Lean definition per
(evaluator, builtin):

  Gen.Cfold.X   of_cfold.c : cfoldBCall          (compile-time folder)
  Gen.Fint.X    fint.c     : fintEvalBCall       (FOAM interpreter)
  Gen.CMap.X    genc.c     : ccBValInfoTable row as gc0Builtin prints it in an expression,
  Gen.CMapS.X                as gc0Set prints it for `(Set lhs (BCall X ...))` (only when different)
                             + foam_c.h macros + foam_c.c/foam_i.c/foam_cfp.c bodies

usage: c04.py [--src DIR] [--out LEANDIR] [--skip thm1,thm2,...] [--refuted FILE.json] [--quiet] [--props-only]

Accepted C fragment and assumptions: see translate/README.md.  Anything outside the fragment
marks that (evaluator, builtin) `untranslated: <construct>`; nothing is guessed.
"""
import json, os, re, subprocess, sys, tempfile

HERE = os.path.dirname(os.path.abspath(__file__))
DEFAULT_SRC = "/repo/aldor/aldor/src"
DEFAULT_OUT = os.path.join(os.path.dirname(HERE), "lean", "AldorVerif")
CLANG = ["clang-14", "-std=gnu99", "-fsyntax-only", "-w", "-Xclang", "-ast-dump=json"]

class Untranslated(Exception):
    pass

def bad(what):
    raise Untranslated(what)

# ------------------------------------------------------------------------------------------
# clang
# ------------------------------------------------------------------------------------------
def run_clang(src, path, filt=None, defs=(), incs=()):
    cmd = list(CLANG) + ["-I" + src] + ["-I" + i for i in incs] + ["-D" + d for d in defs]
    if filt:
        cmd += ["-Xclang", "-ast-dump-filter=" + filt]
    cmd.append(path)
    p = subprocess.run(cmd, cwd=src, capture_output=True, text=True)
    txt = p.stdout
    dec = json.JSONDecoder()
    i, docs, n = 0, [], len(txt)
    while i < n:
        while i < n and txt[i].isspace():
            i += 1
        if i >= n:
            break
        try:
            o, j = dec.raw_decode(txt, i)
        except json.JSONDecodeError:
            break
        docs.append(o); i = j
    if not docs:
        raise RuntimeError("clang produced no AST for %s (filter %s): %s" % (path, filt, p.stderr[-2000:]))
    return docs

def fn_with_body(docs, name):
    for d in docs:
        if d.get("kind") == "FunctionDecl" and d.get("name") == name:
            for c in d.get("inner", []):
                if c.get("kind") == "CompoundStmt":
                    return d
    return None

def all_functions(doc):
    """name -> FunctionDecl (with body if one exists) of a full translation unit"""
    out = {}
    for d in doc.get("inner", []):
        if d.get("kind") == "FunctionDecl":
            has = any(c.get("kind") == "CompoundStmt" for c in d.get("inner", []))
            if has or d["name"] not in out:
                out[d["name"]] = d
    return out

def kids(n):
    return n.get("inner", [])

def src_line(n):
    """first line number found in the node's range"""
    def look(x):
        if isinstance(x, dict):
            for k in ("expansionLoc", "spellingLoc"):
                if k in x and "line" in x[k]:
                    return x[k]["line"]
            if "line" in x:
                return x["line"]
        return None
    r = n.get("range", {})
    for k in ("begin", "end"):
        l = look(r.get(k, {}))
        if l:
            return l
    l = look(n.get("loc", {}))
    return l

# ------------------------------------------------------------------------------------------
# C types
# ------------------------------------------------------------------------------------------
INT_TYPES = {
    "long": (64, True), "long int": (64, True), "unsigned long": (64, False), "unsigned long int": (64, False),
    "long long": (64, True), "unsigned long long": (64, False),
    "int": (32, True), "unsigned int": (32, False), "unsigned": (32, False),
    "short": (16, True), "short int": (16, True), "unsigned short": (16, False), "unsigned short int": (16, False),
    "char": (8, True), "signed char": (8, True), "unsigned char": (8, False),
}
PTR_CARRIER_BY_NAME = {
    "FiBInt": "BInt", "BInt": "BInt", "struct bint *": "BInt",
    "FiArr": "Arr", "String": "Arr", "char *": "Arr", "const char *": "Arr",
    "FiPtr": "Ptr", "Ptr": "Ptr", "Pointer": "Ptr", "Foam": "Ptr", "FiNil": "Ptr", "FiWord *": "Ptr",
}
# file-scope objects the fragment may read: immutable constants of the compiler / runtime
GLOBAL_CONSTS = {"bint0", "bint1"}
CASE_TABLES = {"__lowercase": "CSem.tolower", "__uppercase": "CSem.toupper"}

def strip_q(s):
    s = s.strip()
    ch = True
    while ch:
        ch = False
        for q in ("const ", "volatile ", "register "):
            if s.startswith(q):
                s = s[len(q):]; ch = True
        for q in (" const", " volatile"):
            if s.endswith(q):
                s = s[:-len(q)]; ch = True
    return s

def ctype_of_names(qual, desug):
    """-> ('i',bits,signed) | ('f',bits) | ('p',carrier) | ('void',) ; raises Untranslated"""
    q = strip_q(qual or "")
    d = strip_q(desug or q)
    if q in PTR_CARRIER_BY_NAME:
        return ("p", PTR_CARRIER_BY_NAME[q])
    if d in INT_TYPES:
        return ("i",) + INT_TYPES[d]
    if d.startswith("enum "):
        return ("i", 32, False)
    if d == "float":
        return ("f", 32)
    if d == "double":
        return ("f", 64)
    if d == "void":
        return ("void",)
    if d in PTR_CARRIER_BY_NAME:
        return ("p", PTR_CARRIER_BY_NAME[d])
    if d.endswith("*") or "(*)" in d:
        return ("p", "Ptr")
    bad("C type `%s`" % (qual if qual == desug or not desug else "%s = %s" % (qual, desug)))

def ctype(n):
    t = n.get("type", {})
    return ctype_of_names(t.get("qualType"), t.get("desugaredQualType"))

def lean_carrier(ty):
    if ty[0] == "i":
        return "BitVec %d" % ty[1]
    if ty[0] == "b":
        return "Bool"
    if ty[0] == "f":
        return "P.F%d" % ty[1]
    if ty[0] == "p":
        return "P." + ty[1]
    bad("carrier of %r" % (ty,))

FOAM_CARRIER = {
    "Bool": "Bool", "Char": "BitVec 8", "Byte": "BitVec 8", "HInt": "BitVec 16", "SInt": "BitVec 64",
    "Word": "BitVec 64", "SFlo": "P.F32", "DFlo": "P.F64", "BInt": "P.BInt", "Arr": "P.Arr", "Ptr": "P.Ptr",
}
# the C type at which a FOAM value of each type is held by the interpreter's union / the runtime
FOAM_CTYPE = {
    "Bool": ("i", 64, True), "Char": ("i", 8, False), "Byte": ("i", 8, False), "HInt": ("i", 16, True),
    "SInt": ("i", 64, True), "Word": ("i", 64, False), "SFlo": ("f", 32), "DFlo": ("f", 64),
    "BInt": ("p", "BInt"), "Arr": ("p", "Arr"), "Ptr": ("p", "Ptr"),
}
FOAM_FI = {"Bool": "FiBool", "Char": "FiChar", "Byte": "FiByte", "HInt": "FiHInt", "SInt": "FiSInt",
           "Word": "FiWord", "SFlo": "FiSFlo", "DFlo": "FiDFlo", "BInt": "FiBInt", "Arr": "FiArr", "Ptr": "FiPtr"}
FINT_MEMBER = {"Bool": "fiBool", "Char": "fiChar", "Byte": "fiByte", "HInt": "fiHInt", "SInt": "fiSInt",
               "Word": "fiWord", "SFlo": "fiSFlo", "DFlo": "fiDFlo", "BInt": "fiBInt", "Arr": "fiArr", "Ptr": "fiPtr"}
SIMPLE = set(FOAM_CARRIER)

# ------------------------------------------------------------------------------------------
# values
# ------------------------------------------------------------------------------------------
class V:
    """a translated C value: Lean code of carrier type `ty` (pure, may mention bound names)
    plus the monadic bindings (name, code : CRes _) that must run before, in order"""
    __slots__ = ("ty", "code", "binds")
    def __init__(self, ty, code, binds=()):
        self.ty = ty; self.code = code; self.binds = list(binds)

def paren(s):
    s = s.strip()
    if re.fullmatch(r"[A-Za-z0-9_.#']+", s) or (s.startswith("(") and _balanced(s)):
        return s
    return "(" + s + ")"

def _balanced(s):
    d = 0
    for i, c in enumerate(s):
        if c == "(":
            d += 1
        elif c == ")":
            d -= 1
            if d == 0 and i != len(s) - 1:
                return False
    return d == 0

def monadic(v, final=None):
    """Lean term of type CRes _ for value v; final: function code -> code applied to v.code"""
    body = "CRes.val " + paren(v.code if final is None else final(v.code))
    for name, code in reversed(v.binds):
        body = "CRes.bind %s (fun %s => %s)" % (paren(code), name, body)
    return body

class Prims:
    def __init__(self, base=None):
        self.sig = dict(base or {})          # name -> (argtypes tuple, restype) with types as lean carrier strings
        self.used = {}
    def use(self, name, args, res, who):
        s = (tuple(args), res)
        if name in self.sig and self.sig[name] != s:
            bad("primitive %s used at signature %s but known at %s" % (name, s, self.sig[name]))
        self.sig[name] = s
        self.used.setdefault(name, set()).add(who)

LIBC_CSEM = {"isdigit": "CSem.isdigit", "isalpha": "CSem.isalpha", "tolower": "CSem.tolower", "toupper": "CSem.toupper"}
CTYPE_MASK = {"_ISdigit": "CSem.isdigit", "_ISalpha": "CSem.isalpha"}
FOP = {"+": "add", "-": "sub", "*": "mul", "/": "div"}
FCMP = {"<": "lt", "<=": "le", ">": "gt", ">=": "ge", "==": "eq", "!=": "ne"}

class Tr:
    """expression / straight-line function translator for one evaluator"""
    def __init__(self, who, prims, funcs):
        self.who = who            # "cfold" | "fint" | "cmap"
        self.prims = prims
        self.funcs = funcs        # name -> FunctionDecl
        self.tmp = 0
        self.depth = 0
        self.cur = "?"
        self.used_prims = set()
        self.used_funcs = set()

    def fresh(self):
        self.tmp += 1
        return "t%d" % self.tmp

    def prim(self, name, args, resty):
        """call of an uninterpreted primitive; args: list of V"""
        self.prims.use(name, [lean_carrier(a.ty) for a in args], lean_carrier(resty), self.who)
        self.used_prims.add(name)
        binds = [b for a in args for b in a.binds]
        code = "P.%s" % name + "".join(" " + paren(a.code) for a in args)
        return V(resty, code, binds)

    # -- conversions ----------------------------------------------------------------------
    def as_int(self, v, bits=32, signed=True):
        if v.ty[0] == "b":
            return V(("i", bits, signed), "CSem.ofBool %d %s" % (bits, paren(v.code)), v.binds)
        return v

    def truth(self, v):
        if v.ty[0] == "b":
            return v
        if v.ty[0] == "i":
            return V(("b",), "CSem.truth %s" % paren(v.code), v.binds)
        if v.ty[0] == "f":
            z = self.prim("i32tof%d" % v.ty[1], [V(("i", 32, True), "0#32")], v.ty)
            r = self.prim("f%deq" % v.ty[1], [v, z], ("b",))
            return V(("b",), "!" + paren(r.code), r.binds)
        if v.ty[0] == "p":
            n = self.prim("null" + v.ty[1], [], v.ty)
            r = self.prim("eq" + v.ty[1], [v, n], ("b",))
            return V(("b",), "!" + paren(r.code), r.binds)
        bad("truth value of %r" % (v.ty,))

    def convert(self, v, to, kind=""):
        fr = v.ty
        if to[0] == "void":
            return v
        if fr[0] == "b":
            if to[0] == "i":
                return self.as_int(v, to[1], to[2])
            v = self.as_int(v); fr = v.ty
        if fr[0] == "i" and to[0] == "i":
            if fr[1] == to[1]:
                return V(to, v.code, v.binds)
            if fr[1] < to[1]:
                f = "CSem.sext" if fr[2] else "CSem.zext"
                return V(to, "%s %d %s" % (f, to[1], paren(v.code)), v.binds)
            return V(to, "CSem.trunc %d %s" % (to[1], paren(v.code)), v.binds)
        if fr[0] == "i" and to[0] == "f":
            return self.prim("%s%dtof%d" % ("i" if fr[2] else "u", fr[1], to[1]), [v], to)
        if fr[0] == "f" and to[0] == "f":
            if fr[1] == to[1]:
                return v
            return self.prim("f%dtof%d" % (fr[1], to[1]), [v], to)
        if fr[0] == "f" and to[0] == "i":
            return self.prim("f%dto%s%d" % (fr[1], "i" if to[2] else "u", to[1]), [v], to)
        if fr[0] == "p" and to[0] == "p":
            if fr[1] == to[1] or to[1] == "Ptr" and kind == "keep":
                return V(fr, v.code, v.binds)
            if to[1] == "Ptr" or fr[1] == "Ptr":
                # a cast through the generic pointer type keeps the operand's carrier
                bad("pointer cast between carriers %s and %s" % (fr[1], to[1]))
            bad("pointer cast between carriers %s and %s" % (fr[1], to[1]))
        if fr[0] == "i" and to[0] == "p":
            return self.prim("%s%dto%s" % ("i" if fr[2] else "u", fr[1], to[1]), [v], to)
        if fr[0] == "p" and to[0] == "i":
            return self.prim("%sto%s%d" % (fr[1], "i" if to[2] else "u", to[1]), [v], to)
        bad("conversion %r -> %r" % (fr, to))

    # -- expressions ----------------------------------------------------------------------
    def expr(self, n, env):
        k = n.get("kind")
        m = getattr(self, "e_" + k, None)
        if m is None:
            bad("C construct %s" % k)
        return m(n, env)

    def e_ParenExpr(self, n, env):
        return self.expr(kids(n)[0], env)
    e_ConstantExpr = e_ParenExpr

    def e_IntegerLiteral(self, n, env):
        ty = ctype(n)
        return V(ty, "%d#%d" % (int(n["value"]), ty[1]))

    def e_CharacterLiteral(self, n, env):
        ty = ctype(n)
        return V(ty, "%d#%d" % (int(n["value"]), ty[1]))

    def e_FloatingLiteral(self, n, env):
        ty = ctype(n)
        lit = V(("i", 0, False), '"%s"' % n["value"])
        self.prims.use("f%dlit" % ty[1], ["String"], lean_carrier(ty), self.who)
        self.used_prims.add("f%dlit" % ty[1])
        return V(ty, 'P.f%dlit "%s"' % (ty[1], n["value"]))

    def e_DeclRefExpr(self, n, env):
        r = n.get("referencedDecl", {})
        nm = r.get("name")
        if r.get("kind") in ("ParmVarDecl", "VarDecl"):
            if nm in env and isinstance(env[nm], V):
                return env[nm]
            if nm in env and isinstance(env[nm], dict) and "val" in env[nm]:
                return env[nm]["val"]
            if r.get("kind") == "VarDecl" and nm in GLOBAL_CONSTS and nm not in env:
                return self.prim(nm, [], ctype(n))
            bad("variable `%s`" % nm)
        if r.get("kind") == "EnumConstantDecl" and nm in env.get("$enum", {}):
            return V(("i", 32, True), "%d#32" % env["$enum"][nm])
        bad("reference to %s `%s`" % (r.get("kind"), nm))

    def cast(self, n, env):
        ck = n.get("castKind")
        sub = kids(n)[-1]
        if ck in ("LValueToRValue", "NoOp", "FunctionToPointerDecay"):
            return self.expr(sub, env)
        if ck in ("IntegralCast", "IntegralToFloating", "FloatingCast", "FloatingToIntegral",
                  "IntegralToPointer", "PointerToIntegral"):
            return self.convert(self.expr(sub, env), ctype(n))
        if ck == "BitCast":
            v = self.expr(sub, env)
            to = ctype(n)
            if v.ty[0] == "p" and to[0] == "p":
                if v.ty[1] == to[1] or to[1] == "Ptr" or v.ty[1] == "Ptr" and False:
                    return v
                bad("pointer cast between carriers %s and %s" % (v.ty[1], to[1]))
            bad("BitCast %r -> %r" % (v.ty, to))
        if ck == "NullToPointer":
            to = ctype(n)
            return self.prim("null" + to[1], [], to)
        bad("cast kind %s" % ck)

    e_ImplicitCastExpr = cast
    e_CStyleCastExpr = cast

    def e_UnaryOperator(self, n, env):
        op = n["opcode"]
        v = self.expr(kids(n)[0], env)
        ty = ctype(n)
        if op == "!":
            t = self.truth(v)
            return V(("b",), "!" + paren(t.code), t.binds)
        if op == "+":
            return self.convert(v, ty)
        if op == "-":
            if ty[0] == "i":
                v = self.convert(v, ty)
                return V(ty, "-" + paren(v.code), v.binds)
            if ty[0] == "f":
                return self.prim("f%dneg" % ty[1], [v], ty)
        if op == "~" and ty[0] == "i":
            v = self.convert(v, ty)
            return V(ty, "~~~" + paren(v.code), v.binds)
        bad("unary operator %s at %r" % (op, ty))

    def ctype_lookup(self, n, env):
        """glibc: ((*__ctype_b_loc())[(int)(c)] & (unsigned short)_ISxxx)"""
        def has_loc(x):
            if x.get("kind") == "CallExpr":
                for y in kids(x):
                    z = y
                    while z.get("kind") in ("ImplicitCastExpr", "ParenExpr") and kids(z):
                        z = kids(z)[0]
                    if z.get("kind") == "DeclRefExpr" and z.get("referencedDecl", {}).get("name") == "__ctype_b_loc":
                        return True
            return any(has_loc(c) for c in kids(x))
        l, r = kids(n)
        if not has_loc(l):
            return None
        # index expression
        def find_sub(x):
            if x.get("kind") == "ArraySubscriptExpr":
                return x
            for c in kids(x):
                s = find_sub(c)
                if s is not None:
                    return s
        sub = find_sub(l)
        if sub is None:
            bad("ctype table use without subscript")
        base, idx = kids(sub)
        # base must be exactly *__ctype_b_loc()
        def only_loc(x):
            kd = x.get("kind")
            if kd in ("ImplicitCastExpr", "ParenExpr"):
                return only_loc(kids(x)[0])
            if kd == "UnaryOperator" and x.get("opcode") == "*":
                c = kids(x)[0]
                return c.get("kind") == "CallExpr" and len(kids(c)) == 1 and has_loc(c)
            return False
        if not only_loc(base):
            bad("ctype table base expression")
        def mask_name(x):
            if x.get("kind") == "DeclRefExpr":
                return x.get("referencedDecl", {}).get("name")
            for c in kids(x):
                m = mask_name(c)
                if m:
                    return m
        mn = mask_name(r)
        if mn not in CTYPE_MASK:
            bad("ctype class mask %s" % mn)
        iv = self.as_int(self.expr(idx, env))
        if iv.ty[0] != "i":
            bad("ctype index of type %r" % (iv.ty,))
        t = self.fresh()
        return V(("i", 32, True), t, iv.binds + [(t, "%s %s" % (CTYPE_MASK[mn], self.mathval(iv)))])

    def mathval(self, v):
        return "%s.%s" % (paren(v.code), "toInt" if v.ty[2] else "toNat") if v.ty[2] else "(%s.toNat : Int)" % paren(v.code)

    def e_ArraySubscriptExpr(self, n, env):
        """the compiler's own case tables (stdc.c): tolower(c) is __lowercase[(c)+1]"""
        b, i = kids(n)
        b = strip_casts(b, ("ParenExpr", "ImplicitCastExpr"))
        nm = b.get("referencedDecl", {}).get("name") if b.get("kind") == "DeclRefExpr" else None
        if nm in CASE_TABLES:
            i = strip_casts(i, ("ParenExpr",))
            if i.get("kind") == "BinaryOperator" and i.get("opcode") == "+":
                x, one = kids(i)
                o = strip_casts(one, ("ParenExpr", "ImplicitCastExpr"))
                if o.get("kind") == "IntegerLiteral" and int(o["value"]) == 1:
                    xv = self.as_int(self.expr(x, env))
                    if xv.ty[0] == "i":
                        t = self.fresh()
                        r = V(("i", 32, True), t, xv.binds + [(t, "%s %s" % (CASE_TABLES[nm], self.mathval(xv)))])
                        return self.convert(r, ctype(n))
        bad("array subscript")

    def e_BinaryOperator(self, n, env):
        op = n["opcode"]
        ln, rn = kids(n)
        ty = None
        if op == "&":
            c = self.ctype_lookup(n, env)
            if c is not None:
                return c
        if op in ("&&", "||"):
            a = self.truth(self.expr(ln, env))
            b = self.truth(self.expr(rn, env))
            if not b.binds:
                return V(("b",), "%s %s %s" % (paren(a.code), op, paren(b.code)), a.binds)
            t = self.fresh()
            if op == "&&":
                code = "if %s then %s else CRes.val false" % (a.code, monadic(b))
            else:
                code = "if %s then CRes.val true else %s" % (a.code, monadic(b))
            return V(("b",), t, a.binds + [(t, code)])
        a = self.expr(ln, env)
        b = self.expr(rn, env)
        ty = ctype(n)
        if op in ("<", "<=", ">", ">=", "==", "!="):
            a = self.as_int(a); b = self.as_int(b)
            if a.ty[0] == "i" and b.ty[0] == "i":
                if a.ty != b.ty:
                    bad("comparison of %r with %r" % (a.ty, b.ty))
                s = a.ty[2]
                x, y = paren(a.code), paren(b.code)
                code = {"<": ("BitVec.slt %s %s" if s else "BitVec.ult %s %s") % (x, y),
                        "<=": ("BitVec.sle %s %s" if s else "BitVec.ule %s %s") % (x, y),
                        ">": ("BitVec.slt %s %s" if s else "BitVec.ult %s %s") % (y, x),
                        ">=": ("BitVec.sle %s %s" if s else "BitVec.ule %s %s") % (y, x),
                        "==": "%s == %s" % (x, y), "!=": "%s != %s" % (x, y)}[op]
                return V(("b",), code, a.binds + b.binds)
            if a.ty[0] == "f" and a.ty == b.ty:
                return self.prim("f%d%s" % (a.ty[1], FCMP[op]), [a, b], ("b",))
            if a.ty[0] == "p" and b.ty[0] == "p" and a.ty == b.ty and op in ("==", "!="):
                r = self.prim("eq" + a.ty[1], [a, b], ("b",))
                if op == "!=":
                    return V(("b",), "!" + paren(r.code), r.binds)
                return r
            bad("comparison %s of %r with %r" % (op, a.ty, b.ty))
        if op in ("<<", ">>"):
            a = self.convert(a, ty)
            b = self.as_int(b)
            if a.ty[0] != "i" or b.ty[0] != "i":
                bad("shift at %r" % (a.ty,))
            cnt = "%s.%s" % (paren(b.code), "toInt" if b.ty[2] else "toNat")
            if not b.ty[2]:
                cnt = "(%s : Int)" % cnt
            f = "CSem.shl" if op == "<<" else ("CSem.sshr" if a.ty[2] else "CSem.ushr")
            t = self.fresh()
            return V(ty, t, a.binds + b.binds + [(t, "%s %s %s" % (f, paren(a.code), paren(cnt)))])
        if ty[0] == "i":
            a = self.convert(a, ty); b = self.convert(b, ty)
            x, y = paren(a.code), paren(b.code)
            if op in ("+", "-", "*"):
                return V(ty, "%s %s %s" % (x, op, y), a.binds + b.binds)
            if op in ("&", "|", "^"):
                return V(ty, "%s %s %s" % (x, {"&": "&&&", "|": "|||", "^": "^^^"}[op], y), a.binds + b.binds)
            if op in ("/", "%"):
                f = {("/", True): "CSem.sdiv", ("/", False): "CSem.udiv",
                     ("%", True): "CSem.srem", ("%", False): "CSem.urem"}[(op, ty[2])]
                t = self.fresh()
                return V(ty, t, a.binds + b.binds + [(t, "%s %s %s" % (f, x, y))])
        if ty[0] == "f" and op in FOP:
            if a.ty != ty or b.ty != ty:
                bad("float operator %s at mixed types" % op)
            return self.prim("f%d%s" % (ty[1], FOP[op]), [a, b], ty)
        bad("binary operator %s at %r" % (op, ty))

    def e_ConditionalOperator(self, n, env):
        c, a, b = kids(n)
        ty = ctype(n)
        cv = self.truth(self.expr(c, env))
        av = self.expr(a, env)
        bv = self.expr(b, env)
        if ty[0] != "void":
            av = self.convert(av, ty); bv = self.convert(bv, ty)
        if not av.binds and not bv.binds:
            return V(ty, "if %s then %s else %s" % (cv.code, av.code, bv.code), cv.binds)
        t = self.fresh()
        return V(ty, t, cv.binds + [(t, "if %s then %s else %s" % (cv.code, monadic(av), monadic(bv)))])

    def callee_name(self, n):
        z = kids(n)[0]
        while z.get("kind") in ("ImplicitCastExpr", "ParenExpr") and kids(z):
            z = kids(z)[0]
        if z.get("kind") == "DeclRefExpr" and z.get("referencedDecl", {}).get("kind") == "FunctionDecl":
            return z["referencedDecl"]["name"], z
        bad("call through an expression")

    def e_CallExpr(self, n, env):
        name, ref = self.callee_name(n)
        argn = kids(n)[1:]
        if name in env.get("$special", {}):
            return env["$special"][name](self, n, env)
        args = [self.expr(a, env) for a in argn]
        resty = ctype(n)
        if name in LIBC_CSEM:
            if len(args) != 1:
                bad("%s arity" % name)
            a = self.convert(args[0], ("i", 32, True))
            t = self.fresh()
            r = V(("i", 32, True), t, a.binds + [(t, "%s %s" % (LIBC_CSEM[name], self.mathval(a)))])
            return self.convert(r, resty)
        fd = self.funcs.get(name)
        if fd is not None and self.depth < 6:
            body = [c for c in kids(fd) if c.get("kind") == "CompoundStmt"]
            if body:
                params = [c for c in kids(fd) if c.get("kind") == "ParmVarDecl"]
                if len(params) == len(args):
                    try:
                        self.depth += 1
                        env2 = {"$enum": env.get("$enum", {}), "$special": env.get("$special", {})}
                        for p, a in zip(params, args):
                            env2[p["name"]] = self.convert(self.as_int(a) if a.ty[0] == "b" else a, ctype(p), "keep")
                        r = self.straight_line(body[0], env2)
                        self.used_funcs.add(name)
                        return r
                    except Untranslated:
                        pass
                    finally:
                        self.depth -= 1
        # an uninterpreted primitive with its C signature
        sig = ref.get("type", {}).get("qualType", "")
        args = [self.as_int(a) if a.ty[0] == "b" else a for a in args]
        if resty[0] == "void":
            bad("call of %s for its side effect" % name)
        return self.prim(name, args, resty)

    def straight_line(self, comp, env):
        """CompoundStmt of local declarations, assignments to locals and a final return"""
        ret = None
        for st in kids(comp):
            if ret is not None:
                bad("statement after return")
            while st.get("kind") == "ParenExpr":
                st = kids(st)[0]
            k = st.get("kind")
            if k == "DeclStmt":
                for d in kids(st):
                    if d.get("kind") != "VarDecl":
                        bad("declaration %s" % d.get("kind"))
                    init = [c for c in kids(d) if c.get("kind") not in ("FullComment",)]
                    if init:
                        env[d["name"]] = self.convert(self.expr(init[0], env), ctype(d), "keep")
                    else:
                        env[d["name"]] = None
            elif k == "BinaryOperator" and st.get("opcode") == "=":
                l, r = kids(st)
                while l.get("kind") == "ParenExpr":
                    l = kids(l)[0]
                if l.get("kind") != "DeclRefExpr" or l.get("referencedDecl", {}).get("kind") != "VarDecl":
                    bad("assignment to a non-local")
                nm = l["referencedDecl"]["name"]
                if nm not in env:
                    bad("assignment to `%s`" % nm)
                env[nm] = self.convert(self.expr(r, env), ctype(l), "keep")
            elif k == "ReturnStmt":
                if not kids(st):
                    bad("return without value")
                ret = self.expr(kids(st)[0], env)
            elif k == "NullStmt":
                pass
            else:
                bad("statement %s in a function body" % k)
        if ret is None:
            bad("function body without return")
        return ret

# ------------------------------------------------------------------------------------------
# tables
# ------------------------------------------------------------------------------------------
def enum_name(x):
    if x.get("kind") == "DeclRefExpr":
        return x.get("referencedDecl", {}).get("name")
    for c in kids(x):
        r = enum_name(c)
        if r:
            return r

def lit_value(x):
    k = x.get("kind")
    if k == "IntegerLiteral":
        return int(x["value"])
    if k == "StringLiteral":
        return json.loads(x["value"])
    if k == "DeclRefExpr":
        return x.get("referencedDecl", {}).get("name")
    for c in kids(x):
        r = lit_value(c)
        if r is not None:
            return r
    return None

def read_bval_table(src):
    docs = run_clang(src, "foam.c", "foamBValInfoTable")
    vd = [d for d in docs if d.get("kind") == "VarDecl" and kids(d)][-1]
    rows = {}
    order = []
    for row in kids(kids(vd)[0]):
        f = kids(row)
        tag = enum_name(f[0]); name = lit_value(f[2])
        argc = lit_value(f[4])
        elems = kids(f[5]) or [c for c in f[5].get("array_filler", []) if c.get("kind") != "ImplicitValueInitExpr"]
        argt = [enum_name(c) for c in elems][:argc]
        ret = enum_name(f[6]) or "FOAM_Nil"
        retc = lit_value(f[7])
        rows[name] = {"tag": tag, "side": lit_value(f[3]), "argc": argc,
                      "args": [a.replace("FOAM_", "") if a else None for a in argt],
                      "ret": ret.replace("FOAM_", ""), "retc": retc}
        order.append(name)
    return rows, order

def read_cc_table(src):
    docs = run_clang(src, "genc.c", "ccBValInfoTable")
    vd = [d for d in docs if d.get("kind") == "VarDecl" and kids(d)][-1]
    rows = {}
    for row in kids(kids(vd)[0]):
        f = kids(row)
        tag = enum_name(f[0])
        cfun = enum_name(f[1])
        special = lit_value(f[2])
        s = lit_value(f[3]); m = lit_value(f[4])
        rows[tag] = {"cfun": cfun, "special": special, "str": s if isinstance(s, str) else None,
                     "macro": m if isinstance(m, str) else None, "line": src_line(row)}
    return rows

def machine_builtins(src):
    p = os.path.normpath(os.path.join(src, "..", "lib", "libfoamlib", "al", "machine.as"))
    names = []
    if os.path.exists(p):
        txt = open(p, errors="replace").read()
        m = re.search(r"import\s*\{(.*?)\}\s*from\s+Builtin", txt, re.S)
        if m:
            names = re.findall(r"^\s*(\w+)\s*:", m.group(1), re.M)
    return names

# ------------------------------------------------------------------------------------------
# switch extraction
# ------------------------------------------------------------------------------------------
def find_switch(n):
    if n.get("kind") == "SwitchStmt":
        return n
    for c in kids(n):
        r = find_switch(c)
        if r is not None:
            return r

def switch_cases(fn):
    """-> {case enum name: [statements]} for the (first, outermost) switch of the function"""
    body = [c for c in kids(fn) if c.get("kind") == "CompoundStmt"][0]
    sw = find_switch(body)
    comp = kids(sw)[-1]
    cases = {}
    cur = []
    curnames = []
    def flush():
        for nm in curnames:
            cases[nm] = cur
    for st in kids(comp):
        k = st.get("kind")
        if k in ("CaseStmt", "DefaultStmt"):
            # a new label starts a new group unless the previous group has no statements (stacked labels)
            if cur:
                flush(); cur = []; curnames = []
            x = st
            while x.get("kind") in ("CaseStmt", "DefaultStmt"):
                if x["kind"] == "CaseStmt":
                    curnames.append(enum_name(kids(x)[0]))
                    x = kids(x)[-1]
                else:
                    curnames.append("$default")
                    x = kids(x)[-1]
            cur = [x]
        else:
            cur.append(st)
    flush()
    return cases

def is_assert(st):
    """assert(...) expands to do { if (!(c)) _do_assert(...); } while (0)"""
    if st.get("kind") != "DoStmt":
        return False
    def calls(x, acc):
        if x.get("kind") == "CallExpr":
            z = kids(x)[0]
            while z.get("kind") in ("ImplicitCastExpr", "ParenExpr") and kids(z):
                z = kids(z)[0]
            acc.append(z.get("referencedDecl", {}).get("name"))
        for c in kids(x):
            calls(c, acc)
        return acc
    c = calls(st, [])
    return c == ["_do_assert"]

def strip_casts(x, kinds=("ParenExpr", "ImplicitCastExpr", "CStyleCastExpr")):
    while x.get("kind") in kinds and kids(x):
        x = kids(x)[-1]
    return x

# ------------------------------------------------------------------------------------------
# result conversion
# ------------------------------------------------------------------------------------------
def result_defs(tr, ns, name, args, ret, raw):
    """Lean text of the definition(s) of ns.name ; raw: V at its C type"""
    params = "".join(" (a%d : %s)" % (i, FOAM_CARRIER[t]) for i, t in enumerate(args))
    hdr = "(P : Prims)" + params
    out = []
    want = FOAM_CTYPE[ret]
    if ret == "Bool":
        raw = tr.as_int(raw, 64, True)
        if raw.ty[0] != "i":
            bad("Bool result of C type %r" % (raw.ty,))
        raw = tr.convert(raw, ("i", 64, True))
        out.append("def %s_raw %s : CRes (BitVec 64) :=\n  %s" % (name, hdr, monadic(raw)))
        argn = "".join(" a%d" % i for i in range(len(args)))
        out.append("def %s %s : CRes Bool :=\n  (%s_raw P%s).map CSem.truth" % (name, hdr, name, argn))
        return out
    if want[0] == "i":
        raw = tr.as_int(raw)
        if raw.ty[0] != "i":
            bad("%s result of C type %r" % (ret, raw.ty))
        raw = tr.convert(raw, want)
    elif want[0] == "f":
        if raw.ty[0] != "f":
            bad("%s result of C type %r" % (ret, raw.ty))
        raw = tr.convert(raw, want)
    else:
        if raw.ty != want:
            bad("%s result of C type %r" % (ret, raw.ty))
    out.append("def %s %s : CRes (%s) :=\n  %s" % (name, hdr, FOAM_CARRIER[ret], monadic(raw)))
    return out

def operand_value(i, foamty, cty=None):
    """operand i of FOAM type foamty as a C value at its storage type"""
    t = FOAM_CTYPE[foamty]
    if foamty == "Bool":
        return V(t, "CSem.ofBool 64 a%d" % i)
    return V(t, "a%d" % i)

# ------------------------------------------------------------------------------------------
# folder
# ------------------------------------------------------------------------------------------
CFOLD_FIELD = {"BoolData": "Bool", "CharData": "Char", "ByteData": "Byte", "HIntData": "HInt", "SIntData": "SInt",
               "SFloData": "SFlo", "DFloData": "DFlo", "BIntData": "BInt", "val": "Ptr"}
CFOLD_STRUCT = {"Bool": "foamBool", "Char": "foamChar", "Byte": "foamByte", "HInt": "foamHInt", "SInt": "foamSInt",
                "SFlo": "foamSFlo", "DFlo": "foamDFlo", "BInt": "foamBInt", "Ptr": "foamPtr"}

def argv_index(x):
    x = strip_casts(x, ("ParenExpr", "ImplicitCastExpr"))
    if x.get("kind") != "ArraySubscriptExpr":
        return None
    b, i = kids(x)
    b = strip_casts(b, ("ParenExpr", "ImplicitCastExpr"))
    if b.get("kind") == "DeclRefExpr" and b.get("referencedDecl", {}).get("name") == "argv" and i.get("kind") == "IntegerLiteral":
        return int(i["value"])
    return None

class CfoldTr(Tr):
    def __init__(self, prims, funcs, info):
        super().__init__("cfold", prims, funcs)
        self.info = info
        self.reads = []
    def e_MemberExpr(self, n, env):
        fld = n.get("name")
        inner = kids(n)[0]
        if fld in CFOLD_FIELD and inner.get("kind") == "MemberExpr":
            st = inner.get("name")
            i = argv_index(kids(inner)[0])
            ft = CFOLD_FIELD[fld]
            if i is not None and st == CFOLD_STRUCT[ft]:
                if i >= len(self.info["args"]):
                    bad("operand %d of a %d-ary builtin" % (i, len(self.info["args"])))
                if self.info["args"][i] != ft:
                    bad("operand %d declared %s is read as %s" % (i, self.info["args"][i], ft))
                self.reads.append(i)
                ty = ctype(n)
                if ft in ("Bool",):
                    return V(ty, "CSem.ofBool 64 a%d" % i)
                if ft in ("Char", "Byte"):
                    # the constant node holds the character code as a non-negative AInt
                    return V(ty, "CSem.zext 64 a%d" % i)
                if ft == "HInt":
                    return V(ty, "CSem.sext 64 a%d" % i)
                if ft == "Ptr":
                    return V(("p", "Ptr"), "a%d" % i)
                return V(ty, "a%d" % i)
        bad("member access .%s" % fld)

def sp_cfoldArrToString(tr, n, env):
    i = argv_index(kids(n)[1])
    if i is None or i >= len(tr.info["args"]) or tr.info["args"][i] != "Arr":
        bad("cfoldArrToString of a non-Arr operand")
    tr.reads.append(i)
    return V(("p", "Arr"), "a%d" % i)

def translate_cfold(src, prims, funcs, table, names, enums):
    docs = run_clang(src, "of_cfold.c", "cfoldBCall")
    fn = fn_with_body(docs, "cfoldBCall")
    if fn is None:
        raise RuntimeError("cfoldBCall not found")
    cases = switch_cases(fn)
    out = {}
    for name in names:
        info = table[name]
        sts = cases.get(info["tag"])
        rec = {"status": None, "line": None}
        out[name] = rec
        if sts is None:
            rec["status"] = "unfolded"; rec["why"] = "no case"
            continue
        rec["line"] = src_line(sts[0])
        tr = CfoldTr(prims, funcs, info)
        tr.cur = name
        env = {"$enum": enums, "$special": {"cfoldArrToString": sp_cfoldArrToString}}
        try:
            guard = None
            guards = []
            result = None
            ended = False
            for st in sts:
                k = st.get("kind")
                if ended:
                    bad("statement after break")
                if k == "BreakStmt":
                    ended = True
                elif k == "IfStmt":
                    c, t = kids(st)[0], kids(st)[1]
                    c0 = strip_casts(c, ("ParenExpr",))
                    g = None
                    if c0.get("kind") == "UnaryOperator" and c0.get("opcode") == "!":
                        z = strip_casts(kids(c0)[0], ("ParenExpr", "ImplicitCastExpr"))
                        if z.get("kind") == "DeclRefExpr":
                            g = z["referencedDecl"]["name"]
                    if g in ("cfoldFoldAll", "cfoldFoldFloat") and t.get("kind") == "BreakStmt" and len(kids(st)) == 2 and result is None:
                        guard = g
                    elif t.get("kind") == "BreakStmt" and len(kids(st)) == 2 and result is None:
                        # `if (cond) break;` before the fold: the case folds on the complement of cond.
                        # cond must be evaluable without reaching a partial operation, and nothing
                        # partial may have been computed before it.
                        for nm, lv in env.items():
                            if isinstance(lv, V) and lv.binds:
                                bad("guard after a partial operation assigned to `%s`" % nm)
                        gv = tr.truth(tr.expr(c, env))
                        if gv.binds:
                            bad("guard condition with a partial operation")
                        guards.append(gv.code)
                    else:
                        bad("if statement")
                elif is_assert(st):
                    pass
                elif k == "NullStmt":
                    pass
                elif k == "BinaryOperator" and st.get("opcode") == "=":
                    l, r = kids(st)
                    l = strip_casts(l, ("ParenExpr",))
                    if l.get("kind") != "DeclRefExpr":
                        bad("assignment to a non-variable")
                    nm = l["referencedDecl"]["name"]
                    if nm == "foam":
                        if result is not None:
                            bad("second assignment to foam")
                        c = strip_casts(r, ("ParenExpr",))
                        if c.get("kind") != "CallExpr":
                            bad("foam = <non-call>")
                        cn, _ = tr.callee_name(c)
                        ar = kids(c)[1:]
                        if cn == "foamNew":
                            t = enum_name(ar[0])
                            cnt = lit_value(ar[1])
                            ft = (t or "").replace("FOAM_", "")
                            if ft == "Nil" and cnt == 0:
                                result = ("Ptr", tr.prim("nullPtr", [], ("p", "Ptr")))
                            elif ft in SIMPLE and cnt == 1 and len(ar) == 3:
                                result = (ft, tr.expr(ar[2], env))
                            else:
                                bad("foamNew(%s, %s, ...)" % (t, cnt))
                        elif cn in ("foamNewSFlo", "foamNewDFlo") and len(ar) == 1:
                            result = (cn[7:], tr.expr(ar[0], env))
                        else:
                            bad("foam = %s(...)" % cn)
                    elif nm in ("n", "s"):
                        env[nm] = tr.convert(tr.expr(r, env), ctype(l), "keep")
                    else:
                        bad("assignment to `%s`" % nm)
                elif k == "CallExpr":
                    cn, _ = tr.callee_name(st)
                    a = [strip_casts(x, ("ParenExpr", "ImplicitCastExpr")) for x in kids(st)[1:]]
                    if cn == "strFree" and len(a) == 1 and a[0].get("kind") == "DeclRefExpr" and a[0]["referencedDecl"]["name"] == "s":
                        pass    # releases the temporary string made by cfoldArrToString
                    else:
                        bad("call statement %s" % cn)
                else:
                    bad("statement %s" % k)
            rec["guard"] = guard
            if result is None:
                rec["status"] = "unfolded"
                continue
            ft, raw = result
            if ft != info["ret"]:
                bad("folds to a %s constant but the builtin returns %s" % (ft, info["ret"]))
            rec["defs"] = result_defs(tr, "Cfold", name, info["args"], info["ret"], raw)
            if guards:
                params = "".join(" (a%d : %s)" % (i, FOAM_CARRIER[t]) for i, t in enumerate(info["args"]))
                rec["defs"].append("/-- the case folds only where none of its `if (..) break;` guards holds -/\n"
                                   "def %s_folds (P : Prims)%s : Bool :=\n  %s"
                                   % (name, params, " && ".join("!(%s)" % g for g in guards)))
                rec["guarded"] = True
            rec["status"] = "ok"
            rec["prims"] = sorted(tr.used_prims)
            rec["inlined"] = sorted(tr.used_funcs)
        except Untranslated as e:
            rec["status"] = "untranslated"; rec["why"] = str(e)
    return out

# ------------------------------------------------------------------------------------------
# interpreter
# ------------------------------------------------------------------------------------------
class FintTr(Tr):
    def __init__(self, prims, funcs, info):
        super().__init__("fint", prims, funcs)
        self.info = info
    def e_MemberExpr(self, n, env):
        fld = n.get("name")
        b = strip_casts(kids(n)[0], ("ParenExpr",))
        if b.get("kind") == "DeclRefExpr" and b.get("referencedDecl", {}).get("kind") == "VarDecl":
            nm = b["referencedDecl"]["name"]
            slot = env.get(nm)
            if isinstance(slot, dict) and slot.get("val") is not None:
                ty = ctype(n)
                have = slot["val"].ty
                if fld == slot["member"] or (ty[0] == have[0] and ty[1] == have[1]):
                    if ty[0] == "i":
                        return V(ty, slot["val"].code, slot["val"].binds)
                    if ty == have:
                        return slot["val"]
                bad("union member .%s read after .%s was written" % (fld, slot["member"]))
            bad("read of `%s.%s` before it is evaluated" % (nm, fld))
        bad("member access .%s" % fld)

def fint_eval_target(x):
    """fintEval(&exprN) / fintTypedEval(&exprN, T) -> 'exprN'"""
    x = strip_casts(x)
    if x.get("kind") != "CallExpr":
        return None
    z = strip_casts(kids(x)[0], ("ParenExpr", "ImplicitCastExpr"))
    if z.get("kind") != "DeclRefExpr" or z.get("referencedDecl", {}).get("name") not in ("fintEval", "fintTypedEval"):
        return None
    a = strip_casts(kids(x)[1], ("ParenExpr", "ImplicitCastExpr"))
    if a.get("kind") == "UnaryOperator" and a.get("opcode") == "&":
        v = strip_casts(kids(a)[0], ("ParenExpr",))
        if v.get("kind") == "DeclRefExpr":
            return v["referencedDecl"]["name"]
    return None

def translate_fint(src, prims, funcs, table, names, enums):
    docs = run_clang(src, "fint.c", "fintEvalBCall")
    fn = fn_with_body(docs, "fintEvalBCall")
    if fn is None:
        raise RuntimeError("fintEvalBCall not found")
    cases = switch_cases(fn)
    out = {}
    for name in names:
        info = table[name]
        rec = {"status": None, "line": None}
        out[name] = rec
        sts = cases.get(info["tag"])
        if sts is None:
            rec["status"] = "untranslated"; rec["why"] = "no case in fintEvalBCall"
            continue
        rec["line"] = src_line(sts[0])
        tr = FintTr(prims, funcs, info)
        env = {"$enum": enums, "$special": {}}
        try:
            nexta = 0
            lasttype = None
            raw = None; rawmember = None; mytype = None
            ended = False
            def do_eval(target):
                nonlocal nexta
                if nexta >= len(info["args"]):
                    bad("evaluates more operands than the builtin has")
                ft = info["args"][nexta]
                env[target] = {"val": operand_value(nexta, ft), "member": FINT_MEMBER[ft], "foam": ft}
                nexta += 1
                return ft
            for st in sts:
                k = st.get("kind")
                if ended:
                    bad("statement after break")
                if k == "BreakStmt":
                    ended = True
                elif k == "NullStmt":
                    pass
                elif k in ("CStyleCastExpr", "CallExpr") and fint_eval_target(st):
                    do_eval(fint_eval_target(st))
                elif k == "CompoundStmt" and len(kids(st)) >= 1 and fint_eval_target(kids(st)[0]) and False:
                    pass
                elif k == "BinaryOperator" and st.get("opcode") == "=":
                    l, r = kids(st)
                    l0 = strip_casts(l, ("ParenExpr",))
                    if l0.get("kind") == "DeclRefExpr":
                        nm = l0["referencedDecl"]["name"]
                        if nm == "type" and fint_eval_target(r):
                            lasttype = do_eval(fint_eval_target(r))
                        elif nm == "myType":
                            mytype = (enum_name(r) or "").replace("FOAM_", "")
                        else:
                            bad("assignment to `%s`" % nm)
                    elif l0.get("kind") == "MemberExpr":
                        b = strip_casts(kids(l0)[0], ("ParenExpr", "ImplicitCastExpr"))
                        if b.get("kind") == "DeclRefExpr" and b["referencedDecl"]["name"] == "retDataObj" and l0.get("isArrow"):
                            if raw is not None:
                                bad("second assignment to the result")
                            raw = tr.convert(tr.expr(r, env), ctype(l0), "keep")
                            rawmember = l0.get("name")
                        else:
                            bad("assignment to a member of something other than retDataObj")
                    else:
                        bad("assignment target %s" % l0.get("kind"))
                elif k == "IfStmt":
                    # fintForceBoolToWord(e, t):  if (t == FOAM_Bool) e.fiWord = (FiWord) e.fiBool
                    c, t = kids(st)[0], kids(st)[1]
                    c0 = strip_casts(c, ("ParenExpr",))
                    ok = False
                    if c0.get("kind") == "BinaryOperator" and c0.get("opcode") == "==" and len(kids(st)) == 2:
                        a, b = kids(c0)
                        a = strip_casts(a, ("ParenExpr", "ImplicitCastExpr")); bn = enum_name(b)
                        if a.get("kind") == "DeclRefExpr" and a["referencedDecl"]["name"] == "type" and lasttype is not None and bn and bn.startswith("FOAM_"):
                            ok = True
                            if lasttype == bn.replace("FOAM_", ""):
                                if t.get("kind") != "BinaryOperator" or t.get("opcode") != "=":
                                    bad("if body")
                                l, r = kids(t)
                                l0 = strip_casts(l, ("ParenExpr",))
                                bb = strip_casts(kids(l0)[0], ("ParenExpr",)) if l0.get("kind") == "MemberExpr" else {}
                                if l0.get("kind") == "MemberExpr" and bb.get("kind") == "DeclRefExpr" and isinstance(env.get(bb["referencedDecl"]["name"]), dict):
                                    v = tr.convert(tr.expr(r, env), ctype(l0), "keep")
                                    env[bb["referencedDecl"]["name"]] = {"val": v, "member": l0.get("name"), "foam": None}
                                else:
                                    bad("if body assignment")
                    if not ok:
                        bad("if statement")
                else:
                    bad("statement %s" % k)
            if raw is None or mytype is None:
                bad("no result assignment" if raw is None else "no myType assignment")
            if mytype != info["ret"]:
                bad("myType = %s but the builtin returns %s" % (mytype, info["ret"]))
            if rawmember != FINT_MEMBER[info["ret"]]:
                # a result stored through another member of the same size and class is accepted
                want = FOAM_CTYPE[info["ret"]]
                if not (raw.ty[0] == want[0] and raw.ty[1] == want[1]):
                    bad("result stored in .%s for a %s" % (rawmember, info["ret"]))
            if nexta != len(info["args"]):
                bad("evaluates %d operands of %d" % (nexta, len(info["args"])))
            rec["defs"] = result_defs(tr, "Fint", name, info["args"], info["ret"], raw)
            rec["status"] = "ok"
            rec["prims"] = sorted(tr.used_prims)
            rec["inlined"] = sorted(tr.used_funcs)
        except Untranslated as e:
            rec["status"] = "untranslated"; rec["why"] = str(e)
    return out

# ------------------------------------------------------------------------------------------
# C route: what genc prints for a builtin (gc0Builtin / gc0FCall / gc0Cop / gc0Set, USE_MACROS)
# ------------------------------------------------------------------------------------------
CCO_INFIX = {"CCO_And": "&", "CCO_Or": "|", "CCO_Xor": "^", "CCO_EQ": "==", "CCO_NE": "!=", "CCO_LT": "<",
             "CCO_LE": "<=", "CCO_GT": ">", "CCO_GE": ">=", "CCO_Plus": "+", "CCO_Minus": "-", "CCO_Star": "*",
             "CCO_Div": "/", "CCO_Mod": "%", "CCO_USh": "<<", "CCO_DSh": ">>", "CCO_LAnd": "&&", "CCO_LOr": "||"}
CCO_PREFIX = {"CCO_LNot": "!", "CCO_Not": "~", "CCO_PreMinus": "-", "CCO_PrePlus": "+"}

def cmap_c_expr(name, info, row):
    """C text genc produces for the builtin applied to a0..an in an expression (gc0Builtin),
    and in a `Set` statement (gc0Set).  -> (expr_form, set_form) where a form is either
    ('expr', text) or ('macro', MACRO) ; raises Untranslated"""
    argc = info["argc"]
    a = ["a%d" % i for i in range(argc)]
    cfun, sp, s, mac = row["cfun"], row["special"], row["str"], row["macro"]
    if cfun in ("CCO_Id", "CCO_FloatVal", "CCO_IntVal", "CCO_CharVal"):
        if s is None:
            bad("constant row without text")
        e = ("expr", s)
    elif cfun == "CCO_FCall":
        if sp == 0:
            if mac:
                e = ("macro", mac)
            else:
                if s is None:
                    bad("FCall row without function name")
                e = ("expr", "%s(%s)" % (s, ", ".join("(%s) %s" % (FOAM_FI[t], x) for t, x in zip(info["args"], a))))
        else:
            if name in ("BIntIsEven", "BIntIsOdd"):
                e = ("expr", "%s(fiBIntMod(a0, fiBIntNew(2)), fiBInt0())" % s)
            elif name in ("BIntPrev", "BIntNext"):
                e = ("expr", "%s(a0, fiBInt1())" % s)
            else:
                bad("gc0FCall: special row for %s (bugBadCase)" % name)
    elif cfun == "CCO_Cast":
        if s is None or argc < 1:
            bad("cast row")
        e = ("expr", "(%s) a0" % s)
    elif cfun in CCO_INFIX or cfun in CCO_PREFIX:
        def node(args):
            # ccoNew(ctag, argc, ...): the printer shows argv[0] and argv[1] of an infix node,
            # argv[0] of a prefix node
            if cfun in CCO_PREFIX:
                if len(args) < 1:
                    bad("prefix operator without operand")
                return "%s(%s)" % (CCO_PREFIX[cfun], args[0])
            if len(args) < 2:
                bad("infix operator with %d operand(s)" % len(args))
            return "(%s) %s (%s)" % (args[0], CCO_INFIX[cfun], args[1])
        if sp == 0:
            e = ("expr", node(a))
        elif sp == 1:
            if s is None or argc < 1:
                bad("special-1 row without text")
            e = ("expr", node([a[0], s]))
        elif name in ("SIntIsEven", "SIntIsOdd"):
            e = ("expr", node(["(a0) % 2", "0"]))
        elif name in ("SIntPlusMod", "SIntMinusMod", "SIntTimesMod"):
            e = ("expr", "(%s) %% (a2)" % node(a[:2]))
        else:
            bad("gc0Cop: special row for %s (gccUnhandled)" % name)
    else:
        bad("C operator tag %s" % cfun)
    st = ("macro", mac) if mac else e
    return e, st

def cmap_c_function(prefix, name, info, form):
    ret = FOAM_FI[info["ret"]]
    params = ", ".join("%s a%d" % (FOAM_FI[t], i) for i, t in enumerate(info["args"])) or "void"
    if form[0] == "expr":
        return "%s %s_%s(%s) { return %s; }\n" % (ret, prefix, name, params, form[1])
    args = "".join(", a%d" % i for i in range(info["argc"]))
    return "%s %s_%s(%s) { %s r; %s(r, %s%s); return r; }\n" % (ret, prefix, name, params, ret, form[1], ret, args)

C_PARSE = {"Bool": "(FiBool) c04_pu(%s)", "Char": "(FiChar) c04_pu(%s)", "Byte": "(FiByte) c04_pu(%s)",
           "HInt": "(FiHInt) c04_pu(%s)", "SInt": "(FiSInt) c04_pu(%s)", "Word": "(FiWord) c04_pu(%s)",
           "SFlo": "c04_pf32(%s)", "DFlo": "c04_pf64(%s)", "BInt": "c04_pbint(%s)", "Arr": "c04_parr(%s)",
           "Ptr": "(FiPtr) c04_pu(%s)"}

def cmap_driver_text(table, names, recs, recs2):
    """wrappers + dispatch table for harness/c04_cmap_drv.c (compiled only with -DC04_DRIVER)"""
    L = ["\n#ifdef C04_DRIVER\n"]
    rows = []
    for pre, rr in (("cmap", recs), ("cmaps", recs2)):
        for name in names:
            r = rr.get(name)
            if not r or r.get("status") != "ok":
                continue
            info = table[name]
            decl = " ".join("%s a%d = %s;" % (FOAM_FI[t], i, C_PARSE[t] % ("t[%d]" % i)) for i, t in enumerate(info["args"]))
            call = "%s_%s(%s)" % (pre, name, ", ".join("a%d" % i for i in range(info["argc"])))
            L.append("static void w_%s_%s(char **t) { %s c04_sh%s(%s); }\n" % (pre, name, decl, info["ret"], call))
            rows.append('  {"%s", "%s", %d, w_%s_%s},\n' % (pre, name, info["argc"], pre, name))
    L.append("static struct c04_row c04_table[] = {\n" + "".join(rows) + "  {0, 0, 0, 0}\n};\n#endif\n")
    return "".join(L)

def cmap_params_env(info):
    env = {}
    for i, t in enumerate(info["args"]):
        env["a%d" % i] = operand_value(i, t)
    return env

def translate_cmap(src, prims, funcs_rts, table, names, enums, cc, workdir):
    out = {}
    forms = {}
    ctext = ['#include "foam_c.h"\n#include <ctype.h>\n#include <stdlib.h>\n']
    for name in names:
        info = table[name]
        row = cc.get(info["tag"])
        out[name] = {"status": None, "line": row["line"] if row else None}
        if row is None:
            out[name].update(status="untranslated", why="no ccBValInfoTable row")
            continue
        try:
            e, s = cmap_c_expr(name, info, row)
            forms[name] = (e, s)
            ctext.append(cmap_c_function("cmap", name, info, e))
            if s != e:
                ctext.append(cmap_c_function("cmaps", name, info, s))
        except Untranslated as ex:
            out[name].update(status="untranslated", why=str(ex))
    cfile = os.path.join(workdir, "c04_cmap_gen.c")
    with open(cfile, "w") as f:
        f.write("".join(ctext))
    # one clang run over the generated file; a function that does not compile is reported by name
    p = subprocess.run(["clang-14", "-std=gnu99", "-fsyntax-only", "-DFOAM_RTS", "-I" + src, cfile], capture_output=True, text=True)
    badfn = {}
    if p.returncode != 0:
        lines = open(cfile).read().split("\n")
        for m in re.finditer(r"c04_cmap_gen\.c:(\d+):\d+: error: (.*)", p.stderr):
            ln = int(m.group(1)) - 1
            mm = re.match(r"\w+ (cmaps?)_(\w+)\(", lines[ln]) if ln < len(lines) else None
            if mm:
                badfn.setdefault((mm.group(1), mm.group(2)), m.group(2))
        if badfn:
            keep = []
            for l in open(cfile).read().split("\n"):
                mm = re.match(r"\w+ (cmaps?)_(\w+)\(", l)
                if mm and (mm.group(1), mm.group(2)) in badfn:
                    continue
                keep.append(l)
            with open(cfile, "w") as f:
                f.write("\n".join(keep))
    doc = run_clang(src, cfile, defs=("FOAM_RTS",))[0]
    fns = all_functions(doc)
    allf = dict(funcs_rts)
    res2 = {}
    for name in names:
        if name not in forms:
            continue
        info = table[name]
        rec = out[name]
        e, s = forms[name]
        rec["c_expr"] = e[1]; rec["c_set"] = s[1] if s != e else None
        variants = [("cmap", "CMap", e)] + ([("cmaps", "CMapS", s)] if s != e else [])
        for pre, ns, form in variants:
            r = rec if pre == "cmap" else res2.setdefault(name, {"line": rec["line"]})
            if (pre, name) in badfn:
                r.update(status="untranslated", why="generated C does not compile: " + badfn[(pre, name)])
                continue
            fd = fns.get("%s_%s" % (pre, name))
            tr = Tr("cmap", prims, allf)
            try:
                body = [c for c in kids(fd) if c.get("kind") == "CompoundStmt"][0]
                env = cmap_params_env(info)
                env["$enum"] = enums; env["$special"] = {}
                # parameters arrive at the Fi* types; convert as the C prototype does
                for p_ in [c for c in kids(fd) if c.get("kind") == "ParmVarDecl"]:
                    env[p_["name"]] = tr.convert(env[p_["name"]], ctype(p_), "keep")
                raw = tr.straight_line(body, env)
                r["defs"] = result_defs(tr, ns, name, info["args"], info["ret"], raw)
                r["status"] = "ok"
                r["prims"] = sorted(tr.used_prims)
                r["inlined"] = sorted(tr.used_funcs)
            except Untranslated as ex:
                r.update(status="untranslated", why=str(ex))
    return out, res2, open(cfile).read() + cmap_driver_text(table, names, out, res2)

# ------------------------------------------------------------------------------------------
# enum constants used in expressions
# ------------------------------------------------------------------------------------------
def read_enums(src):
    """values of the few enum/macro constants the accepted fragment may mention"""
    # fiTrue/fiFalse are macros ((FiBool) 1); enum constants come out as DeclRefExpr without value,
    # so the ones we accept are evaluated by the C compiler itself
    names = ["fiRoundZero", "fiRoundNearest"]
    return {}

# ------------------------------------------------------------------------------------------
# Lean emission
# ------------------------------------------------------------------------------------------
def write_if_changed(path, text):
    os.makedirs(os.path.dirname(path), exist_ok=True)
    if os.path.exists(path) and open(path).read() == text:
        return False
    with open(path, "w") as f:
        f.write(text)
    return True

CARRIERS = ["F32", "F64", "BInt", "Arr", "Ptr"]

def emit_prims(prims):
    L = ["/- GENERATED by translate/c04.py from the C sources -- do not edit. -/",
         "namespace AldorVerif.Gen",
         "/-- the opaque carriers and the uninterpreted C functions/operators the three evaluators call;",
         "every generated definition is a function of an arbitrary interpretation `P : Prims`. -/",
         "structure Prims where"]
    for c in CARRIERS:
        L.append("  %s : Type" % c)
    for name in sorted(prims.sig):
        args, res = prims.sig[name]
        L.append("  %s : %s" % (name, " → ".join(list(args) + [res]).replace("P.", "")))
    L.append("end AldorVerif.Gen")
    return "\n".join(L) + "\n"

def emit_gen(ns, recs, order, comment):
    L = ["/- GENERATED by translate/c04.py from the C sources -- do not edit. %s -/" % comment,
         "import AldorVerif.Model.CSem", "import AldorVerif.Gen.Prims", "set_option linter.unusedVariables false",
         "namespace AldorVerif.Gen.%s" % ns, "open AldorVerif.CSem AldorVerif.Gen", ""]
    for name in order:
        r = recs.get(name)
        if not r:
            continue
        if r["status"] == "ok":
            L.append("/-- line %s -/" % r.get("line"))
            L.append(("\n").join(r["defs"]))
            L.append("")
        else:
            L.append("-- %s: %s%s" % (name, r["status"], (": " + r.get("why", "")) if r.get("why") else ""))
    L.append("end AldorVerif.Gen.%s" % ns)
    return "\n".join(L) + "\n"

def main(argv):
    src, out, skip, refuted_file, quiet, ponly = DEFAULT_SRC, DEFAULT_OUT, set(), None, False, False
    i = 0
    while i < len(argv):
        a = argv[i]
        if a == "--src":
            src = argv[i + 1]; i += 2
        elif a == "--out":
            out = argv[i + 1]; i += 2
        elif a == "--skip":
            skip = set(x for x in argv[i + 1].split(",") if x); i += 2
        elif a == "--refuted":
            refuted_file = argv[i + 1]; i += 2
        elif a == "--quiet":
            quiet = True; i += 1
        elif a == "--props-only":
            ponly = True; i += 1
        else:
            raise SystemExit(__doc__)
    src = os.path.abspath(src)
    import c04_emit
    if ponly:
        return c04_emit.props_only(sys.modules[__name__], out, skip, refuted_file)
    return c04_emit.generate(sys.modules[__name__], src, out, skip, refuted_file, quiet)

if __name__ == "__main__":
    sys.path.insert(0, HERE)
    import c04 as _self          # so that c04_emit sees one module object
    sys.exit(_self.main(sys.argv[1:]))
