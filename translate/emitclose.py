#!/usr/bin/env python3
"""translate/emitclose.py <src dir> [<out .lean>] [--json <file>]

C18 translator: from the clang-14 JSON AST of emit.c, lib.c, ccode.c, sexpr.c, file.c (and the
two further modules output is routed through: include.c for .ai, ostream.c for .java) list every
call of fclose/fflush/fwrite/fputs/fputc/putc/fprintf/vfprintf on an *output* stream of a
requested output file, with

  use      how the call's result is used:  discarded | ignored (IgnoreResult(E) = `if (E);`) |
           voided ((void) cast) | assigned | accumulated (cc += f(...)) | returned | tested
  ferror   whether the function that closes the stream of that output kind consults
           ferror(stream) before the close
  checked  use == tested, or (write/flush site) ferror is consulted before the close of that kind
  kind     the output kind(s) the site serves (one entry per kind)

and writes lean/AldorVerif/Gen/EmitSites.lean.

What counts as an output stream is decided by the table OUTPUT_RULES below (stream expression
per file/function), which is the only hand-written part; everything else comes from the AST."""
import json, os, re, subprocess, sys

WRITE_FUNS = {"fwrite": 3, "fputs": 1, "fputc": 1, "putc": 1, "fprintf": 0, "vfprintf": 0}
FLUSH_FUNS = {"fflush": 0}
CLOSE_FUNS = {"fclose": 0}
ALL = dict(WRITE_FUNS); ALL.update(FLUSH_FUNS); ALL.update(CLOSE_FUNS)

SEXPR_KINDS = ["ap", "ax", "asy", "abn", "fm", "lsp"]
# file -> list of (function-name regex, stream-expression regex, kinds or None = by function)
OUTPUT_RULES = {
    "emit.c": [(r"^emitThe|^emitOneJavaFile$", r"^(fout|hout)$", None)],
    "lib.c": [(r"^(libClose|libPutHeader|libPutSection)$", r"^lib->file$", ["ao"])],
    "ccode.c": [(r".*", r"^ccoPrFile$", ["c"])],
    "sexpr.c": [(r".*", r"^outf$", SEXPR_KINDS)],
    "include.c": [(r"^inclWrite$", r"^file$", ["ai"])],
    "ostream.c": [(r"^ostreamFile", r"^file$", ["java"])],
    "file.c": [],      # scanned: holds no call on an output stream (fileMustOpen only opens)
}
EMIT_FUN_KIND = {"emitTheIncluded": ["ai"], "emitTheAbSyn": ["ap"], "emitTheOldAbSyn": ["ax"],
                 "emitTheSymbolExpr": ["asy"], "emitTheAnnotatedAbSyn": ["abn"], "emitTheFoamExpr": ["fm"],
                 "emitTheLisp": ["lsp"], "emitTheC": ["c"], "emitOneJavaFile": ["java"]}
# the function whose fclose ends the output of a kind (where a ferror consult would have to be)
CLOSER = {"ai": ("emit.c", "emitTheIncluded"), "ap": ("emit.c", "emitTheAbSyn"), "ax": ("emit.c", "emitTheOldAbSyn"),
          "asy": ("emit.c", "emitTheSymbolExpr"), "abn": ("emit.c", "emitTheAnnotatedAbSyn"),
          "fm": ("emit.c", "emitTheFoamExpr"), "lsp": ("emit.c", "emitTheLisp"), "c": ("emit.c", "emitTheC"),
          "java": ("emit.c", "emitOneJavaFile"), "ao": ("lib.c", "libClose")}
FILES = ["emit.c", "lib.c", "ccode.c", "sexpr.c", "file.c", "include.c", "ostream.c"]

def ast_of(src, f):
    p = subprocess.run(["clang-14", "-fsyntax-only", "-w", "-Xclang", "-ast-dump=json", "-I" + src,
                        "-DHAVE_CONFIG_H", os.path.join(src, f)], capture_output=True, text=True)
    if not p.stdout.strip():
        raise RuntimeError("clang-14 produced no AST for %s: %s" % (f, p.stderr[-2000:]))
    return json.loads(p.stdout)

def loc_offset(loc):
    if not loc: return None
    if "expansionLoc" in loc: loc = loc["expansionLoc"]
    return loc.get("offset")

def in_main_file(loc, state):
    """clang prints "file" only when it changes; follow it"""
    for l in (loc.get("spellingLoc"), loc.get("expansionLoc"), loc):
        if l and "file" in l:
            state["file"] = l["file"]
    return state["file"]

def strip(n):
    while n and n.get("kind") in ("ParenExpr", "ImplicitCastExpr") and n.get("inner"):
        n = n["inner"][0]
    return n

def expr_text(n):
    n = strip(n)
    if not n: return "?"
    k = n.get("kind")
    if k == "DeclRefExpr": return n["referencedDecl"]["name"]
    if k == "MemberExpr":
        return expr_text(n["inner"][0]) + ("->" if n.get("isArrow") else ".") + n.get("name", "?")
    if k == "CStyleCastExpr": return expr_text(n["inner"][0])
    if k == "CallExpr": return expr_text(n["inner"][0]) + "(...)"
    if k == "UnaryOperator": return n.get("opcode", "") + expr_text(n["inner"][0])
    return k or "?"

def callee_name(call):
    c = strip(call["inner"][0]) if call.get("inner") else None
    if c and c.get("kind") == "DeclRefExpr":
        return c["referencedDecl"]["name"]
    return None

def is_void_cast(n):
    return n.get("kind") == "CStyleCastExpr" and n.get("type", {}).get("qualType") == "void"

def use_of(path):
    """path: list of (node, index of child we came from) from the function body down to the call's parent"""
    i = len(path) - 1
    while i >= 0:
        node, ci = path[i]
        k = node.get("kind")
        if k in ("ParenExpr", "ImplicitCastExpr"):
            i -= 1; continue
        if is_void_cast(node): return "voided"
        if k == "CompoundStmt": return "discarded"
        if k == "IfStmt":
            inner = node.get("inner", [])
            if ci == 0:
                then = inner[1] if len(inner) > 1 else {}
                if then.get("kind") == "NullStmt" and len(inner) == 2: return "ignored"
                return "tested"
            return "discarded"
        if k in ("WhileStmt",): return "tested" if ci == 0 else "discarded"
        if k == "DoStmt": return "tested" if ci == 1 else "discarded"
        if k == "ForStmt": return "tested" if ci == 2 else "discarded"
        if k in ("SwitchStmt",): return "tested" if ci == 0 else "discarded"
        if k in ("CaseStmt", "DefaultStmt", "LabelStmt"): return "discarded"
        if k == "ReturnStmt": return "returned"
        if k == "CompoundAssignOperator": return "accumulated"
        if k == "VarDecl": return "assigned"
        if k == "ConditionalOperator": return "tested" if ci == 0 else "assigned"
        if k == "UnaryOperator": return "tested" if node.get("opcode") == "!" else "assigned"
        if k == "BinaryOperator":
            op = node.get("opcode")
            if op in ("==", "!=", "<", ">", "<=", ">=", "&&", "||"): return "tested"
            if op == ",":
                if ci == 0: return "discarded"
                i -= 1; continue
            if op == "=": return "assigned"
            return "accumulated"
        if k == "CallExpr": return "assigned"       # passed on as an argument
        return "assigned"
    return "discarded"

def walk_calls(node, path, out):
    kids = node.get("inner", []) or []
    if node.get("kind") == "CallExpr":
        out.append((node, list(path)))
    for ci, ch in enumerate(kids):
        if isinstance(ch, dict) and ch:
            path.append((node, ci))
            walk_calls(ch, path, out)
            path.pop()

def line_of(offsets, off):
    import bisect
    return bisect.bisect_right(offsets, off)

def scan_file(src, f):
    text = open(os.path.join(src, f), "rb").read()
    starts = [0] + [m.end() for m in re.finditer(rb"\n", text)]
    ast = ast_of(src, f)
    state = {"file": None}
    sites, ferror_funs = [], {}
    main = os.path.join(src, f)
    # closing helpers: a function (not itself an output writer) that passes one of its FILE* parameters to
    # fclose; a call of it from an output writer is a close site whose `use` is that of the helper's fclose,
    # and a ferror(parameter) consult in the helper counts for the caller
    helpers = {}
    st0 = {"file": None}
    for d in ast.get("inner", []):
        cur = in_main_file(d.get("loc", {}), st0)
        if d.get("kind") != "FunctionDecl" or not cur or os.path.basename(cur) != f: continue
        body = [c for c in d.get("inner", []) if c.get("kind") == "CompoundStmt"]
        params = [c.get("name") for c in d.get("inner", []) if c.get("kind") == "ParmVarDecl"
                  and "FILE" in c.get("type", {}).get("qualType", "")]
        if not body or not params: continue
        if any(re.search(fre, d["name"]) for (fre, _, _) in OUTPUT_RULES.get(f, [])): continue
        calls = []
        walk_calls(body[0], [], calls)
        for call, path in calls:
            cn = callee_name(call)
            if cn == "fclose" and len(call["inner"]) > 1 and expr_text(call["inner"][1]) in params:
                pi = [c.get("name") for c in d.get("inner", []) if c.get("kind") == "ParmVarDecl"].index(expr_text(call["inner"][1]))
                helpers[d["name"]] = {"param": pi, "use": use_of(path),
                                      "ferror": any(callee_name(c2) == "ferror" and len(c2["inner"]) > 1 and
                                                    expr_text(c2["inner"][1]) == expr_text(call["inner"][1])
                                                    for c2, _ in calls)}
    for d in ast.get("inner", []):
        cur = in_main_file(d.get("loc", {}), state)
        if d.get("kind") != "FunctionDecl": continue
        body = [c for c in d.get("inner", []) if c.get("kind") == "CompoundStmt"]
        if not body: continue
        if not cur or os.path.basename(cur) != f: continue
        fname = d["name"]
        calls = []
        walk_calls(body[0], [], calls)
        ordinal = {}
        for call, path in calls:
            cn = callee_name(call)
            if cn == "ferror":
                ferror_funs.setdefault(fname, []).append(expr_text(call["inner"][1]) if len(call["inner"]) > 1 else "?")
                continue
            args = call["inner"][1:]
            if cn in helpers:
                hp = helpers[cn]
                stream = expr_text(args[hp["param"]]) if hp["param"] < len(args) else "?"
                kinds = None
                for (fre, sre, ks) in OUTPUT_RULES.get(f, []):
                    if re.search(fre, fname) and re.search(sre, stream):
                        kinds = ks if ks is not None else EMIT_FUN_KIND.get(fname, ["other:" + fname])
                        break
                if kinds is None: continue
                off = loc_offset(call.get("range", {}).get("begin"))
                ordinal[cn] = ordinal.get(cn, 0) + 1
                sites.append({"file": f, "func": fname, "line": line_of(starts, off) if off is not None else 0,
                              "callee": cn, "op": "close", "stream": stream, "use": hp["use"], "kinds": kinds,
                              "ord": ordinal[cn]})
                if hp["ferror"]:
                    ferror_funs.setdefault(fname, []).append(stream)
                continue
            if f == "emit.c" and cn == "libClose" and fname.startswith("emitThe"):
                # the .ao is written through lib.c; libClose flushes the header and closes the stream
                off = loc_offset(call.get("range", {}).get("begin"))
                ordinal[cn] = ordinal.get(cn, 0) + 1
                sites.append({"file": f, "func": fname, "line": line_of(starts, off) if off is not None else 0,
                              "callee": cn, "op": "close", "stream": expr_text(args[0]) if args else "?",
                              "use": use_of(path), "kinds": ["ao"], "ord": ordinal[cn]})
                continue
            if cn not in ALL: continue
            ai = ALL[cn]
            stream = expr_text(args[ai]) if ai < len(args) else "?"
            kinds = None
            for (fre, sre, ks) in OUTPUT_RULES.get(f, []):
                if re.search(fre, fname) and re.search(sre, stream):
                    kinds = ks if ks is not None else EMIT_FUN_KIND.get(fname, ["other:" + fname])
                    break
            if kinds is None: continue
            off = loc_offset(call.get("range", {}).get("begin"))
            ln = line_of(starts, off) if off is not None else 0
            op = "close" if cn in CLOSE_FUNS else "flush" if cn in FLUSH_FUNS else "write"
            ordinal[(cn)] = ordinal.get(cn, 0) + 1
            sites.append({"file": f, "func": fname, "line": ln, "callee": cn, "op": op, "stream": stream,
                          "use": use_of(path), "kinds": kinds, "ord": ordinal[cn]})
    return sites, ferror_funs

def generate(src):
    sites, ferr = [], {}
    for f in FILES:
        s, fe = scan_file(src, f)
        sites += s
        for k, v in fe.items(): ferr[(f, k)] = v
    rows = []
    for s in sites:
        for k in s["kinds"]:
            closer = CLOSER.get(k)
            fa = bool(closer and closer in ferr)
            checked = s["use"] == "tested" or (s["op"] != "close" and fa)
            rows.append(dict(s, kind=k, ferror=fa, checked=checked))
    rows.sort(key=lambda r: (r["kind"], FILES.index(r["file"]), r["line"], r["callee"]))
    return rows

def lean_of(rows, src):
    L = []
    L.append("/-! GENERATED by translate/emitclose.py from the clang-14 AST of %s — do not edit.\n" % ", ".join(FILES))
    L.append("Every call of fclose/fflush/fwrite/fputs/fputc/putc/fprintf/vfprintf on the output stream of a")
    L.append("requested output file.  `checked`: the result is tested, or (write/flush) `ferror` is consulted")
    L.append("by the function that closes that output. -/")
    L.append("namespace AldorVerif.Gen.EmitSites\n")
    L.append("inductive Op | write | flush | close\nderiving Repr, DecidableEq\n")
    L.append("structure Site where\n  file : String\n  func : String\n  line : Nat\n  callee : String\n  op : Op\n"
             "  use : String\n  checked : Bool\n  kind : String\nderiving Repr, DecidableEq\n")
    L.append("def sites : List Site := [")
    for i, r in enumerate(rows):
        L.append('  ⟨"%s", "%s", %d, "%s", .%s, "%s", %s, "%s"⟩%s' % (
            r["file"], r["func"], r["line"], r["callee"], r["op"], r["use"], "true" if r["checked"] else "false",
            r["kind"], "," if i + 1 < len(rows) else ""))
    L.append("]\n")
    kinds = sorted({r["kind"] for r in rows})
    L.append("def kinds : List String := [%s]\n" % ", ".join('"%s"' % k for k in kinds))
    L.append("end AldorVerif.Gen.EmitSites")
    return "\n".join(L) + "\n"

def keys(rows):
    """identity of the sites that does not move with unrelated edits (no line numbers)"""
    return sorted((r["kind"], r["file"], r["func"], r["callee"], r["ord"], r["op"], r["use"], r["checked"]) for r in rows)

def main(argv):
    if len(argv) < 2:
        print(__doc__); return 2
    src = argv[1]
    rows = generate(src)
    out = None; js = None
    rest = argv[2:]
    while rest:
        a = rest.pop(0)
        if a == "--json": js = rest.pop(0)
        else: out = a
    text = lean_of(rows, src)
    if out:
        os.makedirs(os.path.dirname(os.path.abspath(out)), exist_ok=True)
        open(out, "w").write(text)
    else:
        sys.stdout.write(text)
    if js:
        json.dump(rows, open(js, "w"), indent=1)
    return 0

if __name__ == "__main__":
    sys.exit(main(sys.argv))
