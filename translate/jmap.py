#!/usr/bin/env python3
"""translate/jmap.py <aldor-src-dir> [out.lean]

Reads, from the tree's current sources,
  * java/genjava.c   gjBValInfoTable (one row per FOAM builtin: how the Java back end emits it),
                     gj0TypeFrFmt (FOAM type -> Java type)
  * java/javacode.c  JcOpInfoTable (JCO_OP_x -> class or builder), the class table (operator text),
                     the builders jcOpNot / jcOpNegate / jcOpTimesPlus
  * foam.c           foamBValInfoTable (argument and result types of every builtin)
  * ../lib/java/src/foamj/{Math,Foam}.java   static methods; the integer/boolean ones whose body is
                     `T x = e; ... return e;` are read by a small Java-expression reader
and writes lean/AldorVerif/Gen/JMap.lean: one Lean function per translatable row over
BitVec 32/64/16/8 and Bool (Java semantics from Model/JSem.lean), the raw table, the list of rows
that are not translated (with the reason - never guessed), and an evaluator used by the driver.
The output file is rewritten only when its text changes.

Also importable: `load(src)` returns the parsed structures (used by checks/parts/jmap.py to write
the Java probe class from the same rows)."""
import os, re, sys

# ----------------------------------------------------------------------------- C side

def strip_c(text):
    """remove comments and `#if 0` ... `#endif` regions"""
    text = re.sub(r"/\*.*?\*/", lambda m: " " * 0 + "\n" * m.group(0).count("\n"), text, flags=re.S)
    text = re.sub(r"//[^\n]*", "", text)
    out, depth0, stack = [], 0, []
    for line in text.split("\n"):
        s = line.strip()
        if s.startswith("#if"):
            dead = bool(re.match(r"#if\s+0\b", s))
            stack.append(dead)
            continue_ = True
        elif s.startswith("#endif"):
            if stack: stack.pop()
            continue_ = True
        elif s.startswith("#else") or s.startswith("#elif"):
            if stack and stack[-1] is True: stack[-1] = False
            elif stack: stack[-1] = "else"
            continue_ = True
        else:
            continue_ = False
        if continue_:
            out.append("")
            continue
        if any(d is True for d in stack):
            out.append("")
        else:
            out.append(line)
    return "\n".join(out)

def table_body(text, decl_re):
    m = re.search(decl_re + r"\s*=\s*\{", text)
    if not m:
        raise RuntimeError("jmap: table %s not found in the source" % decl_re)
    i = m.end()
    depth = 1
    j = i
    while depth:
        c = text[j]
        if c == "{": depth += 1
        elif c == "}": depth -= 1
        elif c == '"':
            j += 1
            while text[j] != '"':
                if text[j] == "\\": j += 1
                j += 1
        j += 1
    return text[i:j - 1]

def split_rows(body):
    """top-level `{...}` groups of an initializer list"""
    rows, depth, start = [], 0, None
    j = 0
    while j < len(body):
        c = body[j]
        if c == '"':
            j += 1
            while body[j] != '"':
                if body[j] == "\\": j += 1
                j += 1
        elif c == "{":
            if depth == 0: start = j + 1
            depth += 1
        elif c == "}":
            depth -= 1
            if depth == 0: rows.append(body[start:j])
        j += 1
    return rows

def split_fields(row):
    fs, depth, cur = [], 0, ""
    j = 0
    while j < len(row):
        c = row[j]
        if c == '"':
            k = j + 1
            while row[k] != '"':
                if row[k] == "\\": k += 1
                k += 1
            cur += row[j:k + 1]; j = k + 1; continue
        if c == "{": depth += 1
        if c == "}": depth -= 1
        if c == "," and depth == 0:
            fs.append(cur.strip()); cur = ""
        else:
            cur += c
        j += 1
    if cur.strip(): fs.append(cur.strip())
    return fs

def unq(s):
    s = s.strip()
    if s in ("0", "NULL", ""): return None
    if s.startswith('"') and s.endswith('"'):
        return bytes(s[1:-1], "utf-8").decode("unicode_escape")
    return s

def parse_gj_table(gtxt):
    rows = []
    for r in split_rows(table_body(gtxt, r"struct\s+gjBVal_info\s+gjBValInfoTable\s*\[\s*\]")):
        f = split_fields(r)
        f += ["0"] * (5 - len(f))
        rows.append({"tag": f[0], "name": f[0].replace("FOAM_BVal_", ""), "method": f[1],
                     "op": None if f[2] == "0" else f[2], "c1": unq(f[3]), "c2": unq(f[4]),
                     "text": "{" + re.sub(r"\s+", " ", r.strip()) + "}"})
    return rows

def parse_type_map(gtxt):
    m = re.search(r"\ngj0TypeFrFmt\s*\([^)]*\)\s*\{(.*?)\n\}", gtxt, re.S)
    tm = {}
    if m:
        for mm in re.finditer(r"case\s+(FOAM_\w+)\s*:\s*return\s+jcKeyword\s*\(\s*symInternConst\s*\(\s*\"(\w+)\"", m.group(1)):
            tm[mm.group(1)] = mm.group(2)
    return tm

def parse_foam_sigs(ftxt):
    sigs = {}
    for r in split_rows(table_body(ftxt, r"struct\s+foamBVal_info\s+foamBValInfoTable\s*\[\s*\]")):
        f = split_fields(r)
        if len(f) < 7: continue
        argc = int(f[4]) if f[4].isdigit() else 0
        args = [a.strip() for a in f[5].strip("{} \n\t").split(",") if a.strip()]
        args = [a for a in args if a != "0"][:argc]
        if len(args) != argc:
            args = None
        sigs[f[0]] = {"args": args, "ret": f[6].strip(), "nret": f[7].strip() if len(f) > 7 else "1"}
    return sigs

def parse_javacode(jtxt):
    ops = {}
    for r in split_rows(table_body(jtxt, r"struct\s+jcOpInfo\s+JcOpInfoTable\s*\[\s*\]")):
        f = split_fields(r)
        f += ["0"] * (3 - len(f))
        ops[f[0]] = {"builder": None if f[1] == "0" else f[1], "cls": None if f[2] == "0" else f[2]}
    cls = {}
    # the class table: rows { JCO_CLSS_x, printer, sexpr, "name", "text", prec, assoc }
    for m in re.finditer(r"\{\s*(JCO_CLSS_\w+)\s*,\s*(\w+)\s*,\s*\w+\s*,\s*\"([^\"]*)\"\s*,\s*\"([^\"]*)\"", jtxt):
        cls[m.group(1)] = {"printer": m.group(2), "text": m.group(4).strip()}
    def fn_body(name):
        m = re.search(r"\n" + name + r"\s*\([^)]*\)\s*\{(.*?)\n\}", jtxt, re.S)
        return m.group(1) if m else None
    builders = {}
    for op, inf in ops.items():
        b = inf["builder"]
        if not b: continue
        body = fn_body(b)
        builders[b] = None
        if body is None: continue
        # variables bound to car / cadr / caddr of the argument list
        names = {}
        for m in re.finditer(r"(\w+)\s*=\s*(car\s*\(\s*cdr\s*\(\s*cdr\s*\(\s*\w+\s*\)\s*\)\s*\)|car\s*\(\s*cdr\s*\(\s*\w+\s*\)\s*\)|car\s*\(\s*\w+\s*\))", body):
            names[m.group(1)] = m.group(2).count("cdr")
        m = re.search(r"return\s+(.*?);", body, re.S)
        if not m: continue
        builders[b] = parse_builder_expr(re.sub(r"\s+", "", m.group(1)), names, jtxt)
    return ops, cls, builders

def parse_builder_expr(s, names, jtxt):
    """jcBinaryOp(jc0ClassObj(C),X,Y) | jcNot(X) | jcNegate(X) | var | car(l)…  ->  tree"""
    def unary_cls(fn):
        m = re.search(r"\n" + fn + r"\s*\([^)]*\)\s*\{[^}]*?jc0ClassObj\s*\(\s*(JCO_CLSS_\w+)\s*\)\s*,\s*1\s*,", jtxt, re.S)
        return m.group(1) if m else None
    def args_of(t):
        # t = "f(a,b,c)" -> name, [args]
        i = t.index("(")
        name = t[:i]; inner = t[i + 1:-1]
        out, d, cur = [], 0, ""
        for ch in inner:
            if ch == "(": d += 1
            if ch == ")": d -= 1
            if ch == "," and d == 0: out.append(cur); cur = ""
            else: cur += ch
        out.append(cur)
        return name, out
    def go(t):
        if t in names: return ("arg", names[t])
        if re.fullmatch(r"car\(cdr\(cdr\(\w+\)\)\)", t): return ("arg", 2)
        if re.fullmatch(r"car\(cdr\(\w+\)\)", t): return ("arg", 1)
        if re.fullmatch(r"car\(\w+\)", t): return ("arg", 0)
        if "(" not in t: return None
        name, a = args_of(t)
        if name == "jcBinaryOp" and len(a) == 3:
            m = re.fullmatch(r"jc0ClassObj\((JCO_CLSS_\w+)\)", a[0])
            l, r = go(a[1]), go(a[2])
            if m and l and r: return ("bin", m.group(1), l, r)
            return None
        if len(a) == 1:
            c = unary_cls(name)
            x = go(a[0])
            if c and x: return ("un", c, x)
        return None
    return go(s)

def parse_printer(jtxt, ops):
    """the binary operators of JcOpInfoTable with the text, precedence and associativity of their class, and
    whether jcBinOpPrint / jc0PrintWithParens / jc0NeedsParens are the rule modelled in Model/JPrint.lean"""
    rows = {}
    for m in re.finditer(r"\{\s*(JCO_CLSS_\w+)\s*,\s*(\w+)\s*,\s*\w+\s*,\s*\"([^\"]*)\"\s*,\s*\"([^\"]*)\"\s*,\s*(\d+)\s*,\s*(JCO_\w+)\s*\}", jtxt):
        rows[m.group(1)] = {"printer": m.group(2), "txt": m.group(4).strip(), "prec": int(m.group(5)), "assoc": m.group(6)}
    binops = []
    for op, inf in ops.items():
        c = rows.get(inf["cls"]) if inf["cls"] else None
        if c and c["printer"] == "jcBinOpPrint" and op != "JCO_OP_Assign":
            binops.append({"name": op.replace("JCO_OP_", ""), "txt": c["txt"], "prec": c["prec"], "lr": c["assoc"] == "JCO_LR"})
    def body(fn):
        m = re.search(r"\n" + fn + r"\s*\([^)]*\)\s*\{(.*?)\n\}", jtxt, re.S)
        return re.sub(r"\s+", "", m.group(1)) if m else ""
    b = body("jcBinOpPrint"); w = body("jc0PrintWithParens"); n = body("jc0NeedsParens")
    std_b = ("JavaCodeClassthisClss=jcoClass(code);JavaCodelhs=jcoArgv(code)[0];JavaCoderhs=jcoArgv(code)[1];"
             "JavaCodeClasslClss=jcoClass(lhs);JavaCodeClassrClss=jcoClass(rhs);"
             "Boollpar=thisClss->assoc==JCO_RL&&lClss->prec==thisClss->prec;"
             "Boolrpar=thisClss->assoc==JCO_LR&&rClss->prec==thisClss->prec;"
             "if(lpar)jcoPContextWrite(ctxt,\"(\");jc0PrintWithParens(ctxt,thisClss,lhs);if(lpar)jcoPContextWrite(ctxt,\")\");"
             "jcoPContextWrite(ctxt,thisClss->txt);"
             "if(rpar)jcoPContextWrite(ctxt,\"(\");jc0PrintWithParens(ctxt,thisClss,rhs);if(rpar)jcoPContextWrite(ctxt,\")\");")
    std_w = ("JavaCodeClassaClss=jcoClass(arg);if(jc0NeedsParens(oClss,aClss)){jcoPContextWrite(ctxt,\"(\");jcoWrite(ctxt,arg);"
             "jcoPContextWrite(ctxt,\")\");}else{jcoWrite(ctxt,arg);}")
    std_n = "if(c2->prec==0)returnfalse;returnc1->prec>c2->prec;"
    why = [f for f, got, want in (("jcBinOpPrint", b, std_b), ("jc0PrintWithParens", w, std_w), ("jc0NeedsParens", n, std_n)) if got != want]
    return {"binops": binops, "standard": not why, "why": why}

def parse_bint_literal(gtxt, jtxt):
    """gj0BInt: when is a big-integer constant emitted as `BigInteger.valueOf(<int literal>)` (else as
    `new BigInteger("<decimal>")`), and with which printf format does jcLiteralInteger print the number"""
    out = {"ok": False}
    m = re.search(r"\ngj0BInt\s*\([^)]*\)\s*\{(.*?)\n\}", gtxt, re.S)
    if not m:
        out["reason"] = "gj0BInt not found"; return out
    body = m.group(1)
    c = re.search(r"if\s*\(\s*bintLength\s*\(\s*val\s*\)\s*(<=|<)\s*(\d+)\s*&&\s*bintIsSmall\s*\(\s*val\s*\)\s*\)", body)
    if not c:
        out["reason"] = "switch-over condition of gj0BInt not of the form `bintLength(val) < N && bintIsSmall(val)`"; return out
    after = body[c.end():]
    if not re.search(r"jcId\s*\(\s*strCopy\s*\(\s*\"valueOf\"\s*\)\s*\)\s*,\s*1\s*,\s*jcLiteralInteger\s*\(\s*smallval\s*\)", after) \
       or not re.search(r"jcLiteralString\s*\(\s*bintToString\s*\(\s*val\s*\)\s*\)", after) \
       or not re.search(r"long\s+smallval\s*=\s*bintSmall\s*\(\s*val\s*\)", after):
        out["reason"] = "the two emitted forms of gj0BInt are not valueOf(jcLiteralInteger(smallval)) / new BigInteger(bintToString(val))"; return out
    f = re.search(r"\njcLiteralInteger\s*\([^)]*\)\s*\{[^}]*?strPrintf\s*\(\s*\"([^\"]*)\"\s*,\s*i\s*\)", jtxt, re.S)
    if not f or f.group(1) not in ("%d", "%ld"):
        out["reason"] = "jcLiteralInteger's format is not %d / %ld"; return out
    zero = bool(re.search(r"if\s*\(\s*bintIsZero\s*\(\s*val\s*\)\s*\)\s*return[^;]*\"ZERO\"", body, re.S))
    one = bool(re.search(r"if\s*\(\s*smallval\s*==\s*1\s*\)\s*\{?\s*return[^;]*\"ONE\"", after, re.S))
    out.update(ok=True, strict=(c.group(1) == "<"), bound=int(c.group(2)), fmt=f.group(1), zero=zero, one=one,
               text=re.sub(r"\s+", " ", c.group(0)))
    return out

# ----------------------------------------------------------------------------- Java side

PRIM = ("boolean", "byte", "short", "char", "int", "long")
LEAN_T = {"boolean": "Bool", "byte": "BitVec 8", "short": "BitVec 16", "char": "BitVec 16",
          "int": "BitVec 32", "long": "BitVec 64"}
WIDTH = {"byte": 8, "short": 16, "char": 16, "int": 32, "long": 64}
JCONST = {  # java.lang constants (JLS / API specification)
    "Integer.MAX_VALUE": ("int", 2**31 - 1), "Integer.MIN_VALUE": ("int", 2**31),
    "Short.MAX_VALUE": ("short", 2**15 - 1), "Short.MIN_VALUE": ("short", 2**15),
    "Byte.MAX_VALUE": ("byte", 127), "Byte.MIN_VALUE": ("byte", 128),
    "Character.MAX_VALUE": ("char", 0xFFFF), "Character.MIN_VALUE": ("char", 0),
    "Long.MAX_VALUE": ("long", 2**63 - 1), "Long.MIN_VALUE": ("long", 2**63),
}

class Untranslatable(Exception):
    pass

def strip_java(text):
    text = re.sub(r"/\*.*?\*/", "", text, flags=re.S)
    return re.sub(r"//[^\n]*", "", text)

def parse_java_methods(text, cls):
    """static methods of a class: name, [(type, name)], return type, body text"""
    text = strip_java(text)
    ms = []
    for m in re.finditer(r"(?:public|private|protected)\s+static\s+(?:final\s+)?(?:<[^>]*>\s*)?([\w.<>\[\]]+)\s+(\w+)\s*\(([^)]*)\)\s*(?:throws\s+[\w., ]+)?\s*\{", text):
        i = m.end(); d = 1; j = i
        while d:
            c = text[j]
            if c == '"':
                j += 1
                while text[j] != '"':
                    if text[j] == "\\": j += 1
                    j += 1
            elif c == "'":
                j += 1
                while text[j] != "'":
                    if text[j] == "\\": j += 1
                    j += 1
            elif c == "{": d += 1
            elif c == "}": d -= 1
            j += 1
        params = []
        for p in [p.strip() for p in m.group(3).split(",") if p.strip()]:
            parts = p.split()
            params.append((" ".join(parts[:-1]).replace("final ", ""), parts[-1]))
        ms.append({"cls": cls, "name": m.group(2), "ret": m.group(1), "params": params,
                   "body": text[i:j - 1].strip()})
    return ms

TOK = re.compile(r"\s*(0[xX][0-9a-fA-F_]+[lL]?|\d[\d_]*[lL]?|[A-Za-z_][\w.]*|>>>|<<|>>|<=|>=|==|!=|&&|\|\||[-+*/%&|^~!<>?:(),;=.\[\]'\"{}])")

def tokenize(s):
    out, i = [], 0
    s = s.strip()
    while i < len(s):
        m = TOK.match(s, i)
        if not m:
            raise Untranslatable("cannot tokenize %r" % s[i:i + 20])
        out.append(m.group(1)); i = m.end()
    return out

class P:
    """Java expression reader: ?: || && | ^ & ==/!= relational shift additive multiplicative
    unary (- + ~ ! and casts to primitive types) primary (literal, name, parenthesised)"""
    def __init__(self, toks): self.t = toks; self.i = 0
    def peek(self): return self.t[self.i] if self.i < len(self.t) else None
    def next(self):
        x = self.peek(); self.i += 1; return x
    def expect(self, x):
        if self.next() != x: raise Untranslatable("expected %s" % x)
    def expr(self):
        c = self.binary(0)
        if self.peek() == "?":
            self.next(); a = self.expr(); self.expect(":"); b = self.expr()
            return ("cond", c, a, b)
        return c
    LEVELS = [["||"], ["&&"], ["|"], ["^"], ["&"], ["==", "!="], ["<", "<=", ">", ">="],
              ["<<", ">>", ">>>"], ["+", "-"], ["*", "/", "%"]]
    def binary(self, lvl):
        if lvl == len(self.LEVELS): return self.unary()
        l = self.binary(lvl + 1)
        while self.peek() in self.LEVELS[lvl]:
            op = self.next(); r = self.binary(lvl + 1); l = ("bin", op, l, r)
        return l
    def unary(self):
        t = self.peek()
        if t in ("-", "+", "~", "!"):
            self.next(); return ("un", t, self.unary())
        if t == "(" and self.i + 2 < len(self.t) and self.t[self.i + 1] in PRIM and self.t[self.i + 2] == ")":
            self.i += 3; return ("cast", self.t[self.i - 2], self.unary())
        return self.primary()
    def primary(self):
        t = self.next()
        if t is None: raise Untranslatable("unexpected end")
        if t == "(":
            e = self.expr(); self.expect(")"); return e
        if t in ("true", "false"): return ("lit", "boolean", t == "true")
        if re.fullmatch(r"0[xX][0-9a-fA-F_]+[lL]?|\d[\d_]*[lL]?", t):
            lng = t[-1] in "lL"
            s = t.rstrip("lL").replace("_", "")
            v = int(s, 16) if s[:2].lower() == "0x" else (int(s, 8) if len(s) > 1 and s[0] == "0" else int(s))
            hexy = s[:2].lower() == "0x" or (len(s) > 1 and s[0] == "0")
            w = 64 if lng else 32
            if v >= 2**w or (not hexy and v > 2**(w - 1)):
                raise Untranslatable("literal out of range: " + t)
            return ("lit", "long" if lng else "int", v)
        if re.fullmatch(r"[A-Za-z_][\w.]*", t):
            if self.peek() == "(":
                raise Untranslatable("method call " + t + "(...)")
            if self.peek() in ("[", "."):
                raise Untranslatable("member/array access")
            if t in JCONST: return ("const", t)
            if "." in t: raise Untranslatable("qualified name " + t)
            if t in ("null", "new", "this"): raise Untranslatable("object expression " + t)
            return ("var", t)
        raise Untranslatable("unexpected token " + t)

def parse_java_expr(s):
    p = P(tokenize(s))
    e = p.expr()
    if p.peek() is not None:
        raise Untranslatable("trailing tokens after expression: %s" % " ".join(p.t[p.i:]))
    return e

def lit(ty, v):
    if ty == "boolean": return "true" if v else "false"
    return "(%d#%d)" % (v % 2**WIDTH[ty], WIDTH[ty])

def widen(x, frm, to):
    """widening primitive conversion / numeric promotion"""
    if frm == to: return x
    if to == "int":
        if frm == "byte": return "(JSem.b2i %s)" % x
        if frm == "short": return "(JSem.s2i %s)" % x
        if frm == "char": return "(JSem.c2i %s)" % x
    if to == "long" and frm in ("byte", "short", "char", "int"):
        return "(JSem.i2l %s)" % widen(x, frm, "int")
    if to == "short" and frm == "byte":
        return "(JSem.i2s (JSem.b2i %s))" % x
    raise Untranslatable("no widening conversion %s -> %s" % (frm, to))

WIDENS = {"byte": ("short", "int", "long"), "short": ("int", "long"), "char": ("int", "long"), "int": ("long",)}

def assignable(x, frm, to):
    if frm == to: return x
    if to in WIDENS.get(frm, ()): return widen(x, frm, to)
    raise Untranslatable("no assignment conversion %s -> %s" % (frm, to))

def cast(x, frm, to):
    if frm == "boolean" or to == "boolean":
        if frm == to: return x
        raise Untranslatable("boolean cast")
    if frm == to: return x
    if to == "long": return widen(x, frm, "long")
    # bring to int first
    xi = "(JSem.l2i %s)" % x if frm == "long" else widen(x, frm, "int")
    if to == "int": return xi
    return "(JSem.i2%s %s)" % ({"byte": "b", "short": "s", "char": "c"}[to], xi)

class Tr:
    """typed translation of the expression tree to Lean text.  `throws` is set when the expression
    contains `/` or `%`; the caller then wraps the definition in the Option monad."""
    def __init__(self, env): self.env = dict(env); self.throws = False
    def sub(self, e):
        """translate in a fresh `do` block (used where evaluation is conditional)"""
        t = Tr(self.env); x, ty = t.tr(e)
        return x, ty, t.throws
    def tr(self, e):
        k = e[0]
        if k == "lit": return lit(e[1], e[2]), e[1]
        if k == "const":
            ty, v = JCONST[e[1]]; return lit(ty, v), ty
        if k == "var":
            if e[1] not in self.env: raise Untranslatable("unknown name " + e[1])
            return e[1] if self.env[e[1]] in PRIM else self._bad(e[1]), self.env[e[1]]
        if k == "cast":
            x, ty = self.tr(e[2]); return cast(x, ty, e[1]), e[1]
        if k == "un":
            x, ty = self.tr(e[2])
            if e[1] == "!":
                if ty != "boolean": raise Untranslatable("! on " + ty)
                return "(JSem.lnot %s)" % x, "boolean"
            if ty == "boolean": raise Untranslatable("%s on boolean" % e[1])
            pt = "long" if ty == "long" else "int"
            x = widen(x, ty, pt)
            if e[1] == "+": return x, pt
            return "(JSem.%s %s)" % ({"-": "neg", "~": "bnot"}[e[1]], x), pt
        if k == "cond":
            c, ct = self.tr(e[1])
            if ct != "boolean": raise Untranslatable("?: condition not boolean")
            a, at, ath = self.sub(e[2]); b, bt, bth = self.sub(e[3])
            if at != bt:
                if "boolean" in (at, bt): raise Untranslatable("?: branches of different kinds")
                rt = "long" if "long" in (at, bt) else "int"
                a, b = widen(a, at, rt), widen(b, bt, rt)
            else:
                rt = at
            if ath or bth:
                self.throws = True
                return "(← if %s then (do return %s) else (do return %s))" % (c, a, b), rt
            return "(if %s then %s else %s)" % (c, a, b), rt
        if k == "bin":
            op = e[1]
            if op in ("&&", "||"):
                l, lt = self.tr(e[2]); r, rt, rth = self.sub(e[3])
                if lt != "boolean" or rt != "boolean": raise Untranslatable(op + " on non-boolean")
                if rth:
                    self.throws = True
                    if op == "&&": return "(← if %s then (do return %s) else pure false)" % (l, r), "boolean"
                    return "(← if %s then pure true else (do return %s))" % (l, r), "boolean"
                return "(JSem.%s %s %s)" % ("land" if op == "&&" else "lor", l, r), "boolean"
            l, lt = self.tr(e[2]); r, rt = self.tr(e[3])
            if op in ("<<", ">>", ">>>"):
                if "boolean" in (lt, rt): raise Untranslatable("shift on boolean")
                pl = "long" if lt == "long" else "int"; pr = "long" if rt == "long" else "int"
                return "(JSem.%s %s %s)" % ({"<<": "shl", ">>": "shr", ">>>": "ushr"}[op], widen(l, lt, pl), widen(r, rt, pr)), pl
            if lt == "boolean" and rt == "boolean":
                f = {"&": "land", "|": "lor", "^": "lxor", "==": "beq", "!=": "bne"}.get(op)
                if not f: raise Untranslatable(op + " on boolean")
                return "(JSem.%s %s %s)" % (f, l, r), "boolean"
            if "boolean" in (lt, rt): raise Untranslatable(op + " mixes boolean and numeric")
            pt = "long" if "long" in (lt, rt) else "int"
            l, r = widen(l, lt, pt), widen(r, rt, pt)
            if op in ("/", "%"):
                self.throws = True
                return "(← JSem.%s %s %s)" % ("div" if op == "/" else "rem", l, r), pt
            f = {"+": "add", "-": "sub", "*": "mul", "&": "band", "|": "bor", "^": "bxor"}.get(op)
            if f: return "(JSem.%s %s %s)" % (f, l, r), pt
            f = {"==": "eq", "!=": "ne", "<": "lt", "<=": "le", ">": "gt", ">=": "ge"}.get(op)
            if f: return "(JSem.%s %s %s)" % (f, l, r), "boolean"
        raise Untranslatable("unsupported expression " + str(e)[:60])
    def _bad(self, n):
        raise Untranslatable("non-primitive variable " + n)

def translate_body(params, ret, body):
    """params: [(javatype, name)], body: `T x = e; ... return e;`  ->  (lean body lines, throws)"""
    for ty, _ in params:
        if ty not in PRIM: raise Untranslatable("parameter type " + ty)
    if ret not in PRIM: raise Untranslatable("result type " + ret)
    b = body.strip()
    if re.fullmatch(r"throw\s+new\s+\w*Exception\s*\(\s*(\"[^\"]*\")?\s*\)\s*;", b):
        raise Untranslatable("THROWS: body is `throw new RuntimeException()` (not implemented in the runtime)")
    if "{" in b or re.search(r"\b(if|for|while|try|switch|new|throw)\b", b):
        raise Untranslatable("statement form not in the fragment (only `T x = e;` and `return e;`)")
    stmts = [s.strip() for s in b.split(";") if s.strip()]
    if not stmts or not stmts[-1].startswith("return"):
        raise Untranslatable("no final return")
    env = {n: ty for ty, n in params}
    lets = []
    throws = False
    for s in stmts[:-1]:
        m = re.fullmatch(r"(?:final\s+)?(\w+)\s+(\w+)\s*=\s*(.*)", s, re.S)
        if not m or m.group(1) not in PRIM:
            raise Untranslatable("statement not a primitive local declaration: " + s[:40])
        t = Tr(env); x, ty = t.tr(parse_java_expr(m.group(3)))
        throws = throws or t.throws
        lets.append("let %s : %s := %s" % (m.group(2), LEAN_T[m.group(1)], assignable(x, ty, m.group(1))))
        env[m.group(2)] = m.group(1)
    t = Tr(env); x, ty = t.tr(parse_java_expr(stmts[-1][len("return"):]))
    throws = throws or t.throws
    return lets, assignable(x, ty, ret), throws

# ----------------------------------------------------------------------------- rows -> Java text

def tree_to_java(tree, cls, args):
    k = tree[0]
    if k == "arg": return args[tree[1]]
    if k == "un": return "(%s%s)" % (cls[tree[1]]["text"], tree_to_java(tree[2], cls, args))
    if k == "bin": return "(%s %s %s)" % (tree_to_java(tree[2], cls, args), cls[tree[1]]["text"], tree_to_java(tree[3], cls, args))
    raise Untranslatable("builder tree")

def op_java(opname, ops, cls, builders, args):
    """Java text of jcOp(opname, args)"""
    inf = ops.get(opname)
    if inf is None: raise Untranslatable("unknown operation " + str(opname))
    if inf["builder"]:
        tree = builders.get(inf["builder"])
        if tree is None: raise Untranslatable("builder %s not understood" % inf["builder"])
        return tree_to_java(tree, cls, args)
    c = cls.get(inf["cls"])
    if c is None: raise Untranslatable("unknown class " + str(inf["cls"]))
    if len(args) < 2: raise Untranslatable("binary operator with %d operand(s)" % len(args))
    return "(%s %s %s)" % (args[0], c["text"], args[1])

ARGN = ["a", "b", "c", "d"]

def row_java(row, sigs, tmap, ops, cls, builders, methods):
    """-> (params [(javatype,name)], java result type or None, java expression text, note)"""
    sig = sigs.get(row["tag"])
    if sig is None or sig["args"] is None: raise Untranslatable("no FOAM signature")
    jt = []
    for a in sig["args"]:
        if a not in tmap: raise Untranslatable("argument type %s is not a Java primitive" % a)
        jt.append(tmap[a])
    params = list(zip(jt, ARGN))
    names = [n for _, n in params]
    ret = tmap.get(sig["ret"])
    m = row["method"]
    if m == "GJ_Keyword":
        return params, ret, row["c1"], "keyword"
    if m == "GJ_LitInt":
        return params, ret, row["c1"], "literal"
    if m in ("GJ_Const", "GJ_NegConst"):
        t = "%s.%s" % (row["c1"], row["c2"])
        return params, ret, ("(-%s)" % t) if m == "GJ_NegConst" else t, "constant"
    if m == "GJ_Cast":
        if len(names) != 1: raise Untranslatable("cast with %d operands" % len(names))
        return params, ret, "((%s) %s)" % (row["c1"], names[0]), "cast"
    if m == "GJ_Op":
        args = list(names)
        if row["c1"] is not None: args.append(row["c1"])
        return params, ret, op_java(row["op"], ops, cls, builders, args), "operator"
    if m == "GJ_OpMod":
        if len(names) != 3: raise Untranslatable("OpMod with %d operands" % len(names))
        inner = op_java(row["op"], ops, cls, builders, names[:2])
        return params, ret, op_java("JCO_OP_Modulo", ops, cls, builders, [inner, names[2]]), "operator-mod"
    if m == "GJ_Apply":
        return params, ret, "%s.%s(%s)" % (row["c1"], row["c2"], ", ".join(names)), "method"
    if m == "GJ_Meth":
        raise Untranslatable("instance method .%s() of a library object" % row["c1"])
    if m == "GJ_Exception":
        raise Untranslatable("throws %s.%s" % (row["c1"], row["c2"]))
    raise Untranslatable("emission method " + m)

# ----------------------------------------------------------------------------- load + emit

def foamj_dir(src):
    return os.path.normpath(os.path.join(src, "..", "lib", "java", "src", "foamj"))

def load(src):
    g = strip_c(open(os.path.join(src, "java", "genjava.c"), errors="replace").read())
    j = strip_c(open(os.path.join(src, "java", "javacode.c"), errors="replace").read())
    f = strip_c(open(os.path.join(src, "foam.c"), errors="replace").read())
    rows = parse_gj_table(g)
    tmap = {k: v for k, v in parse_type_map(g).items() if v in PRIM}
    sigs = parse_foam_sigs(f)
    ops, cls, builders = parse_javacode(j)
    methods = []
    for c in ("Math", "Foam"):
        p = os.path.join(foamj_dir(src), c + ".java")
        if os.path.exists(p):
            methods += parse_java_methods(open(p, errors="replace").read(), c)
    # foamj methods
    mt = {}      # (cls, name, ptypes) -> dict(lean name, lets, result, throws) | dict(reason)
    for m in methods:
        key = (m["cls"], m["name"], tuple(t for t, _ in m["params"]))
        try:
            lets, res, th = translate_body(m["params"], m["ret"], m["body"])
            mt[key] = {"ok": True, "lets": lets, "res": res, "throws": th, "m": m}
        except Untranslatable as e:
            mt[key] = {"ok": False, "reason": str(e), "m": m}
    # lean names for translated methods: Cls_name, suffixed by parameter types on overload clash
    cnt = {}
    for key, v in mt.items():
        if v["ok"]: cnt[(key[0], key[1])] = cnt.get((key[0], key[1]), 0) + 1
    for key, v in mt.items():
        if v["ok"]:
            n = "%s_%s" % (key[0], key[1])
            if cnt[(key[0], key[1])] > 1: n += "_" + "_".join(key[2])
            v["lean"] = n
    out = []
    for r in rows:
        d = dict(r)
        try:
            params, ret, jtxt, note = row_java(r, sigs, tmap, ops, cls, builders, methods)
            d.update(params=params, ret=ret, java=jtxt, how=note)
            for ty, _ in params:
                if ty not in PRIM: raise Untranslatable("parameter type " + ty)
            if note == "method":
                c = r["c1"].split(".")[-1] if r["c1"].startswith("foamj.") else None
                key = (c, r["c2"], tuple(t for t, _ in params))
                if c is None: raise Untranslatable("library method %s.%s" % (r["c1"], r["c2"]))
                if key not in mt: raise Untranslatable("no method %s.%s(%s) in foamj" % (c, r["c2"], ",".join(key[2])))
                if not mt[key]["ok"]: raise Untranslatable(mt[key]["reason"])
                v = mt[key]
                d.update(lean_expr="%s %s" % (v["lean"], " ".join(n for _, n in params)) if params else v["lean"],
                         jtype=v["m"]["ret"], throws=v["throws"], calls=v["lean"])
            else:
                t = Tr({n: ty for ty, n in params}); x, ty = t.tr(parse_java_expr(jtxt))
                d.update(lean_expr=x, jtype=ty, throws=t.throws)
            d["ok"] = True
        except Untranslatable as e:
            d["ok"] = False; d["reason"] = str(e)
        out.append(d)
    return {"printer": parse_printer(j, ops), "bintlit": parse_bint_literal(g, j), "rows": out, "methods": mt, "tmap": tmap, "ops": ops, "cls": cls, "builders": builders, "sigs": sigs}

def lean_str(s):
    return '"' + (s or "").replace("\\", "\\\\").replace('"', '\\"').replace("\n", "\\n") + '"'

def conv_arg(ty, v):
    if ty == "boolean": return "(decide (%s ≠ 0))" % v
    return "(BitVec.ofInt %d %s)" % (WIDTH[ty], v)

def show_fn(ty, throws):
    f = {"boolean": "showB", "char": "showU", "byte": "showU"}.get(ty, "showS")   # FOAM Byte is unsigned
    return ("showO %s" % f) if throws else f

def emit(L):
    o = []
    w = o.append
    w("import AldorVerif.Model.JSem")
    w("import AldorVerif.Model.JPrint")
    w("/-! GENERATED by translate/jmap.py from java/genjava.c (gjBValInfoTable, gj0TypeFrFmt),")
    w("java/javacode.c (JcOpInfoTable, operator texts, builders), foam.c (foamBValInfoTable) and")
    w("lib/java/src/foamj/{Math,Foam}.java.  Do not edit; rerun the translator. -/")
    w("namespace AldorVerif.Gen.JMap")
    w("open AldorVerif")
    w("")
    w("structure Row where")
    w("  name : String")
    w("  method : String")
    w("  op : String")
    w("  c1 : String")
    w("  c2 : String")
    w("  java : String      -- the Java expression the row emits (operands a b c d), \"\" if not derived")
    w("  translated : Bool")
    w("  deriving Repr, BEq")
    w("")
    w("/-- `gjBValInfoTable`, row by row -/")
    w("def table : List Row := [")
    rows = L["rows"]
    for i, r in enumerate(rows):
        w("  ⟨%s, %s, %s, %s, %s, %s, %s⟩%s" % (lean_str(r["name"]), lean_str(r["method"]), lean_str(r["op"]),
          lean_str(r["c1"]), lean_str(r["c2"]), lean_str(r.get("java", "")), "true" if r["ok"] else "false",
          "," if i + 1 < len(rows) else ""))
    w("]")
    w("")
    w("/-- rows that are NOT translated, with the reason (floating point, big integers, words,")
    w("pointers, library methods, runtime methods that only throw) -/")
    w("def untranslated : List (String × String) := [")
    un = [(r["name"], r["reason"]) for r in rows if not r["ok"]]
    for i, (n, why) in enumerate(un):
        w("  (%s, %s)%s" % (lean_str(n), lean_str(why), "," if i + 1 < len(un) else ""))
    w("]")
    w("")
    w("/-! ## foamj runtime methods in the integer/boolean fragment -/")
    for key, v in sorted(L["methods"].items(), key=lambda kv: (kv[0][0], kv[0][1], kv[0][2])):
        if not v["ok"]: continue
        m = v["m"]
        ps = " ".join("(%s : %s)" % (n, LEAN_T[t]) for t, n in m["params"])
        rt = LEAN_T[m["ret"]]
        w("/-- `%s.%s(%s)`: `%s` -/" % (key[0], key[1], ", ".join(key[2]), re.sub(r"\s+", " ", m["body"])[:300].replace("-/", "- /")))
        if v["throws"]:
            w("def %s %s : Option (%s) := do" % (v["lean"], ps, rt))
            for l in v["lets"]: w("  " + l)
            w("  return %s" % v["res"])
        else:
            w("def %s %s : %s :=" % (v["lean"], ps, rt))
            for l in v["lets"]: w("  " + l)
            w("  %s" % v["res"])
        w("")
    w("/-- foamj methods outside the fragment -/")
    w("def methodsUntranslated : List (String × String) := [")
    um = [("%s.%s(%s)" % (k[0], k[1], ",".join(k[2])), v["reason"]) for k, v in sorted(L["methods"].items()) if not v["ok"]]
    for i, (n, why) in enumerate(um):
        w("  (%s, %s)%s" % (lean_str(n), lean_str(why), "," if i + 1 < len(um) else ""))
    w("]")
    w("")
    w("/-! ## one function per translated builtin -/")
    for r in rows:
        if not r["ok"]: continue
        ps = " ".join("(%s : %s)" % (n, LEAN_T[t]) for t, n in r["params"])
        rt = LEAN_T[r["jtype"]]
        w("/-- `%s`  ⟶  Java `%s` -/" % (r["text"].replace("-/", "- /"), r["java"]))
        if r["throws"] and not r.get("calls"):
            w("def %s %s : Option (%s) := do" % (r["name"], ps, rt))
            w("  return %s" % r["lean_expr"])
        elif r["throws"]:
            w("def %s %s : Option (%s) := %s" % (r["name"], ps, rt, r["lean_expr"]))
        else:
            w("def %s %s : %s := %s" % (r["name"], ps, rt, r["lean_expr"]))
        w("")
    P = L["printer"]
    w("/-! ## the expression printer (javacode.c JcOpInfoTable + class table; jcBinOpPrint) -/")
    w("/-- binary operations printed by `jcBinOpPrint`: name, text, class precedence, JCO_LR -/")
    w("def binOps : List JPrint.Op := [")
    for i, bo in enumerate(P["binops"]):
        w("  ⟨%s, %s, %d, %s⟩%s" % (lean_str(bo["name"]), lean_str(bo["txt"]), bo["prec"], "true" if bo["lr"] else "false", "," if i + 1 < len(P["binops"]) else ""))
    w("]")
    w("/-- `jcBinOpPrint`, `jc0PrintWithParens`, `jc0NeedsParens` have exactly the text modelled in Model/JPrint.lean%s -/" % (
        "" if P["standard"] else " -- NO: " + ", ".join(P["why"]) + " differ"))
    w("def printerRuleStandard : Bool := %s" % ("true" if P["standard"] else "false"))
    w("")
    B = L.get("bintlit", {"ok": False, "reason": "not parsed"})
    w("/-! ## big-integer constants (genjava.c gj0BInt, javacode.c jcLiteralInteger) -/")
    w("inductive BIntLit where")
    w("  | zero                      -- `BigInteger.ZERO`")
    w("  | one                       -- `BigInteger.ONE`")
    w("  | valueOf (printed : Int)   -- `BigInteger.valueOf(<printed>)`: the argument is a Java `int` literal")
    w("  | string (digits : Int)     -- `new BigInteger(\"<decimal digits>\")`")
    w("  deriving Repr, DecidableEq")
    w("")
    if B["ok"]:
        w("/-- the bound in `%s` -/" % B["text"])
        w("def bintLitBound : Nat := %d" % B["bound"])
        w("/-- the printf format of `jcLiteralInteger` -/")
        w("def bintLitFormat : String := %s" % lean_str(B["fmt"]))
        w("/-- which form `gj0BInt` emits for the constant `v` (`bintIsSmall` holds for every value this short) -/")
        w("def bintLit (v : Int) : BIntLit :=")
        if B["zero"]:
            w("  if v = 0 then .zero else")
        w("  if JSem.bintLength v %s bintLitBound then" % ("<" if B["strict"] else "≤"))
        pr = "JSem.fmtD v" if B["fmt"] == "%d" else "JSem.fmtLD v"
        if B["one"]:
            w("    (if v = 1 then .one else .valueOf (%s))" % pr)
        else:
            w("    .valueOf (%s)" % pr)
        w("  else .string v")
    else:
        w("-- gj0BInt NOT translated: %s" % B.get("reason", ""))
        w("-- (Props/C12.lean's bint_literal_fits_int is not a statement about the source any more; the check reports")
        w("-- `jmap|gj0BInt|untranslated`.  The placeholder below only keeps the driver, whose other requests do not")
        w("-- depend on it, buildable; nothing evaluates it.)")
        w("def bintLitTranslated : Bool := false")
        w("def bintLit (_ : Int) : BIntLit := .string 0")
    w("")
    w("/-! ## evaluator for the driver -/")
    w("def showS {w : Nat} (x : BitVec w) : String := toString x.toInt")
    w("def showU {w : Nat} (x : BitVec w) : String := toString x.toNat")
    w("def showB (b : Bool) : String := if b then \"T\" else \"F\"")
    w("def showO {α : Type} (f : α → String) : Option α → String")
    w("  | some x => f x")
    w("  | none => \"throw\"")
    w("")
    w("/-- operands are given as integers (booleans as 0/1) and narrowed to the parameter type -/")
    w("def eval (name : String) (args : List Int) : Option String :=")
    w("  match name, args with")
    for r in rows:
        if not r["ok"]: continue
        pat = "[" + ", ".join(n for _, n in r["params"]) + "]"
        call = " ".join([r["name"]] + [conv_arg(t, n) for t, n in r["params"]])
        w("  | %s, %s => some (%s (%s))" % (lean_str(r["name"]), pat, show_fn(r["jtype"], r["throws"]), call))
    for key, v in sorted(L["methods"].items()):
        if not v["ok"]: continue
        m = v["m"]
        pat = "[" + ", ".join(n for _, n in m["params"]) + "]"
        call = " ".join([v["lean"]] + [conv_arg(t, n) for t, n in m["params"]])
        w("  | %s, %s => some (%s (%s))" % (lean_str("@" + v["lean"]), pat, show_fn(m["ret"], v["throws"]), call))
    w("  | _, _ => none")
    w("")
    w("/-- names `eval` understands, with the Java parameter types and result type -/")
    w("def signatures : List (String × List String × String) := [")
    sg = [(r["name"], [t for t, _ in r["params"]], r["jtype"]) for r in rows if r["ok"]]
    sg += [("@" + v["lean"], [t for t, _ in v["m"]["params"]], v["m"]["ret"]) for k, v in sorted(L["methods"].items()) if v["ok"]]
    for i, (n, ps, rt) in enumerate(sg):
        w("  (%s, [%s], %s)%s" % (lean_str(n), ", ".join(lean_str(p) for p in ps), lean_str(rt), "," if i + 1 < len(sg) else ""))
    w("]")
    w("")
    w("end AldorVerif.Gen.JMap")
    return "\n".join(o) + "\n"

def write_if_changed(path, text):
    old = open(path).read() if os.path.exists(path) else None
    if old == text:
        return False
    os.makedirs(os.path.dirname(path), exist_ok=True)
    tmp = path + ".tmp%d" % os.getpid()
    with open(tmp, "w") as f:
        f.write(text)
    os.replace(tmp, path)
    return True

def main(argv):
    if len(argv) < 2:
        print(__doc__); return 2
    src = argv[1]
    here = os.path.dirname(os.path.dirname(os.path.abspath(__file__)))
    out = argv[2] if len(argv) > 2 else os.path.join(here, "lean", "AldorVerif", "Gen", "JMap.lean")
    L = load(src)
    changed = write_if_changed(out, emit(L))
    ok = sum(1 for r in L["rows"] if r["ok"])
    print("jmap: printer: %d binary operators, rule %s" % (len(L["printer"]["binops"]), "standard" if L["printer"]["standard"] else "NOT the modelled one: " + ", ".join(L["printer"]["why"])))
    print("jmap: gj0BInt %s" % ("bound %(bound)d strict=%(strict)s fmt=%(fmt)s" % L["bintlit"] if L["bintlit"]["ok"] else "NOT translated: " + L["bintlit"].get("reason", "")))
    print("jmap: %d rows, %d translated, %d listed as untranslated; %d foamj methods translated; %s %s" % (
        len(L["rows"]), ok, len(L["rows"]) - ok, sum(1 for v in L["methods"].values() if v["ok"]),
        "wrote" if changed else "unchanged", out))
    return 0

if __name__ == "__main__":
    sys.exit(main(sys.argv))
