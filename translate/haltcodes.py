#!/usr/bin/env python3
"""translate/haltcodes.py <src dir> [<libaldor src dir>]  >  lean/AldorVerif/Gen/HaltCodes.lean

Re-reads how a FOAM program run can END on the two routes and writes the facts as Lean data:

  foam.h      enum foamHaltCode                       -> haltEnum
  foam_c.c    fiHalt: switch arms (label, message, what follows the raise) -> cHaltCases/Default/Silent
              fiUnhandledException, fiRaiseException (FOAM_RTS branch): exit statuses, message stream
  fint.c      case FOAM_BVal_Halt: arms (enum name, message), the fintWhere() call before the switch
              fintWhere: the stream it prints to;  fintRaiseException: exit statuses
              fintExecMainUnit: the unhandled-exception handler name and that `ok` is returned
  debug.c     dbInit: what dbOut is initialised to
  emit.c      emitInterp: `if (!result) exitFailure()`
  util.c      exitFailure -> osExit(EXIT_FAILURE);   EXIT_FAILURE/EXIT_SUCCESS/SIGFPE/SIGSEGV from the C headers
  axlcomp.c   compSignalHandler ends in exitFailure(); compInit installs it for the fault signals
  opsys.c     osFaultSignals[]
  genc.c      generated main: `if (!flag) fiUnhandledException(var); return 0;`
  comsgdb.msg ALDOR_E_SigFpe / ALDOR_E_SigSegv texts
  rtexns.as   (libaldor) the "Unhandled Exception: " prefix and its stream

Pure text analysis (comment stripping, brace matching, C string literals) of a small closed set of
shapes; anything else stops the translator with the construct named (exit status 3)."""
import os, re, subprocess, sys


class Stop(Exception):
    pass


def strip_comments(t):
    out = []; i = 0; n = len(t)
    while i < n:
        c = t[i]
        if c == '"' or c == "'":
            j = i + 1
            while j < n and t[j] != c:
                j += 2 if t[j] == "\\" else 1
            out.append(t[i:j + 1]); i = j + 1
        elif t.startswith("/*", i):
            j = t.find("*/", i + 2)
            if j < 0: raise Stop("unterminated comment")
            out.append(" " + "\n" * t.count("\n", i, j)); i = j + 2
        elif t.startswith("//", i):
            j = t.find("\n", i); i = n if j < 0 else j
        else:
            out.append(c); i += 1
    return "".join(out)


def read(d, f):
    p = os.path.join(d, f)
    if not os.path.exists(p):
        raise Stop("source file missing: " + p)
    return strip_comments(open(p, errors="replace").read().replace("\\\n", ""))


def balanced(t, i, op="{", cl="}"):
    """t[i] == op; returns index just after the matching close (strings skipped)"""
    assert t[i] == op, t[i:i + 20]
    d = 0; n = len(t)
    while i < n:
        c = t[i]
        if c == '"' or c == "'":
            j = i + 1
            while j < n and t[j] != c:
                j += 2 if t[j] == "\\" else 1
            i = j + 1; continue
        if c == op: d += 1
        elif c == cl:
            d -= 1
            if d == 0: return i + 1
        i += 1
    raise Stop("unbalanced " + op)


def func_body(t, name, what):
    """body text (inside the braces) of the definition `name(...) {`"""
    for m in re.finditer(r"(?m)^%s\s*\(" % re.escape(name), t):
        j = balanced(t, m.end() - 1, "(", ")")
        k = j
        while k < len(t) and t[k] in " \t\n": k += 1
        if k < len(t) and t[k] == "{":
            e = balanced(t, k)
            return t[k + 1:e - 1]
    raise Stop("%s: definition of %s not found" % (what, name))


ESC = {"n": "\n", "t": "\t", '"': '"', "\\": "\\", "'": "'", "0": "\0", "r": "\r"}

def c_string(t, i):
    """adjacent string literals starting at t[i] == '\"' ; returns (value, index after)"""
    val = []
    n = len(t)
    while i < n and t[i] == '"':
        i += 1
        while t[i] != '"':
            if t[i] == "\\":
                e = t[i + 1]
                if e not in ESC: raise Stop("string escape \\%s not handled" % e)
                val.append(ESC[e]); i += 2
            else:
                val.append(t[i]); i += 1
        i += 1
        j = i
        while j < n and t[j] in " \t\n": j += 1
        if j < n and t[j] == '"': i = j
    return "".join(val), i


def lean_str(s):
    out = ['"']
    for ch in s:
        if ch == '"': out.append('\\"')
        elif ch == "\\": out.append("\\\\")
        elif ch == "\n": out.append("\\n")
        elif ch == "\t": out.append("\\t")
        elif 32 <= ord(ch) < 127: out.append(ch)
        else: out.append("\\u{%x}" % ord(ch))
    out.append('"')
    return "".join(out)


def split_stmts(body):
    """top-level `;`-terminated statements / labels of a switch body, as stripped strings"""
    out = []; cur = []; i = 0; n = len(body); depth = 0
    while i < n:
        c = body[i]
        if c == '"' or c == "'":
            j = i + 1
            while body[j] != c:
                j += 2 if body[j] == "\\" else 1
            cur.append(body[i:j + 1]); i = j + 1; continue
        if c in "({": depth += 1
        if c in ")}": depth -= 1
        if c == ";" and depth == 0:
            out.append("".join(cur).strip()); cur = []
        elif c == ":" and depth == 0 and re.match(r"\s*(case\b[^:?]*|default\s*)$", "".join(cur)):
            out.append("".join(cur).strip() + ":"); cur = []
        else:
            cur.append(c)
        i += 1
    if "".join(cur).strip():
        out.append("".join(cur).strip())
    return out


RAISE = re.compile(r'^fiRaiseException\s*\(\s*\(\s*FiWord\s*\)\s*(".*)\)$', re.S)

def raise_msg(s, where):
    m = RAISE.match(s)
    if not m: raise Stop("%s: expected fiRaiseException((FiWord)\"...\"), found `%s`" % (where, s[:80]))
    v, j = c_string(m.group(1), 0)
    if m.group(1)[j:].strip(): raise Stop("%s: trailing text after message literal" % where)
    return v


def switch_arms(body, where):
    """[(labels, [statements])] of the single top-level switch in body; returns (switch expr, arms, before, after)"""
    m = re.search(r"\bswitch\s*\(", body)
    if not m: raise Stop(where + ": no switch")
    j = balanced(body, m.end() - 1, "(", ")")
    expr = body[m.end():j - 1].strip()
    k = j
    while body[k] in " \t\n": k += 1
    e = balanced(body, k)
    inner = body[k + 1:e - 1]
    arms = []; labels = []; stmts = []
    for s in split_stmts(inner):
        if s.endswith(":") and (s.startswith("case") or s.startswith("default")):
            if stmts:
                arms.append((labels, stmts)); labels = []; stmts = []
            labels.append(s[:-1].replace("case", "", 1).strip() if s.startswith("case") else "default")
        else:
            stmts.append(s)
    if labels or stmts: arms.append((labels, stmts))
    return expr, arms, body[:m.start()], body[e:]


def cpp_consts(names, headers):
    src = "".join("#include <%s>\n" % h for h in headers) + "".join('"@@%s" %s\n' % (n, n) for n in names)
    p = subprocess.run(["cc", "-E", "-P", "-"], input=src, capture_output=True, text=True)
    if p.returncode != 0: raise Stop("cc -E failed for header constants: " + p.stderr[-300:])
    res = {}
    for m in re.finditer(r'"@@(\w+)"\s+(.*)', p.stdout):
        v = m.group(2).strip().strip("()")
        if not re.fullmatch(r"-?\d+", v): raise Stop("header constant %s expands to `%s`" % (m.group(1), v))
        res[m.group(1)] = int(v)
    for n in names:
        if n not in res: raise Stop("header constant %s not found" % n)
    return res


def exits_in(body):
    return [int(x) for x in re.findall(r"\bexit\s*\(\s*(\d+)\s*\)", body)]


def translate(src, libaldor=None):
    F = {}
    # ---------------------------------------------------------------- foam.h enum
    t = read(src, "foam.h")
    m = re.search(r"enum\s+foamHaltCode\s*\{", t)
    if not m: raise Stop("foam.h: enum foamHaltCode not found")
    e = balanced(t, m.end() - 1)
    enum = []; nxt = 0
    for item in t[m.end():e - 1].split(","):
        item = item.strip()
        if not item: continue
        mm = re.fullmatch(r"FOAM_Halt_(\w+)\s*(?:=\s*(-?\d+))?", item)
        if not mm: raise Stop("foam.h: foamHaltCode enumerator `%s` not understood" % item)
        v = int(mm.group(2)) if mm.group(2) is not None else nxt
        enum.append((mm.group(1), v)); nxt = v + 1
    F["haltEnum"] = enum
    # ---------------------------------------------------------------- foam_c.c fiHalt
    fc = read(src, "foam_c.c")
    body = func_body(fc, "fiHalt", "foam_c.c")
    expr, arms, before, after = switch_arms(body, "foam_c.c fiHalt")
    mm = re.fullmatch(r"\(\s*int\s*\)\s*(\w+)", expr)
    if not mm: raise Stop("foam_c.c fiHalt: switch expression `%s` is not `(int)<param>`" % expr)
    param = mm.group(1)
    if before.strip(): raise Stop("foam_c.c fiHalt: statements before the switch: `%s`" % before.strip()[:80])
    if not re.fullmatch(r"\s*return\s+0\s*;\s*", after): raise Stop("foam_c.c fiHalt: after the switch expected `return 0;`, found `%s`" % after.strip()[:80])
    ccases = []; cdefault = None; csilent = []
    for labels, stmts in arms:
        if stmts == ["break"]:
            for l in labels:
                if l == "default": raise Stop("foam_c.c fiHalt: default arm is silent")
                if not re.fullmatch(r"-?\d+", l):
                    raise Stop("foam_c.c fiHalt: label `%s` is not an integer literal" % l)
                csilent.append(int(l))
            continue
        if len(stmts) != 2 or not re.fullmatch(r"exit\s*\(\s*\(\s*int\s*\)\s*%s\s*\)" % param, stmts[1]):
            raise Stop("foam_c.c fiHalt: arm %s is not `fiRaiseException(..); exit((int)%s);` but %s" % (labels, param, stmts))
        msg = raise_msg(stmts[0], "foam_c.c fiHalt arm %s" % labels)
        for l in labels:
            if l == "default": cdefault = msg
            else:
                if re.fullmatch(r"-?\d+", l): ccases.append((int(l), msg))
                elif l.startswith("FOAM_Halt_") and l[10:] in dict(enum): ccases.append((dict(enum)[l[10:]], msg))
                else: raise Stop("foam_c.c fiHalt: label `%s` not understood" % l)
    if cdefault is None: raise Stop("foam_c.c fiHalt: no default arm")
    F["cHaltCases"] = ccases; F["cHaltDefault"] = cdefault; F["cHaltSilent"] = csilent
    # ---------------------------------------------------------------- foam_c.c fiUnhandledException / fiRaiseException
    def rts_branch(name):
        b = func_body(fc, name, "foam_c.c")
        m2 = re.search(r"#\s*ifdef\s+FOAM_RTS(.*?)#\s*else(.*?)#\s*endif", b, re.S)
        if not m2: raise Stop("foam_c.c %s: #ifdef FOAM_RTS … #else … #endif not found" % name)
        return m2.group(1), m2.group(2)
    rts, _ = rts_branch("fiUnhandledException")
    ex = exits_in(rts)
    if not ex or len(set(ex)) != 1: raise Stop("foam_c.c fiUnhandledException: exit statuses %s are not one value" % ex)
    m2 = re.search(r'fiImportGlobal\s*\(\s*"G_\w+?_(aldorUnhandledExceptio\w*)"', rts)
    if not m2: raise Stop("foam_c.c fiUnhandledException: imported handler name not found")
    F["cUnhandledExit"] = ex[0]
    F["cUnhandledHandler"] = m2.group(1)
    rts, nonrts = rts_branch("fiRaiseException")
    ex = exits_in(rts)
    if len(set(ex)) != 1: raise Stop("foam_c.c fiRaiseException: exit statuses %s" % ex)
    F["cRaiseNoHandlerExit"] = ex[0]
    m2 = re.search(r'fiImportGlobal\s*\(\s*"G_\w+?_(aldorRuntimeExceptio\w*)"', rts)
    if not m2: raise Stop("foam_c.c fiRaiseException: imported handler name not found")
    F["cRaiseHandler"] = m2.group(1)
    F["cRaiseNoHandlerStream"] = "stdout" if re.search(r"\bprintf\s*\(", rts) else ("stderr" if "stderr" in rts else None)
    if F["cRaiseNoHandlerStream"] is None: raise Stop("foam_c.c fiRaiseException: no-handler message stream")
    if not re.search(r"fiExceptionHandler\s*\(\s*\(\s*char\s*\*\s*\)\s*problem", nonrts):
        raise Stop("foam_c.c fiRaiseException: interpreter branch does not call fiExceptionHandler(problem)")
    # ---------------------------------------------------------------- fint.c
    ft = read(src, "fint.c")
    i = ft.find("case FOAM_BVal_Halt:")
    if i < 0: raise Stop("fint.c: case FOAM_BVal_Halt not found")
    j = ft.find("case FOAM_BVal_", i + 10)
    blk = ft[i + len("case FOAM_BVal_Halt:"):j]
    expr, arms, before, after = switch_arms(blk, "fint.c FOAM_BVal_Halt")
    if not re.fullmatch(r"\(\s*int\s*\)\s*expr1\s*\.\s*fiSInt", expr):
        raise Stop("fint.c FOAM_BVal_Halt: switch expression `%s`" % expr)
    # the trace before the switch: either a bare `fintWhere(0);` (printed on fintWhere's own stream) or the
    # swap idiom `{ FILE *old = dbOut; dbOut = <stream>; fintWhere(0); dbOut = old; }`
    trace = None; trace_stream = None
    mm = re.search(r"\{\s*FILE\s*\*\s*(\w+)\s*=\s*dbOut\s*;\s*dbOut\s*=\s*(\w+)\s*;\s*fintWhere\s*\(\s*(-?\w+)\s*\)\s*;"
                   r"\s*dbOut\s*=\s*(\w+)\s*;\s*\}", before)
    if mm:
        if mm.group(1) != mm.group(4):
            raise Stop("fint.c FOAM_BVal_Halt: dbOut is not restored after the trace")
        trace, trace_stream = mm.group(3), mm.group(2)
        before = before[:mm.start()] + before[mm.end():]
    pre = [s for s in split_stmts(before) if s]
    for s in pre:
        if re.fullmatch(r"\(\s*void\s*\)\s*fintEval\s*\(\s*&\s*expr1\s*\)", s): continue
        mm = re.fullmatch(r"fintWhere\s*\(\s*(-?\w+)\s*\)", s)
        if mm and trace is None:
            trace = mm.group(1); continue
        raise Stop("fint.c FOAM_BVal_Halt: statement before the switch not understood: `%s`" % s[:80])
    F["fintHaltTrace"] = trace is not None
    if trace is not None and trace not in ("0", "int0"):
        raise Stop("fint.c FOAM_BVal_Halt: fintWhere(%s): only the whole-stack form fintWhere(0) is modelled" % trace)
    post = [s for s in split_stmts(after) if s]
    F["fintHaltLongJmpAfter"] = bool(post) and re.fullmatch(r"LongJmp\s*\(\s*fintJmpBuf\s*,\s*1\s*\)", post[0]) is not None
    fcases = []; fdefault = None
    for labels, stmts in arms:
        if len(stmts) != 2 or stmts[1] != "break":
            raise Stop("fint.c FOAM_BVal_Halt: arm %s is not `fiRaiseException(..); break;` but %s" % (labels, stmts))
        msg = raise_msg(stmts[0], "fint.c Halt arm %s" % labels)
        for l in labels:
            if l == "default": fdefault = msg
            elif l.startswith("FOAM_Halt_") and l[10:] in dict(enum): fcases.append((l[10:], msg))
            elif re.fullmatch(r"-?\d+", l):
                names = [n for n, v in enum if v == int(l)]
                if not names: raise Stop("fint.c FOAM_BVal_Halt: numeric label %s is no foamHaltCode" % l)
                fcases.append((names[0], msg))
            else: raise Stop("fint.c FOAM_BVal_Halt: label `%s` not understood" % l)
    if fdefault is None: raise Stop("fint.c FOAM_BVal_Halt: no default arm")
    F["fintHaltCases"] = fcases; F["fintHaltDefault"] = fdefault
    wb = func_body(ft, "fintWhere", "fint.c")
    streams = set(re.findall(r"fprintf\s*\(\s*(\w+)\s*,", wb))
    if len(streams) != 1: raise Stop("fint.c fintWhere prints to %s" % sorted(streams))
    wstream = streams.pop()
    if wstream == "dbOut":
        db = func_body(read(src, "debug.c"), "dbInit", "debug.c")
        mm = re.search(r"\bdbOut\s*=\s*(\w+)\s*;", db)
        if not mm: raise Stop("debug.c dbInit: dbOut initialisation not found")
        wstream = mm.group(1)
    smap = {"osStdout": "stdout", "stdout": "stdout", "osStderr": "stderr", "stderr": "stderr"}
    if wstream not in smap: raise Stop("fint.c fintWhere: stream `%s` not understood" % wstream)
    F["fintWhereStream"] = smap[wstream]
    if trace_stream is not None and trace_stream not in smap:
        raise Stop("fint.c FOAM_BVal_Halt: trace stream `%s` not understood" % trace_stream)
    F["fintHaltTraceStream"] = smap[trace_stream] if trace_stream is not None else smap[wstream]
    rb = func_body(ft, "fintRaiseException", "fint.c")
    ex = exits_in(rb)
    if not ex or len(set(ex)) != 1: raise Stop("fint.c fintRaiseException: exit statuses %s" % ex)
    F["fintRaiseExit"] = ex[0]
    mm = re.search(r'shDataObjFindBis\s*\(\s*(?:\(\s*AInt\s*\)\s*)?FOAM_Clos\s*,\s*"(\w+)"', rb)
    if not mm: raise Stop("fint.c fintRaiseException: handler lookup not found")
    F["fintRaiseHandler"] = mm.group(1)
    mm = re.search(r"fprintf\s*\(\s*(\w+)\s*,\s*\"Aldor runtime \(interpreter\): An Aldor runtime error", rb)
    if not mm or mm.group(1) not in smap: raise Stop("fint.c fintRaiseException: no-handler message stream")
    F["fintRaiseNoHandlerStream"] = smap[mm.group(1)]
    mb = func_body(ft, "fintExecMainUnit", "fint.c")
    mm = re.search(r'shDataObjFindBis\s*\(\s*(?:\(\s*AInt\s*\)\s*)?FOAM_Clos\s*,\s*"(\w+)"', mb)
    if not mm: raise Stop("fint.c fintExecMainUnit: unhandled-exception handler lookup not found")
    F["fintUnhandledHandler"] = mm.group(1)
    if not re.search(r"fintBlock\s*\(\s*ok\s*,", mb) or not re.search(r"return\s*\(\s*Bool\s*\)\s*ok\s*;", mb):
        raise Stop("fint.c fintExecMainUnit: `fintBlock(ok, …)` … `return (Bool) ok` shape not found")
    if re.search(r"\bexit\s*\(", mb): raise Stop("fint.c fintExecMainUnit: contains a direct exit()")
    fb = func_body(ft, "fintFile", "fint.c")
    if not re.search(r"result\s*=\s*fintExecMainUnit\s*\(\s*\)", fb) or not re.search(r"return\s+result\s*;", fb):
        raise Stop("fint.c fintFile: does not return fintExecMainUnit()'s result")
    # ---------------------------------------------------------------- emit.c / util.c
    eb = func_body(read(src, "emit.c"), "emitInterp", "emit.c")
    mm = re.search(r"result\s*=\s*fintFile\s*\(", eb)
    m2 = re.search(r"if\s*\(\s*!\s*result\s*\)\s*\{?\s*(\w+)\s*\(\s*\)\s*;", eb)
    if not mm or not m2: raise Stop("emit.c emitInterp: `result = fintFile(..); if (!result) f();` shape not found")
    F["interpFailCall"] = m2.group(1)
    ub = func_body(read(src, "util.c"), m2.group(1), "util.c")
    mm = re.search(r"osExit\s*\(\s*(\w+)\s*\)", ub)
    if not mm: raise Stop("util.c %s: osExit(..) not found" % m2.group(1))
    consts = cpp_consts(["EXIT_FAILURE", "EXIT_SUCCESS", "SIGFPE", "SIGSEGV"], ["stdlib.h", "signal.h"])
    if mm.group(1) not in consts: raise Stop("util.c %s: osExit(%s)" % (m2.group(1), mm.group(1)))
    F["interpFailExit"] = consts[mm.group(1)]
    F["sigFpe"] = consts["SIGFPE"]; F["sigSegv"] = consts["SIGSEGV"]
    # ---------------------------------------------------------------- axlcomp.c / opsys.c
    ax = read(src, "axlcomp.c")
    sb = func_body(ax, "compSignalHandler", "axlcomp.c")
    st = [s for s in split_stmts(sb) if s]
    if not st or not re.fullmatch(r"(\w+)\s*\(\s*\)", st[-1]): raise Stop("axlcomp.c compSignalHandler: last statement `%s`" % (st[-1] if st else ""))
    F["sigHandlerEnds"] = re.fullmatch(r"(\w+)\s*\(\s*\)", st[-1]).group(1)
    for sig, key in (("SIGFPE", "SigFpe"), ("SIGSEGV", "SigSegv")):
        if not re.search(r"signo\s*==\s*%s\s*\)\s*sigerr\s*=\s*ALDOR_E_%s\s*;" % (sig, key), sb):
            raise Stop("axlcomp.c compSignalHandler: mapping %s -> ALDOR_E_%s not found" % (sig, key))
    if not re.search(r"osDisplayMessage\s*\(\s*comsgString\s*\(\s*sigerr\s*\)\s*\)", sb) or not re.search(r"comsgError\s*\(\s*NULL\s*,\s*sigerr", sb):
        raise Stop("axlcomp.c compSignalHandler: osDisplayMessage(comsgString(sigerr)); comsgError(NULL, sigerr, …) not found")
    F["interpInstallsFaultHandler"] = re.search(r"osSetFaultHandler\s*\(\s*compSignalHandler\s*\)", ax) is not None
    op = read(src, "opsys.c")
    mm = re.search(r"int\s+osFaultSignals\s*\[\s*\]\s*=\s*\{([^}]*)\}", op)
    if not mm: raise Stop("opsys.c: osFaultSignals[] not found")
    fs = [x.strip() for x in mm.group(1).split(",") if x.strip() and x.strip() != "-1"]
    F["faultSignals"] = fs
    mm = re.search(r"(?m)^osDisplayMessage\s*\([^)]*\)\s*\{\s*(\w+)\s*\(", op)
    if not mm or mm.group(1) != "printf": raise Stop("opsys.c osDisplayMessage: not a printf")
    msgs = open(os.path.join(src, "comsgdb.msg"), errors="replace").read()
    for key in ("SigFpe", "SigSegv"):
        mm = re.search(r'(?m)^ALDOR_E_%s\s+(".*)$' % key, msgs)
        if not mm: raise Stop("comsgdb.msg: ALDOR_E_%s not found" % key)
        F["msg" + key] = c_string(mm.group(1), 0)[0]
    # the runtime of compiled programs installs no signal handler
    F["cInstallsFaultHandler"] = bool(re.search(r"\b(signal|sigaction|osSetFaultHandler)\s*\(", fc))
    # ---------------------------------------------------------------- genc.c generated main
    gc = read(src, "genc.c")
    mm = re.search(r'ccoFDef\s*\([^;]*?ccoIdOf\s*\(\s*"main"\s*\)', gc, re.S)
    if not mm: raise Stop("genc.c: generated main (ccoFDef(.., ccoIdOf(\"main\"), ..)) not found")
    i = mm.start()
    k = gc.rfind("\n{", 0, i)
    gm = gc[k:i]
    m1 = re.search(r'ccoIf\s*\(\s*ccoLNot\s*\(\s*ccoCopy\s*\(\s*flag\s*\)\s*\)\s*,\s*ccoFCall\s*\(\s*ccoIdOf\s*\(\s*"(\w+)"\s*\)', gm)
    m2 = re.search(r"ccoReturn\s*\(\s*ccoIntOf\s*\(\s*(int0|\d+)\s*\)\s*\)", gm)
    m3 = re.search(r'ccoFCall\s*\(\s*ccoIdOf\s*\(\s*"fiBlock"\s*\)', gm)
    if not (m1 and m2 and m3): raise Stop("genc.c generated main: fiBlock(..); if (!flag) f(var); return n; shape not found")
    F["mainUnhandledCall"] = m1.group(1)
    F["mainReturn"] = 0 if m2.group(1) == "int0" else int(m2.group(1))
    # ---------------------------------------------------------------- libaldor rtexns.as
    if libaldor:
        p = os.path.join(libaldor, "util", "rtexns.as")
        if not os.path.exists(p): raise Stop("libaldor rtexns.as missing: " + p)
        rt = open(p, errors="replace").read()
        mm = re.search(r'defaultHandler\s*\(\s*p\s*:\s*Pointer\s*\)\s*:\s*\(\s*\)\s*==\s*\{(.*?)\n\t\}', rt, re.S)
        if not mm: raise Stop("rtexns.as: defaultHandler not found")
        m2 = re.search(r'(\w+)\s*<<\s*"(Unhandled Exception: )"', mm.group(1))
        if not m2 or m2.group(1) not in ("stderr", "stdout"): raise Stop("rtexns.as defaultHandler: message/stream not understood")
        F["unhandledPrefix"] = m2.group(2); F["unhandledStream"] = m2.group(1)
        if not re.search(r"runtimeError\s*\(\s*s\s*:\s*Pointer\s*\)\s*:\s*\(\s*\)\s*==\s*throw\s+RuntimeError\s*\(\s*s\s*\)", rt):
            raise Stop("rtexns.as: runtimeError(s) == throw RuntimeError(s) not found")
        F["runtimeErrorThrows"] = True
    else:
        F["unhandledPrefix"] = "Unhandled Exception: "; F["unhandledStream"] = "stderr"; F["runtimeErrorThrows"] = True
    return F


def emit(F, srcdesc):
    L = []
    w = L.append
    w("/-! GENERATED by translate/haltcodes.py — do not edit by hand.")
    w("How a run ends on the interpreter route and on the C route, as read from %s. -/" % srcdesc)
    w("namespace AldorVerif.Gen.HaltCodes")
    w("")
    w("inductive Stream | stdout | stderr deriving DecidableEq, Repr")
    w("")
    w("/-- foam.h `enum foamHaltCode` -/")
    w("def haltEnum : List (String × Int) := [%s]" % ", ".join("(%s, %d)" % (lean_str(n), v) for n, v in F["haltEnum"]))
    w("/-- foam_c.c `fiHalt`, arms `case N: fiRaiseException(msg); exit((int)i);` -/")
    w("def cHaltCases : List (Int × String) := [%s]" % ", ".join("(%d, %s)" % (v, lean_str(s)) for v, s in F["cHaltCases"]))
    w("def cHaltDefault : String := %s" % lean_str(F["cHaltDefault"]))
    w("/-- foam_c.c `fiHalt`, arms `case N: break;` (fiHalt then returns 0 to its caller) -/")
    w("def cHaltSilent : List Int := [%s]" % ", ".join(str(v) for v in F["cHaltSilent"]))
    w("/-- fint.c `case FOAM_BVal_Halt`, arms `case FOAM_Halt_X: fiRaiseException(msg); break;` -/")
    w("def fintHaltCases : List (String × String) := [%s]" % ", ".join("(%s, %s)" % (lean_str(n), lean_str(s)) for n, s in F["fintHaltCases"]))
    w("def fintHaltDefault : String := %s" % lean_str(F["fintHaltDefault"]))
    w("/-- fint.c: `fintWhere(0)` (whole interpreter stack) is called before the switch -/")
    w("def fintHaltTrace : Bool := %s" % ("true" if F["fintHaltTrace"] else "false"))
    w("/-- the stream `fintWhere` prints to by default (`dbOut` resolved through debug.c `dbInit`) -/")
    w("def fintWhereStream : Stream := .%s" % F["fintWhereStream"])
    w("/-- the stream the trace of a halt is printed to (dbOut swapped around the call, else the default) -/")
    w("def fintHaltTraceStream : Stream := .%s" % F["fintHaltTraceStream"])
    w("def fintHaltLongJmpAfter : Bool := %s" % ("true" if F["fintHaltLongJmpAfter"] else "false"))
    w("/-- exit statuses -/")
    w("def cUnhandledExit : Nat := %d      -- foam_c.c fiUnhandledException (FOAM_RTS): every exit(..)" % F["cUnhandledExit"])
    w("def cRaiseNoHandlerExit : Nat := %d -- foam_c.c fiRaiseException without aldorRuntimeException" % F["cRaiseNoHandlerExit"])
    w("def cRaiseNoHandlerStream : Stream := .%s" % F["cRaiseNoHandlerStream"])
    w("def fintRaiseExit : Nat := %d       -- fint.c fintRaiseException: every exit(..)" % F["fintRaiseExit"])
    w("def fintRaiseNoHandlerStream : Stream := .%s" % F["fintRaiseNoHandlerStream"])
    w("def interpFailCall : String := %s  -- emit.c emitInterp: if (!result) <this>()" % lean_str(F["interpFailCall"]))
    w("def interpFailExit : Nat := %d      -- util.c: osExit(EXIT_FAILURE), value from <stdlib.h>" % F["interpFailExit"])
    w("def mainReturn : Nat := %d          -- genc.c generated main: return" % F["mainReturn"])
    w("def mainUnhandledCall : String := %s" % lean_str(F["mainUnhandledCall"]))
    w("/-- handler names looked up by the two runtimes -/")
    w("def cRaiseHandler : String := %s" % lean_str(F["cRaiseHandler"]))
    w("def cUnhandledHandler : String := %s" % lean_str(F["cUnhandledHandler"]))
    w("def fintRaiseHandler : String := %s" % lean_str(F["fintRaiseHandler"]))
    w("def fintUnhandledHandler : String := %s" % lean_str(F["fintUnhandledHandler"]))
    w("/-- libaldor util/rtexns.as -/")
    w("def unhandledPrefix : String := %s" % lean_str(F["unhandledPrefix"]))
    w("def unhandledStream : Stream := .%s" % F["unhandledStream"])
    w("def runtimeErrorThrows : Bool := %s" % ("true" if F["runtimeErrorThrows"] else "false"))
    w("/-- signals: the compiler process (interpreter route) handles fault signals with compSignalHandler,")
    w("which prints the message twice on stdout and ends in `%s()`; the runtime of compiled programs does not. -/" % F["sigHandlerEnds"])
    w("def interpInstallsFaultHandler : Bool := %s" % ("true" if F["interpInstallsFaultHandler"] else "false"))
    w("def cInstallsFaultHandler : Bool := %s" % ("true" if F["cInstallsFaultHandler"] else "false"))
    w("def sigHandlerEnds : String := %s" % lean_str(F["sigHandlerEnds"]))
    w("def faultSignals : List String := [%s]" % ", ".join(lean_str(s) for s in F["faultSignals"]))
    w("def sigFpe : Nat := %d" % F["sigFpe"])
    w("def sigSegv : Nat := %d" % F["sigSegv"])
    w("def msgSigFpe : String := %s" % lean_str(F["msgSigFpe"]))
    w("def msgSigSegv : String := %s" % lean_str(F["msgSigSegv"]))
    w("")
    w("end AldorVerif.Gen.HaltCodes")
    return "\n".join(L) + "\n"


def main(argv):
    if len(argv) < 2:
        sys.stderr.write(__doc__); return 2
    src = argv[1]
    lib = argv[2] if len(argv) > 2 else None
    try:
        F = translate(src, lib)
    except Stop as e:
        sys.stderr.write("haltcodes.py: STOP: %s\n" % e)
        return 3
    sys.stdout.write(emit(F, "foam.h foam_c.c fint.c debug.c emit.c util.c axlcomp.c opsys.c genc.c comsgdb.msg (+ libaldor util/rtexns.as)"))
    return 0


if __name__ == "__main__":
    sys.exit(main(sys.argv))
