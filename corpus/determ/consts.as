#include "aldor"
#include "aldorio"

-- long string, floating-point and big-integer constants

import from Integer, MachineInteger, DoubleFloat, SingleFloat, String, Character, TextWriter;

s1: String == "The quick brown fox jumps over the lazy dog. The quick brown fox jumps over the lazy dog. The quick brown fox jumps over the lazy dog. The quick brown fox jumps over the lazy dog. The quick brown fox jumps over the lazy dog. The quick brown fox jumps over the lazy dog. The quick brown fox jumps over the lazy dog. The quick brown fox jumps over the lazy dog. The quick brown fox jumps over the lazy dog. The quick brown fox jumps over the lazy dog. The quick brown fox jumps over the lazy dog. The quick brown fox jumps over the lazy dog.";
s2: String == "!(/6=DKRY`gnu')07>ELSZahov#*18?FMT[bipw$+29@GNU\cjqx%,3:AHOV]dkry&-4;BIPW^elsz'.5<CJQX-fmt!(/6=DKRY`gnu')07>ELSZahov#*18?FMT[bipw$+29@GNU\cjqx%,3:AHOV]dkry&-4;BIPW^elsz'.5<CJQX-fmt!(/6=DKRY`gnu')07>ELSZahov#*18?FMT[bipw$+29@GNU\cjqx%,3:AHOV]dkry&-4;BIPW^elsz'.5<CJQX-fmt!(/6=DKRY`gnu')07>ELSZahov#*18?FMT[bipw$+29@GNU\cjqx%,3:AHOV]dkry&-4;BIPW^elsz'.5<CJQX-fmt!(/6=DKRY`gnu')07>ELSZahov#*18?FMT[bipw$";
s3: String == "";
b1: Integer == 1012345678901234567890123456789012345678901234567890123456789012345678901234567890123456789012345678901234567890123456789;
b2: Integer == 99999999999999999999999999999999999999999999999999999999999999999999999999999;
b3: Integer == -123456789123456789123456789123456789123456789123456789123456789123456789123456789;
b4: Integer == 18446744073709551616;
b5: Integer == 4294967295;
m1: MachineInteger == 9223372036854775807;
d1: DoubleFloat == 3.14159265358979323846264338327950288419716939937510;
d2: DoubleFloat == 1.0e308;
d3: DoubleFloat == 4.9e-324;
d4: DoubleFloat == 0.1;
d5: DoubleFloat == 123456789012345678901234567890.0;
f1: SingleFloat == 3.4028235e38;
f2: SingleFloat == 1.17549435e-38;
f3: SingleFloat == 0.333333343267;

stdout << #s1 << " " << #s2 << " " << #s3 << newline;
stdout << b1 + b2 << newline << b3 * b4 << newline << b5 << " " << m1 << newline;
stdout << d1 << " " << d2 << " " << d3 << " " << d4 << " " << d5 << newline;
stdout << f1 << " " << f2 << " " << f3 << newline;
