#include "aldor"
#include "aldorio"

-- a unit whose compilation prints several diagnostics (the message stream is compared too)

f(n: MachineInteger): MachineInteger == {
	unused: MachineInteger := 3;
	n + undefinedName
}
g(s: String): String == s + 1;
h(x: MachineInteger): Boolean == x;
import from MachineInteger;
stdout << f 3 << newline;
k(a: MachineInteger): MachineInteger == { local z: String := a; a }
