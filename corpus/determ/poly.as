#include "aldor"
#include "aldorio"

-- a parametrised domain with many exports and a conditional export

Coeff ==> Join(ArithmeticType, OutputType);

Poly(R: Coeff): Coeff with {
	monomial: (R, MachineInteger) -> %;
	coefficient: (%, MachineInteger) -> R;
	degree: % -> MachineInteger;
	eval: (%, R) -> R;
	coefficients: % -> List R;
	if R has TotallyOrderedType then leadingPositive?: % -> Boolean;
} == add {
	Rep == List R;
	import from Rep, R, MachineInteger;

	local trim(l: List R): List R == {
		r := reverse l;
		while not empty? r and zero? first r repeat r := rest r;
		reverse r
	}
	commutative?: Boolean == true;
	(p: %) ^ (n: MachineInteger): % == { r: % := 1; for i in 1..n repeat r := r * p; r }
	0: % == per empty;
	1: % == per [1];
	coefficients(p: %): List R == rep p;
	monomial(c: R, n: MachineInteger): % == {
		zero? c => 0;
		l: List R := [c];
		for i in 1..n repeat l := cons(0, l);
		per l
	}
	degree(p: %): MachineInteger == #(rep p) - 1;
	coefficient(p: %, n: MachineInteger): R == {
		n > degree p => 0;
		(rep p).(n + 1)
	}
	(p: %) + (q: %): % == {
		d := max(degree p, degree q);
		per trim [coefficient(p, i) + coefficient(q, i) for i in 0..d]
	}
	-(p: %): % == per [-c for c in rep p];
	(p: %) * (q: %): % == {
		zero? p or zero? q => 0;
		d := degree p + degree q;
		l: List R := empty;
		for k in d..0 by -1 repeat {
			s: R := 0;
			for i in 0..k repeat s := s + coefficient(p, i) * coefficient(q, k - i);
			l := cons(s, l);
		}
		per trim l
	}
	(p: %) = (q: %): Boolean == {
		degree p ~= degree q => false;
		for a in rep p for b in rep q repeat if not (a = b) then return false;
		true
	}
	eval(p: %, x: R): R == {
		s: R := 0;
		for c in reverse rep p repeat s := s * x + c;
		s
	}
	(w: TextWriter) << (p: %): TextWriter == {
		import from String;
		zero? p => w << "0";
		for i in 0..degree p repeat {
			if i > 0 then w := w << " + ";
			w := w << coefficient(p, i) << "*x^" << i;
		}
		w
	}
	if R has TotallyOrderedType then {
		leadingPositive?(p: %): Boolean == {
			zero? p => false;
			coefficient(p, degree p) > 0
		}
	}
}

test(): () == {
	import from MachineInteger, Integer, Character, String, TextWriter;
	P ==> Poly Integer;
	PP ==> Poly Poly MachineInteger;
	import from P, PP, Poly MachineInteger;
	p: P := monomial(3, 2) + monomial(2, 1) + 1;
	q: P := p * p + (- monomial(1, 0));
	stdout << p << newline << q << newline << eval(q, 10) << newline;
	stdout << leadingPositive? q << newline;
	a: PP := monomial(monomial(2, 1), 1) + 1;
	stdout << a * a << newline;
}

test();
