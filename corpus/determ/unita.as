#include "aldor"

-- first unit of a pair: compiled alone, in one invocation together with unitb.as, and before it

Counter: with {
	new: MachineInteger -> %;
	next!: % -> MachineInteger;
	value: % -> MachineInteger;
	reset!: (%, MachineInteger) -> %;
} == add {
	Rep == Record(v: MachineInteger);
	import from Rep, MachineInteger;
	new(n: MachineInteger): % == per [n];
	value(c: %): MachineInteger == rep(c).v;
	next!(c: %): MachineInteger == { rep(c).v := rep(c).v + 1; rep(c).v }
	reset!(c: %, n: MachineInteger): % == { rep(c).v := n; c }
}

Stack(T: Type): with {
	empty: () -> %;
	push!: (%, T) -> %;
	pop!: % -> T;
	empty?: % -> Boolean;
	depth: % -> MachineInteger;
} == add {
	Rep == Record(l: List T);
	import from Rep, List T;
	empty(): % == per [empty];
	push!(s: %, t: T): % == { rep(s).l := cons(t, rep(s).l); s }
	pop!(s: %): T == { t := first rep(s).l; rep(s).l := rest rep(s).l; t }
	empty?(s: %): Boolean == empty? rep(s).l;
	depth(s: %): MachineInteger == # rep(s).l;
}
