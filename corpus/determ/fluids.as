#include "aldor"
#include "aldorio"

-- fluid (dynamically scoped) variables, at file level and rebound inside functions

MI ==> MachineInteger;

fluid depth: MI := 0;
fluid label: String := "top";

show(): () == {
	import from MI, String, Character, TextWriter;
	fluid depth;
	fluid label;
	stdout << label << ":" << depth << newline;
}

nest(n: MI): () == {
	import from MI, String;
	fluid depth := n + 10;
	show();
	if n > 0 then nest(n - 1);
}

relabel(s: String, f: () -> ()): () == {
	fluid label := s;
	f();
}

run(): () == {
	import from MI, String;
	show();
	nest 2;
	relabel("inner", (): () +-> nest 1);
	show();
}
run();
