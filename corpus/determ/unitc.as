#include "aldor"
#include "aldorio"
#library UNITA "unita.ao"
import from UNITA;

-- uses the library written by compiling unita.as (same directory)

run(): () == {
	import from MachineInteger, Counter, Stack MachineInteger, Character, TextWriter;
	c: Counter := new 10;
	s: Stack MachineInteger := empty();
	for i in 1..4 repeat push!(s, next! c);
	while not empty? s repeat stdout << pop! s << newline;
	stdout << value reset!(c, 3) << newline;
}
run();
