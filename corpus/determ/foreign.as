#include "aldor"
#include "aldorio"

-- Foreign imports of NON-function values (as sal_cmdline.as does), Foreign function imports,
-- exports to Foreign C and to Foreign Builtin, imports from Builtin

MI ==> MachineInteger;

import {
	mainArgc: MI;
	mainArgv: Pointer;
} from Foreign C;

import {
	labs: MI -> MI;
	atoi: Pointer -> MI;
} from Foreign C;

import { fiSetDebugVar: Pointer -> () } from Foreign;

export {
	detTriple: MI -> MI;
	detArgs: () -> MI;
} to Foreign C;

export {
	detBuiltinHook: Pointer -> ();
} to Foreign Builtin;

detTriple(n: MI): MI == 3 * labs n;
detArgs(): MI == mainArgc + labs(-2);
detBuiltinHook(p: Pointer): () == {}

Raw: with {
	plus: (MI, MI) -> MI;
	elt: (Pointer, MI) -> Character;
} == add {
	import from Machine;
	import {
		SIntPlus: (SInt, SInt) -> SInt;
		SIntTimes: (SInt, SInt) -> SInt;
		ArrElt: (Arr, SInt) -> Char;
	} from Builtin;
	plus(a: MI, b: MI): MI == SIntTimes(SIntPlus(a::SInt, b::SInt), 1)::MI;
	elt(p: Pointer, i: MI): Character == ArrElt(p pretend Arr, i::SInt)::Character;
}

main(): () == {
	import from MI, Raw, Character, TextWriter, String;
	stdout << detTriple(-4) << " " << plus(40, 2) << " " << (detArgs() > 0) << newline;
}
main();
