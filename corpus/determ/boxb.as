#include "aldor"
#include "aldorio"

-- batched group `boxes`, file 2: its own parametrised domains over map types (same shapes as
-- boxa.as, other names), a map-typed export of a package, and a map stored in a List

Cell(T: Type): with {
	cell: T -> %;
	get: % -> T;
} == add {
	Rep == Record(val: T);
	import from Rep;
	cell(t: T): % == per [t];
	get(c: %): T == rep(c).val;
}

MI ==> MachineInteger;

Ops: with {
	inc: MI -> MI;
	plus2: (MI, MI) -> MI;
	table: List(MI -> MI);
	apply2: (MI -> MI, MI) -> MI;
} == add {
	import from MI;
	inc: MI -> MI == (n: MI): MI +-> n + 1;
	plus2: (MI, MI) -> MI == (a: MI, b: MI): MI +-> a + b;
	table: List(MI -> MI) == [inc, (n: MI): MI +-> n * n, (n: MI): MI +-> n - 3];
	apply2(f: MI -> MI, n: MI): MI == f f n;
}

runB(): () == {
	import from MI, Ops, Cell(MI -> MI), Cell(List(MI -> MI)), Cell(String), List(MI -> MI), Character, TextWriter, String;
	c: Cell(MI -> MI) := cell inc;
	t: Cell(List(MI -> MI)) := cell table;
	stdout << apply2(get c, 40) << " " << plus2(1, 2);
	for f in get t repeat stdout << " " << f 10;
	stdout << " " << get cell "s" << newline;
}
runB();
