#include "aldor"
#include "aldorio"

-- second unit of a pair (independent of unita.as)

Queue(T: Type): with {
	empty: () -> %;
	enqueue!: (%, T) -> %;
	dequeue!: % -> T;
	empty?: % -> Boolean;
} == add {
	Rep == Record(front: List T, back: List T);
	import from Rep, List T;
	empty(): % == per [empty, empty];
	enqueue!(q: %, t: T): % == { rep(q).back := cons(t, rep(q).back); q }
	empty?(q: %): Boolean == empty? rep(q).front and empty? rep(q).back;
	dequeue!(q: %): T == {
		if empty? rep(q).front then {
			rep(q).front := reverse rep(q).back;
			rep(q).back := empty;
		}
		t := first rep(q).front;
		rep(q).front := rest rep(q).front;
		t
	}
}

run(): () == {
	import from MachineInteger, Queue MachineInteger, Character, TextWriter;
	q := empty();
	for i in 1..5 repeat enqueue!(q, i * i);
	while not empty? q repeat stdout << dequeue! q << newline;
}
run();
