#include "aldor"
#include "aldorio"

-- batched group `boxes`, file 1: a parametrised domain instantiated over function types,
-- exported map-typed constants

Box(T: Type): with {
	box: T -> %;
	unbox: % -> T;
	swap!: (%, T) -> T;
} == add {
	Rep == Record(val: T);
	import from Rep;
	box(t: T): % == per [t];
	unbox(b: %): T == rep(b).val;
	swap!(b: %, t: T): T == { o := rep(b).val; rep(b).val := t; o }
}

MI ==> MachineInteger;

double: MI -> MI == (n: MI): MI +-> n + n;
compose: (MI -> MI, MI -> MI) -> (MI -> MI) == (f: MI -> MI, g: MI -> MI): (MI -> MI) +-> (n: MI): MI +-> f g n;
twice(f: MI -> MI): MI -> MI == compose(f, f);

runA(): () == {
	import from MI, Box(MI -> MI), Box((MI, MI) -> MI), Box(MI), Character, TextWriter;
	b: Box(MI -> MI) := box double;
	c: Box((MI, MI) -> MI) := box((x: MI, y: MI): MI +-> x * y + 1);
	stdout << (unbox b)(21) << " " << (unbox c)(6, 7) << newline;
	old := swap!(b, twice double);
	stdout << old 1 << " " << (unbox b)(1) << " " << unbox box 5 << newline;
}
runA();
