#include "aldor"
#include "aldorio"
#library BOXA "boxa.ao"
import from BOXA;

-- batched group `boxes`, file 3: instantiates the Box of boxa.ao over further map types and
-- uses the map-typed constants exported by boxa.ao

MI ==> MachineInteger;

Pair(S: Type, T: Type): with {
	pair: (S, T) -> %;
	first: % -> S;
	second: % -> T;
} == add {
	Rep == Record(a: S, b: T);
	import from Rep;
	pair(s: S, t: T): % == per [s, t];
	first(p: %): S == rep(p).a;
	second(p: %): T == rep(p).b;
}

runC(): () == {
	import from MI, Box(MI -> MI), Box(MI -> Boolean), Box(String -> MI), Pair(MI -> MI, String -> MI), String, Character, TextWriter, Boolean;
	b: Box(MI -> MI) := box twice double;
	p: Box(MI -> Boolean) := box((n: MI): Boolean +-> n > 3);
	s: Box(String -> MI) := box((x: String): MI +-> #x);
	q: Pair(MI -> MI, String -> MI) := pair(compose(double, unbox b), unbox s);
	stdout << (unbox b)(3) << " " << (unbox p)(4) << " " << (first q)(1) << " " << (second q)("four") << newline;
}
runC();
