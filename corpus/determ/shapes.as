#include "aldor"
#include "aldorio"

Shape: Category == with {
	area: % -> MachineInteger;
	perimeter: % -> MachineInteger;
	name: % -> String;
	scale: (%, MachineInteger) -> %;
	=: (%, %) -> Boolean;
	describe: (TextWriter, %) -> TextWriter;
	default {
		describe(w: TextWriter, s: %): TextWriter == {
			import from MachineInteger, String;
			w << name s << " area=" << area s << " perimeter=" << perimeter s;
		}
	}
}

Rect: Shape with {
	rect: (MachineInteger, MachineInteger) -> %;
	width: % -> MachineInteger;
	height: % -> MachineInteger;
} == add {
	Rep == Record(w: MachineInteger, h: MachineInteger);
	import from Rep, MachineInteger;
	rect(a: MachineInteger, b: MachineInteger): % == per [a, b];
	width(r: %): MachineInteger == rep(r).w;
	height(r: %): MachineInteger == rep(r).h;
	area(r: %): MachineInteger == width r * height r;
	perimeter(r: %): MachineInteger == 2 * (width r + height r);
	name(r: %): String == "rect";
	scale(r: %, k: MachineInteger): % == rect(k * width r, k * height r);
	(a: %) = (b: %): Boolean == width a = width b and height a = height b;
}

Square: Shape with {
	square: MachineInteger -> %;
	side: % -> MachineInteger;
} == add {
	Rep == MachineInteger;
	import from Rep;
	square(a: MachineInteger): % == per a;
	side(s: %): MachineInteger == rep s;
	area(s: %): MachineInteger == side s * side s;
	perimeter(s: %): MachineInteger == 4 * side s;
	name(s: %): String == "square";
	scale(s: %, k: MachineInteger): % == square(k * side s);
	(a: %) = (b: %): Boolean == side a = side b;
}

total(S: Shape, l: List S): MachineInteger == {
	import from MachineInteger, S;
	t: MachineInteger := 0;
	for s in l repeat t := t + area s;
	t
}

main(): () == {
	import from MachineInteger, Rect, Square, List Rect, List Square, TextWriter, Character, String;
	lr: List Rect := [rect(1, 2), rect(3, 4), scale(rect(1, 1), 5)];
	ls: List Square := [square 2, square 3];
	stdout << total(Rect, lr) << " " << total(Square, ls) << newline;
	for r in lr repeat describe(stdout, r) << newline;
	for s in ls repeat describe(stdout, s) << newline;
}

main();
