-- C09 sweep program: generators (suspended computations holding live state)
#include "aldor"
#include "aldorio"

import from MachineInteger;

upto(n: MachineInteger): Generator MachineInteger == generate {
	for i in 1..n repeat yield i;
}

squares(g: Generator MachineInteger): Generator MachineInteger == generate {
	for x in g repeat yield x * x;
}

pairs(n: MachineInteger): Generator Cross(MachineInteger, MachineInteger) == generate {
	for i in 1..n repeat for j in i..n repeat yield (i, j);
}

main(): () == {
	import from List MachineInteger;
	s: MachineInteger := 0;
	for x in squares upto 40 repeat s := s + x;
	stdout << "squares " << s << newline;
	c: MachineInteger := 0;
	for p in pairs 12 repeat { (i, j) := p; c := c + i * j; }
	stdout << "pairs " << c << newline;
	l: List MachineInteger := [x for x in squares upto 15];
	g := squares upto 1000;
	t: MachineInteger := 0;
	for x in g for k in 1..20 repeat {
		junk: List MachineInteger := [y for y in upto k];
		t := t + x + #junk;
	}
	stdout << "interleaved " << t << " " << #l << newline;
}

main();
