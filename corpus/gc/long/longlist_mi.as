-- C09 sweep program (long lists): live List MachineInteger of 10^5, 3*10^5 and 10^6 cells, built iteratively,
-- all three alive at once, summed after further allocation.  A list cell is (first, rest): the link is the
-- LAST word of the cell, which the collector follows without recursion.
#include "aldor"
#include "aldorio"

import from MachineInteger, List MachineInteger;

build(n: MachineInteger, seed: MachineInteger): List MachineInteger == {
	l: List MachineInteger := empty;
	i: MachineInteger := 0;
	while i < n repeat { l := cons((i + seed) rem 1013, l); i := i + 1 }
	l
}

total(l: List MachineInteger): MachineInteger == {
	s: MachineInteger := 0;
	while ~empty? l repeat { s := s + first l; l := rest l }
	s
}

main(): () == {
	a := build(100000, 1);
	b := build(300000, 2);
	c := build(1000000, 3);
	stdout << "1e5 " << total a << newline;
	stdout << "3e5 " << total b << newline;
	stdout << "1e6 " << total c << newline;
	junk := total build(100000, 4);
	stdout << "again " << junk << " " << total c << " " << #a << newline;
}

main();
