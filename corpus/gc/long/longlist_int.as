-- C09 sweep program (long lists): live List Integer of 10^5, 3*10^5 and 10^6 cells; every seventh element is
-- a stored big integer (a pointer-free piece behind the FIRST word of the cell), the link is the last word.
#include "aldor"
#include "aldorio"

import from MachineInteger, Integer, List Integer;

build(n: MachineInteger, big: Integer): List Integer == {
	l: List Integer := empty;
	i: MachineInteger := 0;
	while i < n repeat {
		x: Integer := (i rem 1013)::Integer;
		if i rem 7 = 0 then x := x + big;
		l := cons(x, l);
		i := i + 1
	}
	l
}

total(l: List Integer): Integer == {
	s: Integer := 0;
	while ~empty? l repeat { s := s + first l; l := rest l }
	s
}

main(): () == {
	big: Integer := 2^80 + 12345;
	a := build(100000, big);
	b := build(300000, big + 1);
	c := build(1000000, big + 2);
	stdout << "1e5 " << total a << newline;
	stdout << "3e5 " << total b << newline;
	stdout << "1e6 " << total c << newline;
	junk := total build(100000, big + 3);
	stdout << "again " << junk << " " << total c << " " << #a << newline;
}

main();
