-- C09 sweep program (long lists): live lists of records (10^5, 3*10^5, 10^6 cells); each cell's first word points
-- to its own two-field record, the link is the last word of the cell.
#include "aldor"
#include "aldorio"

import from MachineInteger;

Rec ==> Record(a: MachineInteger, b: MachineInteger);

build(n: MachineInteger, seed: MachineInteger): List Rec == {
	import from Rec;
	l: List Rec := empty;
	i: MachineInteger := 0;
	while i < n repeat { l := cons([i rem 1013, seed], l); i := i + 1 }
	l
}

total(l: List Rec): MachineInteger == {
	import from Rec;
	s: MachineInteger := 0;
	while ~empty? l repeat { r := first l; s := s + r.a + r.b; l := rest l }
	s
}

main(): () == {
	import from List Rec;
	a := build(100000, 1);
	b := build(300000, 2);
	c := build(1000000, 3);
	stdout << "1e5 " << total a << newline;
	stdout << "3e5 " << total b << newline;
	stdout << "1e6 " << total c << newline;
	junk := total build(100000, 4);
	stdout << "again " << junk << " " << total c << " " << #a << newline;
}

main();
