-- C09: a live chain of 400000 records linked through their FIRST field; the collector (stoGcMarkRange) recurses
-- once per record and overflows the C stack.  With -Wno-gc the program prints "deep 1200003 200000".
#include "aldor"
#include "aldorio"

import from MachineInteger;

Chain: with {
	empty: %;
	push: (MachineInteger, %) -> %;
	total: % -> MachineInteger;
} == add {
	Rep == Record(next: %, val: MachineInteger);
	import from Rep, Pointer;
	empty: % == nil$Pointer pretend %;
	push(v: MachineInteger, c: %): % == per [c, v];
	total(c: %): MachineInteger == {
		s: MachineInteger := 0;
		while ~(nil?(c pretend Pointer)$Pointer) repeat { s := s + rep(c).val; c := rep(c).next }
		s
	}
}

main(): () == {
	import from Chain, List MachineInteger;
	c: Chain := empty;
	for i in 1..400000 repeat c := push(i rem 7, c);
	-- allocate some garbage so that the collector runs while the chain is live
	junk: MachineInteger := 0;
	for k in 1..200 repeat { l: List MachineInteger := [i for i in 1..1000]; junk := junk + #l }
	stdout << "deep " << total c << " " << junk << newline;
}

main();
