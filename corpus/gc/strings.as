-- C09 sweep program: string concatenation and character arrays
#include "aldor"
#include "aldorio"

import from MachineInteger, String, Character;

times(s: String, n: MachineInteger): String == {
	r: String := "";
	for i in 1..n repeat r := r + s;
	r
}

main(): () == {
	import from List String;
	acc: String := "";
	parts: List String := empty;
	for i in 1..20 repeat {
		piece := times("ab", i) + "-";
		parts := cons(piece, parts);
		acc := acc + piece;
	}
	stdout << #acc << newline;
	stdout << acc << newline;
	n: MachineInteger := 0;
	for p in parts repeat n := n + #p;
	stdout << "parts " << n << newline;
	long := times("0123456789", 60);
	stdout << #long << " " << long.(#long - 1) << newline;
}

main();
