-- C09 sweep program (large blocks): 10 MB of live arrays, then single blocks of 200 KB, 600 KB, 1.2 MB, 5 MB and 20 MB (pointer-free and pointer arrays), with small allocations and dropped temporaries of the same sizes in between
#include "aldor"
#include "aldorio"

import from MachineInteger;

Rec ==> Record(a: MachineInteger, b: MachineInteger);

-- a pointer-free array of n words, touched sparsely (every 4099th word) and at both ends
ints(n: MachineInteger, seed: MachineInteger): Array MachineInteger == {
	v: Array MachineInteger := new(n, seed);
	i: MachineInteger := 0;
	while i < n repeat { v.i := (seed * 31 + i) rem 1009; i := i + 4099 }
	v(n - 1) := seed + 7;
	v
}

sumInts(v: Array MachineInteger): MachineInteger == {
	n := #v; s: MachineInteger := v(n - 1) + v(n quo 2);
	i: MachineInteger := 0;
	while i < n repeat { s := s + v.i; i := i + 4099 }
	s
}

-- an array of n pointers; fresh records hang off the low, middle and high indices only
ptrs(n: MachineInteger, tag: MachineInteger): Array Rec == {
	import from Rec;
	shared: Rec := [tag, 1];
	v: Array Rec := new(n, shared);
	for i in 0..2 repeat v.i := [tag + i, i];
	for i in (n quo 2 - 1)..(n quo 2 + 1) repeat v.i := [tag + i, 2 * i];
	for i in (n - 3)..(n - 1) repeat v.i := [tag + i, 3 * i];
	v
}

sumPtrs(v: Array Rec): MachineInteger == {
	import from Rec;
	n := #v; s: MachineInteger := 0;
	for i in 0..2 repeat s := s + v(i).a + v(i).b;
	for i in (n quo 2 - 1)..(n quo 2 + 1) repeat s := s + v(i).a + v(i).b;
	for i in (n - 3)..(n - 1) repeat s := s + v(i).a + v(i).b;
	s + v(n quo 3).a
}

-- small allocations: a list of k records, summed and dropped
small(k: MachineInteger): MachineInteger == {
	import from List Rec, Rec;
	l: List Rec := empty;
	for i in 1..k repeat l := cons([i, k], l);
	s: MachineInteger := 0;
	for r in l repeat s := s + r.a;
	s
}

main(): () == {
	import from List Array MachineInteger, List Array Rec;
	live: List Array MachineInteger := empty;
	for k in 1..40 repeat live := cons(ints(32768, k), live);
	kept: List Array Rec := empty;
	sizes: List MachineInteger := [25000, 75000, 150000, 625000, 2500000];
	for n in sizes repeat {
		p := ptrs(n, n rem 1000);
		w := ints(n, 5);
		t := small 300;
		junk := if n < 1000000 then sumInts ints(n, 9) + sumPtrs ptrs(n, 3) else sumPtrs ptrs(n quo 2, 3);
		stdout << n << ": " << sumPtrs p << " " << sumInts w << " " << junk << " " << t << newline;
		kept := cons(p, kept);
	}
	tot: MachineInteger := 0;
	for lv in live repeat tot := tot + sumInts lv;
	for q in kept repeat tot := tot + sumPtrs q;
	stdout << "live " << tot << " " << small 1000 << newline;
}

main();
