-- C09 sweep program (large blocks): 5 MB of live pointer arrays (40 arrays of 16384 pointers, a fresh record at every 512th index) that are summed at the end, and single pointer blocks of 200 KB and 1.2 MB allocated and dropped in between
#include "aldor"
#include "aldorio"

import from MachineInteger;

Rec ==> Record(a: MachineInteger, b: MachineInteger);

-- a pointer-free array of n words, touched sparsely (every 4099th word) and at both ends
ints(n: MachineInteger, seed: MachineInteger): Array MachineInteger == {
	v: Array MachineInteger := new(n, seed);
	i: MachineInteger := 0;
	while i < n repeat { v.i := (seed * 31 + i) rem 1009; i := i + 4099 }
	v(n - 1) := seed + 7;
	v
}

sumInts(v: Array MachineInteger): MachineInteger == {
	n := #v; s: MachineInteger := v(n - 1) + v(n quo 2);
	i: MachineInteger := 0;
	while i < n repeat { s := s + v.i; i := i + 4099 }
	s
}

-- an array of n pointers; fresh records hang off the low, middle and high indices only
ptrs(n: MachineInteger, tag: MachineInteger): Array Rec == {
	import from Rec;
	shared: Rec := [tag, 1];
	v: Array Rec := new(n, shared);
	for i in 0..2 repeat v.i := [tag + i, i];
	for i in (n quo 2 - 1)..(n quo 2 + 1) repeat v.i := [tag + i, 2 * i];
	for i in (n - 3)..(n - 1) repeat v.i := [tag + i, 3 * i];
	v
}

sumPtrs(v: Array Rec): MachineInteger == {
	import from Rec;
	n := #v; s: MachineInteger := 0;
	for i in 0..2 repeat s := s + v(i).a + v(i).b;
	for i in (n quo 2 - 1)..(n quo 2 + 1) repeat s := s + v(i).a + v(i).b;
	for i in (n - 3)..(n - 1) repeat s := s + v(i).a + v(i).b;
	s + v(n quo 3).a
}

-- small allocations: a list of k records, summed and dropped
small(k: MachineInteger): MachineInteger == {
	import from List Rec, Rec;
	l: List Rec := empty;
	for i in 1..k repeat l := cons([i, k], l);
	s: MachineInteger := 0;
	for r in l repeat s := s + r.a;
	s
}

dense(n: MachineInteger, tag: MachineInteger): Array Rec == {
	import from Rec;
	v: Array Rec := ptrs(n, tag);
	i: MachineInteger := 7;
	while i < n - 3 repeat { v.i := [tag, i]; i := i + 512 }
	v
}

sumDense(v: Array Rec): MachineInteger == {
	import from Rec;
	s := sumPtrs v; n := #v;
	i: MachineInteger := 7;
	while i < n - 3 repeat { s := s + v(i).a * 3 + v(i).b; i := i + 512 }
	s
}

main(): () == {
	import from List Array Rec;
	live: List Array Rec := empty;
	acc: MachineInteger := 0;
	for k in 1..40 repeat {
		live := cons(dense(16384, k), live);
		if k rem 8 = 0 then acc := acc + sumDense dense(25000, k) + sumDense dense(150000, k + 1) + small 200;
	}
	stdout << "temporaries " << acc << newline;
	tot: MachineInteger := 0;
	for v in live repeat tot := tot + sumDense v;
	stdout << "live " << tot << newline;
	big := dense(625000, 77);
	stdout << "big " << sumDense big << " " << small 500 << newline;
}

main();
