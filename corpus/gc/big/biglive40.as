-- C09 sweep program (large blocks): 40 MB of live arrays (160 x 256 KB), then pointer blocks of 5 MB and 20 MB whose records are summed after further allocation
#include "aldor"
#include "aldorio"

import from MachineInteger;

Rec ==> Record(a: MachineInteger, b: MachineInteger);

-- a pointer-free array of n words, touched sparsely (every 4099th word) and at both ends
ints(n: MachineInteger, seed: MachineInteger): Array MachineInteger == {
	v: Array MachineInteger := new(n, seed);
	i: MachineInteger := 0;
	while i < n repeat { v.i := (seed * 31 + i) rem 1009; i := i + 4099 }
	v(n - 1) := seed + 7;
	v
}

sumInts(v: Array MachineInteger): MachineInteger == {
	n := #v; s: MachineInteger := v(n - 1) + v(n quo 2);
	i: MachineInteger := 0;
	while i < n repeat { s := s + v.i; i := i + 4099 }
	s
}

-- an array of n pointers; fresh records hang off the low, middle and high indices only
ptrs(n: MachineInteger, tag: MachineInteger): Array Rec == {
	import from Rec;
	shared: Rec := [tag, 1];
	v: Array Rec := new(n, shared);
	for i in 0..2 repeat v.i := [tag + i, i];
	for i in (n quo 2 - 1)..(n quo 2 + 1) repeat v.i := [tag + i, 2 * i];
	for i in (n - 3)..(n - 1) repeat v.i := [tag + i, 3 * i];
	v
}

sumPtrs(v: Array Rec): MachineInteger == {
	import from Rec;
	n := #v; s: MachineInteger := 0;
	for i in 0..2 repeat s := s + v(i).a + v(i).b;
	for i in (n quo 2 - 1)..(n quo 2 + 1) repeat s := s + v(i).a + v(i).b;
	for i in (n - 3)..(n - 1) repeat s := s + v(i).a + v(i).b;
	s + v(n quo 3).a
}

-- small allocations: a list of k records, summed and dropped
small(k: MachineInteger): MachineInteger == {
	import from List Rec, Rec;
	l: List Rec := empty;
	for i in 1..k repeat l := cons([i, k], l);
	s: MachineInteger := 0;
	for r in l repeat s := s + r.a;
	s
}

main(): () == {
	import from List Array MachineInteger;
	live: List Array MachineInteger := empty;
	for k in 1..160 repeat live := cons(ints(32768, k), live);
	p5 := ptrs(625000, 5);
	t1 := small 2000;
	p20 := ptrs(2500000, 20);
	t2 := sumInts ints(625000, 3) + small 2000;
	stdout << "blocks " << sumPtrs p5 << " " << sumPtrs p20 << " " << t1 + t2 << newline;
	tot: MachineInteger := 0;
	for lv in live repeat tot := tot + sumInts lv;
	stdout << "live " << tot << " " << sumPtrs p5 + sumPtrs p20 << newline;
}

main();
