-- C09 sweep program (large blocks): strings of 128 KB to 2 MB built by doubling (pointer-free character arrays), kept in a list next to 4 MB of live arrays
#include "aldor"
#include "aldorio"

import from MachineInteger;

Rec ==> Record(a: MachineInteger, b: MachineInteger);

-- a pointer-free array of n words, touched sparsely (every 4099th word) and at both ends
ints(n: MachineInteger, seed: MachineInteger): Array MachineInteger == {
	v: Array MachineInteger := new(n, seed);
	i: MachineInteger := 0;
	while i < n repeat { v.i := (seed * 31 + i) rem 1009; i := i + 4099 }
	v(n - 1) := seed + 7;
	v
}

sumInts(v: Array MachineInteger): MachineInteger == {
	n := #v; s: MachineInteger := v(n - 1) + v(n quo 2);
	i: MachineInteger := 0;
	while i < n repeat { s := s + v.i; i := i + 4099 }
	s
}

-- an array of n pointers; fresh records hang off the low, middle and high indices only
ptrs(n: MachineInteger, tag: MachineInteger): Array Rec == {
	import from Rec;
	shared: Rec := [tag, 1];
	v: Array Rec := new(n, shared);
	for i in 0..2 repeat v.i := [tag + i, i];
	for i in (n quo 2 - 1)..(n quo 2 + 1) repeat v.i := [tag + i, 2 * i];
	for i in (n - 3)..(n - 1) repeat v.i := [tag + i, 3 * i];
	v
}

sumPtrs(v: Array Rec): MachineInteger == {
	import from Rec;
	n := #v; s: MachineInteger := 0;
	for i in 0..2 repeat s := s + v(i).a + v(i).b;
	for i in (n quo 2 - 1)..(n quo 2 + 1) repeat s := s + v(i).a + v(i).b;
	for i in (n - 3)..(n - 1) repeat s := s + v(i).a + v(i).b;
	s + v(n quo 3).a
}

-- small allocations: a list of k records, summed and dropped
small(k: MachineInteger): MachineInteger == {
	import from List Rec, Rec;
	l: List Rec := empty;
	for i in 1..k repeat l := cons([i, k], l);
	s: MachineInteger := 0;
	for r in l repeat s := s + r.a;
	s
}

main(): () == {
	import from String, Character, List String, List Array MachineInteger;
	live: List Array MachineInteger := empty;
	for k in 1..16 repeat live := cons(ints(32768, k), live);
	kept: List String := empty;
	s: String := "0123456789abcdefghijklmnopqrstuvwxyz-ABCDEFGHIJKLMNOPQRSTUVWXYZ+";
	while #s < 1200000 repeat {
		s := s + s;
		if #s > 100000 then { kept := cons(s, kept); stdout << #s << " " << s(#s - 2) << " " << small 100 << newline }
	}
	n: MachineInteger := 0;
	for t in kept repeat n := n + #t + (if t(#t quo 2) = char "0" then 1 else 2);
	tot: MachineInteger := 0;
	for lv in live repeat tot := tot + sumInts lv;
	stdout << "strings " << n << " live " << tot << newline;
}

main();
