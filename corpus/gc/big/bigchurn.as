-- C09 sweep program (large blocks): 6 MB live; rounds of large temporaries (600 KB, 1.2 MB, 5 MB) that are dropped, the pointer array of the previous round is summed again one round later; the heap fills, is collected and large requests are served from what was freed
#include "aldor"
#include "aldorio"

import from MachineInteger;

Rec ==> Record(a: MachineInteger, b: MachineInteger);

-- a pointer-free array of n words, touched sparsely (every 4099th word) and at both ends
ints(n: MachineInteger, seed: MachineInteger): Array MachineInteger == {
	v: Array MachineInteger := new(n, seed);
	i: MachineInteger := 0;
	while i < n repeat { v.i := (seed * 31 + i) rem 1009; i := i + 4099 }
	v(n - 1) := seed + 7;
	v
}

sumInts(v: Array MachineInteger): MachineInteger == {
	n := #v; s: MachineInteger := v(n - 1) + v(n quo 2);
	i: MachineInteger := 0;
	while i < n repeat { s := s + v.i; i := i + 4099 }
	s
}

-- an array of n pointers; fresh records hang off the low, middle and high indices only
ptrs(n: MachineInteger, tag: MachineInteger): Array Rec == {
	import from Rec;
	shared: Rec := [tag, 1];
	v: Array Rec := new(n, shared);
	for i in 0..2 repeat v.i := [tag + i, i];
	for i in (n quo 2 - 1)..(n quo 2 + 1) repeat v.i := [tag + i, 2 * i];
	for i in (n - 3)..(n - 1) repeat v.i := [tag + i, 3 * i];
	v
}

sumPtrs(v: Array Rec): MachineInteger == {
	import from Rec;
	n := #v; s: MachineInteger := 0;
	for i in 0..2 repeat s := s + v(i).a + v(i).b;
	for i in (n quo 2 - 1)..(n quo 2 + 1) repeat s := s + v(i).a + v(i).b;
	for i in (n - 3)..(n - 1) repeat s := s + v(i).a + v(i).b;
	s + v(n quo 3).a
}

-- small allocations: a list of k records, summed and dropped
small(k: MachineInteger): MachineInteger == {
	import from List Rec, Rec;
	l: List Rec := empty;
	for i in 1..k repeat l := cons([i, k], l);
	s: MachineInteger := 0;
	for r in l repeat s := s + r.a;
	s
}

main(): () == {
	import from List Array MachineInteger, List MachineInteger;
	live: List Array MachineInteger := empty;
	for k in 1..24 repeat live := cons(ints(32768, k), live);
	sizes: List MachineInteger := [75000, 150000, 625000];
	prev: Array Rec := ptrs(10, 1);
	check: MachineInteger := 0;
	for round in 1..5 repeat for n in sizes repeat {
		p := ptrs(n + round, round);
		w := ints(n - round, round);
		check := check + sumPtrs prev + sumInts w + small(50 + round);
		prev := p;
		if round rem 2 = 0 then live := cons(ints(32768, round), rest live);
	}
	stdout << "churn " << check << " " << sumPtrs prev << newline;
	tot: MachineInteger := 0;
	for lv in live repeat tot := tot + sumInts lv;
	stdout << "live " << tot << newline;
}

main();
