-- C09 sweep program (large blocks): an array of 200000 pointers each to its own record (about 7 MB in small pieces behind one 1.6 MB block), summed after large temporaries were allocated and dropped
#include "aldor"
#include "aldorio"

import from MachineInteger;

Rec ==> Record(a: MachineInteger, b: MachineInteger);

-- a pointer-free array of n words, touched sparsely (every 4099th word) and at both ends
ints(n: MachineInteger, seed: MachineInteger): Array MachineInteger == {
	v: Array MachineInteger := new(n, seed);
	i: MachineInteger := 0;
	while i < n repeat { v.i := (seed * 31 + i) rem 1009; i := i + 4099 }
	v(n - 1) := seed + 7;
	v
}

sumInts(v: Array MachineInteger): MachineInteger == {
	n := #v; s: MachineInteger := v(n - 1) + v(n quo 2);
	i: MachineInteger := 0;
	while i < n repeat { s := s + v.i; i := i + 4099 }
	s
}

-- an array of n pointers; fresh records hang off the low, middle and high indices only
ptrs(n: MachineInteger, tag: MachineInteger): Array Rec == {
	import from Rec;
	shared: Rec := [tag, 1];
	v: Array Rec := new(n, shared);
	for i in 0..2 repeat v.i := [tag + i, i];
	for i in (n quo 2 - 1)..(n quo 2 + 1) repeat v.i := [tag + i, 2 * i];
	for i in (n - 3)..(n - 1) repeat v.i := [tag + i, 3 * i];
	v
}

sumPtrs(v: Array Rec): MachineInteger == {
	import from Rec;
	n := #v; s: MachineInteger := 0;
	for i in 0..2 repeat s := s + v(i).a + v(i).b;
	for i in (n quo 2 - 1)..(n quo 2 + 1) repeat s := s + v(i).a + v(i).b;
	for i in (n - 3)..(n - 1) repeat s := s + v(i).a + v(i).b;
	s + v(n quo 3).a
}

-- small allocations: a list of k records, summed and dropped
small(k: MachineInteger): MachineInteger == {
	import from List Rec, Rec;
	l: List Rec := empty;
	for i in 1..k repeat l := cons([i, k], l);
	s: MachineInteger := 0;
	for r in l repeat s := s + r.a;
	s
}

main(): () == {
	import from Rec;
	n: MachineInteger := 200000;
	v: Array Rec := new(n, [0, 0]);
	for i in 0..n-1 repeat v.i := [i, i rem 7];
	t := sumInts ints(625000, 1) + sumPtrs ptrs(150000, 2) + small 300;
	s: MachineInteger := 0;
	for i in 0..n-1 repeat s := s + v(i).a + v(i).b;
	u := sumPtrs ptrs(2500000, 4);
	s2: MachineInteger := 0;
	for i in 0..n-1 repeat s2 := s2 + v(i).b;
	stdout << "recs " << s << " " << s2 << " " << t + u << newline;
}

main();
