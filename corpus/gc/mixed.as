-- C09 sweep program: records holding big integers, strings and closures at once
#include "aldor"
#include "aldorio"

import from MachineInteger, Integer, String;

Item ==> Record(id: MachineInteger, val: Integer, name: String, f: Integer -> Integer);

make(i: MachineInteger): Item == {
	import from Item;
	v: Integer := (i::Integer) ^ 20 + 1;
	[i, v, "item", (x: Integer): Integer +-> x + v]
}

main(): () == {
	import from Item, List Item;
	items: List Item := empty;
	for i: MachineInteger in 1..25 repeat {
		items := cons(make i, items);
		if i rem 5 = 0 then items := rest items;
	}
	acc: Integer := 0;
	for it in items repeat acc := (it.f)(acc) + (#(it.name))::Integer;
	stdout << "mixed " << #items << " " << acc << newline;
}

main();
