-- C09 sweep program: closures capturing variables, stored in lists and called later
#include "aldor"
#include "aldorio"

import from MachineInteger;

Fn ==> MachineInteger -> MachineInteger;

adder(n: MachineInteger): Fn == (x: MachineInteger): MachineInteger +-> x + n;

compose(f: Fn, g: Fn): Fn == (x: MachineInteger): MachineInteger +-> f g x;

counter(): () -> MachineInteger == {
	c: MachineInteger := 0;
	(): MachineInteger +-> { free c; c := c + 1; c }
}

main(): () == {
	import from List Fn;
	fs: List Fn := empty;
	for i in 1..30 repeat fs := cons(adder i, fs);
	h: Fn := adder 0;
	for f in fs repeat h := compose(f, h);
	stdout << "composed " << h 1 << newline;
	tick := counter();
	tock := counter();
	s: MachineInteger := 0;
	for i in 1..25 repeat {
		g := compose(adder(tick()), adder(i));
		s := s + g(tock());
	}
	stdout << "counters " << tick() << " " << tock() << " " << s << newline;
}

main();
