-- C09 sweep program: hash table with string values, growing, shrinking and being traversed
#include "aldor"
#include "aldorio"

import from MachineInteger, String;

main(): () == {
	import from HashTable(MachineInteger, String), Partial String;
	t: HashTable(MachineInteger, String) := table();
	for i in 1..60 repeat t.i := "v" + (if i rem 2 = 0 then "even" else "odd");
	for i in 1..60 repeat if i rem 3 = 0 then remove!(i, t);
	n: MachineInteger := 0;
	k: MachineInteger := 0;
	for i in 1..60 repeat {
		p := find(i, t);
		if ~failed? p then { n := n + #(retract p); k := k + i }
	}
	m: MachineInteger := 0;
	for key in keys t repeat m := m + key;
	stdout << "table " << n << " " << k << " " << m << newline;
}

main();
