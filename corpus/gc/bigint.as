-- C09 sweep program: big-integer factorials, powers and a sum of digits
#include "aldor"
#include "aldorio"

import from Integer, MachineInteger;

fact(n: MachineInteger): Integer == {
	r: Integer := 1;
	for i: MachineInteger in 1..n repeat r := r * (i::Integer);
	r
}

digits(n: Integer): MachineInteger == {
	s: MachineInteger := 0;
	while n > 0 repeat {
		(q, r) := divide(n, 10);
		s := s + machine r;
		n := q;
	}
	s
}

main(): () == {
	stdout << "25! = " << fact 25 << newline;
	f := fact 60;
	stdout << "digits(60!) = " << digits f << newline;
	p: Integer := 1;
	for i: MachineInteger in 1..40 repeat p := p * 1000003 + (i::Integer);
	stdout << "p mod 10^9 = " << p rem 1000000000 << newline;
	stdout << "gcd = " << gcd(fact 30, 2^70 * 3^5) << newline;
}

main();
