-- C09 sweep program: builds and drops large structures repeatedly while keeping a small live set
#include "aldor"
#include "aldorio"

import from MachineInteger, List MachineInteger, Array List MachineInteger;

chunk(n: MachineInteger, seed: MachineInteger): List MachineInteger == {
	l: List MachineInteger := empty;
	for i in 1..n repeat l := cons((seed + i) rem 17, l);
	l
}

sum(l: List MachineInteger): MachineInteger == {
	s: MachineInteger := 0;
	for x in l repeat s := s + x;
	s
}

main(): () == {
	live: Array List MachineInteger := new(4, empty);
	check: MachineInteger := 0;
	for round in 1..30 repeat {
		big := chunk(60, round);
		live(round rem 4) := chunk(5, round);
		check := check + sum big;
		for i in 0..3 repeat check := check + sum(live i);
	}
	stdout << "churn " << check << newline;
	for i in 0..3 repeat stdout << live i << newline;
}

main();
