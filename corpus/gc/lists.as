-- C09 sweep program: cons lists built, reversed, mapped and dropped
#include "aldor"
#include "aldorio"

import from MachineInteger, List MachineInteger;

build(n: MachineInteger): List MachineInteger == {
	l: List MachineInteger := empty;
	for i in 1..n repeat l := cons(i, l);
	l
}

sum(l: List MachineInteger): MachineInteger == {
	s: MachineInteger := 0;
	for x in l repeat s := s + x;
	s
}

main(): () == {
	tot: MachineInteger := 0;
	keep: List List MachineInteger := empty;
	for k in 1..12 repeat {
		l := build(20 + k);
		r := reverse l;
		m := [x * x for x in r];
		tot := tot + sum r + first l + sum m;
		if k rem 3 = 0 then keep := cons(m, keep);
	}
	stdout << "lists " << tot << newline;
	for kept in keep repeat stdout << #kept << " " << sum kept << newline;
}

main();
