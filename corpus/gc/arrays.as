-- C09 sweep program: arrays of arrays, resized and overwritten
#include "aldor"
#include "aldorio"

import from MachineInteger, Array MachineInteger, Array Array MachineInteger;

row(n: MachineInteger, seed: MachineInteger): Array MachineInteger == {
	a: Array MachineInteger := new(n, 0);
	for i in 0..n-1 repeat a.i := (seed * 31 + i * 7) rem 1009;
	a
}

main(): () == {
	grid: Array Array MachineInteger := new(10, row(1, 0));
	for round in 1..6 repeat {
		for i in 0..9 repeat grid.i := row(5 + i * 4 + round, round * 10 + i);
		s: MachineInteger := 0;
		for i in 0..9 repeat for x in grid.i repeat s := s + x;
		stdout << "round " << round << " sum " << s << newline;
	}
	big: Array MachineInteger := new(700, 3);
	for i in 0..699 repeat big.i := i * i rem 97;
	t: MachineInteger := 0;
	for x in big repeat t := t + x;
	stdout << "big " << t << " " << #big << newline;
}

main();
