-- C09 sweep program: a binary search tree of records, rebuilt several times
#include "aldor"
#include "aldorio"

import from MachineInteger;

Tree: with {
	leaf: %;
	insert: (%, MachineInteger) -> %;
	size: % -> MachineInteger;
	total: % -> MachineInteger;
	depth: % -> MachineInteger;
} == add {
	Rep == Record(l: %, key: MachineInteger, r: %);
	import from Rep, Pointer;
	leaf: % == nil$Pointer pretend %;
	leaf?(t: %): Boolean == nil?(t pretend Pointer)$Pointer;
	insert(t: %, k: MachineInteger): % == {
		leaf? t => per [leaf, k, leaf];
		rec := rep t;
		if k < rec.key then per [insert(rec.l, k), rec.key, rec.r]
		else per [rec.l, rec.key, insert(rec.r, k)];
	}
	size(t: %): MachineInteger == if leaf? t then 0 else 1 + size(rep(t).l) + size(rep(t).r);
	total(t: %): MachineInteger == if leaf? t then 0 else rep(t).key + total(rep(t).l) + total(rep(t).r);
	depth(t: %): MachineInteger == {
		leaf? t => 0;
		a := depth(rep(t).l); b := depth(rep(t).r);
		1 + (if a > b then a else b);
	}
}

main(): () == {
	import from Tree;
	for round in 1..4 repeat {
		t: Tree := leaf;
		x: MachineInteger := round;
		for i in 1..40 repeat {
			x := (x * 37 + 11) rem 211;
			t := insert(t, x);
		}
		stdout << "tree " << round << ": " << size t << " " << total t << " " << depth t << newline;
	}
}

main();
