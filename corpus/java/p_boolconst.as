-- Qs: 0 1 3 9
#include "aldor"
#include "aldorio"
import from Machine;
import { BoolFalse: () -> Bool; BoolTrue: () -> Bool; BoolNot: Bool -> Bool } from Builtin;
import from Boolean, String;
-- the builtin boolean constants themselves (rows BoolFalse / BoolTrue; exchanged before fix 6a82e63,
-- visible at -Q0 only because the peephole pass folds them from -Q1 on), hence the extra level 0
b: Bool := BoolFalse();
c: Bool := BoolTrue();
stdout << "false=" << (b::Boolean) << " true=" << (c::Boolean) << " not-false=" << (BoolNot(b)::Boolean) << newline;
stdout << (if c::Boolean then "then" else "else") << " " << (if b::Boolean then "then" else "else") << newline;
