#include "aldor"
#include "aldorio"
import from MachineInteger, String;
import from Array MachineInteger, PrimitiveArray MachineInteger;
-- arrays: creation, indexing from 0, update, iteration, sieve
a: Array MachineInteger := new(10, 0);
for i in 0..9 repeat a.i := i * i;
stdout << a << " " << #a << newline;
s: MachineInteger := 0;
for x in a repeat s := s + x;
stdout << "sum " << s << " a.3 " << a.3 << newline;
n: MachineInteger := 60;
sieve: Array MachineInteger := new(n + 1, 1);
sieve.0 := 0; sieve.1 := 0;
for i in 2..n repeat if sieve.i = 1 then { j := i * i; while j <= n repeat { sieve.j := 0; j := j + i } }
stdout << "primes ";
for i in 0..n repeat if sieve.i = 1 then stdout << i << " ";
stdout << newline;
p: PrimitiveArray MachineInteger := new 5;
for i in 0..4 repeat p.i := 10 - i;
stdout << "prim " << p.0 << " " << p.4 << newline;
b: Array MachineInteger := [5, 3, 8, 1];
stdout << b << " " << (b = b) << newline;
-- bubble sort
for i in 0..2 repeat for k in 0..(2 - i) repeat if b.k > b(k + 1) then { t := b.k; b.k := b(k + 1); b(k + 1) := t }
stdout << b << newline;
