#include "aldor"
#include "aldorio"
import from MachineInteger, String;
import from List MachineInteger;
-- generators: generate/yield, consumption by for, by hand with step!, parallel iteration
squares(n: MachineInteger): Generator MachineInteger == generate {
  for i in 1..n repeat yield i * i;
}
evens(g: Generator MachineInteger): Generator MachineInteger == generate {
  for x in g repeat if even? x then yield x;
}
for x in squares 8 repeat stdout << x << " ";
stdout << newline;
for x in evens squares 10 repeat stdout << x << " ";
stdout << newline;
for x in squares 4 for y in [10, 20, 30, 40, 50] repeat stdout << x + y << " ";
stdout << newline;
fibs(): Generator MachineInteger == generate {
  a: MachineInteger := 0; b: MachineInteger := 1;
  repeat { yield a; (a, b) := (b, a + b) }
}
for f in fibs() for i in 1..15 repeat stdout << f << " ";
stdout << newline;
l: List MachineInteger := [x for x in squares 6];
stdout << l << newline;
total: MachineInteger := 0;
for x in squares 100 while x < 500 repeat total := total + x;
stdout << "total " << total << newline;
