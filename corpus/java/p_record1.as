#include "aldor"
#include "aldorio"
import from MachineInteger, String, Boolean;
-- records: construction, field read/write, nesting, records in lists, aliasing
Point ==> Record(x: MachineInteger, y: MachineInteger);
Named ==> Record(name: String, at: Point, live: Boolean);
import from Point, Named, List Point;
p: Point := [3, 4];
stdout << p.x << "," << p.y << newline;
p.x := p.x + 10;
stdout << p.x << "," << p.y << newline;
q := p;
q.y := 0;
stdout << "alias " << p.y << newline;
(a, b) := explode p;
stdout << "explode " << a << " " << b << newline;
n: Named := ["origin", [0, 0], true];
n.at.x := 5;
n.name := n.name + "'";
stdout << n.name << " " << n.at.x << " " << n.at.y << " " << n.live << newline;
ps: List Point := [[i, i * i] for i in 1..5];
s: MachineInteger := 0;
for r in ps repeat s := s + r.x * r.y;
stdout << "sum " << s << newline;
norm1(r: Point): MachineInteger == abs(r.x) + abs(r.y);
stdout << "norm " << norm1 [-3, 4] << newline;
swap!(r: Point): () == { t := r.x; r.x := r.y; r.y := t }
swap! p;
stdout << p.x << "," << p.y << newline;
