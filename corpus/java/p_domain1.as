#include "aldor"
#include "aldorio"
import from MachineInteger, String;
-- a user domain with a record representation, exported operations and output
Frac: with {
  frac: (MachineInteger, MachineInteger) -> %;
  +: (%, %) -> %;
  *: (%, %) -> %;
  =: (%, %) -> Boolean;
  numer: % -> MachineInteger;
  denom: % -> MachineInteger;
  <<: (TextWriter, %) -> TextWriter;
} == add {
  Rep == Record(n: MachineInteger, d: MachineInteger);
  import from Rep;
  frac(a: MachineInteger, b: MachineInteger): % == {
    g := gcd(a, b);
    if b < 0 then g := -g;
    per [a quo g, b quo g]
  }
  numer(x: %): MachineInteger == rep(x).n;
  denom(x: %): MachineInteger == rep(x).d;
  (x: %) + (y: %): % == frac(numer x * denom y + numer y * denom x, denom x * denom y);
  (x: %) * (y: %): % == frac(numer x * numer y, denom x * denom y);
  (x: %) = (y: %): Boolean == numer x = numer y and denom x = denom y;
  (w: TextWriter) << (x: %): TextWriter == w << numer x << "/" << denom x;
}
import from Frac;
h := frac(1, 2); t := frac(1, 3);
stdout << h << " " << t << " " << h + t << " " << h * t << newline;
stdout << frac(6, -8) << " " << frac(-6, -8) << " " << (frac(2, 4) = h) << (h = t) << newline;
s := frac(0, 1);
for i in 1..10 repeat s := s + frac(1, i * (i + 1));
stdout << "telescope " << s << newline;
