#include "aldor"
#include "aldorio"
import from MachineInteger, String;
-- a parameterised domain and a category with a default
define Shape: Category == with {
  area: % -> MachineInteger;
  name: % -> String;
  describe: % -> String;
  default describe(s: %): String == name s + "!";
}
Sq: Shape with { sq: MachineInteger -> % } == add {
  Rep == MachineInteger;
  sq(n: MachineInteger): % == per n;
  area(s: %): MachineInteger == rep s * rep s;
  name(s: %): String == "square";
}
Rect: Shape with { rect: (MachineInteger, MachineInteger) -> % } == add {
  Rep == Record(w: MachineInteger, h: MachineInteger);
  import from Rep;
  rect(a: MachineInteger, b: MachineInteger): % == per [a, b];
  area(s: %): MachineInteger == rep(s).w * rep(s).h;
  name(s: %): String == "rect";
  describe(s: %): String == "a " + name s;
}
Stack(T: Type): with {
  new: () -> %;
  push!: (%, T) -> ();
  pop!: % -> T;
  depth: % -> MachineInteger;
} == add {
  Rep == Record(items: List T);
  import from Rep, List T;
  new(): % == per [empty];
  push!(s: %, x: T): () == rep(s).items := cons(x, rep(s).items);
  pop!(s: %): T == { x := first rep(s).items; rep(s).items := rest rep(s).items; x }
  depth(s: %): MachineInteger == #(rep(s).items);
}
total(S: Shape, l: List S): MachineInteger == {
  import from S; t: MachineInteger := 0;
  for s in l repeat t := t + area s;
  t
}
import from Sq, Rect, List Sq, List Rect;
stdout << area sq 7 << " " << describe sq 7 << " " << area rect(3, 5) << " " << describe rect(3, 5) << newline;
stdout << total(Sq, [sq i for i in 1..4]) << " " << total(Rect, [rect(i, i + 1) for i in 1..4]) << newline;
import from Stack MachineInteger, Stack String;
st: Stack MachineInteger := new();
for i in 1..5 repeat push!(st, i * 11);
stdout << depth st << " " << pop! st << " " << pop! st << " " << depth st << newline;
ss: Stack String := new();
push!(ss, "a"); push!(ss, "b");
stdout << pop! ss << pop! ss << " " << depth ss << newline;
