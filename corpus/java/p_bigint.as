#include "aldor"
#include "aldorio"
import from MachineInteger, Integer, String;
-- unbounded integers: factorial, powers, quo/rem/gcd, comparisons, conversion
fact(n: Integer): Integer == if n <= 1 then 1 else n * fact(n - 1);
stdout << "30! = " << fact 30 << newline;
p: Integer := 2^100;
stdout << "2^100 = " << p << " " << p - 1 << " " << -p << newline;
a: Integer := 123456789012345678901234567890;
b: Integer := 987654321098765432109876543210;
stdout << a + b << " " << b - a << " " << a - b << newline;
stdout << a * b << newline;
stdout << b quo a << " " << b rem a << " " << (-b) quo a << " " << (-b) rem a << newline;
stdout << "gcd " << gcd(a, b) << " " << gcd(fact 20, 2^70) << newline;
stdout << "cmp " << (a < b) << (a > b) << (a = a) << (a ~= b) << zero? (a - a) << newline;
stdout << "parity " << even? a << odd? a << even? (a + 1) << newline;
f0: Integer := 0; f1: Integer := 1;
for i: MachineInteger in 1..150 repeat (f0, f1) := (f1, f0 + f1);
stdout << "fib150 " << f0 << newline;
m: MachineInteger := 12345;
stdout << "conv " << (m::Integer) * (m::Integer) * (m::Integer) << " " << machine(a rem 1000000) << newline;
stdout << "small " << (3::Integer) + 4 << " " << (10::Integer)^18 << " " << (10::Integer)^19 << newline;
stdout << "shift " << shift(1::Integer, 80) << " " << shift(p, -90) << newline;
