#include "aldor"
#include "aldorio"
import from MachineInteger, Boolean, String;
-- booleans: and or not, short circuit with side effects, = and ~=
count: MachineInteger := 0;
tick(b: Boolean): Boolean == { free count; count := count + 1; b }
stdout << (true and false) << (true or false) << (not true) << (false = false) << (true ~= true) << newline;
r1 := tick false and tick true;
stdout << "and " << r1 << " ticks " << count << newline;
r2 := tick true or tick false;
stdout << "or " << r2 << " ticks " << count << newline;
r3 := tick true and tick true and tick false;
stdout << "and3 " << r3 << " ticks " << count << newline;
for a in 0..1 repeat for b in 0..1 repeat {
  p := a = 1; q := b = 1;
  stdout << p << q << ": " << (p and q) << (p or q) << (p = q) << (not p or q) << (if p then q else not q) << newline;
}
stdout << (if 3 < 4 and 4 < 5 then "chain" else "nochain") << newline;
