-- stale-jar-probe: yes
#include "aldor"
#include "aldorio"
import from MachineInteger;
-- one's complement and the least machine integer (rows SIntNot and SIntMin of the Java back end's
-- builtin table; both were wrong before the fixes 1dd83f4 / c26f86e).  Only width-independent facts
-- about `min` are printed: its value is -2^31 in Java and -2^63 on the other routes by construction.
a: MachineInteger := 5;
stdout << "not " << ~a << " " << ~(-1) << " " << ~0 << " " << ~(~a) << " " << ~1073741823 << newline;
for k in 0..10 repeat stdout << ~(k * k) << " ";
stdout << newline;
-- (`~` is not nested inside another operator here: see witness/parens.as)
m: MachineInteger := min;
stdout << "min<0 " << (m < 0) << " min=0 " << (m = 0) << " min<-1000000 " << (m < -1000000) << newline;
M: MachineInteger := max;
stdout << "max>0 " << (M > 0) << " max>1000000 " << (M > 1000000) << " odd " << odd? M << " even-min " << even? m << newline;
