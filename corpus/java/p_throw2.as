#include "aldor"
#include "aldorio"
import from MachineInteger, String;
import from List MachineInteger, List List MachineInteger;
-- a throw from inside nested calls and a generator; the functions declare what they throw
define EmptyErrType: Category == with;
EmptyErr: EmptyErrType == add;
safeFirst(l: List MachineInteger): MachineInteger throw EmptyErrType == {
  empty? l => throw EmptyErr;
  first l
}
sumFirsts(ls: List List MachineInteger): MachineInteger == {
  import from List List MachineInteger;
  t: MachineInteger := 0;
  for l in ls repeat { v := safeFirst l; t := t + v; stdout << "t=" << t << newline }
  t
}
r1 := sumFirsts [[1, 2], [3], [4, 5, 6]];
stdout << r1 << newline;
r2 := sumFirsts [[7], [], [8]];
stdout << r2 << newline;
stdout << "not reached" << newline;
