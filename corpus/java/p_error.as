#include "aldor"
#include "aldorio"
import from MachineInteger, String;
-- the library's `error`: message on the error stream, failure status, output so far kept
half(n: MachineInteger): MachineInteger == {
  odd? n => error "odd argument";
  n quo 2
}
stdout << half 10 << newline;
stdout << half 6 << newline;
h := half 3;
stdout << h << newline;
stdout << "not reached" << newline;
