#include "aldor"
#include "aldorio"
import from MachineInteger, String, Character;
-- strings: length, concatenation, indexing, comparison, iteration, substring
s: String := "hello";
t: String := "world";
u := s + ", " + t + "!";
stdout << u << " " << #u << newline;
stdout << "index " << s.1 << s.2 << s.5 << newline;
stdout << "cmp " << (s = t) << (s = "hello") << (s < t) << (t < s) << (s ~= t) << newline;
for c in s repeat stdout << c << ".";
stdout << newline;
n: MachineInteger := 0;
for c in u repeat if c = char "l" then n := n + 1;
stdout << "count l " << n << newline;
stdout << "sub " << substring(u, 1, 4) << "|" << substring(u, 8, 5) << "|" << newline;
stdout << "empty " << empty? "" << empty? s << " " << #"" << newline;
e: String := "";
for i in 1..5 repeat e := e + "ab";
stdout << e << " " << #e << newline;
stdout << "copy " << copy s << " " << (copy s = s) << newline;
