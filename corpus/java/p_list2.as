#include "aldor"
#include "aldorio"
import from MachineInteger, String;
import from List MachineInteger, List String, List List MachineInteger;
-- lists of strings and of lists, destructive updates
ws: List String := ["pear", "apple", "fig"];
stdout << ws << " " << #ws << newline;
for w in ws repeat stdout << w << ":" << #w << " ";
stdout << newline;
ll: List List MachineInteger := [[1, 2], [], [3], [4, 5, 6]];
stdout << ll << newline;
tot: MachineInteger := 0;
for l in ll repeat for x in l repeat tot := tot + x;
stdout << "total " << tot << " lens ";
for l in ll repeat stdout << #l << " ";
stdout << newline;
flat: List MachineInteger := empty;
for l in reverse ll repeat flat := append!(copy l, flat);
stdout << flat << newline;
a: List MachineInteger := [1, 2, 3, 4];
a.2 := 20;
setFirst!(a, 10);
stdout << a << newline;
b := copy a;
b.1 := 99;
stdout << a << " " << b << newline;
stdout << reverse! b << newline;
stdout << sort!([5, 3, 9, 1], (x: MachineInteger, y: MachineInteger): Boolean +-> x < y) << newline;
