#include "aldor"
#include "aldorio"
import from MachineInteger;
-- shifts with counts 0..30, bitwise and/or/xor, gcd/lcm, divide
x: MachineInteger := 12345;
for k in 0..16 repeat stdout << shift(x, k) << " ";
stdout << newline;
for k in 0..16 repeat stdout << shift(x, -k) << " ";
stdout << newline;
stdout << "neg shift " << shift(-12345, 3) << " " << shift(-12345, -3) << " " << shift(-1, -20) << newline;
stdout << "and " << (x /\ 255) << " or " << (x \/ 256) << " xor " << xor(x, 65535) << newline;
stdout << "bit ";
for k in 0..15 repeat stdout << (if bit?(x, k) then 1 else 0);
stdout << newline;
stdout << "gcd " << gcd(1071, 462) << " " << gcd(-12, 18) << " " << gcd(0, 5) << " lcm " << lcm(4, 6) << newline;
(q, r) := divide(100, 7);
stdout << "divide " << q << " " << r << newline;
(q, r) := divide(-100, 7);
stdout << "divide " << q << " " << r << newline;
stdout << "hash " << hash x << newline;
