#include "aldor"
#include "aldorio"
import from MachineInteger, String;
-- `never` (the halt builtin): output so far, then the failure status
pick(n: MachineInteger): String == {
  n = 1 => "one";
  n = 2 => "two";
  never
}
for i in 1..5 repeat { s := pick i; stdout << i << " " << s << newline }
stdout << "not reached" << newline;
