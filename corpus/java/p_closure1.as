#include "aldor"
#include "aldorio"
import from MachineInteger, String;
-- closures: capture by reference, counters, returned functions, functions in lists and records
adder(k: MachineInteger): MachineInteger -> MachineInteger == (x: MachineInteger): MachineInteger +-> x + k;
add5 := adder 5; add7 := adder 7;
stdout << add5 10 << " " << add7 10 << " " << add5 add7 1 << newline;
counter(): () -> MachineInteger == {
  n: MachineInteger := 0;
  (): MachineInteger +-> { free n; n := n + 1; n }
}
c1 := counter(); c2 := counter();
c1(); c1();
stdout << "c1 " << c1() << " c2 " << c2() << newline;
compose(f: MachineInteger -> MachineInteger, g: MachineInteger -> MachineInteger): MachineInteger -> MachineInteger ==
  (x: MachineInteger): MachineInteger +-> f g x;
twice(f: MachineInteger -> MachineInteger): MachineInteger -> MachineInteger == compose(f, f);
stdout << "compose " << (compose(add5, add7)) 1 << " " << (twice twice add5) 0 << newline;
F ==> MachineInteger -> MachineInteger;
import from List F;
fs: List F := [adder i for i in 1..4];
acc: MachineInteger := 0;
for f in fs repeat acc := f acc * 2;
stdout << "fold " << acc << newline;
total: MachineInteger := 0;
addTo(x: MachineInteger): () == { free total; total := total + x }
for i in 1..10 repeat addTo i;
stdout << "total " << total << newline;
R ==> Record(get: () -> MachineInteger, put: MachineInteger -> ());
import from R;
cell(init: MachineInteger): R == {
  v: MachineInteger := init;
  [(): MachineInteger +-> v, (x: MachineInteger): () +-> { free v; v := x }]
}
cl := cell 3;
(cl.put)(cl.get() * 14);
stdout << "cell " << cl.get() << newline;
