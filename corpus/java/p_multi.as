#include "aldor"
#include "aldorio"
import from MachineInteger, String;
-- multiple values, tuples, default-free overloading by type, conditional expressions, where-free locals
divmod(a: MachineInteger, b: MachineInteger): (MachineInteger, MachineInteger) == (a quo b, a rem b);
minmax(a: MachineInteger, b: MachineInteger, c: MachineInteger): (MachineInteger, MachineInteger) == {
  mn: MachineInteger := a; mx: MachineInteger := a;
  if b < mn then mn := b;
  if b > mx then mx := b;
  if c < mn then mn := c;
  if c > mx then mx := c;
  (mn, mx)
}
(q, r) := divmod(47, 5);
stdout << q << " " << r << newline;
(lo, hi) := minmax(7, -2, 19);
stdout << lo << " " << hi << newline;
x: MachineInteger := 3; y: MachineInteger := 9;
(x, y) := (y, x);
stdout << x << " " << y << newline;
show(n: MachineInteger): String == if n < 0 then "neg" else if n = 0 then "zero" else "pos";
show(s: String): String == "<" + s + ">";
stdout << show 5 << " " << show (-5) << " " << show 0 << " " << show "s" << " " << show show 1 << newline;
classify(n: MachineInteger): String == {
  n < 10 => "small";
  n < 100 => "medium";
  "large"
}
for v in [3, 30, 300] repeat stdout << classify v << " ";
stdout << newline;
sumTo(n: MachineInteger): MachineInteger == {
  acc: MachineInteger := 0;
  i: MachineInteger := 1;
  while i <= n repeat { acc := acc + i; i := i + 1 }
  acc
}
stdout << sumTo 100 << " " << sumTo 0 << newline;
import from List MachineInteger;
