-- Qs: 1 3 9
-- javacode.c prints a nested operator expression with parentheses only when the outer operator's
-- precedence is strictly greater than the inner one's (jc0NeedsParens: `c1->prec > c2->prec`), and its
-- class table gives `&`, `|`, `^` the same precedence 7 (Java: 7, 5, 6).  So a right operand of equal
-- precedence loses its parentheses: `x - (10 - y)` is emitted as `x - 10 - y`, `x - (y + 1)` as
-- `x - y + 1`, `x /\ ~y` as `x & y ^ -1`.  Needs a nested builtin call in the FOAM, i.e. -Q3 and a
-- literal or single-use operand (other operands go through temporaries).
#include "aldor"
#include "aldorio"
import from MachineInteger;
f(x: MachineInteger, y: MachineInteger): () == {
  stdout << "sub " << x - (10 - y) << " " << x - (y - 1) << " " << x - (y + 1) << newline;
  stdout << "bits " << (x /\ (y \/ 1)) << " " << (x /\ xor(y, 1)) << " " << (x /\ ~y) << newline;
}
f(100, 30);
f(255, 15);
