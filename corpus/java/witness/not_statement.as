-- witness: java|javac-not-a-statement
-- Q: 1
-- a boolean negation whose value is not used is emitted as the Java statement `!f(...).toBool();`,
-- which javac rejects ("not a statement").
#include "aldor"
#include "aldorio"
import from MachineInteger, Boolean, String;
f(x: Boolean, n: MachineInteger): Boolean == { stdout << "f " << n << newline; if n > 0 then f(x, n - 1) else x }
g(b: Boolean): () == { not f(b, 1); stdout << "g" << newline }
g true;
