-- witness: unsupported SIntLength (foamj.Math.length(int) is `throw new RuntimeException()`)
-- Q: 1
#include "aldor"
#include "aldorio"
import from MachineInteger;
a: MachineInteger := 5;
stdout << "len " << length a << newline;
