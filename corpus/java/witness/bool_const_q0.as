-- witness: jmap|BoolConst|spec32
-- Q: 0
-- gjBValInfoTable: {FOAM_BVal_BoolFalse, GJ_Keyword, 0, "true"}, {FOAM_BVal_BoolTrue, GJ_Keyword, 0, "false"}:
-- the two keywords are exchanged.  Only visible at -Q0: from -Q1 on the peephole pass replaces both
-- builtins by literals before the Java back end sees them.
#include "aldor"
#include "aldorio"
import from Machine;
import { BoolFalse: () -> Bool; BoolTrue: () -> Bool } from Builtin;
import from Boolean, String;
b: Bool := BoolFalse();
c: Bool := BoolTrue();
stdout << "false=" << (b::Boolean) << " true=" << (c::Boolean) << newline;
