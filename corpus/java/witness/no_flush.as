-- witness: java|stdout-not-flushed
-- Qs: 1 3 9
-- foamj.Foam.fputs/fputc write byte by byte to System.out and nothing flushes it at exit: text after
-- the last newline is lost when the class finishes (the interpreter and C print it).
#include "aldor"
#include "aldorio"
import from MachineInteger, String;
stdout << "a" << newline << "no newline at the end";
