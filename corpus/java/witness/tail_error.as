-- witness: java|stdout-not-flushed
-- Qs: 1 3 9
-- `error` after text without a final newline
#include "aldor"
#include "aldorio"
import from MachineInteger, String;
half(n: MachineInteger): MachineInteger == { odd? n => error "odd argument"; n quo 2 }
stdout << "first" << newline;
stdout << "half of 10 is " << half 10 << newline << "half of 7 is ";
h := half 7;
stdout << h << newline;
