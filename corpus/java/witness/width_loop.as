-- witness: width
-- Q: 1
-- FOAM SInt is a 64-bit long in the interpreter and in generated C, a 32-bit int in Java: beyond 31
-- bits the routes differ by construction (Props/C12.lean: routes_differ_outside_31bit).
#include "aldor"
#include "aldorio"
import from MachineInteger;
s: MachineInteger := 0;
for i in 10..1 by -1 repeat s := 10 * s + i;
stdout << "down " << s << newline;
m: MachineInteger := 2147483647;
stdout << "max+1 " << m + 1 << newline;
