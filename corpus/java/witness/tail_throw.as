-- witness: java|stdout-not-flushed
-- Qs: 1 3 9
-- an uncaught exception after text without a final newline: exactly that unterminated tail is lost
#include "aldor"
#include "aldorio"
import from MachineInteger, String;
define BadErrType: Category == with;
BadErr: BadErrType == add;
f(n: MachineInteger): MachineInteger == { if n > 2 then throw BadErr; n }
stdout << "line one" << newline << "line two" << newline;
stdout << "unterminated " << 42;
x := f 5;
stdout << x << newline;
