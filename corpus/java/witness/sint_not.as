-- witness: jmap|SIntNot|spec32
-- Q: 1
-- gjBValInfoTable: {FOAM_BVal_SIntNot, GJ_Op, JCO_OP_XOr, "0"} emits `a ^ 0` (the identity) for the
-- one's complement (Props/C12.lean: jmap_SIntNot_spec32_statement_refuted).
#include "aldor"
#include "aldorio"
import from MachineInteger;
a: MachineInteger := 5;
stdout << "not " << ~a << " " << ~(-1) << newline;
