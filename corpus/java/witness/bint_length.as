-- witness: java|BIntLength-zero-and-negative-powers
-- Q: 1
-- gjBValInfoTable: {FOAM_BVal_BIntLength, GJ_Meth, 0, "bitLength"} (after fix d12cda4): BigInteger.bitLength()
-- is the length of the two's-complement form without the sign bit: 0 for 0 and for -1, k for -2^k.
-- The builtin (bintLength) is the length of the magnitude: 1 for 0 and -1, k+1 for -2^k.
#include "aldor"
#include "aldorio"
import from MachineInteger, Integer, List Integer;
l: List Integer := [0, -1, -2, -4, -256, -(2^64), -(2^100)];
for x in l repeat stdout << x << " length " << length x << newline;
