-- witness: java|BIntLength-is-bitCount
-- Q: 1
-- gjBValInfoTable: {FOAM_BVal_BIntLength, GJ_Meth, 0, "bitCount"}: BigInteger.bitCount() is the
-- number of one bits, the builtin is the bit length (interpreter / C: 101 for 2^100, Java: 1).
#include "aldor"
#include "aldorio"
import from MachineInteger, Integer;
p: Integer := 2^100;
stdout << "length " << length p << " " << length(p - 1) << newline;
