-- witness: java|Globals.setGlobal-null
-- Q: 1
-- a file-level constant whose value is the empty list (a nil pointer) is stored with
-- foamj.Globals.setGlobal(name, null); Globals keeps a ConcurrentHashMap, which rejects null values:
-- NullPointerException before the program prints anything.
#include "aldor"
#include "aldorio"
import from MachineInteger, List MachineInteger;
e: List MachineInteger == empty;
stdout << "empty " << e << " " << #e << newline;
