-- witness: jmap|SIntMin|spec32
-- Q: 1
-- gjBValInfoTable: {FOAM_BVal_SIntMin, GJ_LitInt, 0, "0"}: the least machine integer is emitted as 0
-- (Java prints `min 0 T`; any correct width would print a negative number and F).
#include "aldor"
#include "aldorio"
import from MachineInteger;
m: MachineInteger := min;
stdout << "min<0 " << (m < 0) << " min=0 " << (m = 0) << newline;
