-- witness: java|stdout-not-flushed
-- Qs: 1 3 9
-- `never` after text without a final newline
#include "aldor"
#include "aldorio"
import from MachineInteger, String;
pick(n: MachineInteger): String == { n = 1 => "one"; never }
stdout << "a" << newline << "b" << newline << "tail without newline";
s := pick 3;
stdout << s << newline;
