-- witness: unsupported try/catch (the compiler stops with `Java not implemented: Tag: Catch`; aldor/test lists jcatch under badtests)
-- Q: 1
#include "aldor"
#include "aldorio"
import from MachineInteger, String;
define MyErrType: Category == with { code: () -> MachineInteger };
MyErr(n: MachineInteger): MyErrType == add { code(): MachineInteger == n };
f(n: MachineInteger): MachineInteger == { if n > 3 then throw MyErr(n); n + 1 }
g(n: MachineInteger): MachineInteger == try f n catch E in { E has MyErrType => -1; never }
stdout << g 2 << " " << g 7 << newline;
