#include "aldor"
#include "aldorio"
import from MachineInteger, String;
-- an exception that nobody catches: output up to the throw, then the failure status
define RangeErrType: Category == with { bound: () -> MachineInteger };
RangeErr(n: MachineInteger): RangeErrType == add { bound(): MachineInteger == n };
checked(n: MachineInteger): MachineInteger == {
  if n > 3 then throw RangeErr(n);
  n + 1
}
-- (the value is computed before the line is started: text after the last newline is lost by the
--  Java runtime when the class ends, see witness/no_flush.as)
for i in 1..10 repeat { v := checked i; stdout << "checked " << v << newline }
stdout << "not reached" << newline;
