#include "aldor"
#include "aldorio"
import from MachineInteger, String;
import from List MachineInteger;
-- higher-order functions over lists, closures capturing loop variables and each other
I ==> MachineInteger;
mapl(f: I -> I, l: List I): List I == [f x for x in l];
filterl(p: I -> Boolean, l: List I): List I == [x for x in l | p x];
foldl(f: (I, I) -> I, z: I, l: List I): I == { r: I := z; for x in l repeat r := f(r, x); r }
l: List I := [i for i in 1..10];
stdout << mapl((x: I): I +-> x * x + 1, l) << newline;
stdout << filterl((x: I): Boolean +-> x rem 3 = 1, l) << newline;
stdout << foldl((a: I, b: I): I +-> a + b, 0, l) << " " << foldl((a: I, b: I): I +-> a * b, 1, rest rest rest rest l) << newline;
mult(k: I): I -> I == (x: I): I +-> k * x;
import from List(I -> I);
fs: List(I -> I) := [mult k for k in 1..5];
stdout << [f 10 for f in fs] << newline;
thr: I := 4;
above := filterl((x: I): Boolean +-> x > thr, l);
thr := 8;
stdout << above << " " << filterl((x: I): Boolean +-> x > thr, l) << newline;
iter(f: I -> I, n: I): I -> I == (x: I): I +-> { y := x; for i in 1..n repeat y := f y; y }
stdout << (iter(mult 2, 10)) 1 << " " << (iter((x: I): I +-> x + 3, 7)) 0 << newline;
makeAcc(): (I -> I) == { s: I := 0; (x: I): I +-> { free s; s := s + x; s } }
acc := makeAcc();
for x in l repeat acc x;
stdout << "acc " << acc 0 << newline;
