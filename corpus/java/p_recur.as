#include "aldor"
#include "aldorio"
import from MachineInteger;
-- recursion, mutual recursion, local functions
fib(n: MachineInteger): MachineInteger == if n < 2 then n else fib(n - 1) + fib(n - 2);
ack(m: MachineInteger, n: MachineInteger): MachineInteger == {
  m = 0 => n + 1;
  n = 0 => ack(m - 1, 1);
  ack(m - 1, ack(m, n - 1))
}
isEven(n: MachineInteger): Boolean == if n = 0 then true else isOdd(n - 1);
isOdd(n: MachineInteger): Boolean == if n = 0 then false else isEven(n - 1);
binom(n: MachineInteger, k: MachineInteger): MachineInteger == {
  k = 0 or k = n => 1;
  binom(n - 1, k - 1) + binom(n - 1, k)
}
-- (a local recursive function that updates a captured variable makes -Q9 loop in the optimiser
--  on the unchanged tree, in every route; kept out of this family)
hanoi(k: MachineInteger, a: MachineInteger, b: MachineInteger, c: MachineInteger): MachineInteger == {
  k = 0 => 0;
  hanoi(k - 1, a, c, b) + 1 + hanoi(k - 1, c, b, a)
}
stdout << "fib ";
for i in 0..20 repeat stdout << fib i << " ";
stdout << newline;
stdout << "ack " << ack(2, 3) << " " << ack(3, 3) << newline;
stdout << "parity " << isEven 10 << isOdd 10 << isEven 7 << isOdd 7 << newline;
stdout << "binom ";
for k in 0..10 repeat stdout << binom(10, k) << " ";
stdout << newline;
stdout << "hanoi " << hanoi(10, 1, 2, 3) << newline;
