#include "aldor"
#include "aldorio"
import from MachineInteger;
-- integer arithmetic within 31 bits: + - * quo rem mod, signs, comparisons
a: MachineInteger := 46340;
b: MachineInteger := -46340;
c: MachineInteger := 1073741823;
stdout << "sum " << a + b << " " << c + c + 1 << " " << a - b << newline;
stdout << "prod " << a * a << " " << a * b << " " << (-a) * b << newline;
stdout << "quo " << 17 quo 5 << " " << (-17) quo 5 << " " << 17 quo (-5) << " " << (-17) quo (-5) << newline;
stdout << "rem " << 17 rem 5 << " " << (-17) rem 5 << " " << 17 rem (-5) << " " << (-17) rem (-5) << newline;
stdout << "mod " << 17 mod 5 << " " << (-17) mod 5 << " " << c mod 1000 << newline;
stdout << "cmp " << (a < b) << (a > b) << (a <= a) << (a >= c) << (a = a) << (a ~= b) << newline;
stdout << "minmax " << min(a, b) << " " << max(a, b) << " " << abs b << " " << sign b << newline;
stdout << "pred " << zero? 0 << zero? a << odd? a << even? a << odd? (-3) << even? (-3) << newline;
stdout << "next " << next a << " " << prev b << " " << -c << newline;
stdout << "pow " << 2^30 << " " << 3^19 << " " << (-2)^31 << " " << 7^0 << newline;
