#include "aldor"
#include "aldorio"
import from MachineInteger, String, Character;
-- characters: ord/char, classification, case, comparison
c: Character := char "a";
stdout << c << " " << ord c << " " << char 66 << " " << ord char "Z" << newline;
stdout << "class " << letter? c << digit? c << digit? char "7" << space? char " " << letter? char "3" << newline;
stdout << "case " << upper c << lower char "Q" << upper char "3" << newline;
stdout << "cmp " << (c < char "b") << (c = char "a") << (char "A" < c) << (c ~= c) << newline;
s: String := "Hello, World 42";
up: MachineInteger := 0; dg: MachineInteger := 0;
for ch in s repeat { if ch = upper ch and letter? ch then up := up + 1; if digit? ch then dg := dg + 1 }
stdout << "upper " << up << " digits " << dg << newline;
for ch in s repeat stdout << upper ch;
stdout << newline;
t: MachineInteger := 0;
for ch in "12345" repeat t := 10 * t + (ord ch - ord char "0");
stdout << "atoi " << t << newline;
for i in 97..122 by 5 repeat stdout << char i;
stdout << newline;
