#include "aldor"
#include "aldorio"
import from MachineInteger;
-- while / for / break / iterate / nested loops / steps
s: MachineInteger := 0;
for i in 1..100 repeat s := s + i;
stdout << "sum " << s << newline;
s := 0;
for i in 1..100 by 7 repeat s := s + i;
stdout << "by7 " << s << newline;
s := 0;
for i in 9..1 by -1 repeat s := 10 * s + i;
stdout << "down " << s << newline;
n: MachineInteger := 27; steps: MachineInteger := 0;
while n ~= 1 repeat {
  n := if even? n then n quo 2 else 3 * n + 1;
  steps := steps + 1;
}
stdout << "collatz " << steps << newline;
for i in 1..20 repeat {
  if i rem 3 = 0 then iterate;
  if i > 14 then break;
  stdout << i << " ";
}
stdout << newline;
for i in 1..4 repeat {
  for j in 1..i repeat stdout << i * j << " ";
  stdout << newline;
}
k: MachineInteger := 0;
repeat { k := k + 1; if k * k > 200 then break }
stdout << "isqrt " << k << newline;
for i in 1..5 for j in 10..20 repeat stdout << i + j << " ";
stdout << newline;
for i in 1..30 | i rem 7 = 1 repeat stdout << i << " ";
stdout << newline;
