-- stale-jar-probe: yes
#include "aldor"
#include "aldorio"
import from MachineInteger, Integer, List Integer;
-- bit length of big integers (row BIntLength; was BigInteger.bitCount before fix d12cda4).
-- Positive numbers and negative numbers that are not powers of two; zero and -2^k are in
-- witness/bint_length.as (BigInteger.bitLength differs from bintLength there).
p: Integer := 2^100;
l: List Integer := [p, p - 1, p + 1, -p - 1, -p + 1, 1, 2, 3, -3, 4, 5, -5, 255, -255, 256, 257, -257, 2^64, 2^64 - 1, 2^31, 2^32 + 1, -(2^64) - 1];
for x in l repeat stdout << x << " length " << length x << newline;
