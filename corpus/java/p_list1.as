#include "aldor"
#include "aldorio"
import from MachineInteger, String;
import from List MachineInteger;
-- lists: literals, cons, first/rest, #, reverse, append, membership, iteration, map/reduce by hand
l: List MachineInteger := [3, 1, 4, 1, 5, 9, 2, 6];
stdout << l << " " << #l << newline;
stdout << first l << " " << rest l << " " << first rest rest l << newline;
stdout << reverse l << newline;
stdout << cons(0, l) << " " << append!(copy l, [7, 7]) << " " << append!(copy l, 8) << newline;
stdout << "member " << member?(9, l) << member?(8, l) << " empty " << empty? l << empty? (empty$List(MachineInteger)) << newline;
s: MachineInteger := 0; m: MachineInteger := first l;
for x in l repeat { s := s + x; if x > m then m := x }
stdout << "sum " << s << " max " << m << newline;
sq: List MachineInteger := [x * x for x in l];
stdout << sq << newline;
ev: List MachineInteger := [x for x in l | even? x];
stdout << ev << newline;
r: List MachineInteger := empty;
for i in 1..6 repeat r := cons(i * i, r);
stdout << r << " " << l.3 << " " << r.6 << newline;
-- (iterative on purpose: a recursive helper called from a loop inside a function makes -Q9 loop in
--  the optimiser on the unchanged tree, in every route)
isort(a: List MachineInteger): List MachineInteger == {
  res: List MachineInteger := empty;
  for x in a repeat {
    front: List MachineInteger := empty; back := res;
    while not empty? back and first back < x repeat { front := cons(first back, front); back := rest back }
    res := append!(reverse! front, cons(x, back));
  }
  res
}
stdout << "sorted " << isort l << newline;
stdout << "eq " << (l = l) << (l = reverse l) << ([1, 2] = [1, 2]) << newline;
