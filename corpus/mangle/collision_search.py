import itertools, sys
P=0x39AA3F9
def strhash(s):
    h=0
    for ch in s.encode():
        h ^= (h<<8)
        h += ch+200041
        h &= 0x3FFFFFFF
    return h
pre="f_"; stem="sharedPrefixOfTwoExports"; tail="_218754658"
seen={}
import string
n=0
for suf in itertools.product(string.ascii_lowercase, repeat=4):
    name=stem+"".join(suf).capitalize()
    full=pre+name+tail
    r=strhash(full)%P
    n+=1
    if r in seen:
        print(n, seen[r], name, r, strhash(pre+seen[r]+tail), strhash(full))
        break
    seen[r]=name
