-- a callee assigns to its own parameter and to the caller's variable of the same name; by-value parameters
#include "aldor"
#include "aldorio"
import from MachineInteger;

x: MachineInteger := 10;
shadow(x: MachineInteger): MachineInteger == { x := x + 1; x * 2 }
viaGlobal(y: MachineInteger): MachineInteger == { free x := x + y; y := y + x; y }
swapish(a: MachineInteger, b: MachineInteger): MachineInteger == { free x := b; a - x }

main(): () == {
	free x;
	r1 := shadow(x);
	stdout << r1 << " " << x << newline;         -- 22 10
	r2 := viaGlobal(x);
	stdout << r2 << " " << x << newline;         -- 30 20
	r3 := swapish(x, x + 5);
	stdout << r3 << " " << x << newline;         -- -5 25
	r4 := viaGlobal(shadow(x));
	stdout << r4 << " " << x << newline;
}
main();
