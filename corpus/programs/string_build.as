-- string building, characters
#include "aldor"
#include "aldorio"
import from MachineInteger, String, Character, List String;

repeatStr(s: String, n: MachineInteger): String == { r: String := ""; for i in 1..n repeat r := r + s; r }
join(l: List String, sep: String): String == {
	r: String := ""; f: Boolean := true;
	for s in l repeat { if not f then r := r + sep; r := r + s; f := false }
	r
}
rev(s: String): String == { r: String := new(#s); n := #s; for i in 0..n-1 repeat r.i := s(n - 1 - i); r }
countc(s: String, c: Character): MachineInteger == { k: MachineInteger := 0; for x in s repeat if x = c then k := k + 1; k }

stdout << repeatStr("ab", 4) << " " << #repeatStr("xyz", 5) << newline;
stdout << join(["one", "two", "three"], ", ") << newline;
stdout << rev "stressed" << " " << countc("mississippi", char "s") << newline;
stdout << upper char "q" << lower char "Q" << " " << ord char "A" << " " << char 66 << " " << digit?(char "7") << letter?(char "7") << newline;
s: String := "hello";
t := copy s;
t.0 := char "j";
stdout << s << " " << t << " " << (s = t) << (s = "hello") << (s < t) << newline;
stdout << "n=" + "42" << " " << substring("abcdefgh", 2, 3) << newline;
