-- exceptions: throw/catch across calls, dispatch on the exception's category
#include "aldor"
#include "aldorio"
import from MachineInteger, String;

define OddExceptionType: Category == with;
OddException: OddExceptionType == add;
define BigExceptionType: Category == with;
BigException: BigExceptionType == add;

half(n: MachineInteger): MachineInteger == {
	n rem 2 ~= 0 => throw OddException;
	n > 1000 => throw BigException;
	n quo 2
}
chain(n: MachineInteger): MachineInteger == half half half n;

attempt(n: MachineInteger): () == {
	try {
		r := chain n;
		stdout << n << " -> " << r << newline;
	} catch E in {
		E has OddExceptionType => stdout << n << " odd" << newline;
		E has BigExceptionType => stdout << n << " too big" << newline;
		never;
	}
}
attempt 64;
attempt 20;
attempt 7;
attempt 4000;
