-- the exception variable of a `catch` is captured by a closure in the handler (it becomes a lexical: the
-- Catch's multiple assignment then has a non-local target)
#include "aldor"
#include "aldorio"
import from MachineInteger, String;
define ExType: Category == with { val: () -> MachineInteger };
Ex(pv: MachineInteger): ExType == add { val(): MachineInteger == pv };
f(n: MachineInteger): MachineInteger == {
	try {
		if n > 0 then throw Ex(n);
		0
	} catch E in {
		E has ExType => {
			g: () -> MachineInteger := (): MachineInteger +-> val()$E + 1;
			g()
		}
		never
	}
}
stdout << f 0 << " " << f 41 << newline;
