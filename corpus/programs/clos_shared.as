-- two closures sharing one mutable cell; closures stored in a record; accumulator generator
#include "aldor"
#include "aldorio"
import from MachineInteger, String;
Cell ==> Record(v: MachineInteger);
Acct ==> Record(deposit: MachineInteger -> (), withdraw: MachineInteger -> Boolean, balance: () -> MachineInteger);
import from Cell, Acct;

open(initial: MachineInteger): Acct == {
	c: Cell := [initial];
	[(x: MachineInteger): () +-> { c.v := c.v + x },
	 (x: MachineInteger): Boolean +-> { x > c.v => false; c.v := c.v - x; true },
	 (): MachineInteger +-> c.v]
}
a := open 100;
b := open 5;
(a.deposit)(50);
ok1 := (a.withdraw)(30);
ok2 := (b.withdraw)(30);
(b.deposit)((a.balance)());
stdout << (a.balance)() << " " << (b.balance)() << " " << ok1 << ok2 << newline;

mkAcc(): MachineInteger -> MachineInteger == {
	total: MachineInteger := 0;
	(x: MachineInteger): MachineInteger +-> { free total := total + x; total }
}
acc := mkAcc();
for i in 1..5 repeat stdout << acc i << " ";
stdout << newline;
acc2 := mkAcc();
stdout << acc2 10 << " " << acc 10 << newline;
