-- chains of conditionals, nested if/else as expressions, boolean-valued helper functions in tests
#include "aldor"
#include "aldorio"
import from MachineInteger, String, List MachineInteger, List Boolean;

between?(lo: MachineInteger, x: MachineInteger, hi: MachineInteger): Boolean == lo <= x and x <= hi;
grade(n: MachineInteger): String == {
	if n < 0 or n > 100 then "invalid"
	else if n >= 90 then "A"
	else if n >= 80 then "B"
	else if between?(50, n, 79) then (if n rem 2 = 0 then "C+" else "C-")
	else "F"
}
sgn(n: MachineInteger): MachineInteger == if n > 0 then 1 else if n < 0 then -1 else 0;
fizz(n: MachineInteger): String == {
	n rem 15 = 0 => "fizzbuzz";
	n rem 5 = 0 => "buzz";
	n rem 3 = 0 => "fizz";
	"."
}
weird(a: Boolean, b: Boolean, c: Boolean): MachineInteger == {
	r: MachineInteger := 0;
	if a then { if b then r := r + 1 else r := r + 2 } else if c then r := r + 4;
	if not a and not c then r := r + 8;
	if a = b then r := r + 16;
	r
}
for n in [-5, 0, 49, 50, 63, 79, 80, 95, 101] repeat stdout << grade n << " ";
stdout << newline;
for n in [-3, 0, 12] repeat stdout << sgn n << " ";
stdout << newline;
for n in 1..15 repeat stdout << fizz n;
stdout << newline;
for a in [false, true] repeat for b in [false, true] repeat for c in [false, true] repeat stdout << weird(a, b, c) << " ";
stdout << newline;
