-- big integers: factorial, powers, fibonacci, division, gcd
#include "aldor"
#include "aldorio"
import from Integer;
e100: MachineInteger == 100; e50: MachineInteger == 50; e64: MachineInteger == 64; e70: MachineInteger == 70; e110: MachineInteger == 110;

pw(b: Integer, e: MachineInteger): Integer == b^e;
fact(n: Integer): Integer == if n <= 1 then 1 else n * fact(n - 1);
fibI(n: Integer): Integer == { a: Integer := 0; b: Integer := 1; for i in 1..n repeat (a, b) := (b, a + b); a }
say(x: Integer): () == stdout << x << newline;
sayb(x: Boolean): () == stdout << x << newline;

say fact 30;
say pw(2, e100);
say fibI 200;
say(fact 25 quo fact 20); say(fact 20 rem 1000003);
say gcd(fact 20, pw(2, e70)); say gcd(fibI 60, fibI 45);
say((pw(2, e64) - 1) * (pw(2, e64) + 1)); say(-pw(3, e50));
sayb(fact 30 > pw(2, e100)); sayb(fact 30 < pw(2, e110)); sayb(pw(2, e100) = pw(4, e50));
say((-7) quo 2); say((-7) rem 2); say(7 quo (-2)); say((-7) mod 2);
big: Integer := shift(1, e70);
small: Integer := shift(pw(2, e70), -e64);
say big; say small;
sayb bit?(pw(2, e100), e100); sayb bit?(pw(2, e100), e50);
