--* From chicha@scl.csd.uwo.ca  Sat Sep 29 15:32:00 2001
--* Received: from welly-2.star.net.uk (welly-2.star.net.uk [195.216.16.189])
--* 	by nag.co.uk (8.9.3/8.9.3) with SMTP id PAA28427
--* 	for <ax-bugs@nag.co.uk>; Sat, 29 Sep 2001 15:31:59 +0100 (BST)
--* From: chicha@scl.csd.uwo.ca
--* Received: (qmail 8274 invoked by uid 1001); 29 Sep 2001 14:31:30 -0000
--* Received: from 1.star-private-mail-12.star.net.uk (HELO smtp-in-1.star.net.uk) (10.200.12.1)
--*   by delivery-2.star-private-mail-4.star.net.uk with SMTP; 29 Sep 2001 14:31:30 -0000
--* Received: (qmail 25517 invoked from network); 29 Sep 2001 14:31:29 -0000
--* Received: from mail17.messagelabs.com (62.231.131.67)
--*   by smtp-in-1.star.net.uk with SMTP; 29 Sep 2001 14:31:29 -0000
--* X-VirusChecked: Checked
--* Received: (qmail 9642 invoked from network); 29 Sep 2001 14:28:33 -0000
--* Received: from ptibonum.scl.csd.uwo.ca (129.100.16.102)
--*   by server-14.tower-17.messagelabs.com with SMTP; 29 Sep 2001 14:28:33 -0000
--* Message-Id: <200109291431.f8TEVR524059@plutonium.scl.csd.uwo.ca>
--* Date: Sat, 29 Sep 2001 10:31:27 -0400
--* To: ax-bugs@nag.co.uk
--* Subject: [9] Test for the new bug server @aldor.org

--@ Fixed  by: <Who> <Date>
--@ Tested by: <Name of new or existing file in test directory>
--@ Summary:   <Description of real problem and the fix>

-- Command line: aldor -fx -laldor titi.as
-- Version: 1.0.0(7)
-- Original bug file name: /scl/people/chicha/titi.as

#include "aldor"
#include "aldorio"

import from DoubleFloat;
stdout << max$DoubleFloat << newline;

