-- nested generators and generators with captured state
#include "aldor"
#include "aldorio"
import from MachineInteger, List MachineInteger;

pairs(n: MachineInteger): Generator MachineInteger == generate {
	for i in 1..n repeat for j in i..n repeat yield 10 * i + j;
}
counter(start: MachineInteger, step: MachineInteger): Generator MachineInteger == generate {
	c := start;
	repeat { yield c; c := c + step }
}
zipsum(a: Generator MachineInteger, b: Generator MachineInteger): Generator MachineInteger == generate {
	for x in a for y in b repeat yield x + y;
}
running(g: Generator MachineInteger): Generator MachineInteger == {
	total: MachineInteger := 0;
	generate { for x in g repeat { total := total + x; yield total } }
}

stdout << [p for p in pairs 3] << newline;
stdout << [z for z in zipsum(pairs 3, counter(100, 100))] << newline;
stdout << [r for r in running(x for x in 1..8)] << newline;
stdout << [r for r in running(pairs 2)] << newline;
