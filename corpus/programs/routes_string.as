-- strings: building, comparing, slicing, character access, conversion of numbers to text
#include "aldor"
#include "aldorio"
import from MachineInteger, String, Character, List MachineInteger;
s: String := "The quick brown fox";
t: String := "jumps over the lazy dog";
u := s + " " + t;
stdout << u << " #" << #u << newline;
stdout << upper u << newline << lower u << newline;
stdout << substring(u, 4, 5) << "|" << substring(u, 35) << "|" << newline;
stdout << (s < t) << (t < s) << (s = s) << (s = copy s) << ("abc" < "abd") << ("abc" < "ab") << newline;
cnt: MachineInteger := 0;
for c in u repeat if c = char "o" then cnt := cnt + 1;
stdout << "o: " << cnt << " first " << u.0 << " last " << u(#u - 1) << newline;
r: String := new(#s);
for i in 0..#s-1 repeat r.i := s(#s - 1 - i);
stdout << r << newline;
w: String := copy s;
w.0 := char "t"; w.4 := upper(w.4);
stdout << w << " " << s << newline;
pad(n: MachineInteger, width: MachineInteger): String == {
	import from TextWriter, StringBuffer;
	b: StringBuffer := new();
	(b::TextWriter) << n;
	str := string b;
	while #str < width repeat str := " " + str;
	str;
}
for k in [1, -22, 333, -4444, 55555] repeat stdout << "[" << pad(k, 7) << "]";
stdout << newline;
h: MachineInteger := 5381;
for c in u repeat h := (h * 33 + ord c) rem 1000000007;
stdout << "djb " << h << newline;
stdout << "empty " << #"" << " " << ("" = "") << " " << ("" < "a") << newline;
stdout << leftTrim("   padded  ", space) << "|" << rightTrim("   padded  ", space) << "|" << newline;
acc: String := "";
for i in 1..12 repeat acc := acc + (if i rem 3 = 0 then "Fizz" else "x");
stdout << acc << newline;
stdout << "tab[" << tab << "] quote[" << char 34 << "] backslash[" << char 92 << "]" << newline;
