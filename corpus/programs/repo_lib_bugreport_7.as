-- Author: Ralf Hemmecke, Johannes Kepler Universit"at Linz
-- EMail: ralf@hemmecke.de
-- Date: 15-Jun-2005
-- Aldor version 1.0.2 for LINUX(glibc2.3)
-- Subject: Modifying constant 1

-- Compile with
-- aldor -grun -mno-mactext -laldor xxx.as
-- The output is
--: 1 = [1, 1]
--: z = [8, 100]
--: 1 = [8, 100]

-- The problem is that the implementation of BinaryPowering contains 
-- the lines
-- binaryExponentiation!(a:T, b:Z):T	== binPow!(1, a, b);
-- if T has CopyableType and Z has CopyableType then {
--	binaryExponentiation(a:T, b:Z):T == binPow!(1, copy a, copy b);
-- }
-- and binPow! builds on the function times!$T. So if times!$T 
-- destroys its first argument, then the constant 1 is modified.

-- A bugfix would be to replace "1" by "copy 1" in the second case. 
-- For the first appearance of "1" this would not be possible since
-- T might not be of CopyableType.

#include "aldor"
#include "aldorio"

macro {
	I == MachineInteger;
	X == rep x;
	Y == rep y;
}
MyInt: IntegerType == add {
	Rep == Record(eins: I, zwei: I);
	import from Rep, I;

	-- let's have a really destructive times! function
	times!(x: %, y: %): % == {
		X.eins := times!(X.eins, Y.eins);
		X.zwei := 100;
		x;
	}

	-- make some good definitions for the necessary functions
	0: % == per [0, 0];
	1: % == per [1, 1];
	(x: %) = (y: %): Boolean == X.eins = Y.eins;
	(x: %) < (y: %): Boolean == X.eins < Y.eins;
	(x: %) + (y: %): % == per [X.eins + Y.eins, 2];
	(x: %) * (y: %): % == per [X.eins * Y.eins, 3];
	(x: %) quo (y: %): % == per [X.eins quo Y.eins, 4];
	(x: %) rem (y: %): % == per [X.eins rem Y.eins, 5];
	- (x: %): % == per [- X.eins, 14];
	~ (x: %): % == - x;
	(x: %) \/ (y: %): % == x + y;
	(x: %) /\ (y: %): % == x * y;
	(x: %) ^ (i: I): % == {
		z := x;
		for j in 2..i repeat z := z*x;
		z;
	}
	<<(tr: TextReader): %   == {i: I := <<tr; per [i, 15];}
	<<(br: BinaryReader): % == {i: I := <<br; per [i, 16];}
	(tw: TextWriter)   << (x: %): TextWriter   == {
		tw << "[" << X.eins << ", " << X.zwei << "]";
	}
	(bw: BinaryWriter) << (x: %): BinaryWriter == bw << X.eins;
	bit?(x: %, i: I): Boolean == bit?(X.eins, i);
	coerce(i: I): % == per [i, 7];
	machine(x: %): I == X.eins;
	gcd(x: %, y: %): % == per [gcd(X.eins, Y.eins), 6];
	divide(x: %, y: %): (%, %) == {
		(a, b) := divide(X.eins, Y.eins);
		(per [a, 1], per [b, 2]);
	}
	integer(l: Literal): % == per [integer l, 7];
	length(x: %): I == length(X.eins);
	nthRoot(x: %, y: %): (Boolean, %) == {
		(b, i) := nthRoot(X.eins, Y.eins);
		(b, per [i, 8]);
	}
	random(): % == per [random(), 9];
	random(i: I): % == per [random i, 10];
	shift(x: %, i: I): % == per [shift(X.eins, i), 11];
	
}

main(): () == {
	import from MyInt, I;
	import from BinaryPowering(MyInt, I);

	x: MyInt := 2;
	stdout << "1 = " << 1@MyInt << newline;
	z := binaryExponentiation!(2, 3);
	stdout << "z = " << z << newline;
	stdout << "1 = " << 1@MyInt << newline;
}

main();