-- unused results of side-effecting calls, dead assignments, variables assigned twice
#include "aldor"
#include "aldorio"
import from MachineInteger, String;
Cell ==> Record(v: MachineInteger);
import from Cell;

log: Cell := [0];
noisy(n: MachineInteger): MachineInteger == { log.v := log.v + 1; stdout << "noisy " << n << newline; n * n }
quiet(n: MachineInteger): MachineInteger == n + 1;
main(): () == {
	unused := noisy 3;
	dead: MachineInteger := quiet 10;
	dead := noisy 4;
	dead := 0;
	noisy 5;
	t := noisy 6 * 0;
	stdout << "t " << t << newline;
	u := 0 * noisy 7;
	stdout << "u " << u << newline;
	w := noisy 8 - noisy 8;
	stdout << "w " << w << newline;
	flag := noisy 1 = noisy 1;
	stdout << "flag " << flag << " log " << log.v << newline;
	if false then noisy 99;
	if noisy 2 > 100 then stdout << "big" << newline;
	stdout << "log " << log.v << newline;
}
main();
