-- floating point: arithmetic and the text produced by the runtime's formatting code
#include "aldor"
#include "aldorio"
import from MachineInteger, DoubleFloat, SingleFloat;
x: DoubleFloat := 1.5;
y: DoubleFloat := 0.1;
stdout << "x " << x << " y " << y << newline;
stdout << "sum " << x + y << " prod " << x * y << " quo " << x / y << newline;
acc: DoubleFloat := 0.0;
for i in 1..10 repeat acc := acc + y;
stdout << "ten tenths " << acc << " eq1 " << (acc = 1.0) << newline;
third: DoubleFloat := 1.0 / 3.0;
stdout << "third " << third << " " << third * 3.0 << newline;
big: DoubleFloat := 1.0e300;
stdout << "big " << big << " " << big * 10.0 << newline;
tiny: DoubleFloat := 1.0e-300;
stdout << "tiny " << tiny << " " << tiny / 1.0e10 << newline;
stdout << "neg " << (- x) << " " << (y - x) << newline;
stdout << "cmp " << (x < y) << (y < x) << (x = x) << newline;
stdout << "frac " << fraction(x) << newline;
h: DoubleFloat := 1.0;
for i in 1..60 repeat h := h / 2.0;
stdout << "2^-60 " << h << newline;
e: DoubleFloat := 1.0; term: DoubleFloat := 1.0;
e: DoubleFloat := 1.0; term: DoubleFloat := 1.0;
for i in 1..20 repeat { term := term / (i::DoubleFloat); e := e + term; }
stdout << "e " << e << newline;
