#include "aldor.as"
#include "aldorio.as"

-- intfact.as contains Aldor code for checking primality and performing
-- factorisations
--
-- Copyright (C) 2003 	Bill Naylor
--
-- This library is free software; you can redistribute it and/or
-- modify it under the terms of the GNU Lesser General Public
-- License as published by the Free Software Foundation; either
-- version 2.1 of the License, or (at your option) any later version.
--
-- This library is distributed in the hope that it will be useful,
-- but WITHOUT ANY WARRANTY; without even the implied warranty of
-- MERCHANTABILITY or FITNESS FOR A PARTICULAR PURPOSE.  See the GNU
-- Lesser General Public License for more details.
--
-- You should have received a copy of the GNU Lesser General Public
-- License along with this library; if not, write to the Free Software
-- Foundation, Inc., 59 Temple Place, Suite 330, Boston, MA  02111-1307  USA
-- You may contact the author at e-mail: bill@mcs.vuw.ac.nz 

I ==> Integer;
MI ==> MachineInteger;

import from String;

+++ Author: Michael Monagan
+++ Date Created: August 1987
+++ Date Last Updated: 31 May 1993
+++ Updated by: James Davenport
+++ Updated Because: of problems with strong pseudo-primes
+++   and for some efficiency reasons.
+++ converted for aldor by Bill Naylor 1st May 2003
+++ Basic Operations:
+++ Related Domains:
+++ Also See:
+++ AMS Classifications:
+++ Keywords: integer, prime
+++ Examples:
+++ References: Davenport's paper in ISSAC 1992
+++             AXIOM Technical Report ATR/6
+++ Description:
+++   The \spadtype{IntegerPrimesPackage} implements a modification of
+++   Rabin's probabilistic
+++   primality test and the utility functions \spadfun{nextPrime},
+++   \spadfun{prevPrime} and \spadfun{primes}.
IntegerPrimesPackage: with {
   prime?: I -> Boolean;
     ++ \spad{prime?(n)} returns true if n is prime and false if not.
     ++ The algorithm used is Rabin's probabilistic primality test
     ++ (reference: Knuth Volume 2 Semi Numerical Algorithms).
     ++ If \spad{prime? n} returns false, n is proven composite.
     ++ If \spad{prime? n} returns true, prime? may be in error
     ++ however, the probability of error is very low.
     ++ and is zero below 25*10**9 (due to a result of Pomerance et al),
     ++ below 10**12 and 10**13 due to results of Pinch,
     ++ and below 341550071728321 due to a result of Jaeschke.
     ++ Specifically, this implementation does at least 10 pseudo prime
     ++ tests and so the probability of error is \spad{< 4**(-10)}.
     ++ The running time of this method is cubic in the length
     ++ of the input n, that is \spad{O( (log n)**3 )}, for n<10**20.
     ++ beyond that, the algorithm is quartic, \spad{O( (log n)**4 )}.
     ++ Two improvements due to Davenport have been incorporated
     ++ which catches some trivial strong pseudo-primes, such as
     ++ [Jaeschke, 1991] 1377161253229053 * 413148375987157, which
     ++ the original algorithm regards as prime
   nextPrime: I -> I;
     ++ \spad{nextPrime(n)} returns the smallest prime strictly larger than n
   prevPrime: I -> I;
     ++ \spad{prevPrime(n)} returns the largest prime strictly smaller than n
   primes: (I,I) -> List(I);
     ++ \spad{primes(a,b)} returns a list of all primes p with
     ++ \spad{a <= p <= b}
} == add {
   import from MachineInteger;
   smallPrimes: List(I) := [2,3,5,7,11,13,17,19,_
                      23,29,31,37,41,43,47,_
                      53,59,61,67,71,73,79,_
                      83,89,97,101,103,107,109,_
                      113,127,131,137,139,149,151,_
                      157,163,167,173,179,181,191,_
                      193,197,199,211,223,227,229,_
                      233,239,241,251,257,263,269,_
                      271,277,281,283,293,307,311,_
                      313];

   productSmallPrimes:I  := 61076929465933196099278943388997855150356143888238371488665496574810764573680243467182799164806563626522181311132959748531230210;
   nextSmallPrime:I      := 317;
   nextSmallPrimeSquared:I := nextSmallPrime^2;
   two:I                 := 2;
   tenPowerTwenty:I :=(10)^20;
   PomeranceList:List(I):= [25326001, 161304001, 960946321, 1157839381,
                     -- 3215031751, -- has a factor of 151
                     3697278427, 5764643587, 6770862367,
                      14386156093, 15579919981, 18459366157,
                       19887974881, 21276028621 ];
   PomeranceLimit:I :=27716349961;  -- replaces (25*10^9) due to Pinch
   PinchList:List(I) := [3215031751, 118670087467, 128282461501, 354864744877,
                546348519181, 602248359169, 669094855201 ];
   PinchLimit:I := (10^12);
   PinchList2:List(I) := [2152302898747, 3474749660383];
   PinchLimit2:I := (10^13);
   JaeschkeLimit:I :=341550071728321;
   count2Order:Array(I) := [0];
   default rootsMinus1:List I := [];
   -- used to check whether we observe an element of maximal two-order

   primes(m:I, n:I):List(I) == {
      -- computes primes from m to n inclusive using prime?
      local l:List(I);
      if m<=two then l := [two] else l := [];
      n < two or n < m => [];
      if even? m then m := m + 1;
      ll:List(I) := [k for k in m..n by 2 | prime?(k)];
      reverse append!(ll, l)
   }

  prem(a:I,b:I):I == {
    r := a rem b;
    if r<0 then -r else r
  }

  mulmod(x:I,y:I,p:I):I == {
    (x*y) mod p;
  }

  squaremod(x:I,p:I):I == {
    (x*x) mod p;
  }

  powmod(x:I,n:I,p:I):I == {
    import from MachineInteger;
    if x<0 then x2 := prem(x,p);
    zero? x2 => 0;zero? n => 1;
    y:I := 1;z := x mod p;n2 := n;
    repeat {
      if odd? n2 then y := mulmod(y,z,p);
      n2 := shift(n2,-1);
      if zero?(n2) then return y;
      z := squaremod(z,p);
    }
  }

   rabinProvesCompositeSmall(p:I,n:I,nm1:I,q:I,k:I):Boolean == {
         -- probability n prime is > 3/4 for each iteration
         -- for most n this probability is much greater than 3/4
         t := powmod(p, q, n);
         -- neither of these cases tells us anything
         if not (one? t or t = nm1) then {
            for j in 1..k-1 repeat {
               oldt := t;
               t := squaremod(t, n);
               one? t => return true;
               -- we have squared something not -1 and got 1
               t = nm1 => break;}
            not (t = nm1) => return true
         }
         false
   }

   union(l:List(I),i:I):List(I) == {
     not(member?(i,l)) => cons(i,l);
     l
   }

   rabinProvesComposite(p:I,n:I,nm1:I,q:I,k:I):Boolean == {
         free rootsMinus1,count2Order;
         -- probability n prime is > 3/4 for each iteration
         -- for most n this probability is much greater than 3/4
         t := powmod(p, q, n);
         -- neither of these cases tells us anything
         if t=nm1 then count2Order.0:=(count2Order.0)+1;
         if not (one? t or t = nm1) then {
            for j in 1..k-1 repeat {
               oldt := t;
               t := squaremod(t, n);
               one? t => return true;
               -- we have squared something not -1 and got 1
               if t = nm1 then {
                   rootsMinus1:=union(rootsMinus1,oldt);
                   count2Order.(machine j):=count2Order.(machine j)+1;
                   break
               }
            }
            not (t = nm1) => return true
         }
         #rootsMinus1 > 2 => true;  -- Z/nZ can't be a field
         false
  }

   prime?(n:I):Boolean == {
      free rootsMinus1,count2Order;

      -- used to check whether we detect too many roots of -1
      import from IntegerRoots;
      inline from IntegerRoots,I,Boolean;
      if n < two then return false;
      if n < nextSmallPrime then return member?(n, smallPrimes);
      if not one? gcd(n, productSmallPrimes) then return false;
      if n < nextSmallPrimeSquared then return true;

      default k:I;
      nm1 := n-1;
      q := nm1 quo two;
      for k2 in 1@I..  repeat {if odd? q then {k := k2;break}; q := q quo two}
      -- q = (n-1) quo 2^k for largest possible k
      if n < JaeschkeLimit then {
          if rabinProvesCompositeSmall(2,n,nm1,q,k) then return false;
          if rabinProvesCompositeSmall(3,n,nm1,q,k) then return false;

          if n < PomeranceLimit then {
              if rabinProvesCompositeSmall(5,n,nm1,q,k) then return false;
              if member?(n,PomeranceList) then return false;
              return true
          }

          if rabinProvesCompositeSmall(7,n,nm1,q,k) then return false;
          n < PinchLimit => {
              if rabinProvesCompositeSmall(10,n,nm1,q,k) then return false;
              if member?(n,PinchList) then return false;
              return true
          }

          if rabinProvesCompositeSmall(5,n,nm1,q,k) then return false;
          if rabinProvesCompositeSmall(11,n,nm1,q,k) then return false;
          if n < PinchLimit2 then {
              if member?(n,PinchList2) then return false;
              return true
          }

          if rabinProvesCompositeSmall(13,n,nm1,q,k) then return false;
          if rabinProvesCompositeSmall(17,n,nm1,q,k) then return false;
          return true
      }

      rootsMinus1:= [];
      count2Order := new(machine k,0); -- vector of k zeroes

      mn:MachineInteger := firstIndex$List(I);
      for i in (mn+1)..(mn+10) repeat {
          if rabinProvesComposite(smallPrimes.i,n,nm1,q,k) then {
            return false;
          } else {
          }
      }
      if q > 1 and perfectSquare?(3*n+1) then return false;
      n9:=n rem 9;
      if (n9=1 or n9 = -1) and perfectSquare?(8*n+1) then return false;
      -- Both previous tests from Damgard & Landrock
      currPrime:=smallPrimes.10;
      probablySafe:=tenPowerTwenty;
      while count2Order.(machine k-1) = 0 or n > probablySafe repeat {
          currPrime := nextPrime currPrime;
          probablySafe:=probablySafe*100;
          rabinProvesComposite(currPrime,n,nm1,q,k) => return false;
      }
      true
   }

   nextPrime(n:I):I == {
      -- computes the first prime after n
      n < two => two;
      if odd? n then n := n + two else n := n + 1;
      while not prime? n repeat n := n + two;
      n
   }

   prevPrime(n:I):I == {
      -- computes the first prime before n
      n < 3 => error "no primes less than 2";
      n = 3 => two;
      if odd? n then n := n - two else n := n - 1;
      while not prime? n repeat n := n - two;
      n
   }
}

IntegerRoots: with {
    perfectNthPower?: (I, I) -> Boolean;
      ++ \spad{perfectNthPower?(n,r)} returns true if n is an \spad{r}th
      ++ power and false otherwise
    perfectNthRoot: (I,I) -> Union(i:I,failed:'failed');
      ++ \spad{perfectNthRoot(n,r)} returns the \spad{r}th root of n if n
      ++ is an \spad{r}th power and returns "failed" otherwise
    perfectNthRoot: I -> Record(base:I, exponent:I);
      ++ \spad{perfectNthRoot(n)} returns \spad{[x,r]}, where \spad{n = x\^r}
      ++ and r is the largest integer such that n is a perfect \spad{r}th power
    approxNthRoot: (I,I) -> I;
      ++ \spad{approxRoot(n,r)} returns an approximation x
      ++ to \spad{n**(1/r)} such that \spad{-1 < x - n**(1/r) < 1}
    perfectSquare?: I -> Boolean;
      ++ \spad{perfectSquare?(n)} returns true if n is a perfect square
      ++ and false otherwise
    perfectSqrt: I -> Union(i:I,failed:'failed');
      ++ \spad{perfectSqrt(n)} returns the square root of n if n is a
      ++ perfect square and returns "failed" otherwise
    approxSqrt: I -> I;
      ++ \spad{approxSqrt(n)} returns an approximation x
      ++ to \spad{sqrt(n)} such that \spad{-1 < x - sqrt(n) < 1}.
      ++ Compute an approximation s to \spad{sqrt(n)} such that
      ++           \spad{-1 < s - sqrt(n) < 1}
      ++ A variable precision Newton iteration is used.
      ++ The running time is \spad{O( log(n)**2 )}.
} == add {
    import from I,Union(i:I,failed:'failed');
    inline from I,Union(i:I,failed:'failed'),MachineInteger;
    resMod144: List I := [0,1,4,9,16,25,36,49,52,64,73,81,97,100,112,121];
    two:I := 2;
    twomach:MachineInteger := 2;
 
    perfectSquare?(a:I):Boolean       == (perfectSqrt a) case i;
    perfectNthPower?(b:I, n:I):Boolean == perfectNthRoot(b, n) case i;


    perfectNthRoot(n:I):Record(base:I, exponent:I) ==  {-- complexity (log log n)**2 (log n)**2
      import from IntegerPrimesPackage;
      local m2:MI;
      one? n or zero? n or n = -1 => [n, 1];
      e:I := 1;
      p:I := 2;
      while machine(p) <= length(n) + 1 repeat {
         for m in 0@MI.. repeat {
            if (r := perfectNthRoot(n, p)) case failed then {
              m2 := m;break;
            }
            n := r.i;
         }
         e := e * p ^ m2;
         p := nextPrime(p);
      }
      [n, e]
    }

    approxNthRoot(a:I, n:I):I == {  -- complexity (log log n) (log n)**2
--      zero? n => error "invalid arguments";
      one? n => a;
      n=2 => approxSqrt a;
      a<0 => {
        odd? n => - approxNthRoot(-a, n);
        0
      }
      zero? a => 0;
      one? a => 1;
      -- quick check for case of large n
      default l:MI;
      machine((3*n) quo 2) >= (l := length(a)) => two;
      -- the initial approximation must be >= the root
      y:I := max(two, shift(1, machine((n+l::I-1) quo n)));
      z:I := 1;
      n1:I := n-1;n1m:MachineInteger := machine(n1);
      while z > 0 repeat {
        x := y;
        xn := x^n1m;
--        y := (n1*x*xn+a) quo (n*xn);
        nxn := n*xn;y := ((nxn-xn)*x + a) quo nxn;
        z := x-y
      }
      x;
    }

    perfectNthRoot(b:I, n:I):Union(i:I,failed:'failed') == {
      (r := approxNthRoot(b, n))^machine(n) = b => [r];
      [failed]
    }

    perfectSqrt(a:I):Union(i:I,failed:'failed') == {
      a < 0 or not member?(a rem 144, resMod144) => [failed];
      (s := approxSqrt a) * s = a => [s];
      [failed]
    }

    approxSqrt(a:I):I == {
      import from MI;
      local new,old:I;
      a < 1 => 0;
      if (n := length a) > 100 then {
         -- variable precision newton iteration
         n := n quo 4;
         s := approxSqrt shift(a, -2 *  n);
         s := shift(s,  n);
         return ((1 + s + a quo s) quo two)
      }
      -- initial approximation for the root is within a factor of 2
      (new, old) := (shift(1, n quo twomach), 1);
      while new ~= old repeat {
         (new, old) := ((1 + new + a quo new) quo two, new)
      }
      new
   }
}



B      ==> Boolean;
FF     ==> Record(unt:I,fct:List(FFE));
NNI    ==> NonNegativeInteger;
LMI    ==> ListMultiDictionary I;
FFE    ==> Record(flg:Union(nil:'nil',sqfr:'sqfr',irred:'irred',prime:'prime'),
                                                   fctr:I, xpnt:Integer);

--% IntegerFactorizationPackage
-- recoded MBM Nov/87

+++ This Package contains basic methods for integer factorization.
+++ The factor operation employs trial division up to 10,000.  It
+++ then tests to see if n is a perfect power before using Pollards
+++ rho method.  Because Pollards method may fail, the result
+++ of factor may contain composite factors.  We should also employ
+++ Lenstra's eliptic curve method.
IntegerFactorizationPackage: with {
    factor : I -> FF;
      ++ factor(n) returns the full factorization of integer n
    squareFree   : I -> FF;
      ++ squareFree(n) returns the square free factorization of integer n
    BasicMethod : I -> FF;
      ++ BasicMethod(n) returns the factorization
      ++ of integer n by trial division
    PollardSmallFactor: I -> Union(i:I,failed:'failed');

       ++ PollardSmallFactor(n) returns a factor
       ++ of n or "failed" if no one is found
} == add {
    import from IntegerRoots;
    inline from IntegerRoots,FF,List(FFE),FFE;

    makeFR(u:I,y:List(FFE)):FF == [u,y];

    factorList(u:FF):List(FFE) == u.fct;

    squareFree(n:I):FF == {
       import from Union(i:I,failed:'failed'),FFE;

       local u:I;
       if n<0 then {m := -n; u := -1}
              else {m := n; u := 1}
       (m > 1) and ((v := perfectSqrt m) case i) => {
          for rec in (l := factorList(sv := squareFree(v.i))) repeat
            rec.xpnt := 2 * rec.xpnt;
          makeFR(u * sv.unt, l)
       }
    -- avoid using basic sieve when the lim is too big
       lim := 1 + approxNthRoot(m,3);
       lim > 100000 => makeFR(u, factorList factor m);
       x := BasicSieve(m, lim);
       y := {
         one?(m:= x.unt) => factorList x;
         (v := perfectSqrt m) case i => 
            append!(factorList x, [[sqfr],v.i,2]$FFE);
         append!(factorList x, [[sqfr],m,1]$FFE)
       }
       makeFR(u, y)
    }

    -- Pfun(y: I,n: I): I == (y^2 + 5) rem n
    PollardSmallFactor(n:I):Union(i:I,failed:'failed') == {
       -- Use the Brent variation
       x0 := random()$I;
       m := 100;
       y := x0 rem n;
       local (r,q,G):I := (1,1,1);
       while not(G > 1) repeat {
          x := y;
          for i in 1..r repeat {
             y := (y*y+5) rem n;
             q := (q*abs(x-y)) rem n;
             k:I := 0
          }
          while not( (k>=r) or (G>1)) repeat {
             ys := y;
             for i in 1..min(m,r-k) repeat {
                y := (y*y+5) rem n;
                q := q*abs(x-y) rem n
             }
             G := gcd(q,n);
             k := k+m
          }
          r := 2*r
       }
       if G=n then {
          while not(G>1) repeat {
             ys := (ys*ys+5) rem n;
             G := gcd(abs(x-ys),n)
          }
       }
       G=n => [failed];
       [G]
    }

    rest(x:List(I),n:I):List(I) == {
      n=0 => return x;
      rest(rest x,n-1);
    }

    BasicSieve(r:I, lim:I):FF == {
       import from FFE;
       l:List(I) :=
          [1,2,2,4,2,4,2,4,6,2,6];
       l := append!(l, rest(l, 3));
       local d : I := 2;
       local n : I := r;
       ls:List(FFE) := [];
       local m:I;
       for s in l repeat {
          d > lim => return makeFR(n, ls);
          if n<d*d then {
             if n>1 then ls := append!(ls, [[prime],n,1]$FFE);
             return makeFR(1, ls)
          }
          for m2 in 0@I.. repeat {
            if not(zero?(n rem d)) then {m:=m2;break}
            n := n quo d;
          }
          if m>0 then ls := append!(ls, [[prime],d,m]$FFE);
          d := d+s
       }
       never
    }

    BasicMethod(n:I):FF == {
       local u:I;
       if n<0 then (m := -n; u := -1)
              else (m := n; u := 1);
       x := BasicSieve(m, 1 + approxSqrt m);
       makeFR(u, factorList x)
    }

    count(n:I,l:List(I)):MachineInteger == {
      r:MachineInteger := 0;for i in l repeat if n=i then r:=r+1;
      r
    }

    UFL ==> Union(nil:'nil',sqfr:'sqfr',irred:'irred',prime:'prime');

    eq(fnl:UFL,f:I,xp:I,i:FFE):B == {
      f ~= i.fctr or xp ~=i.xpnt => false;
      iu:UFL := i.flg;
     (iu case nil) and (fnl case nil) or
     (iu case sqfr) and (fnl case sqfr) or
     (iu case irred) and (fnl case irred) or
     (iu case prime) and (fnl case prime)
    }

    count(n:FFE,l:List(FFE)):MachineInteger == {
      nfl:UFL := n.flg;
      (nf,nxp) := (n.fctr,n.xpnt); r:MachineInteger := 0;
      for i in l repeat if eq(nfl,nf,nxp,i) then r:=r+1;
      r
    }

    countRemove(n:FFE,l:List(FFE)):(I,List(FFE)) == {
      nfl:UFL := n.flg;
      (nf,nxp) := (n.fctr,n.xpnt); r := 0; rl:List(FFE) := [];
      for i in l repeat {
        if eq(nfl,nf,nxp,i) then {
          r := r+1;rl := cons(i,rl);
        }
      }
      {r,reverse rl}
    }

    -- special remove! for List FFE (the normal one doesn't work)
    myremove!(n:FFE,fl:List(FFE)):List(FFE) == {
      import from MachineInteger;
      nf := n.flg;(nfa,nxp):I := (n.fctr,n.xpnt);
      fl2:List(FFE) := [];
      for f in fl repeat {
        if not eq(nf,nfa,nxp,n) then fl2 := cons(f,fl2);
      }
      fl := reverse(fl2)
    }

    myset!(l:List(I),i:MI,j:I):List(I) == {
      cons(j,l)
--      len := #l;
--      if i<=len then {set!(l,i,j);return l}
--      l := append!(l,new(i-len,0));
--      set!(l,i,j);
--      l
    }

    factor(m:I):FF == {
       import from MI,FFE,Record(base:I, exponent:I),Union(i:I,failed:'failed');
       import from IntegerPrimesPackage;
       inline from IntegerPrimesPackage;

       local u:I;
       zero? m => makeFR(1,[[[nil],0,0]]);
       if m<0 then {n := -m; u := -1}
                      else {n := m; u := 1};
       b := BasicSieve(n, 10000);
       flb := factorList b;
       one?(n := b.unt) => makeFR(u, flb);
       a:List(I) := []; -- numbers yet to be factored
       flb2:List(I) := []; -- prime factors found
       f:List(I) := []; -- number which could not be factored
       a := cons(n,a);
       while not empty? a repeat {
          n := first a; 
          c := count(n, a); a := remove!(n, a);
          --{c,a} := countRemove(n,a);
          if prime?(n)$IntegerPrimesPackage then {
            flb2 := myset!(flb2,c,n);
            iterate;
          }
          -- test for a perfect power
          if (s := perfectNthRoot n).exponent > 1 then {
            a := myset!(a,c*machine(s.exponent),s.base);iterate}
          -- test for a difference of square
          x:=approxSqrt n;
          if (x^2<n) then x:=x+1;
          if (y:=perfectSqrt (x^2-n)) case i then {
                a := myset!(a,c,x+y.i);
                a := myset!(a,c,x-y.i);iterate
          }
          if (d := PollardSmallFactor n) case i then {
             for m2 in 0@I.. repeat {
               if not(zero?(n rem d.i)) then {
                 m := m2;break}
               n := n quo d.i;
             }
             a := myset!(a, machine(m)*c, d.i);
             if n > 1 then a := myset!(a, c, n);
             iterate
          }
          -- an elliptic curve factorization attempt should be made here
          f := myset!(f, c, n);
       }
       -- insert prime factors found
       while not empty?(flb2) repeat {
          n2 := first flb2; c := count(n2, flb2); 
          flb2 := remove!(n2, flb2);
          flb := cons([[prime],n2,c::I]$FFE,flb)
       }
       -- insert non-prime factors found
       while not empty? f repeat {
          n := first f; c := count(n, f); f := remove!(n, f);
          flb := cons([[nil],n,c::I]$FFE,flb)
       }
       makeFR(u, flb)
    }
}

import from IntegerFactorizationPackage;
import from I;
stdout << "start" << newline;
factor 23847298372;
stdout << "end" << newline;
