#include "aldor.as"
#include "aldorio.as"

import from MachineInteger, Integer;

a:MachineInteger := 1551877902;    -- smaller than max()@MachineInteger
b:Integer := a::Integer;
c:MachineInteger := machine(b);

stdout << "a,b,c = " << a << "," << b << "," << c << newline;

import from Assert Integer;
import from Assert MachineInteger;

assertEquals(a, c);
assertEquals(machine(b), c);


