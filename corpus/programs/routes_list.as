-- lists: construction, sharing, destructive operations, sorting, lists of lists
#include "aldor"
#include "aldorio"
import from MachineInteger, String;
L ==> List MachineInteger;
import from L, List L, List String;
l: L := [ (i * i) rem 17 for i in 1..15 ];
stdout << l << " #" << #l << newline;
stdout << reverse l << newline;
stdout << sort!(copy l, (a: MachineInteger, b: MachineInteger): Boolean +-> a < b) << newline;
sum(x: L): MachineInteger == { s: MachineInteger := 0; for e in x repeat s := s + e; s }
stdout << "sum " << sum l << " first " << first l << " rest " << #(rest l) << newline;
ll: List L := [ [ j for j in 1..i ] for i in 1..5 ];
stdout << ll << newline;
stdout << [ sum x for x in ll ] << newline;
t: L := rest rest l;
setFirst!(t, 1000);
stdout << l.3 << " " << (l.3 = first t) << newline;
a: L := [1, 2, 3]; b: L := [4, 5];
c := append!(copy a, b);
stdout << a << b << c << newline;
stdout << cons(0, a) << " " << empty?(a) << " " << empty?(empty@L) << newline;
(tail, pos) := find(5, c);
stdout << "find " << pos << " " << tail << newline;
evens: L := [ x for x in l | x rem 2 = 0 ];
stdout << evens << newline;
words: List String := ["pear", "apple", "fig", "banana", "kiwi"];
stdout << sort!(words, (u: String, v: String): Boolean +-> u < v) << newline;
big: L := [ i for i in 1..2000 ];
stdout << "big " << sum big << " " << #big << " " << big.2000 << newline;
stdout << (a = [1, 2, 3]) << (a = b) << newline;
r: L := empty;
for i in 1..10 repeat r := cons(i * i, r);
stdout << r << newline;
stdout << map((x: MachineInteger): MachineInteger +-> x quo 2)(r) << newline;
