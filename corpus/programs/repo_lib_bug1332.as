--* From chicha@scl.csd.uwo.ca  Sat Sep 29 15:25:24 2001
--* Received: from welly-3.star.net.uk (welly-3.star.net.uk [195.216.16.161])
--* 	by nag.co.uk (8.9.3/8.9.3) with SMTP id PAA28340
--* 	for <ax-bugs@nag.co.uk>; Sat, 29 Sep 2001 15:25:23 +0100 (BST)
--* From: chicha@scl.csd.uwo.ca
--* Received: (qmail 12884 invoked from network); 29 Sep 2001 14:24:52 -0000
--* Received: from 1.star-private-mail-12.star.net.uk (HELO smtp-in-1.star.net.uk) (10.200.12.1)
--*   by 203.star-private-mail-4.star.net.uk with SMTP; 29 Sep 2001 14:24:52 -0000
--* Received: (qmail 21594 invoked from network); 29 Sep 2001 14:24:52 -0000
--* Received: from mail17.messagelabs.com (62.231.131.67)
--*   by smtp-in-1.star.net.uk with SMTP; 29 Sep 2001 14:24:52 -0000
--* X-VirusChecked: Checked
--* Received: (qmail 498 invoked from network); 29 Sep 2001 14:22:01 -0000
--* Received: from ptibonum.scl.csd.uwo.ca (129.100.16.102)
--*   by server-6.tower-17.messagelabs.com with SMTP; 29 Sep 2001 14:22:01 -0000
--* Message-Id: <200109291424.f8TEOii24041@plutonium.scl.csd.uwo.ca>
--* Date: Sat, 29 Sep 2001 10:24:44 -0400
--* To: ax-bugs@nag.co.uk
--* Subject: [9] Test for the new bug server @aldor.org

--@ Fixed  by: <Who> <Date>
--@ Tested by: <Name of new or existing file in test directory>
--@ Summary:   <Description of real problem and the fix>

-- Command line: aldor -fx -laldor titi.as
-- Version: 1.0.0(7)
-- Original bug file name: /scl/people/chicha/titi.as

#include "aldor"
#include "aldorio"

import from DoubleFloat;
stdout << max$DoubleFloat << newline;

