-- two calls in statement position (results discarded) of an inlinable function that returns a file-scope constant
#include "aldor"
#include "aldorio"
import from MachineInteger, String, Boolean;

c5: String == "{";
f50(x: MachineInteger): String == { c5 }
f42(): Boolean == {
	f50(100);
	f50(0);
	false
}
stdout << f42() << newline;
stdout << "done" << newline;
