-- character / byte / integer conversions
#include "aldor"
#include "aldorio"
import from MachineInteger, Character, Byte, String;
for n in 65..70 repeat stdout << char n;
stdout << newline;
c: Character := char "q";
stdout << "ord " << ord c << " upper " << upper c << " lower " << lower(upper c) << newline;
stdout << "digit? " << digit?(char "7") << digit?(c) << " letter? " << letter?(c) << letter?(char "7") << newline;
stdout << "space? " << space?(space) << space?(tab) << space?(c) << newline;
s: String := "Hello, World 42";
up: MachineInteger := 0; dg: MachineInteger := 0; sum: MachineInteger := 0;
for ch in s repeat {
	if letter?(ch) and upper(ch) = ch then up := up + 1;
	if digit?(ch) then dg := dg + 1;
	sum := sum + ord ch;
}
stdout << "upper " << up << " digits " << dg << " sum " << sum << newline;
b: Byte := lowByte 200;
stdout << "byte " << (b::MachineInteger) << newline;
b2: Byte := lowByte 300;
stdout << "byte2 " << (b2::MachineInteger) << newline;
b3: Byte := lowByte(-1);
stdout << "byte3 " << (b3::MachineInteger) << newline;
b4: Byte := (char 233)::Byte;
stdout << "byte4 " << (b4::MachineInteger) << " " << ord(b4::Character) << newline;
stdout << "lt " << (char "a" < char "b") << (char "b" < char "a") << newline;
stdout << "hi " << ord(char 255) << " " << ord(char 128) << newline;
stdout << "eq " << (char 65 = char "A") << newline;
stdout << "upper-nonletter " << ord(upper(char 123)) << " " << ord(lower(char 64)) << newline;
for n in 0..255 repeat { if letter?(char n) then sum := sum + n; if digit?(char n) then sum := sum + 1000; if space?(char n) then sum := sum + 100000; }
stdout << "classes " << sum << newline;
