#include "aldor"
#include "aldorio"

stdout << "Hello, world!" << newline;
