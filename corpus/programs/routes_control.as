-- control flow: loops with break/iterate, early exit, nested conditionals, while/repeat, select-like chains
#include "aldor"
#include "aldorio"
import from MachineInteger, String;
classify(n: MachineInteger): String == {
	n < 0 => "neg";
	n = 0 => "zero";
	n < 10 => "small";
	n < 100 => { n rem 2 = 0 => "medium-even"; "medium-odd" }
	"large";
}
for n in [-5, 0, 7, 42, 43, 1000]@List(MachineInteger) repeat stdout << classify n << " ";
stdout << newline;
import from List MachineInteger;
primes: List MachineInteger := empty;
for n in 2..60 repeat {
	isPrime := true;
	for d in 2..n-1 repeat { d * d > n => break; if n rem d = 0 then { isPrime := false; break } }
	~isPrime => iterate;
	primes := cons(n, primes);
}
stdout << reverse primes << newline;
i: MachineInteger := 0; steps: MachineInteger := 0;
repeat { i := i + 7; steps := steps + 1; i rem 11 = 0 => break; }
stdout << i << " " << steps << newline;
k: MachineInteger := 100;
while k > 1 repeat { k := if k rem 2 = 0 then k quo 2 else 3 * k + 1; stdout << k << " "; }
stdout << newline;
found: MachineInteger := -1;
for a in 1..20 repeat { for b in a..20 repeat { if a * a + b * b = 13 * 13 then { found := a * 100 + b; break } }; found > 0 => break; }
stdout << "pyth " << found << newline;
s: MachineInteger := 0;
for x in 1..10 for y in 10..1 by -1 repeat s := s + x * y;
stdout << s << newline;
firstNeg(l: List MachineInteger): MachineInteger == { for x in l repeat { x < 0 => return x; }; 0 }
stdout << firstNeg [3, 4, -9, 5, -1] << " " << firstNeg [1, 2] << newline;
collatzMax(n: MachineInteger): MachineInteger == { m := n; while n ~= 1 repeat { n := if n rem 2 = 0 then n quo 2 else 3 * n + 1; if n > m then m := n; }; m }
stdout << collatzMax 27 << newline;
b1: Boolean := true; b2: Boolean := false;
stdout << (b1 and b2) << (b1 or b2) << (~b1) << (b1 and ~b2) << newline;
sideEffect(tag: String, v: Boolean): Boolean == { stdout << tag; v }
if sideEffect("A", false) and sideEffect("B", true) then stdout << "both";
if sideEffect("C", true) or sideEffect("D", true) then stdout << " either";
stdout << newline;
