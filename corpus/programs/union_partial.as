-- Union and Partial types
#include "aldor"
#include "aldorio"
import from MachineInteger, String;

U ==> Union(i: MachineInteger, s: String, b: Boolean);
import from U, Partial MachineInteger, List U;

show(u: U): () == {
	u case i => stdout << "int " << u.i << newline;
	u case s => stdout << "str " << u.s << newline;
	stdout << "bool " << u.b << newline;
}
safediv(a: MachineInteger, b: MachineInteger): Partial MachineInteger == if b = 0 then failed else [a quo b];
showp(p: Partial MachineInteger): () == if failed? p then stdout << "failed" << newline else stdout << "ok " << retract p << newline;

l: List U := [[7], ["seven"], [true], [-1]];
for u in l repeat show u;
showp safediv(10, 2);
showp safediv(1, 0);
showp safediv(-9, 4);
