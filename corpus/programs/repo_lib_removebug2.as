#include "aldor"
#include "aldorio"

import from MachineInteger;
import from SortedList MachineInteger;

-------------------------------

main(): () == {
  a := [1,2,3];
  c := removeAll(2,a);
  stdout << c << endnl;
  a := [1,2,3];
  c := removeAll!(2,a);
  stdout << c << endnl;
}

main();