-- inlining: recursive and mutually recursive functions
#include "aldor"
#include "aldorio"
import from MachineInteger;

fib(n: MachineInteger): MachineInteger == if n < 2 then n else fib(n-1) + fib(n-2);
ack(m: MachineInteger, n: MachineInteger): MachineInteger == {
	m = 0 => n + 1;
	n = 0 => ack(m - 1, 1);
	ack(m - 1, ack(m, n - 1));
}
isEven(n: MachineInteger): Boolean == if n = 0 then true else isOdd(n - 1);
isOdd(n: MachineInteger): Boolean == if n = 0 then false else isEven(n - 1);
gcd2(a: MachineInteger, b: MachineInteger): MachineInteger == if b = 0 then a else gcd2(b, a rem b);
sumto(n: MachineInteger, acc: MachineInteger): MachineInteger == if n = 0 then acc else sumto(n - 1, acc + n);

stdout << "fib " << fib 15 << newline;
stdout << "ack " << ack(2, 3) << newline;
stdout << "even " << isEven 10 << " " << isOdd 10 << " " << isEven 7 << newline;
stdout << "gcd " << gcd2(1071, 462) << newline;
stdout << "sumto " << sumto(100, 0) << newline;
