-- Copyright (c) 1990-2007 Aldor Software Organization Ltd (Aldor.org).
-- Cut-down version of bug 1090.

#include "axllib"

-- Don't optimise or the problem will vanish into the bit bucket!
--> testrun -laxllib -Q0


-- This file detects domain initialisation bugs in the def-group
-- analysis. Previously, when any domain export was required we
-- initialised the exports and locals in the order Rep, foo, boom,
-- bar and trouble. However, because the only reference to the
-- test() function we didn't import test$List Bar() until after
-- bar was given its value. Since bar calls test we segfault.
--
-- The fix is to ensure that all maps, local or exported, are
-- initialised before non-map exports.
--
-- Note that this problem only seems to arise when the list type
-- (Bar() in the example below) is sufficiently complicated. This
-- may mean that it only applies to dependent types.
define BarCat(S:AbelianMonoid):Category == with
{
   bob: () -> %;
}

Bar(dim:SingleInteger, S:AbelianMonoid):BarCat(S) == add
{
   Rep == S;
   import from Rep;

   bob():% == per 0;
}


Foo(num:SingleInteger, argList:List Bar(num, SingleInteger)):with
{
   bar:    %;
   foo:    SingleInteger -> %;
   boom:   () -> ();
}
== add
{
   Rep == SingleInteger;
   import from Rep;

   bar:% == foo(0$SingleInteger);

   local trouble():() == test argList;

   foo(x:SingleInteger):% ==
   {
      trouble();
      print << "Success!" << newline;
      per x;
   }

   boom():() == {}
}


main():() ==
{
   import from SingleInteger;
   import from List Bar(3, SingleInteger);
   import from Foo(3, [bob(), bob(), bob()]);
   boom();
}


main();

