-- repeated subexpressions with mutation in between (a common-subexpression pass must not merge them)
#include "aldor"
#include "aldorio"
import from MachineInteger, Array MachineInteger;
Cell ==> Record(v: MachineInteger);
import from Cell;

main(): () == {
	x: MachineInteger := 6; y: MachineInteger := 7;
	a := x * y + 1;
	x := x + 1;
	b := x * y + 1;
	stdout << a << " " << b << newline;
	c: Cell := [3];
	p := c.v * c.v;
	c.v := c.v + 1;
	q := c.v * c.v;
	stdout << p << " " << q << newline;
	arr: Array MachineInteger := new(4, 2);
	s1 := arr.0 + arr.1;
	arr.1 := 40;
	s2 := arr.0 + arr.1;
	stdout << s1 << " " << s2 << newline;
	d: Cell := c;
	u := c.v + 100;
	d.v := 0;
	w := c.v + 100;
	stdout << u << " " << w << newline;
	k: MachineInteger := 0;
	for i in 1..3 repeat { t := (x + y) * i; k := k + t; x := x + 1 }
	stdout << k << " " << x << newline;
}
main();
