-- machine-integer overflow wrap-around, shifts, bit operations
#include "aldor"
#include "aldorio"
import from MachineInteger;

main(): () == {
	m: MachineInteger := max;
	n: MachineInteger := min;
	stdout << m << " " << n << newline;
	stdout << m + 1 << " " << n - 1 << " " << -n << " " << m * 2 << " " << n + n << newline;
	x: MachineInteger := 1;
	for i in 1..62 repeat x := x * 2;
	stdout << x << " " << x * 2 << " " << x * 4 << " " << x + x + x << newline;
	y: MachineInteger := 3037000500;
	stdout << y * y << " " << (y + 1) * (y + 1) << newline;
	stdout << shift(1, 62) << " " << shift(1, 63) << " " << shift(-8, -1) << " " << shift(m, -60) << newline;
	stdout << (12 /\ 10) << " " << (12 \/ 10) << " " << xor(12, 10) << " " << ~ 0 << " " << length 255 << " " << length 256 << newline;
	stdout << (m + 1 = n) << (n - 1 = m) << (m + 1 < m) << (-n = n) << newline;
	z: MachineInteger := 0;
	for i in 1..10 repeat z := z * 1000003 + i;
	stdout << z << newline;
}
main();
