-- constants flowing through inlined selectors; dead branches that contain side effects
#include "aldor"
#include "aldorio"
import from MachineInteger, String;

mode(): MachineInteger == 2;
debug?(): Boolean == false;
pick(k: MachineInteger, a: String, b: String, c: String): String == {
	k = 1 => a;
	k = 2 => b;
	c
}
scale(x: MachineInteger): MachineInteger == {
	debug?() => { stdout << "debug " << x << newline; x }
	mode() = 1 => x;
	mode() = 2 => 10 * x;
	100 * x
}
main(): () == {
	stdout << pick(mode(), "one", "two", "many") << " " << pick(mode() + 1, "one", "two", "many") << newline;
	stdout << scale 7 << " " << scale scale 1 << newline;
	lim: MachineInteger := if debug?() then 1 else 3;
	for i in 1..lim repeat stdout << scale i << " ";
	stdout << newline;
	x: MachineInteger := 5;
	y := x;
	x := x + 1;
	z := y * x;
	y := z - y;
	stdout << x << " " << y << " " << z << newline;
	if mode() > 5 then stdout << "unreachable" << newline else stdout << "reachable" << newline;
	while debug?() repeat stdout << "never" << newline;
}
main();
