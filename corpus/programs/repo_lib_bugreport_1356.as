-- Author: Ralf Hemmecke, Johannes Kepler Universit"at Linz
-- EMail: ralf@hemmecke.de
-- Date: 09-Feb-2004
-- Aldor version 1.0.1 for LINUX(gcc-2_96)
--   Using AldorLib from Nov 17 2003 (Bronstein)
-- Subject: [7]Braces and parentheses

-- Compilation with
--   aldor -fx -laldor -Cruntime=foam,m xxx.as
-- yields an executable which produces the following output.
-- Note that there is a newline missing.
--: foo(1,2)=2aaa
--: foo{2,3}=3bbb
--: bar{3,5}=4bar(3,5)=4

-- With the additional option -DC1 the compiler complains
--:         stdout << "foo{2,3}=" << foo{2,3} << "bbb" << newline;
--: ..........................................^
--: [L14 C43] #1 (Error) Argument 1 of `<<' did not match any possible parameter type.
--:     The rejected type is TextWriter -> TextWriter.
--:     Expected one of:
--:       -- TextWriter
--:       -- BinaryWriter

#include "aldor"
#include "aldorio"

macro I == MachineInteger;

foo(x: I, y: I): I == x+1;
bar{x: I, y: I} : I == x+1;

main():() == {
	import from I;
	stdout << "foo(1,2)=" << foo(1,2) << "aaa" << newline;
#if C1
	stdout << "foo{2,3}=" << foo{2,3} << "bbb" << newline;
#else
	stdout << "foo{2,3}=" << (foo{2,3}) << "bbb" << newline;
#endif
	stdout << "bar{3,5}=" << bar{3,5} << newline;
	stdout << "bar(3,5)=" << bar(3,5) << newline;
}
main();
