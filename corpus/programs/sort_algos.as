-- insertion sort, bubble sort with early exit, binary search on arrays
#include "aldor"
#include "aldorio"
import from MachineInteger, Array MachineInteger;

fill(n: MachineInteger): Array MachineInteger == { a: Array MachineInteger := new(n, 0); x: MachineInteger := 17; for i in 0..n-1 repeat { x := (x * 73 + 11) rem 101; a.i := x }; a }
insertion!(a: Array MachineInteger): () == {
	for i in 1..#a-1 repeat {
		k := a.i; j := i - 1;
		while j >= 0 and a.j > k repeat { a(j + 1) := a.j; j := j - 1 }
		a(j + 1) := k;
	}
}
bubble!(a: Array MachineInteger): MachineInteger == {
	passes: MachineInteger := 0;
	repeat {
		swapped := false; passes := passes + 1;
		for i in 0..#a-2 repeat if a.i > a(i + 1) then { t := a.i; a.i := a(i + 1); a(i + 1) := t; swapped := true }
		not swapped => break;
	}
	passes
}
bsearch(a: Array MachineInteger, t: MachineInteger): MachineInteger == {
	lo: MachineInteger := 0; hi := #a - 1;
	while lo <= hi repeat {
		mid := (lo + hi) quo 2;
		a.mid = t => return mid;
		if a.mid < t then lo := mid + 1 else hi := mid - 1;
	}
	-1
}
a := fill 12; b := copy a;
stdout << a << newline;
insertion! a;
stdout << a << newline;
p := bubble! b;
stdout << b << " " << p << " " << (a = b) << newline;
stdout << bsearch(a, a.5) << " " << bsearch(a, 1000) << " " << bsearch(a, a.0) << " " << bsearch(a, a.11) << newline;
