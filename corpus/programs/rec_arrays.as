-- records, arrays, primitive arrays
#include "aldor"
#include "aldorio"
import from MachineInteger;

Point ==> Record(x: MachineInteger, y: MachineInteger);
import from Point, Array MachineInteger, PrimitiveArray MachineInteger, List Point;

move!(p: Point, dx: MachineInteger, dy: MachineInteger): Point == { p.x := p.x + dx; p.y := p.y + dy; p }
norm1(p: Point): MachineInteger == abs(p.x) + abs(p.y);

p: Point := [3, -4];
stdout << p.x << " " << p.y << " " << norm1 p << newline;
move!(p, 10, 10);
stdout << p.x << " " << p.y << " " << norm1 p << newline;
(px, py) := explode p;
stdout << px + py << newline;

a: Array MachineInteger := new(8, 0);
for i in 0..7 repeat a.i := i * i;
s: MachineInteger := 0;
for v in a repeat s := s + v;
stdout << a << " " << s << " " << #a << newline;
for i in 0..3 repeat { t := a.i; a.i := a(7 - i); a(7 - i) := t }
stdout << a << newline;

pa: PrimitiveArray MachineInteger := new 5;
for i in 0..4 repeat pa.i := 2 * i + 1;
stdout << pa.0 + pa.4 << " " << pa.2 << newline;

pts: List Point := [[i, i * i] for i in 1..4];
for q in pts repeat stdout << "(" << q.x << "," << q.y << ")";
stdout << newline;
