#include "aldor"
#include "aldorio"

-- Arithmetic objects ------------------------------------------------------
--
-- The objects have arithmetic because each belongs to ArithmeticType.
--

Object(C: Category): with {
        object:         (T: C, T) -> %;
        avail:          % -> (T: C, T);
}
== add {
        Rep == Record(T: C, val: T);
        import from Rep;

        object  (T: C, t: T) : %        == per [T, t];
        avail   (ob: %) : (T: C, T)     == explode rep ob;
}


main():() == {
    import from MachineInteger, Integer;
    robfun(rob: Object IntegerType): () == f avail rob  where {
        f(T: IntegerType, r: T): () == {

            -- Object-specific arithmetic:
            s := (r + 1)^3;
            t := (r - 1)^4;
            u := s * t;

            -- Object-specific output:
            stdout << "r = " << r << newline;
            stdout << "    s = (r + 1) ^ 3 = " << s << newline;
            stdout << "    t = (r - 1) ^ 2 = " << t << newline;
            stdout << "    s * t = "         << u << newline;

            -- Can check for additional properties and use if there.
            if T has TotallyOrderedType  then {
                stdout << "The result is "; 
                if u < 0 then stdout << "negative";
                if u > 0 then stdout << "positive";
                if u = 0 then stdout << "zero";
                stdout << newline;
            }
            else
                stdout << "No order for this object." << newline;

            stdout << newline;
        }
    }
    import from DoubleFloat, Integer;
    import from Object IntegerType;
    roblist: List Object IntegerType := [
        object (     Integer, -42),
        object (      MachineInteger, -42)
    ];
    for rob in roblist repeat robfun rob
}

main();
