#include "aldor"
#include "aldorio"
import from MachineInteger, SingleFloat, DoubleFloat, String;
-- dissemble leaves the bytes above the fraction unset: keep the 3 (resp. 7) fraction bytes only
bs(tag: String, x: SingleFloat): () == {
	import from Machine;
	(s, e, m) := dissemble(x::SFlo);
	stdout << tag << " " << (s::Boolean) << " " << (e::MachineInteger) << " " << (((m pretend SInt)::MachineInteger) /\ 16777215) << newline;
}
bd(tag: String, x: DoubleFloat): () == {
	import from Machine;
	(s, e, m1, m2) := dissemble(x::DFlo);
	stdout << tag << " " << (s::Boolean) << " " << (e::MachineInteger) << " " << (((m1 pretend SInt)::MachineInteger) /\ 72057594037927935) << newline;
}
-- infinities, NaN comparisons, overflow and signed zero, printed bit-exactly: at -Q2 and above these are folded
-- constants, which the C route has to write into the generated C
x: DoubleFloat := 3.0;
z: DoubleFloat := 0.0; one: DoubleFloat := 1.0;
inf := one / z; nan := inf - inf;
bd("inf", inf); bd("-inf", - inf); bd("inf-inf class", if nan = nan then 1.0 else 0.0);
stdout << "nan tests " << (nan = nan) << (nan < one) << (nan > one) << (nan ~= nan) << (inf > one) << ((- inf) < one) << newline;
bd("x-x", x - x); bd("0*inf class", if (z * inf) = (z * inf) then 1.0 else 0.0);
bd("neg zero", z * (- one)); bd("neg zero sum", z * (- one) + z);
sz: SingleFloat := 0.0; sone: SingleFloat := 1.0;
sinf := sone / sz; snan := sinf - sinf;
bs("sinf", sinf); bs("snan class", if snan = snan then 1.0 else 0.0);
stdout << "snan tests " << (snan = snan) << (snan < sone) << (snan ~= snan) << newline;
big: DoubleFloat := 1.0e308;
bd("overflow", big * 10.0); bd("big*10/10", (big * 10.0) / 10.0); bd("underflow", 1.0e-308 / 1.0e10); bd("tiny*tiny", 1.0e-200 * 1.0e-200);
