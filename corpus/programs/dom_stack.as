-- user-defined parameterised domain over a list representation
#include "aldor"
#include "aldorio"

Stack(S: OutputType): OutputType with {
	empty: () -> %;
	empty?: % -> Boolean;
	push!: (S, %) -> %;
	pop!: % -> S;
	depth: % -> MachineInteger;
} == add {
	Rep == Record(contents: List S);
	import from Rep, List S, S;
	empty(): % == per [empty];
	empty?(s: %): Boolean == empty? rep(s).contents;
	push!(e: S, s: %): % == { rep(s).contents := cons(e, rep(s).contents); s }
	pop!(s: %): S == { e := first rep(s).contents; rep(s).contents := rest rep(s).contents; e }
	depth(s: %): MachineInteger == # rep(s).contents;
	(tw: TextWriter) << (s: %): TextWriter == {
		import from String;
		tw << "<";
		for e in rep(s).contents repeat tw << e << ";";
		tw << ">"
	}
}

import from MachineInteger, String;
s: Stack MachineInteger := empty();
for i in 1..5 repeat push!(i * i, s);
stdout << s << " depth " << depth s << newline;
t: MachineInteger := 0;
while not empty? s repeat t := 10 * t + pop! s rem 10;
stdout << t << " " << s << newline;
ss: Stack String := empty();
push!("a", ss); push!("b", ss);
stdout << ss << " " << pop! ss << " " << ss << newline;
