#include "aldor"
#include "aldorio"

import from Integer;

-- Multiple value returns and functional composition.
-- Only creating the closures by * should allocate storage.

I      ==> Integer;
III    ==> (I,I,I);
MapIII ==> (I,I,I) -> (I,I,I);

id: MapIII ==
        (i:I, j:I, k: I): III +-> (i,j,k);

(f: MapIII) * (g: MapIII): MapIII ==
        (i:I, j:I, k: I): III +-> f g (i,j,k);

(f: MapIII) ^ (p: Integer): MapIII == {
        p < 1  => id;
        p = 1  => f;
        odd? p => f*(f*f)^(p quo 2);
        (f*f)^(p quo 2);
}

-- test routine
main(): () == {
        cycle(a: I, b: I, c: I): III == (c, a, b);

        printIII(a: I, b: I, c: I): () == {
                stdout << "a = " << a << " b = "
                                        << b << " c = " << c << newline
        }
        printIII (cycle(1,2,3));
        printIII (cycle cycle  (1,2,3));
        printIII ((cycle*cycle)(1,2,3));
        printIII ((cycle^10)  (1,2,3));
}

main()

