-- text of integers: extremes of both widths, digit loops, conversions between the widths
#include "aldor"
#include "aldorio"
import from MachineInteger, String, Character;
Z ==> MachineInteger;
digits(n: Z, base: Z): String == {
	n = 0 => "0";
	neg := n < 0;
	s: String := "";
	-- work with negative remainders so that min(Z) needs no negation
	m: Z := if neg then n else -n;
	while m ~= 0 repeat {
		d := -(m rem base);
		c: Character := if d < 10 then char(48 + d) else char(87 + d);
		s := c::String + s;
		m := m quo base;
	}
	if neg then "-" + s else s;
}
for v in [0, 7, -7, 255, -256, 1000000007, max, min, min + 1]@List(Z) repeat
	stdout << v << " = " << digits(v, 10) << " = 0x" << digits(v, 16) << " = 0b" << digits(v, 2) << newline;
import from List Z;
big(): () == {
	import from Integer;
	one: Integer := 1;
	for k in [0, 1, 31, 32, 33, 62, 63, 64, 65, 127, 128]@List(Z) repeat {
		p: Integer := shift(one, k);
		stdout << k << ": " << p << " " << p - 1 << " " << -p << newline;
	}
	w: Integer := (max@Z)::Integer;
	stdout << machine(w) << " " << machine(w quo 3) << " " << w * w * w << newline;
	n: Integer := 1;
	m6: Integer := 1000000; f: Integer := 1000003;
	for i: Z in 1..12 repeat { n := n * f; stdout << #(digits(machine(n rem m6), 10)) << " "; }
	stdout << newline << n << newline;
}
big();
