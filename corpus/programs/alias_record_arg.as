-- the argument reads a record field / array element that the callee updates before using the parameter
#include "aldor"
#include "aldorio"
import from MachineInteger, Array MachineInteger;
Cell ==> Record(v: MachineInteger);
import from Cell;

c: Cell := [3];
arr: Array MachineInteger := new(3, 7);
pokeThenUse(x: MachineInteger): MachineInteger == { c.v := c.v + 1; x * 10 + c.v }
clearThenUse(x: MachineInteger): MachineInteger == { arr.0 := 0; x + arr.0 }
withCell(d: Cell, x: MachineInteger): MachineInteger == { d.v := 50; x + d.v }

main(): () == {
	r1 := pokeThenUse(c.v);          -- 3*10 + 4
	stdout << r1 << " " << c.v << newline;
	r2 := pokeThenUse(c.v + 0);      -- 4*10 + 5
	stdout << r2 << " " << c.v << newline;
	r3 := clearThenUse(arr.0);       -- 7 + 0
	stdout << r3 << " " << arr.0 << newline;
	r4 := withCell(c, c.v);          -- 5 + 50
	stdout << r4 << " " << c.v << newline;
	e: Cell := c;
	r5 := withCell(e, c.v - 0);      -- 50 + 50, through an alias
	stdout << r5 << " " << e.v << newline;
}
main();
