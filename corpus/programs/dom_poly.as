-- a small polynomial domain over Integer with its own category
#include "aldor"
#include "aldorio"
import from Integer, MachineInteger, List Integer;

define PolyCat: Category == OutputType with {
	poly: List Integer -> %;
	+: (%, %) -> %;
	*: (%, %) -> %;
	eval: (%, Integer) -> Integer;
	degree: % -> MachineInteger;
	deriv: % -> %;
	default degree(p: %): MachineInteger == -1;
}
Poly: PolyCat == add {
	Rep == List Integer;        -- coefficients, lowest degree first
	import from Rep;
	poly(l: List Integer): % == per l;
	degree(p: %): MachineInteger == #(rep p) - 1;
	(p: %) + (q: %): % == {
		a := rep p; b := rep q; r: List Integer := empty;
		while not empty? a or not empty? b repeat {
			x: Integer := if empty? a then 0 else first a;
			y: Integer := if empty? b then 0 else first b;
			r := cons(x + y, r);
			if not empty? a then a := rest a;
			if not empty? b then b := rest b;
		}
		per reverse r
	}
	(p: %) * (q: %): % == {
		r: % := per empty;
		sh: List Integer := empty;
		for c in rep p repeat {
			r := r + per append!(copy sh, [c * d for d in rep q]);
			sh := cons(0, sh);
		}
		r
	}
	eval(p: %, x: Integer): Integer == { v: Integer := 0; for c in reverse rep p repeat v := v * x + c; v }
	deriv(p: %): % == { empty? rep p => p; k: Integer := 0; per [(k := k + 1) * c for c in rest rep p] }
	(tw: TextWriter) << (p: %): TextWriter == tw << rep p;
}
import from Poly;
p := poly [1, 2, 3];
q := poly [-1, 1];
stdout << p + q << " " << p * q << " " << degree(p * q) << newline;
stdout << eval(p, 2) << " " << eval(p * q, 2) << " " << eval(p, 2) * eval(q, 2) << newline;
stdout << deriv(p * q) << " " << eval(deriv p, 10) << newline;
