-- domain-level constants whose initialisers have side effects: one used, one never used
#include "aldor"
#include "aldorio"
import from MachineInteger, String;

Box: with {
	used: %;
	unused: %;
	make: MachineInteger -> %;
	value: % -> MachineInteger;
	poke: () -> ();
} == add {
	Rep == MachineInteger;
	import from Rep;
	make(n: MachineInteger): % == { stdout << "make " << n << newline; per n }
	value(b: %): MachineInteger == rep b;
	used: % == make 1;
	unused: % == make 2;
	poke(): () == {}
}
import from Box;
poke();
stdout << "after poke" << newline;
stdout << value used << newline;
stdout << "end" << newline;
