-- generators: generate/yield, state, consumption by for, collect
#include "aldor"
#include "aldorio"
import from MachineInteger, List MachineInteger;

squares(n: MachineInteger): Generator MachineInteger == generate {
	for i in 1..n repeat yield i * i;
}
fibs(): Generator MachineInteger == generate {
	a: MachineInteger := 0; b: MachineInteger := 1;
	repeat { yield a; (a, b) := (b, a + b) }
}
evens(g: Generator MachineInteger): Generator MachineInteger == generate {
	for x in g repeat if x rem 2 = 0 then yield x;
}
take(n: MachineInteger, g: Generator MachineInteger): List MachineInteger == {
	l: List MachineInteger := empty;
	k: MachineInteger := 0;
	for x in g repeat { k >= n => break; l := cons(x, l); k := k + 1 }
	reverse l
}

stdout << [x for x in squares 6] << newline;
stdout << take(10, fibs()) << newline;
stdout << take(5, evens fibs()) << newline;
stdout << [x + y for x in squares 3 for y in 100..] << newline;
s: MachineInteger := 0;
for x in squares 10 | x rem 2 = 1 repeat s := s + x;
stdout << s << newline;
