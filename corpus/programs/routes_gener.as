-- generators: generate/yield, nesting, early exit, generators passed around
#include "aldor"
#include "aldorio"
import from MachineInteger, List MachineInteger;
upto(n: MachineInteger): Generator MachineInteger == generate { for i in 1..n repeat yield i; }
squares(g: Generator MachineInteger): Generator MachineInteger == generate { for x in g repeat yield x * x; }
evens(g: Generator MachineInteger): Generator MachineInteger == generate { for x in g repeat if x rem 2 = 0 then yield x; }
fibs(): Generator MachineInteger == generate {
	a: MachineInteger := 0; b: MachineInteger := 1;
	repeat { yield a; (a, b) := (b, a + b); }
}
pairs(n: MachineInteger): Generator Cross(MachineInteger, MachineInteger) == generate {
	for i in 1..n repeat for j in i..n repeat yield (i, j);
}
for x in squares upto 8 repeat stdout << x << " ";
stdout << newline;
for x in evens squares upto 12 repeat stdout << x << " ";
stdout << newline;
k: MachineInteger := 0;
for f in fibs() repeat { k := k + 1; k > 60 => break; if k rem 6 = 0 then stdout << f << " "; }
stdout << newline;
s: MachineInteger := 0;
for pr in pairs 6 repeat { (pi, pj) := pr; s := s + pi * pj; }
stdout << "pairs " << s << newline;
for x in upto 20 for y in fibs() repeat { x > 10 => iterate; stdout << x * y << " "; }
stdout << newline;
l: List MachineInteger := [x for x in squares upto 10 | x rem 3 = 1];
stdout << l << " " << #l << newline;
g := upto 5;
t: MachineInteger := 0;
for gx in g repeat t := t + gx;
stdout << "sum " << t << newline;
n: MachineInteger := 0;
for x in upto 1000 while x * x < 500 repeat n := x;
stdout << "isqrt " << n << newline;
nested(): Generator MachineInteger == generate { for i in 1..3 repeat for x in upto i repeat yield 10 * i + x; }
for x in nested() repeat stdout << x << " ";
stdout << newline;
