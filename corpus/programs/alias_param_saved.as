-- a callee saves its parameter in a local, assigns the parameter, then reads the saved copy (by-value parameters)
#include "aldor"
#include "aldorio"
import from MachineInteger;

saveThenBump(p: MachineInteger): MachineInteger == { old := p; p := p + 100; old + p }
saveInLoop(p: MachineInteger): MachineInteger == {
	s: MachineInteger := 0;
	for i in 1..3 repeat { old := p; p := p * 2; s := s + old }
	s + p
}
swapParams(a: MachineInteger, b: MachineInteger): MachineInteger == { t := a; a := b; b := t; 10 * a + b }
saveTwice(p: MachineInteger, q: MachineInteger): MachineInteger == {
	keep := p; p := q; q := keep; keep2 := p; p := p + q; 100 * keep + 10 * keep2 + p
}
condSave(p: MachineInteger): MachineInteger == {
	old := p;
	if p > 3 then p := 0 else p := p + 1;
	old * 10 + p
}

main(): () == {
	stdout << saveThenBump(1) << " " << saveThenBump(7) << newline;    -- 102 114
	stdout << saveInLoop(1) << " " << saveInLoop(3) << newline;        -- 15 45
	stdout << swapParams(1, 2) << " " << swapParams(5, 9) << newline;  -- 21 95
	stdout << saveTwice(1, 2) << " " << saveTwice(3, 4) << newline;    -- 123 347
	stdout << condSave(2) << " " << condSave(9) << newline;            -- 23 90
	k: MachineInteger := 4;
	stdout << saveThenBump(k) << " " << k << newline;                  -- 108 4
}
main();
