-- multiple values: returning, destructuring, passing through, swapping
#include "aldor"
#include "aldorio"
import from MachineInteger, String;
divmod(a: MachineInteger, b: MachineInteger): (MachineInteger, MachineInteger) == (a quo b, a rem b);
minmax(a: MachineInteger, b: MachineInteger, c: MachineInteger): (MachineInteger, MachineInteger) == {
	l: MachineInteger := a; h: MachineInteger := a;
	if b < l then l := b;
	if c < l then l := c;
	if b > h then h := b;
	if c > h then h := c;
	(l, h);
}
three(): (MachineInteger, String, Boolean) == (42, "forty-two", true);
chain(n: MachineInteger): (MachineInteger, MachineInteger) == { (cq, cr) := divmod(n, 7); minmax(cq, cr, cq - cr) }
extgcd(a: MachineInteger, b: MachineInteger): (MachineInteger, MachineInteger, MachineInteger) == {
	b = 0 => (a, 1, 0);
	(g0, x0, y0) := extgcd(b, a rem b);
	(g0, y0, x0 - (a quo b) * y0);
}
(q, r) := divmod(100, 7);
stdout << q << " " << r << newline;
(lo, hi) := minmax(3, -9, 27);
stdout << lo << " " << hi << newline;
(n, s, f) := three();
stdout << n << " " << s << " " << f << newline;
(ca, cb) := chain 1000;
stdout << ca << " " << cb << newline;
(ca, cb) := (cb, ca);
stdout << ca << " " << cb << newline;
(g, x, y) := extgcd(240, 46);
stdout << g << " " << x << " " << y << " check " << 240 * x + 46 * y << newline;
bigdiv(): () == {
	import from Integer;
	ten: Integer := 10; seven: Integer := 7;
	(bq, br) := divide(ten ^ 30, seven ^ 20);
	stdout << bq << " " << br << newline;
}
bigdiv();
acc: MachineInteger := 0;
for i in 1..50 repeat { (u, v) := divmod(i * i, 11); acc := acc + u * v; }
stdout << acc << newline;
apply2(f: (MachineInteger, MachineInteger) -> (MachineInteger, MachineInteger), p: MachineInteger, t: MachineInteger): MachineInteger == { (fu, fv) := f(p, t); fu * 1000 + fv }
stdout << apply2(divmod, 99, 10) << newline;
