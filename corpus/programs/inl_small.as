-- inlining: small pure functions, composed
#include "aldor"
#include "aldorio"
import from MachineInteger;

sq(x: MachineInteger): MachineInteger == x * x;
cube(x: MachineInteger): MachineInteger == x * sq x;
add3(a: MachineInteger, b: MachineInteger, c: MachineInteger): MachineInteger == a + b + c;
twice(f: MachineInteger -> MachineInteger, x: MachineInteger): MachineInteger == f f x;
inc(x: MachineInteger): MachineInteger == x + 1;
dec(x: MachineInteger): MachineInteger == x - 1;
ident(x: MachineInteger): MachineInteger == dec inc x;

main(): () == {
	s: MachineInteger := 0;
	for i in 1..10 repeat s := s + cube i - sq i;
	stdout << "sum " << s << newline;
	stdout << "add3 " << add3(sq 2, cube 3, ident 7) << newline;
	stdout << "twice " << twice(sq, 3) << " " << twice(inc, 41) << newline;
	stdout << "ident " << ident(-5) << newline;
}
main();
