-- big-integer modular exponentiation, digit sums, mixing Integer and MachineInteger
#include "aldor"
#include "aldorio"
import from Integer;

modpow(b: Integer, e: Integer, m: Integer): Integer == {
	r: Integer := 1; b := b rem m;
	while e > 0 repeat {
		if odd? e then r := (r * b) rem m;
		b := (b * b) rem m;
		e := e quo 2;
	}
	r
}
digitsum(n: Integer): Integer == { s: Integer := 0; while n > 0 repeat { s := s + n rem 10; n := n quo 10 }; s }
main(): () == {
	p: Integer := 1000000007;
	stdout << modpow(2, 1000, p) << " " << modpow(3, p - 1, p) << " " << modpow(12345678901234567890, 98765, p) << newline;
	f: Integer := 1;
	i: Integer := 0;
	while i < 40 repeat { i := i + 1; f := f * i }
	stdout << f << " " << digitsum f << newline;
	m: MachineInteger := 12;
	stdout << f quo (m :: Integer) << " " << machine(f rem 1000) + m << newline;
	stdout << modpow(7, 0, 13) << " " << modpow(0, 5, 13) << " " << modpow(-2, 3, 13) << newline;
}
main();
