-- single precision floats, widening/narrowing, truncation to integers
#include "aldor"
#include "aldorio"
import from MachineInteger, DoubleFloat, SingleFloat;
s: SingleFloat := 1.5;
t: SingleFloat := 0.1;
stdout << "single " << s << " " << t << " " << s + t << " " << s * t << " " << s / t << newline;
sacc: SingleFloat := 0.0;
for i in 1..10 repeat sacc := sacc + t;
stdout << "single tenths " << sacc << " " << (sacc = 1.0) << newline;
y: DoubleFloat := 0.1;
stdout << "widen " << (t::DoubleFloat) << " narrow " << single(y) << newline;
stdout << "cmp " << (s < t) << (t < s) << (s = s) << newline;
tr(v: DoubleFloat): MachineInteger == { import from Integer; machine truncate v }
stdout << "trunc " << tr 1.5 << " " << tr(-1.5) << " " << tr(1234567.89) << " " << tr(s::DoubleFloat) << newline;
p: SingleFloat := 1.0;
for i in 1..30 repeat p := p * 1.1;
stdout << "1.1^30 " << p << newline;
