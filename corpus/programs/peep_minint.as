-- adding the most negative machine integer, written as a constant expression
#include "aldor"
#include "aldorio"
import from MachineInteger;
main(): () == {
	x: MachineInteger := 0;
	for i in 1..3 repeat x := x + i;
	m: MachineInteger := -9223372036854775807 - 1;
	stdout << x + m << newline;
	stdout << m + x << " " << x - m << newline;
}
main();
