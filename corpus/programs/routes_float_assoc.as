#include "aldor"
#include "aldorio"
import from MachineInteger, SingleFloat, DoubleFloat, String;
-- dissemble leaves the bytes above the fraction unset: keep the 3 (resp. 7) fraction bytes only
bs(tag: String, x: SingleFloat): () == {
	import from Machine;
	(s, e, m) := dissemble(x::SFlo);
	stdout << tag << " " << (s::Boolean) << " " << (e::MachineInteger) << " " << (((m pretend SInt)::MachineInteger) /\ 16777215) << newline;
}
bd(tag: String, x: DoubleFloat): () == {
	import from Machine;
	(s, e, m1, m2) := dissemble(x::DFlo);
	stdout << tag << " " << (s::Boolean) << " " << (e::MachineInteger) << " " << (((m1 pretend SInt)::MachineInteger) /\ 72057594037927935) << newline;
}
-- arithmetic whose result depends on the order and precision of evaluation (what -ffast-math style compilation,
-- x87 excess precision or re-association would change), printed bit-exactly
import from List DoubleFloat, List SingleFloat;
kahan(l: List DoubleFloat): DoubleFloat == {
	s: DoubleFloat := 0.0; c: DoubleFloat := 0.0;
	for e in l repeat { yy := e - c; tt := s + yy; c := (tt - s) - yy; s := tt; }
	s;
}
naive(l: List DoubleFloat): DoubleFloat == { s: DoubleFloat := 0.0; for e in l repeat s := s + e; s }
kahanS(l: List SingleFloat): SingleFloat == {
	s: SingleFloat := 0.0; c: SingleFloat := 0.0;
	for e in l repeat { yy := e - c; tt := s + yy; c := (tt - s) - yy; s := tt; }
	s;
}
naiveS(l: List SingleFloat): SingleFloat == { s: SingleFloat := 0.0; for e in l repeat s := s + e; s }
dl: List DoubleFloat := [1.0e16, 1.0, -1.0e16, 0.1, 0.2, 0.3, 1.0e-9, 3.0e7, -3.0e7, 0.7];
sl: List SingleFloat := [1.0e8, 1.0, -1.0e8, 0.1, 0.2, 0.3, 1.0e-5, 3.0e4, -3.0e4, 0.7];
bd("kahan", kahan dl); bd("naive", naive dl);
bs("kahanS", kahanS sl); bs("naiveS", naiveS sl);
tenth: DoubleFloat := 0.1; acc: DoubleFloat := 0.0;
for i in 1..1000 repeat acc := acc + tenth;
bd("1000 tenths", acc); bd("err", acc - 100.0);
a: DoubleFloat := 1.0e16; b: DoubleFloat := -1.0e16; c1: DoubleFloat := 1.0;
bd("(a+b)+c", (a + b) + c1); bd("a+(b+c)", a + (b + c1));
x: DoubleFloat := 3.0; y: DoubleFloat := 49.0;
bd("x/x", x / x); bd("1/x*x", (1.0 / x) * x); bd("y*(1/y)", y * (1.0 / y)); bd("x/3", x / 3.0);
bd("recip", 1.0 / 49.0); bd("recip2", (1.0 / 49.0) * 49.0 - 1.0);
sx: SingleFloat := 3.0; sy: SingleFloat := 49.0;
bs("sx/sx", sx / sx); bs("s1/x*x", (1.0 / sx) * sx); bs("srecip2", (1.0 / sy) * sy - 1.0);
h: DoubleFloat := 1.0;
for i in 1..52 repeat h := h / 2.0;
bd("eps", h); bd("1+eps", 1.0 + h); bd("1+eps/2", 1.0 + h / 2.0); bd("(1+eps/2)-1", (1.0 + h / 2.0) - 1.0);
p: DoubleFloat := 1.0; q0: DoubleFloat := 3.0;
for i in 1..30 repeat { p := p * 1.1 - 0.05; q0 := q0 / 1.3 + 0.01; }
bd("p", p); bd("q", q0); bd("p*q-q*p", p * q0 - q0 * p); bd("fma-like", p * q0 + (- (p * q0)));
bd("tiny*tiny", 1.0e-200 * 1.0e-200); bd("underflow", 1.0e-308 / 1.0e10); bd("x-x", x - x);
