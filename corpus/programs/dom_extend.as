-- extend of a library domain, and a domain with a local representation type
#include "aldor"
#include "aldorio"

extend MachineInteger: with { triple: % -> %; collatz: % -> % } == add {
	triple(n: %): % == n + n + n;
	collatz(n: %): % == { two: % := 1 + 1; if zero?(n rem two) then n quo two else triple n + 1 }
}

Mod7: with {
	coerce: MachineInteger -> %;
	lift: % -> MachineInteger;
	+: (%, %) -> %;
	*: (%, %) -> %;
	=: (%, %) -> Boolean;
	inv: % -> %;
} == add {
	Rep == MachineInteger;
	import from Rep;
	coerce(n: MachineInteger): % == per(n mod 7);
	lift(x: %): MachineInteger == rep x;
	(a: %) + (b: %): % == per((rep a + rep b) mod 7);
	(a: %) * (b: %): % == per((rep a * rep b) mod 7);
	(a: %) = (b: %): Boolean == rep a = rep b;
	inv(a: %): % == { r: % := per 1; for i in 1..5 repeat r := r * a; r }
}

import from MachineInteger;
n14: MachineInteger := 14; n7: MachineInteger := 7; n22: MachineInteger := 22;
stdout << triple n14 << " " << collatz n7 << " " << collatz n22 << newline;
import from Mod7;
x: Mod7 := (n14 quo 2 - 2) :: Mod7; y: Mod7 := (n7 - 4) :: Mod7;
one: Mod7 := (n7 - 6) :: Mod7;
stdout << lift(x + y) << " " << lift(x * y) << " " << lift inv x << " " << lift(x * inv x) << " " << (x * inv x = one) << newline;
