-- Author: Ralf Hemmecke, Johannes Kepler Universit"at Linz
-- EMail: ralf@hemmecke.de
-- Date: 17-Oct-2005
-- Aldor version 1.0.3 for LINUX(glibc2.3)
-- Subject: Conditional exports

-- Compile with
-- aldor -fx -laldor xxx.as
-- and run via calling 'xxx'.

-- The program crashes with
--: Looking in List(MyInt) for = with code 410721090
--: Unhandled Exception: RuntimeError()
--: Export not found

-- Of course this program must crash since MyInt does not implement
-- PrimitiveType and therefore no equality test.

-- Unfortunately, this program is NOT rejected by the compiler,
-- although it actually should reject it.

-- List inherits the equality test from the default implementation
-- of = in BoundedFiniteLinearStructureType. There, however, it says:
-- if T has PrimitiveType then {
--   (a:%) = (b:%):Boolean == {
--     import from Z, T;
--     #a ~= #b => false;
--     for x in a for y in b repeat x ~= y => return false;
--     true;
--   }
-- }
-- The code from the category has been overridden by the direct
-- implementation in List via
-- if T has PrimitiveType then {
--   (l1:%) = (l2:%):Boolean == {
--     while ~empty?(l1) repeat {
--       empty? l2 or (first l1 ~= first l2) => return false;
--       l1 := rest l1;
--       l2 := rest l2;
--     }
--     empty? l2;
--   }
-- }
-- so the compiler should not know of = for List MyInt, because
-- in both cases the implementation requires the parameter type T
-- to have PrimitiveType which MyInt clearly does not satisfy.

#include "aldor"
macro Z == AldorInteger;
MyInt: with {
        coerce: Z -> %;	
} == add {
        Rep == Z;
        import from Z;
        coerce(z: Z): % == per z;
}
main():() == {
	import from Z, MyInt, List MyInt, TextWriter, Character;
	try { l: List MyInt := [1 :: MyInt];
	      stdout << (l = l) << newline;
        }
	catch E in {
	   import from String;
	   stdout << "This test should fail to compile.  An existing bug means that an exception is thrown" << newline
	}
}
main();
