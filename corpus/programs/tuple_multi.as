-- multiple values through several functions, swaps, tuple-returning recursion
#include "aldor"
#include "aldorio"
import from MachineInteger;

swap(a: MachineInteger, b: MachineInteger): (MachineInteger, MachineInteger) == (b, a);
rot(a: MachineInteger, b: MachineInteger, c: MachineInteger): (MachineInteger, MachineInteger, MachineInteger) == (b, c, a);
egcd(a: MachineInteger, b: MachineInteger): (MachineInteger, MachineInteger, MachineInteger) == {
	b = 0 => (a, 1, 0);
	(g, x, y) := egcd(b, a rem b);
	(g, y, x - (a quo b) * y)
}
stats(n: MachineInteger): (MachineInteger, MachineInteger, MachineInteger) == {
	s: MachineInteger := 0; q: MachineInteger := 0; m: MachineInteger := 0;
	for i in 1..n repeat { s := s + i; q := q + i * i; if i * 7 rem 11 > m then m := i * 7 rem 11 }
	(s, q, m)
}
(a, b) := swap(1, 2);
stdout << a << " " << b << newline;
(a, b) := swap(a, b);
stdout << a << " " << b << newline;
(x, y, z) := rot(1, 2, 3);
(x, y, z) := rot(x, y, z);
stdout << x << y << z << newline;
(g, u, v) := egcd(240, 46);
stdout << g << " " << u << " " << v << " " << 240 * u + 46 * v << newline;
(s, q, m) := stats 10;
stdout << s << " " << q << " " << m << newline;
p: MachineInteger := 1; r: MachineInteger := 1;
for i in 1..10 repeat (p, r) := (r, p + r);
stdout << p << " " << r << newline;
