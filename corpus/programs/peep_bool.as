-- boolean identities: true and x, x and false, x or true, false or x, not not x, x = x on Boolean
#include "aldor"
#include "aldorio"
import from MachineInteger;

hits: MachineInteger := 0;
probe(b: Boolean): Boolean == { free hits := hits + 1; b }

show(x: Boolean): () == {
	stdout << (true and x) << (x and true) << (false and x) << (x and false);
	stdout << (true or x) << (x or true) << (false or x) << (x or false);
	stdout << (not not x) << (x = x) << (x ~= x) << (x = true) << (x = false) << newline;
}

main(): () == {
	n: MachineInteger := 0;
	for i in 1..5 repeat n := n + i;
	show(n > 10);
	show(n < 10);
	-- `and`/`or` are short-circuit in the language: the probes on the right must run exactly when needed
	a := probe(true) and probe(false);
	b := probe(false) and probe(true);
	c := probe(true) or probe(false);
	d := probe(false) or probe(true);
	stdout << a << b << c << d << " hits " << hits << newline;
	e := if probe(n = 15) then 1 else 2;
	stdout << e << " hits " << hits << newline;
}
main();
