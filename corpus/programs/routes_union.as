-- unions: tags, case tests, branch selection, unions inside records and lists
#include "aldor"
#include "aldorio"
import from MachineInteger, String;
Val ==> Union(int: MachineInteger, str: String, flag: Boolean);
import from Val, List Val, List MachineInteger;
show(v: Val): () == {
	v case int => stdout << "int " << v.int;
	v case str => stdout << "str " << v.str;
	stdout << "flag " << v.flag;
}
vals: List Val := [[42], ["hello"], [true], [-7], [""], [false]];
for v in vals repeat { show v; stdout << "; "; }
stdout << newline;
total: MachineInteger := 0;
for v in vals repeat {
	if v case int then total := total + v.int;
	if v case str then total := total + 100 * #(v.str);
	if v case flag then total := total + (if v.flag then 1000 else 2000);
}
stdout << total << newline;
Expr ==> Record(op: String, args: List Val);
import from Expr;
e: Expr := ["add", [[1], [2], ["three"]]];
n: MachineInteger := 0;
for a in e.args repeat if a case int then n := n + a.int;
stdout << e.op << " " << n << " " << #(e.args) << newline;
x: Val := [5];
stdout << (x case int) << (x case str) << (x case flag) << newline;
x := ["now a string"];
stdout << (x case int) << (x case str) << (x case flag) << " " << x.str << newline;
bump(v: Val): Val == {
	v case int => [v.int + 1];
	v case str => [v.str + "!"];
	[~(v.flag)];
}
for v in vals repeat { show bump v; stdout << "; "; }
stdout << newline;
safeInt(v: Val): MachineInteger == { v case int => v.int; -1 }
ints: List MachineInteger := [safeInt v for v in vals];
stdout << ints << newline;
