-- IEEE special values computed at run time: x-x, x*0, x=x, x/x for infinity and NaN
#include "aldor"
#include "aldorio"
import from MachineInteger, DoubleFloat;

b(x: Boolean): String == if x then "T" else "F";
probe(tag: String, x: DoubleFloat): () == {
	d := x - x;
	p := x * 0.0;
	q := x / x;
	stdout << tag << ": " << b(x = x) << b(x ~= x) << b(x < x) << b(x <= x) << " " << b(d = 0.0) << b(p = 0.0) << b(q = 1.0) << b(d = d) << newline;
}
main(): () == {
	big: DoubleFloat := 1.0;
	for i in 1..11 repeat big := big * big * 4.0 + 1.0e30;
	probe("inf", big);
	probe("nan", big - big);
	probe("one", 1.0);
	z: DoubleFloat := 0.0;
	for i in 1..3 repeat z := z * 2.0;
	probe("zero", z);
}
main();
