-- exceptions caught inside a loop at top level; computation continues after each catch
#include "aldor"
#include "aldorio"
import from MachineInteger, String;
define OddExceptionType: Category == with;
OddException: OddExceptionType == add;
half(n: MachineInteger): MachineInteger == {
	n rem 2 ~= 0 => throw OddException;
	n quo 2
}
k: MachineInteger := 0;
for i in 1..6 repeat {
	try { k := k + half i } catch E in { k := k + 100 }
	stdout << i << ":" << k << " ";
}
stdout << newline << k << newline;
