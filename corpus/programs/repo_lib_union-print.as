#include "aldor"
#include "aldorio"

U ==> Union(a: Integer, b: String);

test1(): () == {
	u: U := [12];
	stdout << u << newline;
}

test2(): () == {
	import from Assert String;
	import from String;

        u: U := [12];
	buf: StringBuffer := new();
	out: TextWriter := buf::TextWriter;

	out << u;

	assertEquals("[12@AldorInteger]", string buf);
}
test1();
test2();
