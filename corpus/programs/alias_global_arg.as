-- an inlinable callee WRITES a global that is also its argument, then reads the parameter once
#include "aldor"
#include "aldorio"
import from MachineInteger;

g: MachineInteger := 1;
bumpThenUse(x: MachineInteger): MachineInteger == { free g := g + 10; x + g }
bumpThenUse2(x: MachineInteger): MachineInteger == { free g := g * 2; x }
setThenUse(x: MachineInteger): MachineInteger == { free g := 0; x + 1 }

main(): () == {
	free g;
	r1 := bumpThenUse(g);            -- x is the OLD g: 1 + 11
	stdout << r1 << " " << g << newline;
	r2 := bumpThenUse(g + 0);        -- 11 + 21
	stdout << r2 << " " << g << newline;
	r3 := bumpThenUse2(g);           -- 21, g = 42
	stdout << r3 << " " << g << newline;
	r4 := setThenUse(g);             -- 43, g = 0
	stdout << r4 << " " << g << newline;
	g := 5;
	r5 := bumpThenUse(g * 1);
	r6 := bumpThenUse2(g - 0);
	stdout << r5 << " " << r6 << " " << g << newline;
}
main();
