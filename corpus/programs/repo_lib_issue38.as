#include "aldor"
#include "aldorio"

import from MachineInteger;

main(): () == {
        stdout <<  min << newline;
        stdout <<  0 << newline;
        stdout <<  1 << newline;
        stdout <<  max << newline;
}
main();
