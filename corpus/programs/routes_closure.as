-- closures: captured variables, counters, higher-order functions, functions returning functions
#include "aldor"
#include "aldorio"
import from MachineInteger, List MachineInteger;
makeCounter(start: MachineInteger): () -> MachineInteger == {
	n: MachineInteger := start;
	(): MachineInteger +-> { free n := n + 1; n }
}
adder(k: MachineInteger): MachineInteger -> MachineInteger == (x: MachineInteger): MachineInteger +-> x + k;
compose(f: MachineInteger -> MachineInteger, g: MachineInteger -> MachineInteger): MachineInteger -> MachineInteger ==
	(x: MachineInteger): MachineInteger +-> f(g x);
twice(f: MachineInteger -> MachineInteger): MachineInteger -> MachineInteger == compose(f, f);
c1 := makeCounter 10;
c2 := makeCounter 100;
stdout << c1() << " " << c1() << " " << c2() << " " << c1() << " " << c2() << newline;
add5 := adder 5;
stdout << add5 1 << " " << (twice add5)(1) << " " << (twice twice add5)(1) << newline;
fs: List(MachineInteger -> MachineInteger) := empty;
for i in 1..5 repeat fs := cons(adder(i * i), fs);
import from List(MachineInteger -> MachineInteger);
for f in fs repeat stdout << f 1000 << " ";
stdout << newline;
total: MachineInteger := 0;
accumulate(x: MachineInteger): () == { free total := total + x; }
for i in 1..100 repeat accumulate i;
stdout << "total " << total << newline;
l: List MachineInteger := [i * i for i in 1..10];
sq := map((x: MachineInteger): MachineInteger +-> x + 1)(l);
stdout << sq << newline;
applyN(f: MachineInteger -> MachineInteger, n: MachineInteger, x: MachineInteger): MachineInteger == {
	for i in 1..n repeat x := f x;
	x;
}
stdout << applyN((x: MachineInteger): MachineInteger +-> 3 * x + 1, 30, 1) << newline;
outer(a: MachineInteger): MachineInteger == {
	inner(b: MachineInteger): MachineInteger == {
		innermost(c: MachineInteger): MachineInteger == a * 100 + b * 10 + c;
		innermost(b + 1);
	}
	inner(a + 1);
}
stdout << outer 1 << " " << outer 5 << newline;
