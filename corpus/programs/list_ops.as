-- lists: cons, reverse, map, reduce, sort, membership
#include "aldor"
#include "aldorio"
import from MachineInteger, List MachineInteger, List String, String;

l: List MachineInteger := [5, 3, 8, 1, 9, 2];
stdout << l << " " << #l << newline;
stdout << reverse l << newline;
stdout << first l << " " << rest l << newline;
stdout << sort! copy l << newline;
stdout << l << newline;
stdout << [x * x for x in l | x > 2] << newline;
stdout << member?(8, l) << member?(7, l) << empty? l << empty?(empty$List(MachineInteger)) << newline;
s: MachineInteger := 0; m: MachineInteger := first l;
for x in l repeat { s := s + x; if x > m then m := x }
stdout << s << " " << m << newline;
l2 := append!(copy l, [100, 200]);
stdout << l2 << " " << l2.3 << newline;
ws: List String := ["pear", "apple", "fig"];
stdout << ws << " " << reverse ws << newline;
acc: List MachineInteger := empty;
for i in 1..5 repeat acc := cons(i, acc);
stdout << acc << newline;
