-- arrays of arrays, primitive arrays, in-place updates, sorting
#include "aldor"
#include "aldorio"
import from MachineInteger, String;
A ==> Array MachineInteger;
M ==> Array A;
import from A, M;
n: MachineInteger := 6;
m: M := new(n, new(0, 0));
for i in 0..n-1 repeat { row: A := new(n, 0); for j in 0..n-1 repeat row.j := (i + 1) * (j + 2) rem 7; m.i := row; }
for i in 0..n-1 repeat { for j in 0..n-1 repeat stdout << (m.i).j << " "; stdout << newline; }
tr: MachineInteger := 0;
for i in 0..n-1 repeat tr := tr + (m.i).i;
stdout << "trace " << tr << newline;
mul(a: M, b: M): M == {
	k := #a;
	c: M := new(k, new(0, 0));
	for i in 0..k-1 repeat {
		r: A := new(k, 0);
		for j in 0..k-1 repeat { s: MachineInteger := 0; for l in 0..k-1 repeat s := s + (a.i).l * (b.l).j; r.j := s; }
		c.i := r;
	}
	c;
}
sq := mul(m, m);
cube := mul(sq, m);
stdout << "cube row 2: " << cube.2 << newline;
v: A := [ (i * 7919) rem 101 for i in 1..20 ];
stdout << v << newline;
-- (libaldor's Array sort! picks random pivots: not used here) insertion sort, in place
isort!(a: A, before?: (MachineInteger, MachineInteger) -> Boolean): A == {
	for i in 1..#a-1 repeat {
		x := a.i; j := i - 1;
		while j >= 0 and before?(x, a.j) repeat { a(j + 1) := a.j; j := j - 1; }
		a(j + 1) := x;
	}
	a;
}
isort!(v, (a: MachineInteger, b: MachineInteger): Boolean +-> a < b);
stdout << v << newline;
isort!(v, (a: MachineInteger, b: MachineInteger): Boolean +-> a > b);
stdout << v << newline;
(found?, pos) := binarySearch(44, isort!(copy v, (a: MachineInteger, b: MachineInteger): Boolean +-> a < b));
stdout << "search " << found? << " " << pos << newline;
w: A := new(5, 1);
shared: M := new(3, w);
(shared.0).2 := 99;
stdout << shared.1 << " " << #shared << newline;
import from PrimitiveArray MachineInteger;
pa: PrimitiveArray MachineInteger := new 10;
for i in 0..9 repeat pa.i := i * i;
ps: MachineInteger := 0;
for i in 0..9 repeat ps := ps + pa.i;
stdout << "prim " << ps << newline;
jag: M := new(4, new(0, 0));
for i in 0..3 repeat jag.i := new(i + 1, i);
for r in jag repeat stdout << #r << ":" << r << " ";
stdout << newline;
