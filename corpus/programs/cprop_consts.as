-- constant propagation / folding through variables and conditionals
#include "aldor"
#include "aldorio"
import from MachineInteger;

main(): () == {
	a: MachineInteger := 6;
	b: MachineInteger := 7;
	c := a * b;
	d := c - 2 * (a + b);
	stdout << c << " " << d << newline;
	if c = 42 then stdout << "answer" << newline else stdout << "wrong" << newline;
	flag: Boolean := a < b;
	if flag and c > 40 then stdout << "both" << newline;
	if not flag or d = 0 then stdout << "either" << newline else stdout << "neither" << newline;
	e: MachineInteger := if flag then 100 else 200;
	stdout << e + d << newline;
	k: MachineInteger := 0;
	while k < 3 repeat { k := k + 1; a := a + k }
	stdout << a << " " << k << newline;
	stdout << (a quo 2) << " " << (a rem 5) << " " << shift(a, 3) << " " << shift(a, -1) << newline;
}
main();
