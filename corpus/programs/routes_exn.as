-- exceptions crossing function boundaries, nested handlers, finally blocks, rethrow
#include "aldor"
#include "aldorio"
import from MachineInteger, String, List MachineInteger;
NegativeType: Category == with;
Negative: NegativeType == add;
TooBigType: Category == with;
TooBig: TooBigType == add;
check(n: MachineInteger): MachineInteger == {
	n < 0 => throw Negative;
	n > 100 => throw TooBig;
	n;
}
level3(n: MachineInteger): MachineInteger == check(n) + 1;
level2(n: MachineInteger): MachineInteger == level3(n) * 2;
level1(n: MachineInteger): MachineInteger == { stdout << "[in " << n << "]"; r := level2 n; stdout << "[out]"; r }
try1(n: MachineInteger): MachineInteger == {
	try level1 n catch E in {
		E has NegativeType => -1;
		E has TooBigType => -100;
		never;
	}
}
for n in [5, -3, 50, 500, 0] repeat stdout << "try1 " << n << " -> " << try1 n << newline;
withFinally(n: MachineInteger): MachineInteger == {
	try level2 n catch E1 in { E1 has NegativeType => 0; never } finally stdout << "(finally " << n << ")";
}
stdout << withFinally 7 << newline;
stdout << withFinally(-7) << newline;
inner(n: MachineInteger): MachineInteger == {
	try level2 n catch E2 in { E2 has NegativeType => { stdout << "inner "; throw TooBig }; never }
}
nested(n: MachineInteger): MachineInteger == {
	try inner n catch F in { F has TooBigType => 999; never }
}
stdout << nested 1 << " " << nested(-1) << newline;
sum: MachineInteger := 0;
for i in -5..5 repeat {
	sum := sum + (try check(i * 30) catch E3 in { E3 has NegativeType => 1000; E3 has TooBigType => 100000; never });
}
stdout << "sum " << sum << newline;
-- four frames deep, thrown from the innermost, caught at the top
d4(n: MachineInteger): MachineInteger == check(n - 1000);
d3(n: MachineInteger): MachineInteger == 1 + d4 n;
d2(n: MachineInteger): MachineInteger == 1 + d3 n;
d1(n: MachineInteger): MachineInteger == 1 + d2 n;
stdout << "deep " << (try d1 5 catch E4 in { E4 has NegativeType => -500; never }) << " " << (try d1 1050 catch E8 in { never }) << newline;
gen(): Generator MachineInteger == generate { for k in 1..10 repeat yield check(5 - k); }
cnt: MachineInteger := 0;
try { for x in gen() repeat cnt := cnt + 1; } catch E5 in { E5 has NegativeType => stdout << "gen stopped after " << cnt << newline; never }
passthrough(n: MachineInteger): MachineInteger == {
	try check n catch E6 in { E6 has NegativeType => -7; throw E6 }
}
stdout << "pass " << (try passthrough 1000 catch E7 in { E7 has TooBigType => 77; never }) << " " << passthrough(-1) << newline;
