-- early return from nested loops, `=>` exits, multiple return values
#include "aldor"
#include "aldorio"
import from MachineInteger, List MachineInteger;

find(l: List MachineInteger, t: MachineInteger): MachineInteger == {
	i: MachineInteger := 0;
	for x in l repeat { x = t => return i; i := i + 1 }
	-1
}
pyth(n: MachineInteger): (MachineInteger, MachineInteger, MachineInteger) == {
	for a in 1..n repeat for b in a..n repeat for c in b..n repeat
		if a*a + b*b = c*c and a + b + c = n then return (a, b, c);
	(0, 0, 0)
}
divmod(a: MachineInteger, b: MachineInteger): (MachineInteger, MachineInteger) == (a quo b, a rem b);
classify(n: MachineInteger): String == {
	n < 0 => "negative";
	n = 0 => "zero";
	n < 10 => "small";
	"large"
}
minmax(l: List MachineInteger): (MachineInteger, MachineInteger) == {
	lo := first l; hi := first l;
	for x in rest l repeat { if x < lo then lo := x; if x > hi then hi := x }
	(lo, hi)
}

l: List MachineInteger := [4, 8, 15, 16, 23, 42];
stdout << find(l, 15) << " " << find(l, 5) << " " << find(l, 42) << newline;
(a, b, c) := pyth 12;
stdout << a << " " << b << " " << c << newline;
(q, r) := divmod(47, 5);
stdout << q << " " << r << newline;
stdout << classify(-3) << " " << classify 0 << " " << classify 7 << " " << classify 70 << newline;
(lo, hi) := minmax l;
stdout << lo << " " << hi << newline;
