-- double-float constants and folded constant expressions, printed bit-exactly (see checks/parts/routesearch.py: float_const_program)
#include "aldor"
#include "aldorio"
import from MachineInteger, SingleFloat, DoubleFloat, String;
-- dissemble leaves the bytes above the fraction unset: keep the 3 (resp. 7) fraction bytes only
bs(tag: String, x: SingleFloat): () == {
	import from Machine;
	(s, e, m) := dissemble(x::SFlo);
	stdout << tag << " " << (s::Boolean) << " " << (e::MachineInteger) << " " << (((m pretend SInt)::MachineInteger) /\ 16777215) << newline;
}
bd(tag: String, x: DoubleFloat): () == {
	import from Machine;
	(s, e, m1, m2) := dissemble(x::DFlo);
	stdout << tag << " " << (s::Boolean) << " " << (e::MachineInteger) << " " << (((m1 pretend SInt)::MachineInteger) /\ 72057594037927935) << newline;
}

bd("d0", 1.8344362681221638);
bd("d1", 1010.0157686861485);
bd("d2", 0.10624807378036913 + 1.53333);
bd("d3", 0.19 * 4.125);
bd("d4", 1.9276225650668122);
bd("d5", 1.2206186240869512);
bd("d6", 1.8456266142992162);
bd("d7", 0.0081646980291105366);
bd("d8", 0.10043106417252777);
bd("d9", 1040210.8164965407 - 1000270.2880611054);
bd("d10", (2.4 * 11.935220587043792) / 3.9);
bd("d11", 1.6 * 5.2);
bd("d12", (- 1024106.2705821188));
bd("d13", 2.25 * 8.0);
bd("d14", 0.11325433767728987);
bd("d15", 1038163.2928145423);
bd("d16", (0.125 * 1002.0834141176338) / 6.5);
bd("d17", 0.12470951567376624);
bd("d18", 1047557.0985790988);
bd("d19", 3.875 / 0.17);
bd("d20", 1.0000000000000002);
bd("d21", 0.99999999999999989);
bd("d22", 4503599627370497.0);
bd("d23", 9007199254740993.0);
bd("d24", 1.7976931348623157e308);
bd("d25", 2.2250738585072014e-308);
bd("d26", 1.0e-310);
bd("d27", 4.9e-324);
bd("d28", 2.0e-324);
bd("d29", 0.0);
bd("d30", (0.111190446)::DoubleFloat);
bd("d31", (1001.93835)::DoubleFloat);
