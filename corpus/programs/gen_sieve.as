-- sieve of Eratosthenes with a Boolean array and a generator of primes
#include "aldor"
#include "aldorio"
import from MachineInteger, Array Boolean, List MachineInteger;

primes(n: MachineInteger): Generator MachineInteger == generate {
	composite: Array Boolean := new(n + 1, false);
	for i in 2..n repeat {
		composite.i => iterate;
		yield i;
		for j in i * i..n by i repeat composite.j := true;
	}
}
stdout << [p for p in primes 60] << newline;
c: MachineInteger := 0; s: MachineInteger := 0;
for p in primes 1000 repeat { c := c + 1; s := s + p }
stdout << c << " " << s << newline;
twins: List MachineInteger := empty;
prev: MachineInteger := 0;
for p in primes 100 repeat { if p - prev = 2 then twins := cons(prev, twins); prev := p }
stdout << reverse twins << newline;
