--* From hemmecke@risc.uni-linz.ac.at  Thu Nov 18 11:09:20 1999
--* Received: from kernel.risc.uni-linz.ac.at (root@kernel.risc.uni-linz.ac.at [193.170.36.225])
--* 	by nagmx1.nag.co.uk (8.9.3/8.9.3) with ESMTP id LAA12337
--* 	for <ax-bugs@nag.co.uk>; Thu, 18 Nov 1999 11:09:07 GMT
--* Received: from iapetus.risc.uni-linz.ac.at (root@iapetus.risc.uni-linz.ac.at [193.170.36.25])
--* 	by kernel.risc.uni-linz.ac.at (8.9.2/8.9.2/Debian/GNU) with ESMTP id MAA03642
--* 	for <ax-bugs@nag.co.uk>; Thu, 18 Nov 1999 12:07:45 +0100 (CET)
--* Received: by risc.uni-linz.ac.at
--* 	via send-mail from stdin
--* 	id <m11oPPl-0025TNC@iapetus.risc.uni-linz.ac.at> (Debian Smail3.2.0.102)
--* 	for ax-bugs@nag.co.uk; Thu, 18 Nov 1999 12:07:45 +0100 (CET) 
--* Message-Id: <m11oPPl-0025TNC@iapetus.risc.uni-linz.ac.at>
--* Date: Thu, 18 Nov 1999 12:07:45 +0100 (CET)
--* From: hemmecke@risc.uni-linz.ac.at (Ralf HEMMECKE)
--* To: ax-bugs@nag.co.uk
--* Subject: [2] semantic changing add statement

--@ Fixed  by: <Who> <Date>
--@ Tested by: <Name of new or existing file in test directory>
--@ Summary:   <Description of real problem and the fix>

-- Command line: axiomxl -V -DC1 -grun xxx.as
-- Version: Aldor version 1.1.12p2 for LINUX(glibc)
-- Original bug file name: xxx.as

-- Author: Ralf Hemmecke, Johannes Kepler Universit"at Linz
-- Date: 18-NOV-99
-- Aldor version 1.1.12p2 for LINUX(glibc)
-- Subject: semantic changing add statement


-- Calling sequence:
-- Problem case:
--   axiomxl -V -DC1 -grun xxx.as
--The output will be

--:E1(1): x1	E1(2): x2
--:E2(1): x	E2(2): y

--while for 
--   axiomxl -V -DC1 -grun xxx.as
--the output is as wanted

--:E1(1): x	E1(2): y
--:E2(1): x	E2(2): y

-- I hope that this is also considered a bug by NAG. I had quite a hard
-- time to figure out this strange behaviour.
-- However, I guess that although I think that
--    CxDegLexPP(vars: LS): PPCat == CxTDegPP CxLexPP vars;
-- defines a constructor, it is actually considered 
-- by the compiler (or even by the language specification)
-- an ordinary function, maybe only a
-- bit special since it returns a domain, but who knows.
-- With this in mind, the question arises whether or not
--    CxPP(vars: LS,s: String): PPCat with == {add { ... } where {...}}
-- is considered a function or a domain constructor.

-- The intension of my original code (which I have shortened here) was
-- to provide a default definition in PPCat and to overload it by
-- new code from a derived category.

#include "axllib"

macro {
	I == SingleInteger;
	LS == List String;
}

define PPCat: Category == with {
	name: I -> String;
    default {
	name(i: I): String == {-- make x1,x2,x3,x4,...
		A ==> Array Character;
		import from TextWriter,A;
		buffer: A := new(1, char "x");
		wr := writer buffer;
		wr << i; 
		string buffer;
	}
    }
}

define PPCat(T: PPCat): Category == PPCat with {
	coerce: % -> T;
	coerce: T -> %;
    default {
	import from T;
	name(i: I): String == name(i)$T;
    }
}

-------------------------------------------------------------------
CxPP(vars: LS,s: String): PPCat with == {add { -- where clause follows
	name(i: I): String == {
		if i < 0 or i > numOfVars then {
			error "There is no variable with this index."
		} else {
			vars.i;
		}
	}
    } where {numOfVars: I == #vars}
}

CxTDegPP(E: PPCat): PPCat E with == add {
	Rep ==> Record(ex: E, tdeg: I);
	import from E, I, Rep;
	coerce(x: %): E  == rep(x).ex;
	coerce(e: E): % == per [e,  1];
}

CxLexPP(vars: LS): PPCat == CxPP(vars,"lex") add;
CxDegLexPP(vars: LS): PPCat == CxTDegPP CxLexPP vars 
#if C1
add --PROBLEM `add'
#endif
;

main():() == {
	import from I, LS, Character;
	vars: LS == ["x", "y", "z"];
	E1 == CxDegLexPP vars;
	E2 == CxTDegPP CxLexPP vars;
	print << "E1(1): " << name(1)$E1 << tab 
	      << "E1(2): " << name(2)$E1 << newline;
	print << "E2(1): " << name(1)$E2 << tab
	      << "E2(2): " << name(2)$E2 << newline;
}
main();
