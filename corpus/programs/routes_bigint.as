-- big integers: arithmetic and printing
#include "aldor"
#include "aldorio"
Z ==> MachineInteger;
import from Integer, Z;
f: Integer := 1;
i: Z := 0;
while i < 40 repeat { i := i + 1; f := f * (i::Integer); if i rem 8 = 0 then stdout << i << "! = " << f << newline; }
two: Integer := 2;
p: Integer := two^200;
stdout << "2^200 " << p << newline;
stdout << "-2^200+1 " << (1 - p) << newline;
stdout << "quo " << (p quo (f + 1)) << newline;
stdout << "rem " << (p rem (f + 1)) << newline;
stdout << "gcd " << gcd(f, p) << newline;
d: Integer := 1000003;
stdout << "neg quo " << ((-p) quo d) << " rem " << ((-p) rem d) << newline;
m: Integer := (max@Z)::Integer;
stdout << "max+1 " << m + 1 << " (max+1)^2 " << (m + 1) * (m + 1) << newline;
stdout << "min-1 " << ((min@Z)::Integer - 1) << newline;
stdout << "length " << length(p) << " " << length(f) << newline;
k: Z := 190;
stdout << "shift " << shift(p, -k) << " " << shift(two, 70) << newline;
stdout << "cmp " << (p > f) << (f > p) << (p = two^200) << newline;
a: Integer := 1; b: Integer := 1;
i := 0;
while i < 150 repeat { i := i + 1; (a, b) := (b, a + b); }
stdout << "fib150 " << a << newline;
stdout << "machine " << machine(p quo two^150) << newline;
n25: Integer := 25;
stdout << "fact " << factorial(n25) << newline;
stdout << "small " << (f - f) << " " << (f quo f) << " " << -(f quo f) << newline;
