-- DELIBERATELY order-dependent: not (f() <= v) where f changes the variable v
#include "aldor"
#include "aldorio"
import from MachineInteger;

v: MachineInteger := 0;
f(): MachineInteger == { free v := v + 10; 5 }
main(): () == {
	b1 := not (f() <= v);      -- left to right: 5 <= 10, so false
	stdout << b1 << " " << v << newline;
	free v := 0;
	b2 := not (v <= f());      -- left to right: 0 <= 5, so false
	stdout << b2 << " " << v << newline;
	v := 0;
	b3 := not (f() = v);
	stdout << b3 << " " << v << newline;
}
main();
