--* From chicha@scl.csd.uwo.ca  Sat Sep 29 15:39:12 2001
--* Received: from welly-2.star.net.uk (welly-2.star.net.uk [195.216.16.189])
--* 	by nag.co.uk (8.9.3/8.9.3) with SMTP id PAA28517
--* 	for <ax-bugs@nag.co.uk>; Sat, 29 Sep 2001 15:39:11 +0100 (BST)
--* From: chicha@scl.csd.uwo.ca
--* Received: (qmail 8775 invoked by uid 1001); 29 Sep 2001 14:38:42 -0000
--* Received: from 1.star-private-mail-12.star.net.uk (HELO smtp-in-1.star.net.uk) (10.200.12.1)
--*   by delivery-2.star-private-mail-4.star.net.uk with SMTP; 29 Sep 2001 14:38:42 -0000
--* Received: (qmail 29595 invoked from network); 29 Sep 2001 14:38:41 -0000
--* Received: from mail17.messagelabs.com (62.231.131.67)
--*   by smtp-in-1.star.net.uk with SMTP; 29 Sep 2001 14:38:41 -0000
--* X-VirusChecked: Checked
--* Received: (qmail 8308 invoked from network); 29 Sep 2001 14:35:47 -0000
--* Received: from ptibonum.scl.csd.uwo.ca (129.100.16.102)
--*   by server-8.tower-17.messagelabs.com with SMTP; 29 Sep 2001 14:35:47 -0000
--* Message-Id: <200109291438.f8TEccP24091@plutonium.scl.csd.uwo.ca>
--* Date: Sat, 29 Sep 2001 10:38:38 -0400
--* To: ax-bugs@nag.co.uk
--* Subject: [9] Test for the new bug server @aldor.org

--@ Fixed  by: <Who> <Date>
--@ Tested by: <Name of new or existing file in test directory>
--@ Summary:   <Description of real problem and the fix>

-- Command line: none
-- Version: 1.0.0(7)
-- Original bug file name: /scl/people/chicha/titi.as

#include "aldor"
#include "aldorio"

import from DoubleFloat;
stdout << max$DoubleFloat << newline;
