#include "aldor"
#include "aldorio"

MI ==> MachineInteger;

extend String:TotallyOrderedType with { } == add {
        import from Character, MI;

        (<)(u:%, v:%):Boolean == {
             (a: MI, b: MI) := (#u, #v);
             zero? a => not zero? b;
             zero? b => false;
             for i in 0..min(a,b) repeat {
                 u.i < v.i => return true;
                 u.i > v.i => return false;
             }
             a < b;
         }
        (>)(u:%, v:%):Boolean == v < u;
        (<=)(u:%, v:%):Boolean == not (u > v);
        (>=)(u:%, v:%):Boolean == not (v > u);
        min(u:%, v:%):% == if u < v then u else v;
        max(u:%, v:%):% == if u < v then v else u;
}

import from List String;

l1 := ["animal","aldor","apple","anaconda","atlantic"];
l2 := sort! copy l1;

stdout << l1 << newline;
stdout << l2 << newline;
