-- loops with break / iterate, nested, `by`, while with complex conditions
#include "aldor"
#include "aldorio"
import from MachineInteger;

main(): () == {
	s: MachineInteger := 0;
	for i in 1..100 repeat {
		i rem 2 = 0 => iterate;
		i > 15 => break;
		s := s + i;
	}
	stdout << "odd sum " << s << newline;
	for i in 10..1 by -3 repeat stdout << i << " ";
	stdout << newline;
	for i in 0..20 by 5 repeat stdout << i << " ";
	stdout << newline;
	found: MachineInteger := -1;
	for i in 1..10 repeat {
		for j in 1..10 repeat {
			if i * j = 42 then { found := 10 * i + j; break }
		}
		found > 0 => break;
	}
	stdout << "found " << found << newline;
	a: MachineInteger := 27; steps: MachineInteger := 0;
	while a ~= 1 and steps < 200 repeat {
		a := if a rem 2 = 0 then a quo 2 else 3 * a + 1;
		steps := steps + 1;
	}
	stdout << "collatz " << steps << newline;
	n: MachineInteger := 0;
	repeat { n := n + 1; if n * n > 200 then break }
	stdout << "isqrt " << n << newline;
	for i in 1..3 for j in 10..20 repeat stdout << i + j << " ";
	stdout << newline;
	for i in 1..20 | i rem 3 = 0 repeat stdout << i << " ";
	stdout << newline;
}
main();
