--* Received: from nirvana.inria.fr by nags2.nag.co.uk (4.1/UK-2.1)
--* 	id AA06626; Thu, 29 Aug 96 17:25:56 BST
--* Received: by nirvana.inria.fr (8.7.5/8.6.12) id SAA20351 for ax-bugs@nag.co.uk; Thu, 29 Aug 1996 18:19:29 +0200
--* Date: Thu, 29 Aug 1996 18:19:29 +0200
--* From: Stephen Watt <Stephen.Watt@sophia.inria.fr>
--* Message-Id: <199608291619.SAA20351@nirvana.inria.fr>
--* To: ax-bugs
--* Subject: [3] Over-riding implementations ignored

--@ Fixed  by: <Who> <Date>
--@ Tested by: <Name of new or existing file in test directory>
--@ Summary:   <Description of real problem and the fix>

-- Command line: axiomxl -Fx ex1.as
-- Version: AXIOM-XL version 1.1.5 for LINUX
-- Original bug file name: ex1.as

#include "axllib"

define Cat1: Category == with {
	op1: Integer -> Integer;
	op2: Integer -> Integer;

	default op1(n: Integer): Integer == {
		print << "The default op1 for " << n << newline;
		n*2
	}
}


Package1: Cat1 == add {
	op2(n: Integer): Integer == op1 op1 op1 n;
}



Package2: Cat1 == Package1 add {
	op1(n: Integer): Integer == { print << "The overriding op1 for " << n << newline; n }
}



main():() == {

	import from Integer;

	-- This should use the default op1, and does.
	print << "From package 1: " << newline << op2(3)$Package1 << newline;

	-- ************* This should use op1$Package2, but doesn't. **********
	print << "From package 2: " << newline << op2(3)$Package2 << newline;
}

main()
