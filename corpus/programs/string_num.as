-- numbers to strings and back by hand, character arithmetic
#include "aldor"
#include "aldorio"
import from MachineInteger, String, Character, List MachineInteger;

toStr(n: MachineInteger): String == {
	n = 0 => "0";
	neg := n < 0; if neg then n := -n;
	s: String := "";
	while n > 0 repeat { s := new(1, char(48 + n rem 10)) + s; n := n quo 10 }
	if neg then "-" + s else s
}
fromStr(s: String): MachineInteger == {
	v: MachineInteger := 0; neg := false;
	for c in s repeat { if c = char "-" then neg := true else v := 10 * v + ord c - 48 }
	if neg then -v else v
}
hex(n: MachineInteger): String == {
	d := "0123456789abcdef"; s: String := "";
	repeat { s := new(1, d(n rem 16)) + s; n := n quo 16; n = 0 => break }
	s
}
for n in [0, 7, 42, -15, 1000000, 9223372036854775807] repeat stdout << toStr n << "|";
stdout << newline;
stdout << fromStr "12345" + fromStr "-345" << " " << fromStr toStr 987654321 << newline;
stdout << hex 255 << " " << hex 4096 << " " << hex 0 << " " << hex 3735928559 << newline;
stdout << #toStr(-100) << " " << toStr(fromStr "77" * 3) + "!" << newline;
