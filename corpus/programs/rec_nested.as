-- nested records, update in loops, list of records, selection sort on a field
#include "aldor"
#include "aldorio"
import from MachineInteger, String;
Pt ==> Record(x: MachineInteger, y: MachineInteger);
Seg ==> Record(a: Pt, b: Pt, tag: String);
import from Pt, Seg, List Seg, Array Seg;

len1(s: Seg): MachineInteger == abs(s.b.x - s.a.x) + abs(s.b.y - s.a.y);
shift!(s: Seg, d: MachineInteger): () == { s.a.x := s.a.x + d; s.b.x := s.b.x + d }

segs: Array Seg := new(4, [[0, 0], [0, 0], ""]);
for i in 0..3 repeat segs.i := [[i, i * i], [7 - 2 * i, 3], "s" + (if i rem 2 = 0 then "e" else "o")];
for s in segs repeat stdout << s.tag << len1 s << " ";
stdout << newline;
for i in 0..3 repeat for j in i+1..3 repeat
	if len1(segs.j) < len1(segs.i) then { t := segs.i; segs.i := segs.j; segs.j := t }
for s in segs repeat stdout << "(" << s.a.x << "," << s.a.y << ")-(" << s.b.x << "," << s.b.y << ") ";
stdout << newline;
shift!(segs.0, 100);
alias := segs.0;
alias.tag := "moved";
stdout << segs.0.a.x << " " << segs.0.b.x << " " << segs.0.tag << " " << len1(segs.0) << newline;
