-- three levels of nested functions, each capturing variables of all enclosing levels
#include "aldor"
#include "aldorio"
import from MachineInteger, List MachineInteger;

outer(a: MachineInteger): MachineInteger -> (MachineInteger -> MachineInteger) == {
	ka := a * 2;
	(b: MachineInteger): (MachineInteger -> MachineInteger) +-> {
		kb := ka + b;
		(c: MachineInteger): MachineInteger +-> 100 * ka + 10 * kb + c + a
	}
}
table(n: MachineInteger): List MachineInteger == {
	acc: List MachineInteger := empty;
	step(i: MachineInteger): () == {
		inner(j: MachineInteger): MachineInteger == i * n + j;
		free acc := cons(inner(i + 1), acc);
	}
	for i in 1..n repeat step i;
	reverse acc
}
f := outer 1;
g := f 2;
stdout << g 3 << " " << (outer 2)(0)(0) << " " << (f 5)(7) << newline;
stdout << table 4 << newline;
