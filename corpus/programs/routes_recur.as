-- recursion: depth, mutual recursion, non-tail accumulation
#include "aldor"
#include "aldorio"
import from MachineInteger, Integer;
fib(n: MachineInteger): MachineInteger == { n < 2 => n; fib(n - 1) + fib(n - 2) }
ack(m: MachineInteger, n: MachineInteger): MachineInteger == {
	m = 0 => n + 1;
	n = 0 => ack(m - 1, 1);
	ack(m - 1, ack(m, n - 1));
}
sumTo(n: MachineInteger): MachineInteger == { n = 0 => 0; n + sumTo(n - 1) }
isEven(n: MachineInteger): Boolean == { n = 0 => true; isOdd(n - 1) }
isOdd(n: MachineInteger): Boolean == { n = 0 => false; isEven(n - 1) }
collatz(n: MachineInteger, steps: MachineInteger): MachineInteger == {
	n = 1 => steps;
	n rem 2 = 0 => collatz(n quo 2, steps + 1);
	collatz(3 * n + 1, steps + 1);
}
bigFact(n: Integer): Integer == { n = 0 => 1; n * bigFact(n - 1) }
hanoi(n: MachineInteger, a: MachineInteger, b: MachineInteger, c: MachineInteger): MachineInteger == {
	n = 0 => 0;
	hanoi(n - 1, a, c, b) + 1 + hanoi(n - 1, c, b, a);
}
stdout << "fib 22 " << fib 22 << newline;
stdout << "ack 2 3 " << ack(2, 3) << " ack 3 3 " << ack(3, 3) << newline;
stdout << "sumTo 900 " << sumTo 900 << newline;
stdout << "isEven 801 " << isEven 801 << " isOdd 801 " << isOdd 801 << newline;
stdout << "collatz 27 " << collatz(27, 0) << " collatz 97 " << collatz(97, 0) << newline;
stdout << "bigFact 30 " << bigFact 30 << newline;
stdout << "hanoi 12 " << hanoi(12, 1, 2, 3) << newline;
