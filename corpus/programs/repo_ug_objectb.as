#include "aldor"
#include "aldorio"

-- OutputType objects -------------------------------------------------
--
-- These objects can be printed because each belongs to some OutputType.
--

Object(C: Category): with {
        object:         (T: C, T) -> %;
        avail:          % -> (T: C, T);
}
== add {
        Rep == Record(T: C, val: T);
        import from Rep;

        object  (T: C, t: T) : %        == per [T, t];
        avail   (ob: %) : (T: C, T)     == explode rep ob;
}

main():() == {
    import from Integer, List Integer;
    bobfun(bob: Object OutputType): () == {
        f avail bob where
        f(T: OutputType, t: T) : () == {
                stdout << "This prints itself as: " << t << newline;
        }
    }
    import from Object OutputType;
    boblist: List Object OutputType := [
        object (String,       "Ahem!"),
        object (Integer,      42),
        object (List Integer, [1,2,3,4])
    ];
    for bob in boblist repeat bobfun bob;
}

main();

