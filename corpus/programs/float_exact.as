-- DoubleFloat arithmetic with exactly representable values
#include "aldor"
#include "aldorio"
import from MachineInteger, DoubleFloat;

horner(x: DoubleFloat): DoubleFloat == ((2.0 * x + 0.5) * x - 1.25) * x + 8.0;
main(): () == {
	a: DoubleFloat := 1.5; b: DoubleFloat := 0.25;
	stdout << a + b << " " << a - b << " " << a * b << " " << a / b << newline;
	stdout << horner 2.0 << " " << horner(-0.5) << " " << horner 0.0 << newline;
	s: DoubleFloat := 0.0;
	for i in 1..16 repeat s := s + i::DoubleFloat * 0.125;
	stdout << s << newline;
	stdout << (a < b) << (a > b) << (a = 1.5) << (a * 0.0 = 0.0) << (a - a = 0.0) << (a * 1.0 = a) << (a + 0.0 = a) << newline;
	stdout << -a << " " << abs(b - a) << " " << a * a * a * a << newline;
	x: DoubleFloat := 1.0;
	for i in 1..10 repeat x := x / 2.0;
	stdout << x << " " << x * 1024.0 << newline;
}
main();
