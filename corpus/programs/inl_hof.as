-- higher-order functions, functions returning functions
#include "aldor"
#include "aldorio"
import from MachineInteger, List MachineInteger;

adder(n: MachineInteger): MachineInteger -> MachineInteger == (x: MachineInteger): MachineInteger +-> x + n;
compose(f: MachineInteger -> MachineInteger, g: MachineInteger -> MachineInteger): MachineInteger -> MachineInteger ==
	(x: MachineInteger): MachineInteger +-> f g x;
mapl(f: MachineInteger -> MachineInteger, l: List MachineInteger): List MachineInteger == [f x for x in l];
fold(f: (MachineInteger, MachineInteger) -> MachineInteger, z: MachineInteger, l: List MachineInteger): MachineInteger == {
	acc := z;
	for x in l repeat acc := f(acc, x);
	acc
}

l: List MachineInteger := [1, 2, 3, 4, 5];
add10 := adder 10;
dbl := (x: MachineInteger): MachineInteger +-> 2 * x;
stdout << mapl(add10, l) << newline;
stdout << mapl(compose(add10, dbl), l) << newline;
stdout << mapl(compose(dbl, add10), l) << newline;
stdout << fold((a: MachineInteger, b: MachineInteger): MachineInteger +-> a + b, 0, l) << newline;
stdout << fold((a: MachineInteger, b: MachineInteger): MachineInteger +-> a * b, 1, l) << newline;
