#include "aldor"
#include "aldorio"

Tree(S: OutputType): OutputType with {
    export from S;

    empty: %;
    tree:  S  -> %;
    tree:  (S, %, %) -> %;

    empty?: % -> Boolean;

    left:   % -> %;
    right:  % -> %;
    node:   % -> S;

    preorder:  % -> Generator S;
    inorder:   % -> Generator S;
    postorder: % -> Generator S;
}
== add {
    Rep == Record(node: S, left: %, right: %);
    import from Rep;

    empty: % == nil$Pointer pretend %;
    empty?(t: %): Boolean == nil?(t pretend Pointer)$Pointer;

    tree(s: S): % == per [s, empty, empty];
    tree(s: S, l: %, r: %): % == per [s, l, r];

    local nonempty(t: %): Rep == {
        import from String;
        empty? t => error "Taking a part of a non-empty tree";
        rep t
    }

    left (t: %): % == nonempty(t).left;
    right(t: %): % == nonempty(t).right;
    node (t: %): S == nonempty(t).node;
    
    preorder(t: %): Generator S == generate {
        if not empty? t then {
            yield node t;
            for n in preorder left  t repeat yield n;
            for n in preorder right t repeat yield n;
        }
    }
    inorder(t: %): Generator S == generate {
        if not empty? t then {
            for n in inorder left  t repeat yield n;
            yield node t;
            for n in inorder right t repeat yield n;
        }
    }
    postorder(t: %): Generator S == generate {
        if not empty? t then {
            for n in postorder left  t repeat yield n;
            for n in postorder right t repeat yield n;
            yield node t;
        }
    }
    (tw: TextWriter) << (t: %): TextWriter == {
        import from String;
        import from S;

        empty? t => tw << "empty";
        empty? left t and empty? right t => tw << "tree " << node t;

        tw << "tree(" << node t << ", "
           << left t  << ", " << right t << ")"
    }
}


main():() == {
    import from Tree String;
    import from List String;

    t := tree("*", tree("1", tree "a", tree "b"),
           tree("2", tree "c", tree "d"));

    stdout << "The tree is " << t << newline;
    stdout << "Preorder:   " << [preorder  t] << newline;
    stdout << "Inorder:    " << [inorder   t] << newline;
    stdout << "Postorder:  " << [postorder t] << newline;
}

main();
