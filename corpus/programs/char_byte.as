-- a machine integer viewed as a character and back keeps one byte (reported by the C03 builder)
#include "aldor"
#include "aldorio"
import from MachineInteger, Character;

main(): () == {
	n: MachineInteger := 0;
	for i in 1..3 repeat n := n + 100;
	stdout << ord(char n) << " " << ord(char 300) << " " << ord(char 65) << " " << ord(char(n - 235)) << newline;
}
main();
