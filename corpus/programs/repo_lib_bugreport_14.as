-- Author: Ralf Hemmecke, Johannes Kepler Universit"at Linz
-- EMail: ralf@hemmecke.de
-- Date: 18-Oct-2005
-- Aldor version 1.0.3 for LINUX(glibc2.3)
-- Subject: Wrong function call

-- If started via
-- aldor -grun -laldor xxx.as
-- the program correctly outputs

--: BBB
--: AAA

-- Simply renaming the function SET! to set! and running via
-- aldor -grun -laldor -DC1 xxx.as
-- gives the wrong output

--: BBB
--: BBB

-- Obviously the compiler rather thinks that
-- set!(aaa, j, i, p)$AAA(P);
-- stands for the set!: (%, E, E, P) -> P function from BBB 
-- and not from AAA, although clearly aaa is of type AAA(P)
-- and not of type %.

#include "aldor"
#include "aldorio"
macro {	
	E == MachineInteger;
#if C1
	SET! == set!;
#endif
}
import from MachineInteger;

AAA(P: Type): with {
	new: () -> %;
	set!: (%, E, E, P) -> P;
} == add {
        Rep == Array PrimitiveArray Partial P;
        import from Rep;
	new(): % == per new 0;
	set!(t: %, j: E, i: E, p: P): P == {
		stdout << "AAA" << newline;
		p;
	}
}

BBB(P: Type): with {
	new: () -> %;
	SET!: (%, E, E, P) -> P;
	set!: (%, E, E, E, E, P) -> P;
} == add {
        Rep == Array Array AAA P;
        import from Rep, MachineInteger;
	new(): % == per new 0;
	SET!(t: %, y: E, x: E, p: P): P == {
		stdout << "BBB" << newline;
		p;
	}
	set!(t: %, y: E, x: E, j: E, i: E, p: P): P == {
		aaa: AAA P := new();
		set!(aaa, j, i, p)$AAA(P);
	}
}

main(): () == {
	ct: BBB MachineInteger := new();
	SET!(ct, 2, 1, 20104);        -- print BBB
        set!(ct, 2, 1, 1, 3, 201013); -- print AAA
}
main();
