-- user domains: representation, parametrised domains, category defaults, conditional exports
#include "aldor"
#include "aldorio"
import from MachineInteger, String;
Shape: Category == with {
	area: % -> MachineInteger;
	name: % -> String;
	describe: % -> String;
	default describe(s: %): String == name s + "!";
}
Sq: Shape with { sq: MachineInteger -> % } == add {
	Rep == MachineInteger;
	import from Rep;
	sq(n: MachineInteger): % == per n;
	area(s: %): MachineInteger == rep s * rep s;
	name(s: %): String == "square";
}
Rc: Shape with { rc: (MachineInteger, MachineInteger) -> % } == add {
	Rep == Record(w: MachineInteger, h: MachineInteger);
	import from Rep;
	rc(a: MachineInteger, b: MachineInteger): % == per [a, b];
	area(s: %): MachineInteger == rep(s).w * rep(s).h;
	name(s: %): String == "rect";
	describe(s: %): String == "a rect";
}
report(S: Shape, s: S): () == stdout << name s << " " << area s << " " << describe s << newline;
import from Sq, Rc;
report(Sq, sq 7);
report(Rc, rc(3, 4));
Stack(T: Type): with {
	empty: () -> %; push!: (%, T) -> %; pop!: % -> T; size: % -> MachineInteger;
	if T has OutputType then dump: % -> ();
} == add {
	Rep == Record(items: List T);
	import from Rep, List T;
	empty(): % == per [empty];
	push!(s: %, t: T): % == { rep(s).items := cons(t, rep(s).items); s }
	pop!(s: %): T == { t := first rep(s).items; rep(s).items := rest rep(s).items; t }
	size(s: %): MachineInteger == #(rep(s).items);
	if T has OutputType then dump(s: %): () == {
		import from T, TextWriter, Character;
		for t in rep(s).items repeat stdout << t << space;
		stdout << newline;
	}
}
import from Stack MachineInteger, Stack String;
si: Stack MachineInteger := empty();
for i in 1..6 repeat push!(si, i * i);
dump si;
stdout << pop! si + pop! si << " " << size si << newline;
ss: Stack String := empty();
push!(push!(ss, "a"), "b");
dump ss;
Mod(p: MachineInteger): with {
	coerce: MachineInteger -> %; lift: % -> MachineInteger; +: (%, %) -> %; *: (%, %) -> %; ^: (%, MachineInteger) -> %;
} == add {
	Rep == MachineInteger;
	import from Rep;
	coerce(n: MachineInteger): % == per(n mod p);
	lift(x: %): MachineInteger == rep x;
	(a: %) + (b: %): % == per((rep a + rep b) mod p);
	(a: %) * (b: %): % == per((rep a * rep b) mod p);
	(a: %) ^ (n: MachineInteger): % == { r: % := per 1; for i in 1..n repeat r := r * a; r }
}
import from Mod 97, Mod 1000003;
a: Mod 97 := 5::Mod(97);
stdout << lift(a ^ 96) << " " << lift(a * a + a) << newline;
b: Mod 1000003 := 12345::Mod(1000003);
stdout << lift(b ^ 20) << newline;
stdout << (MachineInteger has OutputType) << (Stack MachineInteger has OutputType) << newline;
