-- records of records, mutation through aliases, records holding functions and lists
#include "aldor"
#include "aldorio"
import from MachineInteger, String;
Point ==> Record(x: MachineInteger, y: MachineInteger);
Seg ==> Record(a: Point, b: Point, name: String);
Shape ==> Record(outline: Seg, weight: MachineInteger, tags: List String);
import from Point, Seg, Shape, List String;
p: Point := [1, 2];
q: Point := [10, 20];
s: Seg := [p, q, "pq"];
sh: Shape := [s, 7, ["red", "thin"]];
show(t: Point): () == stdout << "(" << t.x << "," << t.y << ")";
showSeg(t: Seg): () == { stdout << t.name << ":"; show(t.a); stdout << "-"; show(t.b); }
showSeg s; stdout << newline;
p.x := 100;
showSeg(sh.outline); stdout << newline;
sh.outline.b.y := -5;
show q; stdout << newline;
alias: Seg := sh.outline;
alias.name := "renamed";
stdout << s.name << " " << sh.weight << " " << sh.tags << newline;
sh.outline := [q, p, "flipped"];
showSeg(sh.outline); stdout << " "; showSeg s; stdout << newline;
(px, py) := explode p;
stdout << px + py << newline;
len2(t: Seg): MachineInteger == { dx := t.b.x - t.a.x; dy := t.b.y - t.a.y; dx * dx + dy * dy }
stdout << len2 s << " " << len2(sh.outline) << newline;
Counter ==> Record(count: MachineInteger, step: MachineInteger -> MachineInteger);
import from Counter;
c: Counter := [0, (n: MachineInteger): MachineInteger +-> n + 3];
for i in 1..5 repeat c.count := (c.step)(c.count);
stdout << c.count << newline;
c.step := (n: MachineInteger): MachineInteger +-> n * 2;
for i in 1..5 repeat c.count := (c.step)(c.count);
stdout << c.count << newline;
pts: List Point := [[i, i * i] for i in 1..5];
import from List Point;
tot: MachineInteger := 0;
for t in pts repeat { t.x := t.x + 1; tot := tot + t.x * t.y; }
stdout << tot << " " << (first pts).x << newline;
