-- DELIBERATELY order-dependent: two printing calls as operands of `+`, the first negated: (-f()) + g()
#include "aldor"
#include "aldorio"
import from MachineInteger;

f(): MachineInteger == { stdout << "f" << newline; 3 }
g(): MachineInteger == { stdout << "g" << newline; 10 }
main(): () == {
	r := (-f()) + g();
	stdout << r << newline;
	s := g() + (-f());
	stdout << s << newline;
}
main();
