#include "aldor"
#include "aldorio"
#pile

I  ==> MachineInteger;
Ag ==> (S: Type) -> BoundedFiniteLinearStructureType S;

-- This function takes two type constructors as arguments and
-- produces a new function to swap aggregate data structure layers.

swap(X:Ag,Y:Ag)(S:Type)(x:X Y S):Y X S == 
    import from Y S, X S
    [[s for s in y]for y in x]

import from I, List(I);

-- Form an array of lists:
al: Array List I := [[i+j-1 for i in 1..3] for j in 1..3]

stdout << "This is an array of lists: " << newline
stdout << al << newline << newline

-- Swap the structure layers:

la: List Array I := swap(Array,List)(I)(al)

stdout << "This is a list of arrays:  " << newline
stdout << la << newline
