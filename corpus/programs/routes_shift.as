-- shifts and bit operations of MachineInteger
#include "aldor"
#include "aldorio"
import from MachineInteger;
one: MachineInteger := 1;
for k in 0..66 by 11 repeat
	stdout << "1<<" << k << " = " << shift(one, k) << newline;
stdout << "1<<62 " << shift(one, 62) << newline;
stdout << "1<<63 " << shift(one, 63) << newline;
m: MachineInteger := -1024;
for k in 0..12 by 3 repeat
	stdout << "-1024>>" << k << " = " << shift(m, -k) << newline;
x: MachineInteger := 81985529216486895;
stdout << "and " << (x /\ 65535) << newline;
stdout << "or " << (x \/ 255) << newline;
stdout << "xor " << xor(x, -1) << newline;
stdout << "not " << (~ x) << newline;
stdout << "bit? " << bit?(x, 0) << bit?(x, 4) << bit?(x, 63) << newline;
stdout << "set " << set(0, 62) << " clear " << clear(-1, 0) << newline;
stdout << "length " << length(x) << " " << length(1) << " " << length(0) << newline;
stdout << "even? " << even?(x) << " odd? " << odd?(x) << newline;
y: MachineInteger := max;
stdout << "max>>1 " << shift(y, -1) << " max<<1 " << shift(y, 1) << newline;
