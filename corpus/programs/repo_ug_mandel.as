#include "aldor"
#include "aldorio"

MI ==> MachineInteger;
F  ==> DoubleFloat;

step(n: MachineInteger)(a: F, b: F): Generator F == generate {
    m: MachineInteger := prev(n);
    del: F := (b - a)/m::F;
    for i in 1..n repeat {
        yield a;
        a := a + del;
    }
}

default minR, maxR, minI, maxI: F;
default numR, numI, maxIters:   MI;
default drawPt: (r: MI, i: MI, n: MI) -> ();

drawMand(minR, maxR, numR, minI, maxI, numI, drawPt, maxIters): () == {

    mandel(cr: F, ci: F): MI == {
       zr: F := 0;
       zi: F := 0;
       n: MI := 0;
       while (zr*zr + zi*zi) < 4.0 for free n in 1..maxIters repeat {
          zr := zr*zr -zi*zi + cr;
          zi := 2.0*zi*zr + ci;
       }
       return n;
    }

    for i in step(numI)(minI, maxI) for ic in 1..numI repeat
      for r in step(numR)(minR, maxR) for rc in 1..numR repeat
        drawPt(rc, ic, mandel(r,i));
}

import from F;
maxN: MI == 100;
maxX: MI == 25;
maxY: MI == 25;

drawPoint(x: MI, y: MI, n: MI): () =={
  if      n = maxN then stdout << "   ";
  else if n < 10   then stdout << "  " << n;
  else                  stdout << " "  << n;
  if x = maxX then stdout << newline;
}

drawMand(-2.0, -1.0, maxX, -0.5, 0.5, maxY, drawPoint, maxN);

