-- machine-integer identities with run-time operands: x+0, x*1, x*0, x-x, x*8, -(-x), x=x, 0<x, x<=0, not(a<=b)
#include "aldor"
#include "aldorio"
import from MachineInteger;

show(tag: String, x: MachineInteger): () == {
	z: MachineInteger := 0;
	one: MachineInteger := 1;
	stdout << tag << ": " << x + 0 << " " << 0 + x << " " << x * 1 << " " << 1 * x << " " << x * 0 << " " << 0 * x;
	stdout << " " << x - x << " " << x - 0 << " " << 0 - x << " " << x * 8 << " " << 2 * x << " " << x * 1024 << " " << -(-x);
	stdout << " " << x + 1 << " " << x - 1 << " " << 1 + x << " " << (x + 1) - 1 << " " << x + (-3) << " " << x - (-3) << " " << (-x) + 5;
	stdout << newline;
	stdout << tag << "? " << (x = x) << (x ~= x) << (x < x) << (x <= x) << (0 < x) << (x < 0) << (0 <= x) << (x <= 0);
	stdout << (x = 0) << (0 = x) << (x ~= 0) << not (x <= 3) << not (x = 3) << not (x ~= 3) << not (3 < x) << not not (x > 1);
	stdout << (x + z = x * one) << newline;
}

main(): () == {
	acc: MachineInteger := 0;
	for i in 1..4 repeat acc := acc + i;       -- 10, computed at run time
	show("ten", acc);
	show("zero", acc - 10);
	show("neg", 3 - acc);
	show("lit", 5);
}
main();
