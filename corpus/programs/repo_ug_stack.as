#include "aldor"
#include "aldorio"

-- implementation of stacks via lists
-- the lines starting with ++ are saved in the output of
-- the compiler, and may be browsed with an appropriate tool

Stack(S: OutputType): OutputType with {
        empty?:    % -> Boolean; ++ test for an empty stack
        empty:    () -> %;       ++ create an empty stack
        push!:(S, %) -> %;       ++ put a new element onto the stack
        pop!:      % -> S;       ++ remove the top element and return it
        top:       % -> S;       ++ return the top of the stack

        export from S;
                -- expose all operations from S 
                -- when Stack S is imported
} == add {
        -- Stacks are represented using a list. 
        -- To go between the representation and % we use the
        -- rep and per functions.
        Rep == Record(contents: List S);
        import from Rep;

        -- utility functions
        local contents(stack: %): List S == rep(stack).contents;

        -- simple functions
        empty(): % == per [empty];
        empty?(s: %): Boolean == empty? contents s;
        top(s: %): S == first contents s;

        push!(elt: S, s: %): % == {
                rep(s).contents := cons(elt, contents s);
                s
        }

        pop!(s: %): S == {
                next := first contents s;
                rep(s).contents := rest contents s;
                next;
        }

        -- needed to satisfy OutputType
        import from String;
        (tw: TextWriter) << (s: %): TextWriter == tw << "<stack>";
}


test(): () == {
        -- Importing the domains involed in the next two 
        -- lines is made by the affectations.
        l: List MachineInteger := [1,2,3,4,5,6];
        stack: Stack MachineInteger := empty();
        for x in l repeat 
                push!(x, stack);
        -- Importing the domains involed in the next
        -- line is needed.
        stdout << "stack is:" << stack << newline;
        while not empty? stack repeat {
                stdout << "Next is: " << top stack << newline;
                pop! stack;
        }
}

test()

