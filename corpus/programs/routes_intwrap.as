-- MachineInteger is a 64-bit two's complement word on both routes: overflow wraps
#include "aldor"
#include "aldorio"
import from MachineInteger;
big: MachineInteger := max;
small: MachineInteger := min;
stdout << "max " << big << newline;
stdout << "min " << small << newline;
stdout << "max+1 " << big + 1 << newline;
stdout << "min-1 " << small - 1 << newline;
stdout << "-min " << (- small) << newline;
stdout << "max*2 " << big * 2 << newline;
stdout << "max*max " << big * big << newline;
stdout << "min*min " << small * small << newline;
stdout << "min*-1 " << small * (-1) << newline;
acc: MachineInteger := 1;
for i in 1..70 repeat {
	acc := acc * 3 + i;
	if i rem 10 = 0 then stdout << i << ": " << acc << newline;
}
h: MachineInteger := 1469598103934665603;
for i in 1..20 repeat { h := (h * 1099511628211) + i; }
stdout << "fnv " << h << newline;
stdout << "quo " << (small quo 7) << " rem " << (small rem 7) << newline;
stdout << "quo- " << ((-17) quo 5) << " rem- " << ((-17) rem 5) << " mod " << ((-17) mod 5) << newline;
stdout << "quo+- " << (17 quo (-5)) << " rem+- " << (17 rem (-5)) << newline;
(q, r) := divide(-100, 7);
stdout << "divide " << q << " " << r << newline;
stdout << "gcd " << gcd(1071, 462) << " lcm " << lcm(21, 6) << newline;
stdout << "pow " << 3^39 << " " << 3^40 << " " << 3^41 << newline;
stdout << "abs " << abs(-5) << " " << abs(small) << newline;
