-- closures capturing mutated variables
#include "aldor"
#include "aldorio"
import from MachineInteger, List MachineInteger;

mkCounter(): () -> MachineInteger == {
	n: MachineInteger := 0;
	(): MachineInteger +-> { free n := n + 1; n }
}
mkPair(): (() -> MachineInteger, MachineInteger -> ()) == {
	v: MachineInteger := 0;
	getter: () -> MachineInteger := (): MachineInteger +-> v;
	setter: MachineInteger -> () := (x: MachineInteger): () +-> { free v := x };
	(getter, setter)
}

c1 := mkCounter();
c2 := mkCounter();
a := c1(); b := c1(); c := c2(); d := c1();
stdout << a << " " << b << " " << c << " " << d << newline;
(get, set) := mkPair();
stdout << get() << newline;
set 42;
stdout << get() << newline;
set(get() + 1);
stdout << get() << newline;

fs: List(() -> MachineInteger) := empty;
for i in 1..3 repeat {
	k := i * 10;
	fs := cons((): MachineInteger +-> k + 1, fs);
}
for f in fs repeat stdout << f() << " ";
stdout << newline;

total: MachineInteger := 0;
addTo(x: MachineInteger): () == { free total := total + x }
for i in 1..10 repeat addTo i;
stdout << total << newline;
