-- a local function writes a captured variable of the enclosing function that is also passed as its argument
#include "aldor"
#include "aldorio"
import from MachineInteger;

outer(start: MachineInteger): MachineInteger == {
	v: MachineInteger := start;
	step(x: MachineInteger): MachineInteger == { free v := v + 100; x }
	twice(x: MachineInteger): MachineInteger == { free v := 2 * v; x + v }
	a := step(v);            -- old v
	b := step(v + 0);        -- v after one step
	c := twice(v);           -- old v + doubled v
	a + 1000 * b + 1000000 * c + v
}
counter(): MachineInteger == {
	n: MachineInteger := 0;
	nxt(seen: MachineInteger): MachineInteger == { free n := n + 1; seen * 10 + n }
	t: MachineInteger := 0;
	for i in 1..4 repeat t := t + nxt(n);
	t
}
stdout << outer 1 << newline;
stdout << outer 7 << newline;
stdout << counter() << newline;
