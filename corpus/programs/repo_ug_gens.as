#include "aldor"

F ==> DoubleFloat;

exp(f: F): F == {
  e: F := 1;
  m: MachineInteger := 1;
  x: F := e;
  for i in 2..12 repeat {
      x := x * f;
      m := m * i;
      e := e +  x/(m::F);
  }
  e;
}

floatSequence(): Generator F == generate {
                x: F := 0.0;
                repeat {
                        yield exp(-x*x);
                        x := x + 0.05;
                }
}

runningMean(g: Generator F): Generator F == {
        n: MachineInteger := 0;
        sum: F   := 0;
        generate {
                for x in g repeat {
                        sum := sum + x;
                        n   := next(n);
                        yield sum/(n::F);
                }
        }
}

step(n: MachineInteger)(a: F, b: F): Generator F == generate {
                m: MachineInteger := prev(n);
                del: F := (b - a)/m::F;
                for i in 1..n repeat {
                        yield a;
                        a := a + del;
                }
}


main(): () == {
        import from F, MachineInteger, TextWriter, Character, String;
        for i in runningMean(x for x in step(11)(0.0, 1.0)) repeat 
                stdout << i << newline;

        for i in 1..10 for x in runningMean(floatSequence()) repeat
                 stdout << "next: " << x << newline;
}

main();
