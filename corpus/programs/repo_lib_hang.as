#include "aldor"
#include "aldorio"

foo(): () == {
       import from Integer;
       import from List Integer;
       import from Assert List Integer;
       stdout << [1,2] << newline;
       stdout << [1;2] << newline;
       stdout << [2] << newline;
       assertEquals([2], [1;2]);
}

foo();
