--* From Manuel.Bronstein@sophia.inria.fr  Tue Jul 16 18:30:29 2002
--* Received: from welly-1.star.net.uk (welly-1.star.net.uk [195.216.16.165])
--* 	by nag.co.uk (8.9.3/8.9.3) with SMTP id SAA29002
--* 	for <ax-bugs@nag.co.uk>; Tue, 16 Jul 2002 18:30:28 +0100 (BST)
--* Received: (qmail 14501 invoked from network); 16 Jul 2002 17:30:00 -0000
--* Received: from 4.star-private-mail-12.star.net.uk (HELO smtp-in-4.star.net.uk) (10.200.12.4)
--*   by delivery-1.star-private-mail-4.star.net.uk with SMTP; 16 Jul 2002 17:30:00 -0000
--* Received: (qmail 16908 invoked from network); 16 Jul 2002 17:29:59 -0000
--* Received: from mail17.messagelabs.com (62.231.131.67)
--*   by smtp-in-4.star.net.uk with SMTP; 16 Jul 2002 17:29:59 -0000
--* X-VirusChecked: Checked
--* Received: (qmail 2267 invoked from network); 16 Jul 2002 17:29:58 -0000
--* Received: from panoramix.inria.fr (138.96.111.9)
--*   by server-5.tower-17.messagelabs.com with SMTP; 16 Jul 2002 17:29:58 -0000
--* Received: by panoramix.inria.fr (8.11.6/8.11.6) id g6GHTwA11111 for ax-bugs@nag.co.uk; Tue, 16 Jul 2002 19:29:58 +0200
--* Date: Tue, 16 Jul 2002 19:29:58 +0200
--* From: Manuel Bronstein <Manuel.Bronstein@sophia.inria.fr>
--* Message-Id: <200207161729.g6GHTwA11111@panoramix.inria.fr>
--* To: ax-bugs@nag.co.uk
--* Subject: [2] yet another -q2 --> runtime seg fault

--@ Fixed  by: <Who> <Date>
--@ Tested by: <Name of new or existing file in test directory>
--@ Summary:   <Description of real problem and the fix>

-- Command line: axiomxl -fx -laldor dblout.as
-- Version: 1.0.0
-- Original bug file name: dblout.as

----------------------------- dblout.as ------------------------
--
-- This illustrates a serious optimizer bug in << from DoubleFloat:
--
-- % aldor -fx -laldor dblout.as
-- % dblout  --> Segmentation fault
--
-- % aldor -fo -q1 sal_dfloat.as
-- % aldor -fx -laldor dblout.as sal_dfloat.o
-- % dblout  --> works
--

#include "aldor"
#include "aldorio"

import from DoubleFloat;

main():()=={
	stdout << 1.0 << newline;
}
main();
