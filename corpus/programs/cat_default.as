-- categories with default implementations, overriding, domain-valued parameters
#include "aldor"
#include "aldorio"
import from MachineInteger, String;

define Shape: Category == with {
	name: () -> String;
	sides: () -> MachineInteger;
	describe: () -> String;
	double: () -> MachineInteger;
	default describe(): String == name() + " with sides";
	default double(): MachineInteger == 2 * sides();
}

Triangle: Shape == add {
	name(): String == "triangle";
	sides(): MachineInteger == 3;
}
Square: Shape == add {
	name(): String == "square";
	sides(): MachineInteger == 4;
	describe(): String == "a proper square";
	double(): MachineInteger == 100;
}
report(S: Shape): () == {
	stdout << name()$S << ": " << describe()$S << " " << sides()$S << " " << double()$S << newline;
}
Scaled(S: Shape, k: MachineInteger): Shape == add {
	name(): String == "scaled " + name()$S;
	sides(): MachineInteger == k * sides()$S;
}

report Triangle;
report Square;
report Scaled(Triangle, 5);
report Scaled(Square, 2);
