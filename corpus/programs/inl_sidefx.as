-- inlining: functions with side effects (output, global counter) called as statements
#include "aldor"
#include "aldorio"
import from MachineInteger;

count: MachineInteger := 0;
bump(): () == { free count := count + 1; }
note(s: String): () == { bump(); stdout << "note " << s << newline; }
tick(n: MachineInteger): MachineInteger == { free count := count + n; stdout << "tick " << n << newline; count }

note "a";
note "b";
x := tick 5;
y := tick 7;
stdout << x << " " << y << " " << count << newline;
for i in 1..3 repeat { bump(); note "loop"; }
stdout << "count " << count << newline;
