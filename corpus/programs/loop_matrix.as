-- nested loops over arrays of arrays: matrix product, transpose, trace
#include "aldor"
#include "aldorio"
import from MachineInteger;
Row ==> Array MachineInteger;
Mat ==> Array Row;
import from Row, Mat;

mk(n: MachineInteger, f: (MachineInteger, MachineInteger) -> MachineInteger): Mat == {
	m: Mat := new(n, new(0, 0));
	for i in 0..n-1 repeat { r: Row := new(n, 0); for j in 0..n-1 repeat r.j := f(i, j); m.i := r }
	m
}
mul(a: Mat, b: Mat, n: MachineInteger): Mat ==
	mk(n, (i: MachineInteger, j: MachineInteger): MachineInteger +-> { s: MachineInteger := 0; for k in 0..n-1 repeat s := s + a.i.k * b.k.j; s });
trace(a: Mat, n: MachineInteger): MachineInteger == { t: MachineInteger := 0; for i in 0..n-1 repeat t := t + a.i.i; t }
show(a: Mat): () == for r in a repeat stdout << r << newline;

n: MachineInteger := 3;
a := mk(n, (i: MachineInteger, j: MachineInteger): MachineInteger +-> i + 2 * j + 1);
b := mk(n, (i: MachineInteger, j: MachineInteger): MachineInteger +-> if i = j then 2 else i - j);
show a; show b;
c := mul(a, b, n);
show c;
stdout << trace(c, n) << " " << trace(mul(b, a, n), n) << newline;
t := mk(n, (i: MachineInteger, j: MachineInteger): MachineInteger +-> c.j.i);
show t;
