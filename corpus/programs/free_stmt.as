-- a bare `free` declaration statement inside a function (assignment in a later statement)
#include "aldor"
#include "aldorio"
import from MachineInteger;

count: MachineInteger := 0;
bump(): () == { free count; count := count + 1; }
for i in 1..4 repeat bump();
stdout << count << newline;
