-- single-float constants and folded constant expressions, printed bit-exactly (see checks/parts/routesearch.py: float_const_program)
#include "aldor"
#include "aldorio"
import from MachineInteger, SingleFloat, DoubleFloat, String;
-- dissemble leaves the bytes above the fraction unset: keep the 3 (resp. 7) fraction bytes only
bs(tag: String, x: SingleFloat): () == {
	import from Machine;
	(s, e, m) := dissemble(x::SFlo);
	stdout << tag << " " << (s::Boolean) << " " << (e::MachineInteger) << " " << (((m pretend SInt)::MachineInteger) /\ 16777215) << newline;
}
bd(tag: String, x: DoubleFloat): () == {
	import from Machine;
	(s, e, m1, m2) := dissemble(x::DFlo);
	stdout << tag << " " << (s::Boolean) << " " << (e::MachineInteger) << " " << (((m1 pretend SInt)::MachineInteger) /\ 72057594037927935) << newline;
}

bs("s0", (- 1035447.25));
bs("s1", 99966.9766);
bs("s2", 0.00923850015 + 0.85);
bs("s3", 9.5 * 0.41);
bs("s4", 1019.30444);
bs("s5", 99300.0703);
bs("s6", 1023.16394);
bs("s7", (12.25 * 1.00556469) / 6.4);
bs("s8", 1022217.94 - 1033980.06);
bs("s9", 1018.01404 + 5.1);
bs("s10", (- 1.66391671));
bs("s11", 1013841.56);
bs("s12", 0.00981509592);
bs("s13", 13.8919935);
bs("s14", 1047706.06 - 1008755.44);
bs("s15", (- 0.100323685));
bs("s16", (- 1.42592824));
bs("s17", (- 10.9946165));
bs("s18", 1.54130924);
bs("s19", 1011.04376);
bs("s20", 1.00000012);
bs("s21", 0.99999994);
bs("s22", 2.00000024);
bs("s23", 16777217.0);
bs("s24", 0.50000006);
bs("s25", 3.40282347e38);
bs("s26", 1.17549435e-38);
bs("s27", 1.0e-40);
bs("s28", 1.4e-45);
bs("s29", 7.0e-46);
bs("s30", 0.0);
bs("s31", single(0.11713852184712888));
bs("s32", single(1009.7231294786474));
bs("s33", single(1.0e-46));
bs("s34", single(3.4028234e38));
