#include "aldor"
#include "aldorio"
import from MachineInteger;
mask: MachineInteger := 1099511627775;
hi: MachineInteger := 6148914691236517205;
lo: MachineInteger := -6148914691236517206;
f(x: MachineInteger): MachineInteger == (x /\ mask) + 8589934592;
stdout << f hi << " " << f lo << " " << hi + lo << newline;
stdout << (hi \/ 4611686018427387904) << " " << shift(mask, 20) << newline;
