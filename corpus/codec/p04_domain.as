#include "aldor"
#include "aldorio"
import from MachineInteger, String;
Shape: Category == with {
	area: % -> MachineInteger;
	name: % -> String;
	square: MachineInteger -> %;
	rect: (MachineInteger, MachineInteger) -> %;
}
Sh: Shape == add {
	Rep == Record(w: MachineInteger, h: MachineInteger);
	import from Rep;
	square(n: MachineInteger): % == per [n, n];
	rect(a: MachineInteger, b: MachineInteger): % == per [a, b];
	area(x: %): MachineInteger == rep(x).w * rep(x).h;
	name(x: %): String == if rep(x).w = rep(x).h then "square" else "rect";
}
import from Sh;
x := square 7;
y := rect(3, 5);
stdout << name x << " " << area x << newline;
stdout << name y << " " << area y << newline;
