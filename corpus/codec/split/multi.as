#include "aldor"
#include "aldorio"
--UNIT longnamedunitalpha
Acc: with {
	mkacc: MachineInteger -> %;
	add!: (%, MachineInteger) -> %;
	value: % -> MachineInteger;
	scale: MachineInteger;
} == add {
	Rep == Record(v: MachineInteger);
	import from Rep, MachineInteger;
	scale: MachineInteger == 1000;
	mkacc(n: MachineInteger): % == per [n];
	add!(a: %, n: MachineInteger): % == { rep(a).v := rep(a).v + n; a }
	value(a: %): MachineInteger == rep(a).v;
}
--UNIT longnamedunitbravo uses longnamedunitalpha
Stats: with {
	sumsq: List MachineInteger -> MachineInteger;
	scaled: MachineInteger -> MachineInteger;
} == add {
	import from MachineInteger, Acc;
	sumsq(l: List MachineInteger): MachineInteger == {
		a := mkacc 0;
		for x in l repeat add!(a, x * x);
		value a
	}
	scaled(n: MachineInteger): MachineInteger == n * scale;
}
--UNIT longnamedunitcharlie
Namer: with {
	name: MachineInteger -> String;
	wide: MachineInteger;
} == add {
	import from MachineInteger, String;
	wide: MachineInteger == 8589934592;
	name(n: MachineInteger): String == if n < 0 then "neg" else if n = 0 then "zero" else "pos";
}
--UNIT tiny
Tiny: with { bump: MachineInteger -> MachineInteger } == add {
	import from MachineInteger;
	bump(n: MachineInteger): MachineInteger == n + 1;
}
--MAIN
import from MachineInteger, String, List MachineInteger, Acc, Stats, Namer, Tiny;
a := mkacc 5;
add!(a, 37);
stdout << value a << " " << scale << " " << sumsq [1, 2, 3, 4] << " " << scaled 7 << newline;
stdout << name(-3) << " " << name 0 << " " << name bump 0 << " " << wide + bump 1 << newline;
