#include "aldor"
#include "aldorio"
--UNIT libcond
BoxCat(T: PrimitiveType): Category == with {
	box: T -> %;
	unbox: % -> T;
	kind: () -> String;
	twice: % -> %;
	default {
		kind(): String == "plain";
		twice(x: %): % == x;
	}
}
Box(T: PrimitiveType): BoxCat T with {
	limit: MachineInteger;
	tag: String;
	apply: (T -> T, %) -> %;
	lifter: (T -> T) -> (% -> %);
	same?: (%, %) -> Boolean;
} == add {
	Rep == Record(v: T);
	import from Rep;
	limit: MachineInteger == 42;
	tag: String == "box";
	box(t: T): % == per [t];
	unbox(x: %): T == rep(x).v;
	apply(f: T -> T, x: %): % == box f unbox x;
	lifter(f: T -> T): % -> % == (x: %): % +-> apply(f, x);
	same?(a: %, b: %): Boolean == unbox a = unbox b;
	if T has ArithmeticType then {
		kind(): String == "arith";
		twice(x: %): % == box(unbox x + unbox x);
	}
}
thrice(T: PrimitiveType, f: T -> T, x: T): T == f f f x;
--MAIN
import from MachineInteger, String;
BI ==> Box MachineInteger;
BS ==> Box String;
import from BI, BS;
b: BI := box 21;
s: BS := box "ab";
stdout << kind()$BI << " " << unbox twice b << " " << limit$BI << " " << tag$BI << newline;
stdout << kind()$BS << " " << unbox twice s << " " << limit$BS << newline;
inc(n: MachineInteger): MachineInteger == n + 1;
ex(t: String): String == t + "!";
lx: BS -> BS := lifter ex;
stdout << unbox apply(inc, b) << " " << unbox(lx s) << " " << same?(b, twice b) << " " << same?(s, twice s) << newline;
stdout << thrice(MachineInteger, inc, 10) << " " << thrice(String, ex, "x") << newline;
