#include "aldor"
#include "aldorio"
--UNIT libfileconst
-- constants and a function exported by the file itself, not by a domain in it
small: MachineInteger == 5;
bigconst: MachineInteger == 4294967296;
greeting: String == "hi";
twicef(n: MachineInteger): MachineInteger == n + n;
--MAIN
import from MachineInteger, String;
stdout << twicef 4 << newline;
stdout << small << " " << bigconst + 1 << " " << greeting << newline;
