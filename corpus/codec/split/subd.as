#include "aldor"
#include "aldorio"
--UNIT prn
Prn: Category == with {
	txt: % -> String;
	loud: % -> String;
	rank: MachineInteger;
	default {
		loud(x: %): String == txt x + "!";
		rank: MachineInteger == 1;
	}
}
--UNIT aa uses prn
AA: Prn with { aa: MachineInteger -> % } == add {
	Rep == MachineInteger;
	import from Rep, String;
	aa(n: MachineInteger): % == per n;
	txt(x: %): String == if rep x > 0 then "A+" else "A-";
}
--UNIT bb uses prn
BB: Prn with { bb: String -> % } == add {
	Rep == String;
	import from Rep, MachineInteger;
	bb(s: String): % == per s;
	txt(x: %): String == rep x;
	loud(x: %): String == "<<" + rep x + ">>";
	rank: MachineInteger == 7;
}
--MAIN
import from MachineInteger, String, AA, BB;
stdout << loud aa 3 << " " << loud aa(-3) << " " << loud bb "b" << " " << rank$AA << " " << rank$BB << newline;
