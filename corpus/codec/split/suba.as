#include "aldor"
#include "aldorio"
--UNIT stk
Stk: with { empty: () -> %; push: (MachineInteger, %) -> %; top: % -> MachineInteger; depth: % -> MachineInteger } == add {
	Rep == List MachineInteger;
	import from Rep, MachineInteger;
	empty(): % == per [];
	push(n: MachineInteger, s: %): % == per cons(n, rep s);
	top(s: %): MachineInteger == first rep s;
	depth(s: %): MachineInteger == #(rep s);
}
--UNIT pr
Pr: with { pair: (MachineInteger, MachineInteger) -> %; swap: % -> %; fst: % -> MachineInteger; big: MachineInteger } == add {
	Rep == Record(a: MachineInteger, b: MachineInteger);
	import from Rep, MachineInteger;
	big: MachineInteger == 6148914691236517205;
	pair(x: MachineInteger, y: MachineInteger): % == per [x, y];
	swap(p: %): % == per [rep(p).b, rep(p).a];
	fst(p: %): MachineInteger == rep(p).a;
}
--UNIT cnt
Cnt: with { tick!: () -> MachineInteger; label: String } == add {
	import from MachineInteger, String, Record(v: MachineInteger);
	c: Record(v: MachineInteger) := [0];
	label: String == "cnt";
	tick!(): MachineInteger == { c.v := c.v + 1; c.v }
}
--MAIN
import from MachineInteger, String, Stk, Pr, Cnt;
s := push(3, push(4, empty()));
stdout << top s << " " << depth s << " " << fst swap pair(1, 2) << " " << big << newline;
tick!(); tick!();
stdout << tick!() << " " << label << newline;
