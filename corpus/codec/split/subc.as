#include "aldor"
#include "aldorio"
--UNIT wrap
Wrap(T: PrimitiveType): with { wrap: T -> %; get: % -> T; eq?: (%, %) -> Boolean } == add {
	Rep == Record(v: T);
	import from Rep;
	wrap(t: T): % == per [t];
	get(w: %): T == rep(w).v;
	eq?(a: %, b: %): Boolean == get a = get b;
}
--UNIT util
Util(T: PrimitiveType): with { count: (T, List T) -> MachineInteger; rep3: T -> List T } == add {
	import from MachineInteger, List T;
	count(t: T, l: List T): MachineInteger == { n: MachineInteger := 0; for x in l repeat if x = t then n := n + 1; n }
	rep3(t: T): List T == [t, t, t];
}
--UNIT lim
Lim: with { lo: MachineInteger; hi: MachineInteger; clamp: MachineInteger -> MachineInteger } == add {
	import from MachineInteger;
	lo: MachineInteger == -2147483649;
	hi: MachineInteger == 4294967296;
	clamp(n: MachineInteger): MachineInteger == if n < lo then lo else if n > hi then hi else n;
}
--MAIN
import from MachineInteger, String, Boolean, Wrap String, Wrap MachineInteger, Util MachineInteger, Util String, Lim;
import from List MachineInteger, List String;
stdout << get wrap "q" << " " << eq?(wrap 3, wrap 3) << " " << count(2, [1, 2, 2, 3]) << " " << count("a", rep3 "a") << newline;
stdout << clamp 5 << " " << clamp(-9000000000) << " " << clamp 9000000000 << " " << hi - lo << newline;
