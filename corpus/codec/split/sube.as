#include "aldor"
#include "aldorio"
--UNIT gens
Gens: with { upto: MachineInteger -> Generator MachineInteger; odds: MachineInteger -> Generator MachineInteger } == add {
	import from MachineInteger;
	upto(n: MachineInteger): Generator MachineInteger == generate { for i in 1..n repeat yield i }
	odds(n: MachineInteger): Generator MachineInteger == generate { for i in upto n repeat if i rem 2 = 1 then yield i }
}
--UNIT fold
Fold: with { fold: ((MachineInteger, MachineInteger) -> MachineInteger, MachineInteger, Generator MachineInteger) -> MachineInteger;
             adder: MachineInteger -> (MachineInteger -> MachineInteger) } == add {
	import from MachineInteger;
	fold(f: (MachineInteger, MachineInteger) -> MachineInteger, z: MachineInteger, g: Generator MachineInteger): MachineInteger == {
		acc := z;
		for x in g repeat acc := f(acc, x);
		acc
	}
	adder(k: MachineInteger): MachineInteger -> MachineInteger == (x: MachineInteger): MachineInteger +-> x + k;
}
--UNIT strs
Strs: with { rev: String -> String; stars: MachineInteger -> String } == add {
	import from MachineInteger, Character;
	rev(s: String): String == { r: String := ""; for c in s repeat r := c::String + r; r }
	stars(n: MachineInteger): String == { r: String := ""; for i in 1..n repeat r := r + "*"; r }
}
--MAIN
import from MachineInteger, String, Gens, Fold, Strs;
plus(a: MachineInteger, b: MachineInteger): MachineInteger == a + b;
times(a: MachineInteger, b: MachineInteger): MachineInteger == a * b;
stdout << fold(plus, 0, upto 10) << " " << fold(times, 1, odds 9) << " " << (adder 5)(37) << " " << rev "abc" << " " << stars 4 << newline;
