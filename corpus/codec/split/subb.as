#include "aldor"
#include "aldorio"
--UNIT shp
Shp: Category == with {
	area: % -> MachineInteger;
	nm: % -> String;
	descr: % -> String;
	default descr(x: %): String == nm x + "?";
}
--UNIT sq uses shp
Sq: Shp with { sq: MachineInteger -> % } == add {
	Rep == MachineInteger;
	import from Rep, String;
	sq(n: MachineInteger): % == per n;
	area(x: %): MachineInteger == rep x * rep x;
	nm(x: %): String == "sq";
}
--UNIT rc uses shp
Rc: Shp with { rc: (MachineInteger, MachineInteger) -> % } == add {
	Rep == Record(w: MachineInteger, h: MachineInteger);
	import from Rep, MachineInteger, String;
	rc(a: MachineInteger, b: MachineInteger): % == per [a, b];
	area(x: %): MachineInteger == rep(x).w * rep(x).h;
	nm(x: %): String == "rc";
	descr(x: %): String == "rect!";
}
--MAIN
import from MachineInteger, String, Sq, Rc;
show(S: Shp, x: S): String == descr x;
stdout << area sq 5 << " " << area rc(2, 7) << " " << show(Sq, sq 1) << " " << show(Rc, rc(1, 1)) << newline;
