#include "aldor"
#include "aldorio"
Shape: Category == with {
	area: % -> MachineInteger;
	name: % -> String;
	square: MachineInteger -> %;
	rect: (MachineInteger, MachineInteger) -> %;
	scale: (%, MachineInteger) -> %;
}
Sh: Shape == add {
	Rep == Record(w: MachineInteger, h: MachineInteger);
	import from Rep, MachineInteger, String;
	big: MachineInteger == 4294967296;
	square(n: MachineInteger): % == per [n, n];
	rect(a: MachineInteger, b: MachineInteger): % == per [a, b];
	area(x: %): MachineInteger == rep(x).w * rep(x).h;
	name(x: %): String == if rep(x).w = rep(x).h then "square" else "rect";
	scale(x: %, k: MachineInteger): % == per [k * rep(x).w + big - big, k * rep(x).h];
}
Counter: with { next!: () -> MachineInteger } == add {
	import from MachineInteger, Record(v: MachineInteger);
	n: Record(v: MachineInteger) := [100];
	next!(): MachineInteger == { n.v := n.v + 1; n.v }
}
import from MachineInteger, String, Sh, Counter;
x := square 7;
y := scale(rect(3, 5), 1000000);
stdout << name x << " " << area x << newline;
stdout << name y << " " << area y << newline;
stdout << next!() << " " << next!() << newline;
