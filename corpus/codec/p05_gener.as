#include "aldor"
#include "aldorio"
import from MachineInteger, List MachineInteger, Integer;
evens(n: MachineInteger): Generator MachineInteger == generate {
	for i in 1..n repeat if i rem 2 = 0 then yield i;
}
l: List MachineInteger := [x * x for x in evens 12];
stdout << l << newline;
t: MachineInteger := 0;
for x in l repeat t := t + x;
stdout << t << newline;
divmod(a: MachineInteger, b: MachineInteger): (MachineInteger, MachineInteger) == (a quo b, a rem b);
(q, r) := divmod(47, 5);
stdout << q << " " << r << newline;
