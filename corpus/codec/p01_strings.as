#include "aldor"
#include "aldorio"
import from String, Character, MachineInteger;
s: String := "plain";
e: String := "quote_" backslash\ bar| paren() under__score";
l: String := "0123456789abcdefghijklmnopqrstuvwxyzABCDEFGHIJKLMNOPQRSTUVWXYZ0123456789abcdefghijklmnopqrstuvwxyzABCDEFGHIJKLMNOPQRSTUVWXYZ0123456789abcdefghijklmnopqrstuvwxyzABCDEFGHIJKLMNOPQRSTUVWXYZ0123456789abcdefghijklmnopqrstuvwxyzABCDEFGHIJKLMNOPQRSTUVWXYZ0123456789abcdefghijklmnopqrstuvwxyzABCDEFGHIJKLMNOPQRSTUVWXYZ";
stdout << s << newline << e << newline << l << newline;
stdout << #l << " " << #e << newline;
c: Character := char "x";
stdout << c << " " << ord c << newline;
for ch in e repeat stdout << ord ch << " ";
stdout << newline;
