#include "aldor"
#include "aldorio"
import from DoubleFloat, SingleFloat, Boolean, MachineInteger;
a: DoubleFloat := 1.5;
z: DoubleFloat := 0.0;
nz: DoubleFloat := -z;
mz: DoubleFloat := -0.0;
big: DoubleFloat := 1.0e300;
small: DoubleFloat := 2.5e-300;
s: SingleFloat := 2.25;
stdout << a << " " << a + a << " " << s << newline;
stdout << (big > a) << " " << (small < a) << " " << (small > z) << newline;
stdout << (1.0/mz < 0.0) << " " << (1.0/nz < 0.0) << " " << (1.0/z > 0.0) << newline;
inf: DoubleFloat := 1.0/0.0;
stdout << (inf > big) << " " << (-inf < -big) << newline;
