#include "aldor"
#include "aldorio"
#library SHL "libshapes.ao"
import from SHL;
import from MachineInteger, String, Sh, Counter;
x := square 7;
y := scale(rect(3, 5), 1000000);
stdout << name x << " " << area x << newline;
stdout << name y << " " << area y << newline;
stdout << next!() << " " << next!() << newline;
