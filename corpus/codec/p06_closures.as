#include "aldor"
#include "aldorio"
import from MachineInteger, String;
adder(n: MachineInteger): MachineInteger -> MachineInteger == (x: MachineInteger): MachineInteger +-> x + n;
compose(f: MachineInteger -> MachineInteger, g: MachineInteger -> MachineInteger): MachineInteger -> MachineInteger ==
	(x: MachineInteger): MachineInteger +-> f g x;
a3 := adder 3;
a5 := adder 5;
h := compose(a3, a5);
stdout << h 10 << " " << a3 a3 a3 0 << newline;
Cell ==> Record(v: MachineInteger);
import from Cell;
counter(): () -> MachineInteger == {
	c: Cell := [0];
	(): MachineInteger +-> { c.v := c.v + 1; c.v }
}
k := counter();
k(); k();
stdout << k() << newline;
