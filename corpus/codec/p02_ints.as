#include "aldor"
#include "aldorio"
import from Integer, MachineInteger;
fact(n: Integer): Integer == if n < 2 then 1 else n * fact(n - 1);
stdout << fact 30 << newline;
b: Integer := 123456789012345678901234567890123456789012345678901234567890;
stdout << b << " " << -b << " " << b * b << newline;
m1: MachineInteger := 2147483647;
m2: MachineInteger := 2147483648;
m3: MachineInteger := 4294967296;
m4: MachineInteger := 4294967297;
m5: MachineInteger := 9223372036854775807;
m6: MachineInteger := -2147483649;
m7: MachineInteger := -4611686018427387904;
stdout << m1 << " " << m2 << " " << m3 << " " << m4 << " " << m5 << " " << m6 << " " << m7 << newline;
stdout << m4 + m2 << " " << m5 - m3 << " " << m7 + m7 << newline;
z: Integer := 0;
stdout << z << " " << (65535@Integer) << " " << (65536@Integer) << " " << (4294967295@Integer) << " " << (4294967296@Integer) << newline;
