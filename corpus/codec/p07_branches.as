#include "aldor"
#include "aldorio"
import from MachineInteger, String, List MachineInteger;
classify(n: MachineInteger): String == {
	n < 0 => "neg";
	n = 0 => "zero";
	n < 10 => "digit";
	n < 100 => "tens";
	n < 1000 => "hundreds";
	"big"
}
collatz(n: MachineInteger): MachineInteger == {
	steps: MachineInteger := 0;
	while n ~= 1 repeat {
		if n rem 2 = 0 then n := n quo 2 else n := 3 * n + 1;
		steps := steps + 1;
	}
	steps
}
for v in [-5, 0, 7, 42, 512, 99999] repeat stdout << classify v << " ";
stdout << newline << collatz 27 << " " << collatz 97 << newline;
