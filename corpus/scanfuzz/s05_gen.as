#include "aldor"
#include "aldorio"
import from MachineInteger;

primes(n: MachineInteger): Generator MachineInteger == generate {
	for i in 2..n repeat {
		isp := true;
		for j in 2..i-1 while isp repeat
			if i rem j = 0 then isp := false;
		if isp then yield i;
	}
}

sum: MachineInteger := 0;
for p in primes 50 repeat { sum := sum + p }
stdout << sum << newline;

f(x: MachineInteger): MachineInteger == {
	x < 0 => -x;
	x = 0 => { return 0 }
	y := x where { z == 1 };
	try { never } catch E in { true => 1; never } finally { }
	x + y;
}
