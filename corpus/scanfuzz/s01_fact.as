#include "aldor"
#include "aldorio"

fact(n: MachineInteger): MachineInteger == {
	n <= 1 => 1;
	n * fact(n - 1);
}

main(): () == {
	import from MachineInteger, String, Character;
	x := fact 5;
	stdout << "fact 5 = " << x << newline;
	l: List MachineInteger := [i*i for i in 1..10 | odd? i];
	for e in l repeat stdout << e << " ";
	stdout << newline;
}

main();
