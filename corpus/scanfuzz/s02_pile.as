#include "aldor"
#include "aldorio"
#pile

import from MachineInteger

gcd2(a: MachineInteger, b: MachineInteger): MachineInteger ==
    b = 0 => a
    gcd2(b, a rem b)

collatz(n: MachineInteger): MachineInteger ==
    steps: MachineInteger := 0
    while n ~= 1 repeat
        if even? n then
            n := n quo 2
        else
            n := 3*n + 1
        steps := steps + 1
    steps

stdout << gcd2(12, 18) << newline
stdout << collatz 27 << newline
