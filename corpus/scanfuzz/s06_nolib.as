-- no library at all: pure definitions
define Cat: Category == with {
	f: % -> %;
	g: (%, %) -> %;
	default { g(a: %, b: %): % == f a }
}
D: Cat == add {
	f(x: %): % == x;
}
E(X: Cat): Cat == X add {
	h(x: %): % == g(x, f x);
}
macro twice(a) == { a; a };
k(x: D): D == { twice(f x) }
