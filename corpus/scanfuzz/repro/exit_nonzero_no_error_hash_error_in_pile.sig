scanfuzz|exit-nonzero-no-error|error-counted-but-no-(Error)-line-printed
