#include "foamlib"
DomNameType==>'ID,APPLY,TUPLE,OTHER';
Rec: with {
     new: () -> %;
}
== add  add {
   Rep ==> Record(t: DomNameType);
   import from _Rep;
   new(): % == per[ID];
   tag(x: %): DomNameType == rep(x).t;
}