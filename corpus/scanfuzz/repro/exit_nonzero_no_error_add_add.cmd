foamlib -M no-emax
