foamlib
