foamlib -M no-emax
