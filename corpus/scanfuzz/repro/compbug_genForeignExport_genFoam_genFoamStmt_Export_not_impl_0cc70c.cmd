foamlib
