aldor
