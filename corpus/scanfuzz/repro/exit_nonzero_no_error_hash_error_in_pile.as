e
#error
2