foamlib -M no-emax
