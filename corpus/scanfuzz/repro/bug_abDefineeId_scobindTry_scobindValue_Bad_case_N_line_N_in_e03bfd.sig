scanfuzz|bug|abDefineeId<scobindTry<scobindValue|Bad case N (line N in file absyn.c).
