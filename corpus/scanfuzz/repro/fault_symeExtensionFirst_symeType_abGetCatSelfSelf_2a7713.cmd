foamlib
