aldor
