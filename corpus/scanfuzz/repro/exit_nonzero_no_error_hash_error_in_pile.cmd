aldor -M no-emax
