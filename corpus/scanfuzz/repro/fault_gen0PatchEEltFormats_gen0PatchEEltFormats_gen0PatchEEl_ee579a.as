#include "foamlib"
#pile
import{foo:MachineInteger->()}from Foreign()
import from MachineInteger
foo(2)pretend Machine