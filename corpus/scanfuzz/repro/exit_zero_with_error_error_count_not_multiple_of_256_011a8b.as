#error 
#quit