scanfuzz|compbug|genForeignExport<genFoam<genFoamStmt|Export not implemented.
