scanfuzz|bug|tcFini<typeInfer<compPhaseTInfer|N constraints not checked
