foamlib -M no-emax
