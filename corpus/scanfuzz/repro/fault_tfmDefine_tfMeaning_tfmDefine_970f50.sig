scanfuzz|fault|tfmDefine<tfMeaning<tfmDefine
