foamlib -M no-emax
