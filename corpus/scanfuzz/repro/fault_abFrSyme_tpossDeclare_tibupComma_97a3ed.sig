scanfuzz|fault|abFrSyme<tpossDeclare<tibupComma
