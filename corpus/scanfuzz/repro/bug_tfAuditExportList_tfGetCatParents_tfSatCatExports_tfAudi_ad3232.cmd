foamlib
