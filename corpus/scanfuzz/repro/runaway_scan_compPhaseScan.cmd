foamlib
