scanfuzz|fault|tfSyntaxFrAbSyn<tfp0Float<tfpAdd
