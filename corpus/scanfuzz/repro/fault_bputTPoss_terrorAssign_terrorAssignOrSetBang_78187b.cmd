aldor
