scanfuzz|bug|scobindLOF<scobindForeignExport<scobindContext|Bad case N (line N in file scobind.c).
