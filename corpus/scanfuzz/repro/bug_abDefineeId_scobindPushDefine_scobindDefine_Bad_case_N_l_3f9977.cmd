foamlib
