#include "foamlib"
X==>'GOOD';foo():X=={x:=GOOD;x;iterate}