scanfuzz|storage-fault|stoFree<abFree<comsgFree
