Type: with == add;
Tuple(T: with): with == add;
(A: Tuple Type) -> (B: Tuple Type): with == add;
Boolean: with ==XAlgebra(T: with): Category == with;