#include "foamlib"
#pile
    Rep == Cross(String, String)
    bar(c: Rep): String ==
        (a,Join b) := c
