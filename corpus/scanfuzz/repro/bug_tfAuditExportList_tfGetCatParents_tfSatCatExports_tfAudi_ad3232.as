#include "foamlib"
o:with(String,g)==add