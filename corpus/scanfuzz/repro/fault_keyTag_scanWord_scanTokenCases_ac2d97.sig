scanfuzz|fault|keyTag<scanWord<scanTokenCases
