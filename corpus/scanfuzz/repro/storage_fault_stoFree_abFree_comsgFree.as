#include "aldor"
macro();
