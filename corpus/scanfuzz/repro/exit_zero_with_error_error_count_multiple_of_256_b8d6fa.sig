scanfuzz|exit-zero-with-error|error-count-multiple-of-256
