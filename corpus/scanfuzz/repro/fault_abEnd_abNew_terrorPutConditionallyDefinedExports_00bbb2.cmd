foamlib -M no-emax
