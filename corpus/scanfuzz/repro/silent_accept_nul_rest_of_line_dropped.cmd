aldor
