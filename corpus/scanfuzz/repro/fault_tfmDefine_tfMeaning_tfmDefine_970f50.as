#include "foamlib"
fn(x:MachineInteger):MachineInteger==throw SomeException==fn2(x:MachineInteger):MachineInteger==if 0then SomeException 