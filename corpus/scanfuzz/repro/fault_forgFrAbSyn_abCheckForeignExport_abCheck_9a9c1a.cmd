foamlib -M no-emax
