foamlib
