scanfuzz|bug|scobindValue<scopeBind<compPhaseScoBind|Unimplemented scoBind (line N in file scobind.c).
