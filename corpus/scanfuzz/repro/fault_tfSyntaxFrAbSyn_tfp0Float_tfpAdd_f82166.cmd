foamlib
