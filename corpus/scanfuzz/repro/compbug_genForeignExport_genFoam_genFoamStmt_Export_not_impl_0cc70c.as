#pile
with
export Foo to Foreign""
Foo==add