scanfuzz|exit-zero-with-error|error-count-not-multiple-of-256
