scanfuzz|exit-nonzero-no-error|[LN CN] #N (Warning) Escape character ignored.  Do you mean '__'?
