#include "foamlib"
#pile
Pair(x:X):with
    obj:%
==add
   obj:%==%==per(Cross())