foamlib
