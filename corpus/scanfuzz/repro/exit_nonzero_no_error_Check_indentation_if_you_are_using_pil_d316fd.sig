scanfuzz|exit-nonzero-no-error|Check indentation if you are using `#pile'.
