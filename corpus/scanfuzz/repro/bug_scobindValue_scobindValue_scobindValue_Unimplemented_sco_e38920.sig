scanfuzz|bug|scobindValue<scobindValue<scobindValue|Unimplemented scoBind (line N in file scobind.c).
