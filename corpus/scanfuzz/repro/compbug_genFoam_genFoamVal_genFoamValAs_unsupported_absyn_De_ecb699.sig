scanfuzz|compbug|genFoam<genFoamVal<genFoamValAs|unsupported absyn (Delay) found by genFoam.
