#include "foamlib"
#pile
extend String: with {
}
== add {
        import Foam: with {
	} from Foreign Java "foamj";
}
APPLY(id, rhs) ==> { apply: (%, 'id') -> rhs; export from 'id' }
import ArrayList: (T: with) -> with
    APPLY(iterator, () -> Iterator T)    APPLY(get, MachineInteger -> T)
 from Foreign Java "java.util"
import
    Iterator: (T: with) -> with
from Foreign Java "java.util"
ll(): () ==
    l: ArrayList String := new(2)