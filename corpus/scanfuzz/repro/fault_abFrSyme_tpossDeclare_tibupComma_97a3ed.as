#include "foamlib"
X ==> 'GOOD,BAD,UGLY,BAD,UGLY';	
foo(): X == {
}