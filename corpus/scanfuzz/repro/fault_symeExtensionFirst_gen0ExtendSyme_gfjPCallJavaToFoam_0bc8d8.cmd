foamlib -M no-emax
