foamlib -M no-emax
