foamlib
