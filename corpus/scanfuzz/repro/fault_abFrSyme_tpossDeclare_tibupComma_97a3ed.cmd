foamlib
