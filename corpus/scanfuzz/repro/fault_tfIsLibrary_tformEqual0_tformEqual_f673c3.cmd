foamlib -M no-emax
