scanfuzz|compbug|genFoam<genFoamVal<gen0MakeTypeParent|unsupported absyn (Hide) found by genFoam.
