foamlib
