foamlib
