#include "foamlib"
o():not()==B