#include "foamlib"
#pile
define SomeExceptionType:Category == with;
SomeException: SomeExceptionType == add;
local fn(x: MachineInteger): MachineInteger == throw SomeException
export check(f: Boolean): () == if not f then never;
local test(): () ==
    import from MachineInteger
    x := try fn(0) catch E in -1
    check(x = -1)
