#include "aldor"
import from List