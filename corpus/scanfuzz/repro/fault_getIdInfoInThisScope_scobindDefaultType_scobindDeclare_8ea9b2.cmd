foamlib -M no-emax
