aldor
