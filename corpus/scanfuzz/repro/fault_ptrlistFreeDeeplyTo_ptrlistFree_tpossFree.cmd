foamlib
