scanfuzz|exit-nonzero-no-error|^
