#pile
PrimitiveType:Category== with
Foo:* PrimitiveType == add