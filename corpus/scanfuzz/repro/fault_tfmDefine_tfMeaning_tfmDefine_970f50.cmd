foamlib -M no-emax
