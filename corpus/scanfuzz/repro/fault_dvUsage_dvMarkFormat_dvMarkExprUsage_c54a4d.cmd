foamlib
