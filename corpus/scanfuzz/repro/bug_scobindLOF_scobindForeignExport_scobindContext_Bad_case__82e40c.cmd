foamlib
