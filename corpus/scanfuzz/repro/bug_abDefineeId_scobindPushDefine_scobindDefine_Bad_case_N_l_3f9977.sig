scanfuzz|bug|abDefineeId<scobindPushDefine<scobindDefine|Bad case N (line N in file absyn.c).
