foamlib
