#pile
import
    ExceptionExample: with
        new, MachineInteger -> % throw JavaExceptionType
    from Foreign Java "aldor.test"
import from ExceptionExample
testNew(): () ==
    ee: ExceptionExample := new(2) pretend ExceptionExample
    stdout << ee.value() << newline
