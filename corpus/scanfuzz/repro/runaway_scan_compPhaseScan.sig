scanfuzz|runaway|scan<compPhaseScan
