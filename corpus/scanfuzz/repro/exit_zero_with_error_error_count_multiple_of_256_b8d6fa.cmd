aldor -M no-emax
