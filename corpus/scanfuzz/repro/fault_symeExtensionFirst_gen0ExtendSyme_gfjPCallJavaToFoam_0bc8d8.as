#include "foamlib"
#pile
extend String: with {
}
== add {
        import Foam: with {
	} from Foreign Java "foamj";
}
APPLY(id, rhs) ==> { apply: (%, 'id') -> rhs; export from 'id' }
import ArrayList: (T: with) -> with
    new: MachineInteger -> %
    APPLY(iterator, () -> Iterator T)
 from Foreign Java "java.util"
import
 from Foreign Java

import
    Iterator: (T: with) -> with
from Foreign _"Java "java.util"

ll(): () ==
    import from MachineInteger, String
    l: ArrayList String := new(2)
    iter: Iterator String := l.iterator()
