foamlib
