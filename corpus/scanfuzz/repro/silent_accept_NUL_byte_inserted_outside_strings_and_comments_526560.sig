scanfuzz|silent-accept|NUL-byte-inserted-outside-strings-and-comments
