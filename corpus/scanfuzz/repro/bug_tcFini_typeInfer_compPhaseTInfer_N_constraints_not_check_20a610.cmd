foamlib -M no-emax
