scanfuzz|exit-nonzero-no-error|[Defi: [Decl: [Labe: XAlgebra _] Category] [With: [Appl: XAlgebra %] _]]
