#include "foamlib"hine;
extend String:w