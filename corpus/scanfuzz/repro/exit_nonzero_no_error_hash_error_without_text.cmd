aldor
