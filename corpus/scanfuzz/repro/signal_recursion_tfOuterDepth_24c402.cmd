foamlib
