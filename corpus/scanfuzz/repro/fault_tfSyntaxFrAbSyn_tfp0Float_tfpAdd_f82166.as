#include "foamlib"
with{exquo:*%->%}{(a:%)exquo(b:%):% == a}