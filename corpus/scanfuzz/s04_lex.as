#include "aldor"
#include "aldorio"
-- lexical variety: escapes, radix integers, floats, strings, docs
import from MachineInteger, String, Character, DoubleFloat, Integer;
macro MI == MachineInteger;
_if: MI := 16rFF + 2r1010 + 8r17;
a_+b: MI := 1_000;
s := "quote _" inside, escape __ and a long _
      continued string";
c := char "x";
f: DoubleFloat := 1.5e3 + 0.25 + 3.0e-2;
r := [1, 2, 3].1;
t: List MI := [i for i: MI in 1..10];
g := (x: MI): MI +-> x * x;
h := g(_if) ^ 2 mod 7;
stdout << _if << a_+b << s << c << f << r << h << newline;
big: Integer := 123456789012345678901234567890;
ok? := _if >= 0 and not (h ~= 0) or a_+b < 3 /\ true \/ false;
