#include "aldor"
#pile

Stack(T: Type): with
        empty: () -> %
        push!: (T, %) -> %
        pop!: % -> T
        empty?: % -> Boolean
    == add
        Rep == Record(l: List T)
        import from Rep, List T

        empty(): % == per [empty]
        empty?(s: %): Boolean == empty? rep(s).l
        push!(t: T, s: %): % ==
            rep(s).l := cons(t, rep(s).l)
            s
        pop!(s: %): T ==
            t := first rep(s).l
            rep(s).l := rest rep(s).l
            t

import from MachineInteger, Stack MachineInteger
s := push!(3, push!(4, empty()))
