#include "aldor"
#include "aldorio"
#assert FirstWay
#if FirstWay
import from MachineInteger;
x: MachineInteger := 1;
#elseif SecondWay
import from String;
x: String := "two";
#else
this is never seen (((
#endif
#unassert FirstWay
#if FirstWay
)) nor this
#endif
stdout << x << newline;
