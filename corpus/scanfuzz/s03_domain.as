#include "aldor"
#include "aldorio"

+++ A category of things with a size.
define Sized: Category == with {
	size: % -> MachineInteger;	++ number of parts
	default big?(x: %): Boolean == { import from MachineInteger; size x > 10 }
	big?: % -> Boolean;
}

Pair(S: Type, T: Type): with {
	pair: (S, T) -> %;
	first: % -> S;
	second: % -> T;
	Sized;
} == add {
	Rep == Record(a: S, b: T);
	import from Rep;
	pair(s: S, t: T): % == per [s, t];
	first(p: %): S == rep(p).a;
	second(p: %): T == rep(p).b;
	size(p: %): MachineInteger == 2;
}

import from MachineInteger, String, Pair(MachineInteger, String);
p := pair(1, "one")$Pair(MachineInteger, String);
stdout << first p << " " << second p << " " << big? p << newline;
