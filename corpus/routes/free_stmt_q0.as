-- levels: 0 1
-- regression: fint.c fintStmt used to skip a bare (Lex l i) statement (`free n;` at -Q0) without consuming its
-- operands -> `Bug: fintStmt: Char (<makeCounter> in [prog]) unimplemented` on the interpreter routes only
#include "aldor"
#include "aldorio"
import from MachineInteger;
makeCounter(start: MachineInteger): () -> MachineInteger == {
	n: MachineInteger := start;
	(): MachineInteger +-> { free n; n := n + 1; n }
}
c1 := makeCounter 10;
stdout << c1() << " " << c1() << newline;
