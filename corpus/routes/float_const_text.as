-- levels: 0 2 9
-- regression: folded float constants the C route wrote as text it cannot read back: -0.0 lost its sign
-- (util.c DFloatSprint's `d == 0.0` case) and inf/NaN became the identifiers `inf` / `-nan` (C compile failed)
#include "aldor"
#include "aldorio"
import from MachineInteger, SingleFloat, DoubleFloat, String;
-- dissemble leaves the bytes above the fraction unset: keep the 3 (resp. 7) fraction bytes only
bs(tag: String, x: SingleFloat): () == {
	import from Machine;
	(s, e, m) := dissemble(x::SFlo);
	stdout << tag << " " << (s::Boolean) << " " << (e::MachineInteger) << " " << (((m pretend SInt)::MachineInteger) /\ 16777215) << newline;
}
bd(tag: String, x: DoubleFloat): () == {
	import from Machine;
	(s, e, m1, m2) := dissemble(x::DFlo);
	stdout << tag << " " << (s::Boolean) << " " << (e::MachineInteger) << " " << (((m1 pretend SInt)::MachineInteger) /\ 72057594037927935) << newline;
}
z: SingleFloat := 0.0; dz: DoubleFloat := 0.0;
bs("neg0", - 0.0); bd("dneg0", - 0.0);
bs("inf", 1.0 / z); bs("ninf", -1.0 / z); bs("nan", z / z);
bd("dinf", 1.0 / dz); bd("dninf", -1.0 / dz);
