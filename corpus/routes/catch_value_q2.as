-- levels: 2 3
-- regression (minimised from a generated program): fint.c FOAM_Catch passed on a stale value after an exception;
-- from -Q2 on the optimiser stores it into a BInt-typed local before testing `ok`, and the interpreter's store
-- copies (dereferences) a big integer -> `Storage allocation error (out of memory)` on the interpreter routes only
#include "aldor"
#include "aldorio"
import from MachineInteger , Integer , Boolean , String , List ( MachineInteger ) , List ( Integer ) , Array ( MachineInteger ) , Array ( Integer ) , Array ( Boolean ) , List ( Boolean ) , Array ( String ) , List ( String ) ;
define Ex8Type : Category == with { val : ( ) -> MachineInteger } ;
Ex8 ( pv : MachineInteger ) : Ex8Type == add { val ( ) : MachineInteger == pv } ;
define Ex9Type : Category == with { val : ( ) -> MachineInteger } ;
Ex9 ( pv : MachineInteger ) : Ex9Type == add { val ( ) : MachineInteger == pv } ;
g10 : String := ( "it's" @ String ) ;
f17 ( ) : Boolean == {
    ( not true ) ;
} ;
f18 ( x19 : MachineInteger , x20 : MachineInteger , x21 : String ) : Integer == {
    try {
        stdout << ( ( "q_"uote" @ String ) + ( "( [ {" @ String ) ) << ( [ ( "--" @ String ) , x21 ] @ Array ( String ) ) << newline ;
    } catch E22 in {
        E22 has Ex8Type => {
            if true then {
                stdout << ( [ ( "{" @ String ) , ( "x y  z" @ String ) , ( "x y  z" @ String ) ] @ Array ( String ) ) << ( new ( ( 5 @ MachineInteger ) , ( "x y  z" @ String ) ) @ Array ( String ) ) ;
            } ;
        } ;
    } ;
    try {
        stdout << ( [ g10 , ( "q_"uote" @ String ) , ( "{;;1c__ __" @ String ) ] @ Array ( String ) ) << newline ;
    } catch E26 in {
    } ;
    stdout << ( ( v30 := ( try ( f17 ( ) @ Boolean ) catch E28 in { E28 has Ex9Type => false ; true => throw E28 ; never } finally ( stdout << ( "F" @ String ) << newline ) ) ) ; v30 => ( [ g10 ] @ List ( String ) ) ; ( try ( ( if true then throw Ex8 ( x20 ) ) ; ( [ ( "Y-X" @ String ) ] @ List ( String ) ) ) catch E29 in { E29 has Ex8Type => ( [ ( "--" @ String ) ] @ List ( String ) ) ; E29 has Ex9Type => ( empty @ List ( String ) ) ; true => throw E29 ; never } finally ( stdout << ( "fin" @ String ) << newline ) ) ) << newline ;
    ( ( v32 := ( v30 := v30 ) ) ; ( if v32 then ( try ( ( if false then throw Ex9 ( ( 4294967296 @ MachineInteger ) ) ) ; ( - ( 158003596905805264398713 @ Integer ) ) ) catch E31 in { E31 has Ex9Type => ( 18446744073709551616 @ Integer ) ; E31 has Ex8Type => ( - ( 100000000000000000000 @ Integer ) ) ; true => ( 11 @ Integer ) ; never } ) else ( ( 0 @ Integer ) - ( 18446744073709551616 @ Integer ) ) ) ) ;
} ;
f38 ( x39 : MachineInteger , x40 : Integer ) : Generator ( Integer ) == generate {
} ;
g43 : ( Boolean ) -> MachineInteger := ( x44 : Boolean ) : MachineInteger +-> {
    if x44 then {
        stdout << ( try ( ( if x44 then throw Ex8 ( ( 10 @ MachineInteger ) ) ) ; ( [ ( "" @ String ) ] @ Array ( String ) ) ) catch E47 in { E47 has Ex9Type => ( [ ( " -1 0Z" @ String ) , ( "bc.cac___"" @ String ) , ( "abc" @ String ) ] @ Array ( String ) ) ; E47 has Ex8Type => ( [ ( "( [ {" @ String ) ] @ Array ( String ) ) ; true => ( [ ( "~!@$^&*" @ String ) , ( "" @ String ) ] @ Array ( String ) ) ; never } finally ( stdout << ( "fin" @ String ) << newline ) ) << ( ":" @ String ) << ( empty @ List ( Integer ) ) << newline ;
    } ;
    ( 4243748886850855005 @ MachineInteger ) ;
} ;
g52 : Integer := ( if true then ( ( 4611686018427387904 @ MachineInteger ) :: Integer ) else ( 44 @ Integer ) ) ;
f53 ( ) : ( ) == ( stdout << ( - g52 ) << ( "|" @ String ) << ( ( - ( 4 @ MachineInteger ) ) - ( 159185432288814362 @ MachineInteger ) ) << newline ) ;
f54 ( ) : ( ) == {
    v55 : Integer := ( 1 @ Integer ) ;
    v55 := ( try ( ( if ( g52 >= g52 ) then throw Ex9 ( ( 16 @ MachineInteger ) ) ) ; abs ( g52 ) ) catch E56 in { E56 has Ex9Type => v55 ; true => g52 ; never } ) ;
    ( ( v58 := ( if false then true else true ) ) ; ( if v58 then ( for x57 in ( f38 ( ( ( 840088412068861240 @ MachineInteger ) mod ( 3 @ MachineInteger ) ) , ( 389649569854923626481652 @ Integer ) ) @ Generator ( Integer ) ) repeat { ( stdout << cons ( ( - ( 3 @ MachineInteger ) ) , ( [ ( 255 @ MachineInteger ) , ( 1 @ MachineInteger ) ] @ List ( MachineInteger ) ) ) << v55 << ( g10 + ( "" @ String ) ) << newline ) ; ( stdout << ( [ ( - ( 20 @ Integer ) ) , ( - ( 352682218242372413408217 @ Integer ) ) , ( 31 @ Integer ) ] @ Array ( Integer ) ) << ( " - " @ String ) << ( new ( ( 1 @ MachineInteger ) , ( - ( 21 @ Integer ) ) ) @ Array ( Integer ) ) << ( "," @ String ) << ( new ( ( 5 @ MachineInteger ) , g10 ) @ Array ( String ) ) << newline ) } ; ( if false then ( ( stdout << abs ( ( - ( 27 @ Integer ) ) ) << ( " " @ String ) << g10 << ( if false then ( [ ( 9223372036854775806 @ MachineInteger ) , ( 4611686018427387904 @ MachineInteger ) , ( 1000 @ MachineInteger ) ] @ Array ( MachineInteger ) ) else ( [ ( 9223372036854775806 @ MachineInteger ) , ( - ( 13 @ MachineInteger ) ) , ( 7176659322384933340 @ MachineInteger ) ] @ Array ( MachineInteger ) ) ) << newline ) ; ( stdout << reverse ( ( [ false ] @ List ( Boolean ) ) ) << newline ) ; ( stdout << ( v55 quo ( - ( 2147483648 @ Integer ) ) ) ) ) else ( ( stdout << ( [ false , false ] @ List ( Boolean ) ) << g10 << ( " - " @ String ) << ( if true then ( empty @ List ( Boolean ) ) else ( [ true ] @ List ( Boolean ) ) ) << newline ) ; ( stdout << ( ( - ( 19 @ MachineInteger ) ) + ( 20 @ MachineInteger ) ) << ( [ v55 , g52 ] @ List ( Integer ) ) << newline ) ) ) ; f53 ( ) ) ) ) ;
} ;
f54 ( ) ;
