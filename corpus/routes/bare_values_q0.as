-- levels: 0 1
-- regression: bare references and literals as statements (kept by -Q0) must be evaluated by fintStmt, not skipped
#include "aldor"
#include "aldorio"
import from MachineInteger;
g: MachineInteger := 5;
f(p: MachineInteger): MachineInteger == {
	l: MachineInteger := p + 1;
	l;
	p;
	g;
	7;
	h(): MachineInteger == { free l; l + p };
	h() + l;
}
stdout << f 3 << newline;
