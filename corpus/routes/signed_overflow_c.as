-- levels: 0 2 9
-- regression: the generated C multiplies FiSInt (long) values with C's `*`; gcc -O2 (used from -Q2 on) treated the
-- overflow as undefined and the executable printed 9223372036854775807 where the interpreter (and -Q0) print the
-- wrapped 9223372036854775795 — until -fwrapv was added to the gcc options of aldor.conf
#include "aldor"
#include "aldorio"
import from MachineInteger;
define ExType: Category == with { };
Ex: ExType == add { };
f(b: Boolean): MachineInteger == {
	(7 + 6) * (try ((if false then throw Ex); 9223372036854775807) catch E in { true => 4169678833220270273; never });
}
stdout << f(true) << newline;
