-- levels: 2
-- regression: the sign of a folded -0.0 on the C route (separate from float_const_text.as, which does not compile there while inf/NaN are broken)
#include "aldor"
#include "aldorio"
import from MachineInteger, SingleFloat, DoubleFloat, String;
-- dissemble leaves the bytes above the fraction unset: keep the 3 (resp. 7) fraction bytes only
bs(tag: String, x: SingleFloat): () == {
	import from Machine;
	(s, e, m) := dissemble(x::SFlo);
	stdout << tag << " " << (s::Boolean) << " " << (e::MachineInteger) << " " << (((m pretend SInt)::MachineInteger) /\ 16777215) << newline;
}
bd(tag: String, x: DoubleFloat): () == {
	import from Machine;
	(s, e, m1, m2) := dissemble(x::DFlo);
	stdout << tag << " " << (s::Boolean) << " " << (e::MachineInteger) << " " << (((m1 pretend SInt)::MachineInteger) /\ 72057594037927935) << newline;
}
bs("neg0", - 0.0); bd("dneg0", - 0.0);
bs("neg0b", 0.0 * (- 1.0));
