-- levels: 0 1
-- regression: bare (Loc n) / (Par n) statements at -Q0 (`Bug: fintStmt: Loc … unimplemented` before the repair)
#include "aldor"
#include "aldorio"
import from MachineInteger;
f(p: MachineInteger): MachineInteger == {
	l: MachineInteger := p + 1;
	l;
	p;
	7;
	l + p;
}
stdout << f 3 << newline;
