deep(a: Integer): Integer == {
    if a > 0 then {
        if a > 1 then {
            if a > 2 then {
                if a > 3 then {
                    r := 4;
                    q := 5
                }
            }
        }
    }
    b := 1;
    if a < 0 then {
        while a < 0 repeat {
            a := a + 1;
            b := b + 1
        }
        b := b * 2
    }
    b
}
last(): Integer == 0;
