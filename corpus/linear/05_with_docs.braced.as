+++ A category of shapes.
+++ Second line of the description.
Shape: Category == with {
    area: % -> Integer;
        ++ area(s) is the area of s.
    perimeter: % -> Integer;
        ++ perimeter(s) is the length of the boundary.
        ++ It is never negative.
    scale: (%, Integer) -> %;
}
