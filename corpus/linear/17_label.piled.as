#pile
count(n: Integer): Integer ==
    i := 0
@tp i := i + 1
    if i < n then goto tp
@dn i
