-- leading comment
-- another

f(x: Integer): Integer == {   -- after the brace
    -- own line, indented
    a := x;   -- trailing
-- own line, column 0
        -- own line, over-indented
    b := a    -- before the semicolon
      ;
    if a > b then {   -- c1
        a := b;       -- c2
    }                 -- c3
    else              -- c4
        b := a;       -- c5
    a + b -- last
}   -- end
-- final comment
