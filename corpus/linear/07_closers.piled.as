#pile
build(n: Integer): List Integer ==
    l := makeList(
        n,
        n + 1,
        n + 2
    )
    m := combine(l, (
        n
    ))
    r := [
        n
    ]
    concat(l, m, r)
