Point: with {
    new: (Integer, Integer) -> %;
    coords: % -> Record(x: Integer,
                        y: Integer);
} == add {
    Rep == Record(x: Integer,
                  y: Integer);
    U == Union(i: Integer,
               s: String,
               p: %);
    new(a: Integer, b: Integer): % == per [a, b];
    coords(p: %): Record(x: Integer, y: Integer) == rep p;
    local helper(u: U): Integer == {
        u case i => u.i;
        u case s => 0;
        1
    }
}
