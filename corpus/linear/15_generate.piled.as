#pile
evens(n: Integer): Generator Integer == generate
    i := 0
    while i < n repeat
        yield i
        i := i + 2
firstBig(l: List Integer): Integer ==
    for x in l repeat
        x > 100 => return x
        x < 0 => iterate
        note x
    0
