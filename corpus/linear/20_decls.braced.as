export {
    f: Integer -> Integer;
    g: Integer -> Integer
} to Foreign C;
local {
    a: Integer;
    b: Integer
}
default {
    x: Integer;
    y: String
}
extend Integer: with {
    twice: % -> %
} == add {
    twice(n: %): % == n + n
}
free v: Integer := 1;
