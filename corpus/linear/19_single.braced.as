f(x: Integer): Integer == {
    if x > 0 then
        x
    else
        -x
}
C: Category == with {
    op: % -> % }
D: C == add {
    op(a: %): % == a }
g(x: Integer): Integer == {
    y := if x > 0 then {
        x }
      else {
        0 };
    y
}
