outer(x: Integer): Integer == {
    a := x;
    b := {
#pile
        c := a + 1
        d := c * 2
        if d > 3 then
            d := 3
            c := 0
        c + d
#endpile
    }
    a + b
}
