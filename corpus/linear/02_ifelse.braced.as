sign(x: Integer): Integer == {
    if x < 0
    then -1
    else if x = 0
    then 0
    else 1
}

classify(x: Integer): String == {
    if x < 0 then {
        neg := true;
        "negative"
    }
    else if x = 0 then
        "zero"
    else {
        neg := false;
        "positive"
    }
}

pick(b: Boolean): Integer ==
    if b then 1 else 2;
