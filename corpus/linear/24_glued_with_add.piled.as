#pile
Cat: Category == with
    op: % -> %
Dom: Cat == add
    op(a: %): % == a
Mix: with
    f: Integer -> Integer
== add
    f(n: Integer): Integer == if n > 0 then
        n
        - 1
    else
        0
Top(T: Type): with
    g: T -> T
== add
    g(t: T): T == t
  where
    h == 1
