#pile
test(a: Boolean, b: Boolean, c: Boolean): Boolean ==
    if a then
        b
        and c
        or a
    else
        not b
        and not c

conv(x: Integer): String ==
    if x > 0 then
        x
        :: String
    else
        "neg"
