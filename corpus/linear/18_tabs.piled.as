#pile

Foo: with
    new: String -> %
    foo: % -> String
== add
    Rep == Cross(String, String)
    new(n: String): % == (n, n)@Rep pretend %
    foo(c: %): String ==
        (a, b) := rep c
	a

    bar(c: Rep): String ==
	(a, b) := c
        a

test(): () ==
    import from Foo, String
    print << foo(new("xx")) << newline
