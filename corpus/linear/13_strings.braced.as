msgs(): List String == {
    a := "-- not a comment";
    b := "++ not a doc";
    c := "with _"quotes_" and { braces }";
    d := "semi; colon";   -- real comment with "quotes"
    e := "#pile";
    [a, b, c,
     d, e]
}
