#pile
collatz(n: Integer): Integer ==
    steps := 0
    repeat
        if n = 1 then break
        if n rem 2 = 0 then
            n := n quo 2
        else
            n := 3 * n + 1
        steps := steps + 1
    steps

sumTo(n: Integer): Integer ==
    s := 0
    for i in 1..n | odd? i repeat
        s := s + i
    for i in 1..n
      for j in n..1 by -1 repeat
        s := s + i * j
        s := s - 1
    s
