-- before the directive
#pile
-- leading comment
-- another

f(x: Integer): Integer ==   -- after the header
    -- own line, indented
    a := x   -- trailing
-- own line, column 0
        -- own line, over-indented
    b := a    -- c0
    if a > b then   -- c1
        a := b       -- c2
                     -- c3
    else              -- c4
        b := a       -- c5
    a + b -- last
-- final comment
