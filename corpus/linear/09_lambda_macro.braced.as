macro {
    I == Integer;
    twice(x) == (x + x)
}
import from I;
inc: I -> I == (x: I): I +-> x + 1;
compose(f: I -> I, g: I -> I): I -> I == {
    (x: I): I +-> {
        y := g x;
        f y
    }
}
apply3(f: I -> I, x: I): I == f f f x;
