#pile
-- long expressions continued on following lines
total(a: Integer, b: Integer, c: Integer): Integer ==
    x := a * a +
            b * b
    y := long(a,
              b,
              c)
    z := [a, b,
          c, a,
          b
         ]
    w := a +
           b *
              c
    x + y + w
