#pile
pick(a: Boolean, b: Boolean, c: Boolean): Integer ==
    if a then
        if b then 1
        else if c then 2
        else 3
    else
        4

pick2(a: Boolean, b: Boolean, c: Boolean): Integer ==
    if a then
        if b then
            1
        else if c then
            2
        else
            3
    else if b then
        if c then 5
        else 6
    else 7
