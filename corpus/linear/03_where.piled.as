#pile
area(r: Integer): Integer == (p * r * r) where
    p == 3
    q == 4

Outer: with { val: Integer } == Inner where
    Inner: with { val: Integer } == add
        val: Integer == 7
