-- nested blocks
f(n: Integer): Integer == {
    s := 0;
    i := 1;
    while i <= n repeat {
        if i rem 2 = 0 then {
            s := s + i;
            t := s * 2;
        }
        i := i + 1;
    }
    s
}

g(a: Integer, b: Integer): Integer == {
    for k in 1..a repeat {
        for j in 1..b repeat {
            h(k, j);
            h(j, k)
        }
    }
    a + b
}
