#pile
safeDiv(a: Integer, b: Integer): Integer ==
    x := try divide(a, b) catch E in
        log(E)
        -1
    y := try
        u := divide(b, a)
        u + 1
    catch E in 0 always
        cleanup()
        done()
    x + y
