#pile
Stack(T: Type): with
    empty: () -> %
    push: (T, %) -> %
    top: % -> T
== add
    Rep == List T
    import from Rep
    empty(): % == per []
    push(x: T, s: %): % ==
        l := rep s
        per cons(x, l)
    top(s: %): T == first rep s
