safe(a: Integer, b: Integer): Integer == {
    x := try {
        divide(a,
               b
        ) }
    catch E in {
        report(E,
               a
        ) }
    always {
        cleanup(
            a
        ) };
    y := if a > b then {
        max(a,
            b
        ) }
    else {
        min(a, b
        ) };
    x + y
}
