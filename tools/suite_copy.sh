#!/bin/bash
# usage: suite_copy.sh <dest>   full relocated copy of /repo in which `make check` runs without touching /repo
set -e
D=$1
mkdir -p $D
rsync -a --delete --exclude /.git /repo/ $D/
grep -rlI --include=Makefile --include='*.mk' --include=config.status --include=libtool --include='*.la' --include='*.conf' -e '/repo/aldor' $D 2>/dev/null | xargs -r sed -i "s#/repo/aldor#$D/aldor#g"
echo "copied to $D; remaining references: $(grep -rlI -e '/repo/aldor' $D --include=Makefile | wc -l)"
