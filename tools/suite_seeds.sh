#!/bin/bash
# full pinned suite for every seeded change, in a relocated copy of /repo (never touches /repo)
OUT=/var/tmp/suiteseeds; mkdir -p $OUT
D=/var/tmp/suiterepo
for P in "$@"; do
 for PD in /tmp/mut/${MUTPREFIX:-M}-$P-out/patch*.diff; do
  [ -f "$PD" ] || continue
  ID=${MUTPREFIX:-M}-$P-$(basename $PD .diff)
  [ -s $OUT/$ID.json ] && continue
  /verif/tools/suite_copy.sh $D > $OUT/$ID.copy.log 2>&1
  ( cd $D && patch -p1 --no-backup-if-mismatch < $PD > $OUT/$ID.patch.log 2>&1 ) || { echo "$ID: PATCH FAILED"; continue; }
  ( ulimit -f 1000000; cd $D/aldor && timeout 1500 make -k -j8 > $OUT/$ID.build.log 2>&1; timeout 1800 make -k -j8 check VERBOSE=1 > $OUT/$ID.check.log 2>&1; echo "rc=$?" > $OUT/$ID.rc )
  pkill -9 -u root -f "$D/" 2>/dev/null
  python3 /w/lib/parse_tests.py --kind lines --run x --log $OUT/$ID.check.log --out $OUT/$ID.json > /dev/null 2>&1
  echo "$ID: $(python3 -c "import json;d=json.load(open('$OUT/$ID.json'));c=lambda v: len(v) if isinstance(v,(list,dict)) else v;print('passed',c(d['passed']),'failed',c(d['failed']), d['failed'] if isinstance(d['failed'],list) else '')")"
 done
done
