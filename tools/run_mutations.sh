#!/bin/bash
# usage: run_mutations.sh C04 C14 ...  -> tries every patch*.diff of /tmp/mut/M-<P>-out against check <P>
for P in "$@"; do
  for D in /tmp/mut/${MUTPREFIX:-M}-$P-out/patch*.diff; do
    [ -f "$D" ] || continue
    N=$(basename $D .diff)
    L=/var/tmp/mutlog/${MUTPREFIX:-M}-$P-$N.log
    [ -s "$L" ] && continue
    /verif/tools/try_mutation.sh $D $P > $L 2>&1
    echo "$P $N: $(grep -c VIOLATION $L) violation line(s)"
  done
done
