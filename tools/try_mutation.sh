#!/bin/bash
# usage: try_mutation.sh <patch.diff> <PROP>...   runs ./check PROP --tier quick against a scratch copy of /repo
# with the patch applied (ALDOR_REPO), leaving /repo untouched. Output: last lines of each check.
set -u
PATCH=$1; shift
M=/var/tmp/mrepo-$$
mkdir -p $M
rsync -a --exclude /aldor/lib --exclude /.git /repo/ $M/
ln -s /repo/aldor/lib $M/aldor/lib
( cd $M && patch -p1 --no-backup-if-mismatch < $PATCH > $M/patch.log 2>&1 ) || { echo "PATCH FAILED"; cat $M/patch.log; rm -rf $M; exit 2; }
for P in "$@"; do
  echo "=== $P under $(basename $PATCH)"
  ( cd /verif && ALDOR_REPO=$M VERIF_EVIDENCE_DIR=/var/tmp/mut-evidence VERIF_REPLAY_DIR=/var/tmp/mut-replays timeout 3600 ./check $P --tier quick 2>&1 | grep -v "^KNOWN-FINDING" | grep -E "VIOLATION|^  --|tier=" | cut -c1-400 | head -12 )
done
rm -rf $M
# the translators rewrote lean/AldorVerif/Gen from the mutated tree: restore the committed snapshot
( cd /verif && git checkout -- lean/AldorVerif/Gen lean/AldorVerif/Props/C04Gen1.lean lean/AldorVerif/Props/C04Gen2.lean lean/AldorVerif/Props/C04Gen3.lean lean/AldorVerif/Props/C04Gen4.lean 2>/dev/null )
