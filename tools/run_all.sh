#!/bin/bash
# runs every check's quick tier on the current tree, one after the other; summary lines to stdout
cd /verif
for p in "$@"; do
  /usr/bin/time -f "%e s" ./check $p --tier quick 2>&1 | grep -v "^KNOWN-FINDING" | grep -E "VIOLATION|tier=| s$" | cut -c1-160
done
