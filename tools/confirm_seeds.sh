#!/bin/bash
# cheap confirmation of every seeded change on the CURRENT /repo HEAD: fresh worktree, patch applies, compiler (and
# runtime / foamj.jar when touched) builds, `make check` in src (testall) passes, demo FAILs on it and PASSes on a clean worktree.
OUT=/var/tmp/seedconfirm; mkdir -p $OUT
CLEAN=/tmp/mut/S-clean
if [ ! -x $CLEAN/aldor/aldor/src/aldor ]; then /tmp/mutkit/setup.sh S-clean >/dev/null; /tmp/mutkit/build.sh S-clean runtime >/dev/null 2>&1; fi
for P in "$@"; do
 for D in /tmp/mut/${MUTPREFIX:-M}-$P-out/patch*.diff; do
  [ -f "$D" ] || continue
  N=$(basename $D .diff); SUF=${N#patch}; ID=${MUTPREFIX:-M}-$P-$N; W=/tmp/mut/S-$ID
  [ -s $OUT/$ID.txt ] && continue
  DEMO=/tmp/mut/${MUTPREFIX:-M}-$P-out/demo$SUF.sh
  {
   echo "id=$ID patch=$D demo=$DEMO head=$(git -C /repo rev-parse --short HEAD)"
   /tmp/mutkit/setup.sh S-$ID >/dev/null 2>&1
   if ( cd $W && git apply $D ) 2>&1; then echo "apply=ok"; else echo "apply=FAILED"; git -C /repo worktree remove --force $W; continue; fi
   RT=""; grep -q "store.c\|foam_c\|foam_i\|bigint.c\|xfloat.c\|util.c\|table.c\|btree.c\|stdc.c\|opsys.c" $D && RT=runtime
   /tmp/mutkit/build.sh S-$ID $RT > $OUT/$ID.build.log 2>&1; test -x $W/aldor/aldor/src/aldor && echo "build=ok" || echo "build=FAILED"
   if grep -q "lib/java" $D; then ( cd $W/aldor/aldor/lib/java && make -j8 abs_top_builddir=$W/aldor abs_top_srcdir=$W/aldor > $OUT/$ID.java.log 2>&1 ); echo "java=rebuilt rc=$?"; fi
   ( cd $W/aldor/aldor/src && timeout 900 make check abs_top_builddir=$W/aldor abs_top_srcdir=$W/aldor > $OUT/$ID.check.log 2>&1 ); echo "testall=$(grep -c '^PASS: testall' $OUT/$ID.check.log)"
   timeout 1500 bash $DEMO $W > $OUT/$ID.demo-mut.log 2>&1; echo "demo_mutated_rc=$? $(tail -1 $OUT/$ID.demo-mut.log | cut -c1-80)"
   timeout 1500 bash $DEMO $CLEAN > $OUT/$ID.demo-clean.log 2>&1; echo "demo_clean_rc=$? $(tail -1 $OUT/$ID.demo-clean.log | cut -c1-80)"
   git -C /repo worktree remove --force $W >/dev/null 2>&1; rm -rf $W
  } > $OUT/$ID.txt 2>&1
  echo "$ID: $(grep -E 'apply=|build=|testall=|demo_' $OUT/$ID.txt | tr '\n' ' ')"
 done
done
