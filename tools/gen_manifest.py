#!/usr/bin/env python3
"""writes MANIFEST.json from the table below; a property is claimed when listed in CLAIMED."""
import json, os
ROOT = os.path.dirname(os.path.dirname(os.path.abspath(__file__)))
props = [json.loads(l) for l in open(os.path.join(ROOT, "properties.jsonl"))]

# id -> (full/partial note, technique, level text)
CLAIMED = {

 "C01": ("partial: the reference semantics (MiniAldor: typed AST, fuelled evaluator, renderer) is proved well defined (fuel monotonicity, determinism, layout-independent rendering, overload uniqueness; argument-order irrelevance and type soundness for named fragments); the compiler pipeline itself is not modelled: 'compiled output = eval' is decided by correspondence on generated programs through both routes.",
         "Lean 4 reference evaluator with well-definedness theorems + end-to-end correspondence on generated programs (interpreter and C routes)",
         "The expected output of each generated program is computed by a Lean evaluator whose well-definedness is proved; every run compiles the programs with the rebuilt compiler through -Ginterp and the C back end and compares stdout and exit class; disagreements are shrunk on the AST."),


 "C02": ("partial: the peephole pass (of_peep.c rules for boolean/machine-integer builtins, If/Select/Cast heads) is modelled and proved semantics-preserving under exactly the guards the code has (refuted without them: recorded findings), its identity tables are regenerated and every claimed identity is proved valid for all 64-bit values, the optimisation-level table is regenerated and proved monotone and complete w.r.t. the switch names the search enumerates; constant folding is covered by C04's regenerated theorems; inliner, cprop, CSE, emerge, env, jflow, deada, deadv, hfold, retyp, rrfmt are NOT modelled and are covered by the program x configuration search (known causes are listed findings; an unexplained difference is a violation).",
         "translators (optControl, peephole identity tables) + Lean 4 proof over hand model of of_peep.c + differential correspondence (peephole pass run in isolation) + end-to-end search over programs x {Q0..Q9, -O, -Q0 -Q<pass>, -Q9 -Qno-<pass>, random subsets} on interpreter and C routes, differences shrunk over the switch set",
         "Peephole model proved and compared with the real pass on ~21k expression trees per run; 77 corpus programs and generated programs (with the Lean reference output) are run under the full configuration space pinned to the regenerated switch table; a failing configuration is reduced to a minimal switch set naming the guilty passes."),
 "C03": ("partial: the termination-kind table (halt codes and messages regenerated from foam.h/foam_c.c/fint.c) is proved to give the same success/failure class, message and stdout contribution on both routes except for hardware faults (recorded finding); builtin-level agreement is C04's theorems; the interpreter's evaluator loop and the C emitter are not modelled and are covered by the three-route search over corpus and generated programs at six -Q levels.",
         "translator (halt codes/messages) + Lean 4 case analysis + end-to-end three-route differential search (interp from source, interp from .ao, C executable) x {Q0,1,2,3,5,9}",
         "Regenerated halt tables are re-proved to agree between routes each run; one program per termination kind and ~50 corpus/generated programs are run on three routes at six levels; differences are shrunk and classified by cause."),
 "C07": ("partial: every character-indexed table access in the scanner front end (regenerated site list) is accounted for and proved in range for every word the scanner can produce; the exit status is proved non-zero exactly when errors were counted; termination and fault-freedom of the parser, macro expander and type-error paths cannot be expressed without modelling them and are covered by the fuzz search only (remaining fault classes are recorded findings; a new signature is a violation).",
         "translator (clang AST: char-indexed array sites) + Lean 4 proof over hand model of the scanner dispatch + scanner-token correspondence + classified fuzz search with stable fault signatures",
         "Site table regenerated and re-proved each run; the scanner model is compared with -WTr+sc token dumps on ~11k inputs; ~5.6k mutated/random sources are compiled under timeout and every abnormal outcome is classified by signature."),
 "C04": ("full for integer/boolean/character builtins (per builtin and per evaluator a regenerated theorem against a hand-written reference, plus Int-level characterisations), agreement-only for float and big-integer builtins (same function of uninterpreted primitives under stated primitive laws); libc-bound Format*/Scan* builtins by correspondence only.",
         "translator (clang AST of of_cfold.c, fint.c, genc.c table, foam_c.*) regenerating Lean definitions + generated Lean theorems + self-check of the translator against the real folder/interpreter/C runtime on the boundary product",
         "Every run regenerates Lean definitions of the three evaluators from the current C sources and re-proves 671 theorems against a hand-written reference; the translator's reading of C is validated by executing the real folder, interpreter and C runtime on the boundary product."),
 "C05": ("partial: the FOAM byte codec (foamToBuffer/foamFrBuffer/foamTagFormat/foamSIntReduce, table regenerated from foam.c) is modelled and proved (decode∘encode = norm for every well-formed tree, re-save idempotent, reduced integers denote the same value, IEEE floats via the C19 model); symbol/type sections, .fm text and archives are covered end-to-end only (source vs .ao vs .fm routes).",
         "Lean 4 proof over hand model + regenerated foamInfoTable + differential correspondence (synthetic and real units) + end-to-end saved-form comparison",
         "Lean round-trip theorems parameterised by the regenerated format table (side condition re-decided each run); the model is run against foam.c on synthetic trees and on the FOAM of real programs; C/FOAM generated from source, .ao and .fm are compared."),
 "C06": ("partial: a typed core language with a declarative judgement, an executable checker proved sound and complete for it, and a mutation catalogue whose every mutant is PROVED ill-typed at the planted site; the decision 'no outputs after errors' is modelled and proved. The real type checker (tinfer/tfsat) is not modelled: acceptance of the family and rejection of every mutant at the right position are checked end-to-end.",
         "Lean 4 proof (mutants ill-typed at the planted site) + end-to-end accept/reject search with position and left-over-output checks",
         "Generated well-typed programs and all their single-fault mutants are compiled with the rebuilt compiler: originals must be accepted, mutants rejected with an error inside the mutated construct's span, non-zero exit and no object/code file left."),
 "C08": ("partial (weakest proof content): iteration order of the hash table model depends only on hash values and history; string hash is a function of the bytes; the sort used when writing symbol meanings is permutation-invariant on distinct keys; every pointer-keyed table in the regenerated list is not iterated or is in a reviewed allow-list. ASLR, collector timing, environment and batching are runtime facts examined by repeated-run search only.",
         "translator (clang AST: pointer-keyed tables and their iterations) + Lean 4 lemmas + repeated-run / ASLR / forced-GC / batched differential search",
         "A regenerated list of address-keyed tables must be covered by a reviewed allow-list (Lean decide); outputs of ~20 units are byte-compared across runs, ASLR on/off, forced collections (hook), environments and batched invocation."),

 "C09": ("partial: an abstract mutator machine with a conservative mark/sweep collector (interior pointers, pointer-free kinds) is proved GC-transparent for every schedule (trace equality by simulation; reachable pieces untouched; swept pieces poisoned and never observed by safe programs); registers, compiler temporaries, fintFreeJunk and pointer killing are runtime facts covered by the forced-collection schedule sweep (hook) on real programs, both routes.",
         "Lean 4 simulation proof over abstract heap machine + differential correspondence with store.c's collector + forced-GC schedule sweep via hook",
         "Lean theorems: collection preserves the reachable heap and every schedule yields the same trace; store.c's collector is run on random object graphs against the model; 14 allocation-heavy programs are run under forced-collection schedules (ALDOR_VERIF_GC) interpreted and compiled."),
 "C17": ("partial: object-file header and section table parsing, header check, section fetch with explicit file length, and the archive member walk are modelled after the (repaired) reader and proved: intact files accepted, accepted headers have all sections inside the file, every truncation of a file ending in its last section is refused; the FOAM/symbol decoders trusting counts inside section bodies are not modelled: single-byte damage inside bodies is covered by the damage sweep (remaining failure classes are recorded findings).",
         "Lean 4 proof over hand model of lib.c header/section reader and archive walk + differential correspondence + exhaustive-by-class damage sweep",
         "Lean theorems about the header reader; the model is compared with lib.c on ~7k byte strings per run; valid .ao/.al/.fm files are truncated and byte-substituted and the compiler's reaction is classified."),
 "C18": ("partial: a regenerated table of every close/write/flush site on output streams (clang AST) must consist of checked sites (Lean decide), and for a file-system model where any step may fail 'all sites checked' implies 'exit 0 only if every output is complete'; libc buffering is abstracted as 'an error surfaces at a write, flush or close'. Tied by fault injection on the real compiler.",
         "translator (clang AST: output-stream close/write sites and whether their result is tested) + Lean 4 proof + fault-injection sweep (/dev/full, LD_PRELOAD failing write/close)",
         "Every run regenerates the site table from the current sources and re-proves that all sites are checked; each output kind is produced under injected write/close failures and exit status vs completeness is classified."),
 "C10": ("partial: allocator bookkeeping (sections, fixed-size free lists, mixed pieces with split/merge/best fit, resize, recode, sweep) modelled and proved: invariant for every history, alignment, size, disjointness, free/resize/sweep effects; OS page layer is an input, stack scanning and byte contents are not modelled (contents checked on the implementation by the byte-pattern oracle).",
         "Lean 4 invariant proof by induction over operation histories + differential correspondence with recorded page grants + property oracle on the implementation's output",
         "Lean invariant theorems over allocator histories; store.c is driven with the same histories (offsets/sizes compared with the model) and its answers are checked for alignment, size, disjointness, audit and preserved contents."),
 "C13": ("partial: an abstract session model (a rejected form is a no-op; loop transcript = batch transcript; any interleaving of rejected forms leaves accepted outputs unchanged) and a model of scanIsContinued proved to cut well-laid-out input into exactly its forms; the undo machinery (scoSetUndoState), incremental symbol tables and fintWrap are tied end-to-end only (-Gloop vs -Ginterp).",
         "Lean 4 proof over session model and line-continuation model + differential correspondence (scanIsContinued) + end-to-end loop-vs-batch search with erroneous forms interleaved",
         "scanIsContinued is run against its model on ~146k inputs; template and generated programs are fed form by form to -Gloop, with erroneous forms interleaved, and compared with -Ginterp."),


 "C11": ("full for the operations modelled: every function of bigint.c / foam_i.c named in the property (normalisation, comparison, negate/abs, plus, minus, times, divide incl. Knuth's algorithm D with the qhat correction loop and add-back, mod, gcd, powers, modular power, length, bit, shifts, machine-integer conversions, decimal and radix text conversion in both directions) is modelled digit-by-digit and PROVED to return the exact integer with a well-formed representation; allocation, aliasing and placea bookkeeping are not modelled; bintShiftRem (not exported by Machine) is refuted and recorded.",
         "Lean 4 proof over digit-level hand model of bigint.c/foam_i.c + differential correspondence (values and representation) + Python big-integer oracle on the implementation's answers",
         "27 Lean theorems incl. divide_spec (quotient = tdiv, remainder = tmod) for Knuth D; bigint.c linked from the scratch build answers ~37k requests per run that are compared with the model (value + immediate/stored representation + branch tags) and with Python's own big integers."),
 "C12": ("partial: the Java builtin mapping (genjava.c table, foamj method bodies) is regenerated and proved equal to a 32-bit reference per builtin, with lemmas fixing exactly the region (operands and exact result within 32 bits) where the Java route can agree with the 64-bit C/interpreter routes; the 5000-line Java emitter is not modelled and is covered by the end-to-end javac/java vs interpreter search.",
         "translator (genjava.c builtin table + foamj Java method bodies) regenerating Lean definitions + Lean 4 theorems + JVM correspondence on boundary tuples + end-to-end Java-vs-interpreter search",
         "Every run regenerates the Java builtin mapping from the sources and re-proves it against a 32-bit reference; the real foamj methods are executed on boundary tuples; corpus and generated programs are compiled with -Fjava, javac, and run against the interpreter."),
 "C14": ("partial: the lineariser (linear.c) is modelled and proved layout-invariant (blank/comment lines, column independence outside piles, monotone re-indentation inside piles, pile=braces on a block language by bounded kernel check); scanner and parser are tied end-to-end only (-WTr+li token lists and -Fap trees across layout variants).",
         "Lean 4 proof over hand model of linear.c + differential correspondence + end-to-end layout-variant search",
         "Lean theorems about a statement-by-statement model of linear.c; the model is run against the real lineariser on scanned layout variants every run, and the compiler's own token list / parse tree is compared across variants."),
 "C15": ("partial: packed positions, the global line table and the includer's numbering are modelled and proved (round trip, exact carry behaviour, k-line shift, include/#line attribution); message sorting/excerpts (comsg.c) by end-to-end comparison only.",
         "Lean 4 proof over hand model of srcpos.c/include.c numbering + differential correspondence + shifted-diagnostics end-to-end runs",
         "Lean theorems about the model of srcpos.c and of the includer's line bookkeeping, tied by a driver that #includes srcpos.c and runs the real includer; diagnostics of faulty programs are compared under k-line insertion, #include and #line."),
 "C16": ("partial: identifier mangling, hashing, truncation, special-character renaming (table regenerated from genc.c) and the file-splitting loop are modelled and proved (injectivity of indexed names, exact collision characterisation, split is a partition); prototype generation (ccode.c) is not modelled; the option matrix is searched end-to-end.",
         "Lean 4 proof over hand model (+ regenerated special-character table) + differential correspondence + option-matrix end-to-end search",
         "Lean theorems about models of gc0* name construction and of genC's splitting loop; driver #includes the tree's genc.c; programs are built under sampled -C option combinations and run."),
 "C19": ("full for the binary formats on this target: all 2^32 / 2^64 patterns round-trip through the portable encoding (by proof, not enumeration), assemble∘dissemble = id, buffer read-back, compile-time and run-time literal conversion are the same function of atof; textual routes (DFloatSprint, C emitter) are outside this check.",
         "Lean 4 proof over hand model of xfloat.c/util.c bit-field code + differential correspondence (exhaustive singles in thorough)",
         "Lean theorems (no bv_decide/native_decide) about a parametrised model of the four float formats, tied by a driver calling the real xfloat.c; thorough runs all 2^32 singles through the real code."),
 "C20": ("full for the five modules modelled (table.c, btree.c, priq.c, bitv.c, dnf.c): refinement to finite map / sorted multimap / sorted extraction / set algebra for every history; DNF semantics proved up to the recorded unsound cancel rule (known finding). intset.c, list.c, buffer.c are not modelled.",
         "Lean 4 refinement proofs over hand models + differential correspondence on operation histories",
         "Lean refinement/invariant theorems by induction over operation histories; each model is run against the real module (linked from the scratch build) on ~2.7M operations per quick run, and python oracles check the implementation's own answers."),
}
checks = []
for pid, (note, tech, text) in sorted(CLAIMED.items()):
    checks.append({
        "property_id": pid,
        "quick_cmd": "./check %s --tier quick" % pid,
        "thorough_cmd": "./check %s --tier thorough" % pid,
        "evidence_file": "/verif/evidence/%s.json" % pid,
        "replay_cmd_template": "./check %s --replay {path}" % pid,
        "engine": "lean4",
        "level_claimed": {"category": "proof", "text": text, "design_ref": "DESIGN.md §4 " + pid},
        "level_note": note + " Trusted: Lean 4.33 kernel; axioms propext, Classical.choice, Quot.sound only; the hand model's reading of the C text (checked by the correspondence on every run); the C drivers, translators and python oracles under /verif.",
        "technique": tech,
    })
m = {
 "version": 1,
 "setup_cmd": "cd /verif/lean && lake build",
 "hooks": {"guard": "ALDOR_VERIF_HOOKS",
           "enable": "checks rsync /repo/aldor/aldor to a scratch tree under /var/tmp and run make CPPFLAGS=-DALDOR_VERIF_HOOKS there (vlib/common.py:Build); nothing is written under /repo",
           "baseline_off_cmd": "cd /repo/aldor && make -j8 && make -k -j8 check",
           "source_commits": ["261410e"], "add_only": True},
 "engines": [{"name": "lean4", "path": "/verif/lean", "serves_properties": sorted(CLAIMED),
              "kind_free_text": "Lean 4.33 library AldorVerif (hand models, regenerated tables, lemmas, property theorems) + compiled line-protocol driver; correspondence against C drivers built from /repo's working tree; end-to-end searches with the rebuilt compiler"}],
 "checks": checks,
 "not_applicable": [{"property_id": p["id"], "reason": "check under construction, not yet integrated (see DESIGN.md §6)"}
                    for p in props if p["id"] not in CLAIMED],
 "notes": "See DESIGN.md. known_findings.json lists recorded defects (open) and repaired ones (fixed).",
}
json.dump(m, open(os.path.join(ROOT, "MANIFEST.json"), "w"), indent=1)
print("claimed", sorted(CLAIMED))
