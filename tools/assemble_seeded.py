#!/usr/bin/env python3
"""copy confirmed seeded changes into /verif/seeded/<id>/ with meta.json (run after confirm_seeds/suite_seeds/run_mutations)"""
import json, os, re, shutil, glob, sys
NEEDS = {
 "C01-patch": ("of_deadv.c dvMarkDefined: a later pure assignment demotes an earlier side-effecting one", "-Q1+; a function-level local never read, assigned twice: first by a side-effecting call, last by a pure value"),
 "C01-patch2": ("gf_excpt.c gen0CatchHandler: 'handled' flag set before the handler code", "a catch handler that itself executes a throw (rethrow): the exception is swallowed, finally still runs"),
 "C02-patch": ("of_inlin.c inlUseParam: a non-local variable argument read once is substituted in place", "-Q2+ with inlining; the callee writes the same captured/global variable before using the parameter"),
 "C02-patch2": ("of_deadv.c dvMarkDefined sticky test weakened (same site as C01-patch, other formulation)", "-Qdeadvar (-Q1+): never-read local assigned by a side-effecting call, then by a pure value"),
 "C03-patch": ("fint.c SIntShiftDn evaluated as an unsigned (logical) shift", "interpreter only: negative MachineInteger shifted right by a run-time count"),
 "C03-patch2": ("genc.c gccBInt prints one-word Integer constants with %d (missing l)", "native route, -Q2+: Integer literal with 2^31 <= |v| < 2^62"),
 "C04-patch": ("int.c longIsInt32 off by one at +2^31", "SInt constant exactly 2147483648 folded at -Q2+ and consumed through serialised FOAM (-Ginterp / .ao)"),
 "C04-patch2": ("of_peep.c peepBValOpInfo: gcd row gets identity for a zero operand", "-Q2+: gcd(0,x) with negative x after inlining (both back ends equally wrong)"),
 "C05-patch": ("foam.c foamSIntReduce skips zero chunks and loses the pending shift", "MachineInteger constant that is a non-zero multiple of 2^31, -Q2+, saved to .ao and loaded"),
 "C05-patch2": ("foam.c foamTagFormat for Rec/DEnv/DFluid ignores operand 0", "unit with more than 255 formats whose own-level format number exceeds 255"),
 "C06-patch": ("ti_tdn.c titdnRestrictTo no longer checks the restricted type against the context", "wrong result type written with an explicit `e @ T` in a far-value position (last expression, `c => v`, return, bare body)"),
 "C06-patch2": ("tfsat.c tfSatAsMulti counts a default-filled parameter as having consumed an argument", "call passing a keyword that names no parameter of a callee with a default value"),
 "C07-patch": ("include.c end-of-file test uses !INCLUDING(ifState)", "file ends inside the TAKEN branch of an open #if/#elseif/#else: no diagnostic, exit 0"),
 "C07-patch2": ("abcheck.c abCheckLambda duplicate-parameter loop starts at 1", "a later parameter reuses the FIRST parameter's name"),
 "C08-patch": ("genfoam.c gen0VarsForeign leaves rtype uninitialised", "import of a non-function value from Foreign: .fm/.ao differ from run to run under ASLR"),
 "C08-patch2": ("gf_add.c/genfoam.c: hash-mask table freed per file and rebuilt from a continuing random sequence", "two or more files in one invocation, a later one emitting the run-time hash of a map type"),
 "C09-patch": ("store.c stoGcSweepMixed frontier test with swapped operands", "collection while every large object of the frontier's section is dead, then a large request: dangling frontier"),
 "C09-patch2": ("store.c pagesGet heap growth after a collection capped instead of floored", "collector on; one allocation needing > 512 KB contiguous pages but < 40% of the heap"),
 "C10-patch": ("store.c new-section page count helper omits the section header", "fresh mixed section for ~1.2% of sizes (56801..57056, ...): block 256 bytes short, overlaps the next section"),
 "C10-patch2": ("store.c Section.qmCount narrowed to 16 bits", "single block larger than ~16 MB: collector scans only a prefix, stoSize under-reports"),
 "C11-patch": ("bigint.c bintMod fast path guard widened to 64-bit divisors", "divisor magnitude of exactly 64 bits with a stored dividend: wrong remainder"),
 "C11-patch2": ("bigint.c bintRadixScanFrString chunk size loop uses <=", "radix 2/4/16 literals too long for the immediate path: only the last chunk survives"),
 "C12-patch": ("genjava.c gj0BInt small-literal bound widened to 32 bits", "Integer constant with magnitude in [2^31, 2^32) at -Q3/-Q9 on the Java route"),
 "C12-patch2": ("foamj Foam.java/FoamContext.java: buffered stdout flushed only on the success path", "program that prints and then ends with an uncaught throw: Java stdout lost"),
 "C13-patch": ("axlcomp.c compFileFront: undo requested only after type inference", "-Gloop: a form rejected by the scope binder (not by type inference) that touches an earlier name"),
 "C13-patch2": ("scan.c scanIsContinued strips comments ignoring string state", "-Gloop: a string literal containing `--`/`++` followed later by a rejected form"),
 "C14-patch": ("linear.c lntLastTokLessNL never examines argv[0] of a token line", "#pile: a keyword alone on its line (else/then/try/with) with a one-line body containing `;`"),
 "C14-patch2": ("include.c inclCalcIndentLevel TAB computation folded", "1..7 spaces before a TAB in leading whitespace inside #pile code"),
 "C15-patch": ("include.c inclHandleLine grows the line table only when a file name is given", "`#line N` without a file name followed by a diagnostic"),
 "C15-patch2": ("srcpos.c sposNew takes int arguments: the pack shift happens in 32 bits", "diagnostic at a global line number >= 65536"),
 "C16-patch": ("genc.c gc0ExternDecls splits at nStmts >= smax while gc0OverSMax still uses >", "-Csmax=N with N exactly the unit's statement estimate"),
 "C16-patch2": ("emit.c emitTheC truncates split-file names to 8 characters", "more than 999 split files (-Csmax=1 on a ~1000-statement program)"),
 "C17-patch": ("lib.c: bounds check uses section NAME macros with an index + read loop accepting EOF", ".ao truncated anywhere in roughly its last 4400 bytes is used silently"),
 "C17-patch2": ("lib.c libBadFile demoted to an ordinary error under -Gloop", "REPL: a truncated .ao named in #library is reported and then used anyway"),
 "C18-patch": ("emit.c write/close failures reported with comsgError instead of comsgFatal", "-Fmain alone on a device that fills up: error printed, exit 0, file empty"),
 "C18-patch2": ("lib.c libPutHeader rewinds with rewind() (clears the error flag) + phase.c skips the re-read unless -v", "-Fao, device fills while the library is written after its first block exists"),
 "C19-patch": ("xfloat.c 'was zero' early-out tests the exponent range instead of equality", "subnormal powers of two through the portable encoding (.ao / interpreter, -Q2+)"),
 "C19-patch2": ("of_cfold.c folds ArrToSFlo with strtof", "SingleFloat literal within half a double ulp of a float midpoint: folded vs run-time conversion differ"),
 "C20-patch": ("btree.c btreeDelete0 takes the replacement entry from the search slot", "B-tree with equal keys and different entries: one entry duplicated, one lost"),
 "C20-patch2": ("bitv.c bitvEqual loses the exact-multiple-of-word early return", "bit vectors whose size is an exact multiple of 64 differing only in the last word"),
}
V = "/verif"
def first(path, pat, default=""):
    try:
        m = re.search(pat, open(path, errors="replace").read())
        return m.group(0) if m else default
    except OSError:
        return default
n = 0
for key, (what, needs) in sorted(NEEDS.items()):
    prop, pn = key.split("-")
    src = "/tmp/mut/M-%s-out" % prop
    suf = pn[len("patch"):]
    conf = "/var/tmp/seedconfirm/%s.txt" % key
    if not os.path.exists(conf):
        continue
    c = open(conf).read()
    ok = all(x in c for x in ("apply=ok", "build=ok", "testall=1", "demo_mutated_rc=1", "demo_clean_rc=0"))
    if not ok:
        print("not confirmed:", key); continue
    d = os.path.join(V, "seeded", "%s-%s" % (prop, "a" if suf == "" else "b"))
    os.makedirs(d, exist_ok=True)
    shutil.copy(os.path.join(src, pn + ".diff"), os.path.join(d, "patch.diff"))
    shutil.copy(os.path.join(src, "demo%s.sh" % suf), os.path.join(d, "demo.sh"))
    if os.path.exists(os.path.join(src, "notes.md")):
        shutil.copy(os.path.join(src, "notes.md"), os.path.join(d, "notes.md"))
    suite = None
    sj = "/var/tmp/suiteseeds/%s.json" % key
    if os.path.exists(sj):
        try:
            j = json.load(open(sj)); cnt = lambda v: len(v) if isinstance(v, (list, dict)) else v
            suite = {"passed": cnt(j["passed"]), "failed": cnt(j["failed"]), "failed_ids": (j["failed"] if isinstance(j["failed"], list) else None), "baseline": "587 passed / 1 failed (testing GCD in Z[w,x,y,z])"}
        except Exception:
            pass
    det = {}
    for lg in glob.glob("/var/tmp/mutlog/%s*.log" % key):
        t = open(lg, errors="replace").read()
        for m in re.finditer(r"=== (C\d+) under", t):
            chk = m.group(1)
        nv = t.count("VIOLATION property=")
        sigs = re.findall(r"^  -- ([^:]{1,120}):", t, re.M)[:3]
        det[os.path.basename(lg)[:-4]] = {"violation_lines": nv, "first_signatures": sigs}
    meta = {"id": os.path.basename(d), "property": prop, "what": what, "needs_to_manifest": needs,
            "origin": "written by a fresh sub-agent given only the property text and a scratch worktree (no access to /verif)",
            "confirmed": {"how": "tools/confirm_seeds.sh on a fresh worktree of /repo HEAD: git apply, rebuild, `make check` in aldor/aldor/src (testall), demo.sh on the changed tree and on an unchanged one",
                          "result": [l for l in c.split("\n") if re.match(r"(id=|apply=|build=|testall=|demo_|java=)", l)],
                          "full_suite_in_relocated_copy": suite},
            "checks_run": det,
            "how_to_run": "git -C /repo apply /verif/seeded/%s/patch.diff ; ./check %s ; git -C /repo checkout -- ." % (os.path.basename(d), prop)}
    if suite and (suite["passed"] != 587 or [x for x in (suite.get("failed_ids") or []) if x != "testing GCD in Z[w,x,y,z]"]):
        # the change does not pass the pinned suite: not a valid seeded change
        shutil.rmtree(d, ignore_errors=True)
        print("dropped (fails the pinned suite):", key, suite["passed"], suite.get("failed_ids"))
        continue
    json.dump(meta, open(os.path.join(d, "meta.json"), "w"), indent=1)
    n += 1
print("assembled", n)
