#!/usr/bin/env python3
"""copy confirmed seeded changes into /verif/seeded/<id>/ with meta.json (run after confirm_seeds/suite_seeds/run_mutations)"""
import json, os, re, shutil, glob, sys
NEEDS = {
 "C01-patch": ("of_deadv.c dvMarkDefined: a later pure assignment demotes an earlier side-effecting one", "-Q1+; a function-level local never read, assigned twice: first by a side-effecting call, last by a pure value"),
 "C01-patch2": ("gf_excpt.c gen0CatchHandler: 'handled' flag set before the handler code", "a catch handler that itself executes a throw (rethrow): the exception is swallowed, finally still runs"),
 "C02-patch": ("of_inlin.c inlUseParam: a non-local variable argument read once is substituted in place", "-Q2+ with inlining; the callee writes the same captured/global variable before using the parameter"),
 "C02-patch2": ("of_deadv.c dvMarkDefined sticky test weakened (same site as C01-patch, other formulation)", "-Qdeadvar (-Q1+): never-read local assigned by a side-effecting call, then by a pure value"),
 "C03-patch": ("fint.c SIntShiftDn evaluated as an unsigned (logical) shift", "interpreter only: negative MachineInteger shifted right by a run-time count"),
 "C03-patch2": ("genc.c gccBInt prints one-word Integer constants with %d (missing l)", "native route, -Q2+: Integer literal with 2^31 <= |v| < 2^62"),
 "C04-patch": ("int.c longIsInt32 off by one at +2^31", "SInt constant exactly 2147483648 folded at -Q2+ and consumed through serialised FOAM (-Ginterp / .ao)"),
 "C04-patch2": ("of_peep.c peepBValOpInfo: gcd row gets identity for a zero operand", "-Q2+: gcd(0,x) with negative x after inlining (both back ends equally wrong)"),
 "C05-patch": ("foam.c foamSIntReduce skips zero chunks and loses the pending shift", "MachineInteger constant that is a non-zero multiple of 2^31, -Q2+, saved to .ao and loaded"),
 "C05-patch2": ("foam.c foamTagFormat for Rec/DEnv/DFluid ignores operand 0", "unit with more than 255 formats whose own-level format number exceeds 255"),
 "C06-patch": ("ti_tdn.c titdnRestrictTo no longer checks the restricted type against the context", "wrong result type written with an explicit `e @ T` in a far-value position (last expression, `c => v`, return, bare body)"),
 "C06-patch2": ("tfsat.c tfSatAsMulti counts a default-filled parameter as having consumed an argument", "call passing a keyword that names no parameter of a callee with a default value"),
 "C07-patch": ("include.c end-of-file test uses !INCLUDING(ifState)", "file ends inside the TAKEN branch of an open #if/#elseif/#else: no diagnostic, exit 0"),
 "C07-patch2": ("abcheck.c abCheckLambda duplicate-parameter loop starts at 1", "a later parameter reuses the FIRST parameter's name"),
 "C08-patch": ("genfoam.c gen0VarsForeign leaves rtype uninitialised", "import of a non-function value from Foreign: .fm/.ao differ from run to run under ASLR"),
 "C08-patch2": ("gf_add.c/genfoam.c: hash-mask table freed per file and rebuilt from a continuing random sequence", "two or more files in one invocation, a later one emitting the run-time hash of a map type"),
 "C09-patch": ("store.c stoGcSweepMixed frontier test with swapped operands", "collection while every large object of the frontier's section is dead, then a large request: dangling frontier"),
 "C09-patch2": ("store.c pagesGet heap growth after a collection capped instead of floored", "collector on; one allocation needing > 512 KB contiguous pages but < 40% of the heap"),
 "C10-patch": ("store.c new-section page count helper omits the section header", "fresh mixed section for ~1.2% of sizes (56801..57056, ...): block 256 bytes short, overlaps the next section"),
 "C10-patch2": ("store.c Section.qmCount narrowed to 16 bits", "single block larger than ~16 MB: collector scans only a prefix, stoSize under-reports"),
 "C11-patch": ("bigint.c bintMod fast path guard widened to 64-bit divisors", "divisor magnitude of exactly 64 bits with a stored dividend: wrong remainder"),
 "C11-patch2": ("bigint.c bintRadixScanFrString chunk size loop uses <=", "radix 2/4/16 literals too long for the immediate path: only the last chunk survives"),
 "C12-patch": ("genjava.c gj0BInt small-literal bound widened to 32 bits", "Integer constant with magnitude in [2^31, 2^32) at -Q3/-Q9 on the Java route"),
 "C12-patch2": ("foamj Foam.java/FoamContext.java: buffered stdout flushed only on the success path", "program that prints and then ends with an uncaught throw: Java stdout lost"),
 "C13-patch": ("axlcomp.c compFileFront: undo requested only after type inference", "-Gloop: a form rejected by the scope binder (not by type inference) that touches an earlier name"),
 "C13-patch2": ("scan.c scanIsContinued strips comments ignoring string state", "-Gloop: a string literal containing `--`/`++` followed later by a rejected form"),
 "C14-patch": ("linear.c lntLastTokLessNL never examines argv[0] of a token line", "#pile: a keyword alone on its line (else/then/try/with) with a one-line body containing `;`"),
 "C14-patch2": ("include.c inclCalcIndentLevel TAB computation folded", "1..7 spaces before a TAB in leading whitespace inside #pile code"),
 "C15-patch": ("include.c inclHandleLine grows the line table only when a file name is given", "`#line N` without a file name followed by a diagnostic"),
 "C15-patch2": ("srcpos.c sposNew takes int arguments: the pack shift happens in 32 bits", "diagnostic at a global line number >= 65536"),
 "C16-patch": ("genc.c gc0ExternDecls splits at nStmts >= smax while gc0OverSMax still uses >", "-Csmax=N with N exactly the unit's statement estimate"),
 "C16-patch2": ("emit.c emitTheC truncates split-file names to 8 characters", "more than 999 split files (-Csmax=1 on a ~1000-statement program)"),
 "C17-patch": ("lib.c: bounds check uses section NAME macros with an index + read loop accepting EOF", ".ao truncated anywhere in roughly its last 4400 bytes is used silently"),
 "C17-patch2": ("lib.c libBadFile demoted to an ordinary error under -Gloop", "REPL: a truncated .ao named in #library is reported and then used anyway"),
 "C18-patch": ("emit.c write/close failures reported with comsgError instead of comsgFatal", "-Fmain alone on a device that fills up: error printed, exit 0, file empty"),
 "C18-patch2": ("lib.c libPutHeader rewinds with rewind() (clears the error flag) + phase.c skips the re-read unless -v", "-Fao, device fills while the library is written after its first block exists"),
 "C19-patch": ("xfloat.c 'was zero' early-out tests the exponent range instead of equality", "subnormal powers of two through the portable encoding (.ao / interpreter, -Q2+)"),
 "C19-patch2": ("of_cfold.c folds ArrToSFlo with strtof", "SingleFloat literal within half a double ulp of a float midpoint: folded vs run-time conversion differ"),
 "C20-patch": ("btree.c btreeDelete0 takes the replacement entry from the search slot", "B-tree with equal keys and different entries: one entry duplicated, one lost"),
 "C20-patch2": ("bitv.c bitvEqual loses the exact-multiple-of-word early return", "bit vectors whose size is an exact multiple of 64 differing only in the last word"),
}

NEEDS2 = {
 "C01-patch": ("genfoam.c gen0UnionIndex ignores the branch label", "tagged Union with two branches of the same type, value built in the later one"),
 "C01-patch2": ("foam.c foamSIntReduce skips zero chunks together with their shift", "MachineInteger constant that is a multiple of 2^31 (or has a zero middle chunk), -Q2+, interpreter / .ao"),
 "C02-patch": ("of_cprop.c cpRhsVarFrCopy no longer files copies of parameters", "save a parameter in a local, assign the parameter, read the local; any level running copy propagation (-Q1+)"),
 "C02-patch2": ("of_cfold.c folds SIntShiftDn as an unsigned shift", "right shift of a negative compile-time constant with inline+cprop+cfold on (-Q2+)"),
 "C03-patch": ("foam.c foamSIntReduce zero-chunk slip (same site as C01-patch2, independent author)", "multiples of 2^31 at -Q2+ on the interpreter routes only"),
 "C03-patch2": ("optfoam.c + ccomp.c: cc-fnonstd on at -Q4+ and actually passed to the C compiler", "-Q5/-Q9 executables compiled with -ffast-math: IEEE-sensitive float code differs"),
 "C04-patch": ("genc.c/util.c: folded SingleFloat constants printed into C with FLT_DIG+2 = 8 digits", "-Q2+ C route, SFlo constants needing 9 significant digits: 1 ulp off"),
 "C04-patch2": ("of_cfold.c fills SIntLength/SIntBit folds with the big-integer helpers", "folded length(0) = 1, bit(-1,k) wrong (sign-magnitude instead of two's complement)"),
 "C05-patch": ("lib.c constant numbers of conditional exports cleared before the syme closure", "library domain overriding a category default under a condition, client with cross-unit inlining (-Q2+), instantiation where the condition is false"),
 "C05-patch2": ("archive.c long member names share one static buffer", ".al with two or more members whose names exceed 15 characters"),
 "C06-patch": ("ti_tdn.c titdnLambda loses the fluid restore of the expected return type", "outer function with a nested function of a different return type and a later `return e`"),
 "C06-patch2": ("tfsat.c tfSatMap0 parenthesis slip drops the result-type comparison of map types", "function passed as a value where a map type with the same parameters but another result type is required"),
 "C07-patch": ("macex.c macro arity check accepts surplus arguments", "parameterised macro called with more arguments than parameters"),
 "C07-patch2": ("scan.c comment flag set after stepping over the opener", "a line ending in `--_` / `++_` swallows the next source line"),
 "C07-patch3": ("include.c NUL check only on non-directive lines", "NUL byte on a line starting with `#` in a taken region"),
 "C08-patch": ("gf_add.c export-name string table re-keyed by pointer and iterated", "file defining a domain with two or more exports: .ao/.fm/.c/.lsp vary with ASLR and GC mode"),
 "C08-patch2": ("of_inlin.c memset with the element count leaves paramCount mostly uninitialised", "-Q2+: code shape depends on heap residue (ASLR, -Wgc vs -Wno-gc)"),
 "C09-patch": ("store.c stoGcMarkRange tail call replaced by real recursion", "live list of 100 000 cells: collector overflows the C stack (both routes)"),
 "C09-patch2": ("store.c pointer-free shortcut hoisted above the marking of the piece itself", "live big integers beyond the immediate range are swept"),
 "C10-patch": ("store.c QmInfoSetCode loses its code mask", "stoRecode with an object type >= 32: tag bits corrupt mark/kind fields"),
 "C10-patch2": ("os_unix.c [heap] mapping no longer reported as a root area", "only reference to a live block sits in a small malloc block"),
 "C11-patch": ("of_peep.c identity table: gcd(x,0) = x", "-Q2+: gcd with a literal 0 and a negative other operand"),
 "C11-patch2": ("bigint.c iintDivide add-back without resetting the carry", "Knuth D add-back branch: wrong remainder/quotient/gcd for specific operand pairs"),
 "C12-patch": ("javacode.c drops parentheses of an equal-precedence right operand under `*`", "-Q2+ Java: k*(a quo b), k*(a rem b) printed as k*a/b, k*a%b"),
 "C12-patch2": ("foamj FoamContext.startFoam ports fiHalt: exit(status) with status 0 for `error`", "program ending through error(...) exits 0 in Java, 1 in the interpreter"),
 "C13-patch": ("axlcomp.c compGLoopEval resets isChecked only after an accepted form", "-Gloop: an ill-typed form followed by the first form of the session mentioning a new type"),
 "C13-patch2": ("scobind.c scobindUndo early exit skips clearing the undo flag", "-Gloop: rejected form adding no name, then a definition, one more form, then a use"),
 "C14-patch": ("scan.c escaped line break skips blanks and one newline only", "#pile: escaped line break followed by a blank line, continuation not indented deeper"),
 "C14-patch2": ("linear.c joinUp applies the keyword rule to one-line piles only", "block of glued lines under then/else/with/add/try: outer else attaches to the inner if"),
 "C15-patch": ("comsg.c message runs delimited by file-local line numbers", "two consecutive diagnostics in different files sharing a local line number"),
 "C15-patch2": ("srcpos.c cached table lookup with an inclusive upper bound", "diagnostic on the first line of a table entry right after one in the preceding entry"),
 "C16-patch": ("ccode.c literal printer drops `?` under -Cold", "-Cold and a string/character literal containing `?`"),
 "C16-patch2": ("genc.c gc0ModuleInitFun keeps the full name while its callers truncate", "source file base name longer than idlen-8 characters: link fails"),
 "C17-patch": ("lib.c archive-member bounds test drops the member offset + read test accepts short reads", ".al cut inside the last section of its last member (last 1-6 bytes): -Fc exits 0 with different C"),
 "C17-patch2": ("sexpr.c comment skipping loop loses its EOF test", ".fm written with -Zdb truncated inside a `;` comment: the reader spins forever"),
 "C18-patch": ("ostream.c flush on close + emit.c tests fflush instead of ferror", "-Fjava with aldorcode/ on a full device: exit 0, empty/truncated .java"),
 "C18-patch2": ("file.c fileRename passes one static buffer twice", "-Fc with -Fx in a directory holding an old prog.o: requested prog.c never appears"),
 "C19-patch": ("genc.c prints SingleFloat constants as %#.8gf", "-Q2+ C route, values needing 9 digits"),
 "C19-patch2": ("foam_c.c dissemble takes the sign by comparison with 0.0", "assemble(dissemble(-0.0)) and negative-signed NaNs"),
 "C20-patch": ("dnf.c dnfImplies early exit `yy false => false`", "dnfImplies/dnfEqual of two unsatisfiable formulas that are not the shared constant"),
 "C20-patch2": ("priq.c heapSiftOutward loop bound tests the right child", "extractMin over an even element count: a node with only a left child is treated as a leaf"),
}
V = "/verif"
def first(path, pat, default=""):
    try:
        m = re.search(pat, open(path, errors="replace").read())
        return m.group(0) if m else default
    except OSError:
        return default
n = 0
ALL = [(k, v, "M", "") for k, v in sorted(NEEDS.items())] + [(k, v, "M2", "M2-") for k, v in sorted(NEEDS2.items())]
for key0, (what, needs), rnd, pref in ALL:
    prop, pn = key0.split("-")
    key = pref + key0
    src = "/tmp/mut/%s-%s-out" % (rnd, prop)
    suf = pn[len("patch"):]
    conf = "/var/tmp/seedconfirm/%s.txt" % key
    if key == "C20-patch2":
        # the pinned suite's sit_vector_jtest loops for ever under this change (its log grew to 115 GB): not a valid seed
        shutil.rmtree(os.path.join(V, "seeded", "C20-b"), ignore_errors=True)
        print("dropped (pinned suite hangs):", key); continue
    if not os.path.exists(conf):
        continue
    c = open(conf).read()
    ok = all(x in c for x in ("apply=ok", "build=ok", "testall=1", "demo_mutated_rc=1", "demo_clean_rc=0"))
    if not ok:
        print("not confirmed:", key); continue
    letter = {"": "a", "2": "b", "3": "e"}[suf] if rnd == "M" else {"": "c", "2": "d", "3": "f"}[suf]
    d = os.path.join(V, "seeded", "%s-%s" % (prop, letter))
    os.makedirs(d, exist_ok=True)
    shutil.copy(os.path.join(src, pn + ".diff"), os.path.join(d, "patch.diff"))
    shutil.copy(os.path.join(src, "demo%s.sh" % suf), os.path.join(d, "demo.sh"))
    if os.path.exists(os.path.join(src, "notes.md")):
        shutil.copy(os.path.join(src, "notes.md"), os.path.join(d, "notes.md"))
    suite = None
    sj = "/var/tmp/suiteseeds/%s.json" % key
    if os.path.exists(sj):
        try:
            j = json.load(open(sj)); cnt = lambda v: len(v) if isinstance(v, (list, dict)) else v
            suite = {"passed": cnt(j["passed"]), "failed": cnt(j["failed"]), "failed_ids": (j["failed"] if isinstance(j["failed"], list) else None), "baseline": "587 passed / 1 failed (testing GCD in Z[w,x,y,z])"}
        except Exception:
            pass
    det = {}
    names = [key] if rnd == "M2" else [key0, "M-" + key0]
    logs = sorted(set(l for nm in names for l in [("/var/tmp/mutlog/%s.log" % nm)] + glob.glob("/var/tmp/mutlog/%s-vs*.log" % nm) + glob.glob("/var/tmp/mutlog/%s-r[0-9]*.log" % nm) if os.path.exists(l)))
    for lg in logs:
        t = open(lg, errors="replace").read()
        for m in re.finditer(r"=== (C\d+) under", t):
            chk = m.group(1)
        nv = t.count("VIOLATION property=")
        sigs = re.findall(r"^  -- ([^:]{1,120}):", t, re.M)[:3]
        det[os.path.basename(lg)[:-4]] = {"violation_lines": nv, "first_signatures": sigs}
    meta = {"id": os.path.basename(d), "property": prop, "what": what, "needs_to_manifest": needs,
            "round": 1 if rnd == "M" else 2, "origin": "written by a fresh sub-agent given only the property text and a scratch worktree (no access to /verif)",
            "confirmed": {"how": "tools/confirm_seeds.sh on a fresh worktree of /repo HEAD: git apply, rebuild, `make check` in aldor/aldor/src (testall), demo.sh on the changed tree and on an unchanged one",
                          "result": [l for l in c.split("\n") if re.match(r"(id=|apply=|build=|testall=|demo_|java=)", l)],
                          "full_suite_in_relocated_copy": suite},
            "checks_run": det,
            "how_to_run": "git -C /repo apply /verif/seeded/%s/patch.diff ; ./check %s ; git -C /repo checkout -- ." % (os.path.basename(d), prop)}
    if suite and (suite["passed"] != 587 or [x for x in (suite.get("failed_ids") or []) if x not in ("testing GCD in Z[w,x,y,z]", "alg_defgcd")]):
        # the change does not pass the pinned suite: not a valid seeded change
        shutil.rmtree(d, ignore_errors=True)
        print("dropped (fails the pinned suite):", key, suite["passed"], suite.get("failed_ids"))
        continue
    json.dump(meta, open(os.path.join(d, "meta.json"), "w"), indent=1)
    n += 1
print("assembled", n)
