"""Shared machinery for the /verif checks: scratch builds of /repo's current working
tree, Lean build + audit, C drivers, evidence, violations and known findings."""
import atexit, hashlib, json, os, random, re, shutil, signal, subprocess, sys, tempfile, time

VERIF = os.path.dirname(os.path.dirname(os.path.abspath(__file__)))
REPO = os.environ.get("ALDOR_REPO", "/repo")
ALDOR_TOP = os.path.join(REPO, "aldor")            # autotools top dir
COMP = os.path.join(ALDOR_TOP, "aldor")            # compiler + runtime tree (113 MB)
SRC = os.path.join(COMP, "src")
LEAN = os.path.join(VERIF, "lean")
GUARD = "ALDOR_VERIF_HOOKS"
ALLOWED_AXIOMS = {"propext", "Classical.choice", "Quot.sound"}
NCPU = os.cpu_count() or 4

_scratch_dirs = []

def _cleanup():
    for d in _scratch_dirs:
        shutil.rmtree(d, ignore_errors=True)
atexit.register(_cleanup)

def scratch(prefix="aldor-verif-"):
    base = os.environ.get("VERIF_TMPDIR") or "/var/tmp"
    os.makedirs(base, exist_ok=True)
    d = tempfile.mkdtemp(prefix=prefix, dir=base)
    _scratch_dirs.append(d)
    return d

def _descendants(pid):
    """pids of all live descendants of pid (children first), read from /proc"""
    kids = {}
    for d in os.listdir("/proc"):
        if d.isdigit():
            try:
                st = open("/proc/%s/stat" % d).read()
                pp = int(st[st.rindex(")") + 2:].split()[1])
                kids.setdefault(pp, []).append(int(d))
            except (OSError, ValueError, IndexError):
                pass
    out, todo = [], [pid]
    while todo:
        for k in kids.get(todo.pop(), []):
            out.append(k); todo.append(k)
    return out

def run(cmd, cwd=None, inp=None, timeout=None, env=None, check=False, binary=False):
    """run a command, return (rc, stdout, stderr); rc = -signal when killed, 'TIMEOUT' on timeout"""
    e = dict(os.environ)
    if env: e.update(env)
    p = subprocess.Popen(cmd, cwd=cwd, stdin=subprocess.PIPE if inp is not None else None,
                         stdout=subprocess.PIPE, stderr=subprocess.PIPE, env=e,
                         text=not binary, shell=isinstance(cmd, str),
                         errors=None if binary else "replace")
    try:
        out, err = p.communicate(inp, timeout=timeout)
    except subprocess.TimeoutExpired:
        # kill the whole process tree: a compiler driver script or a generated program that
        # loops must not outlive the check
        for pid in _descendants(p.pid) + [p.pid]:
            try: os.kill(pid, signal.SIGKILL)
            except OSError: pass
        try:
            out, err = p.communicate(timeout=10)
        except Exception:
            out, err = None, None
        empty = b"" if binary else ""
        return ("TIMEOUT", out or empty, err or empty)
    p = subprocess.CompletedProcess(cmd, p.returncode, out, err)
    if check and p.returncode != 0:
        raise RuntimeError("command failed (%s): %s\n%s\n%s" % (p.returncode, cmd, p.stdout[-3000:], p.stderr[-3000:]))
    return (p.returncode, p.stdout, p.stderr)

def sha256_file(path):
    h = hashlib.sha256()
    with open(path, "rb") as f:
        for b in iter(lambda: f.read(1 << 20), b""):
            h.update(b)
    return h.hexdigest()

# ---------------------------------------------------------------------------------------
# scratch build of the compiler from /repo's current working tree
# ---------------------------------------------------------------------------------------

class Build:
    """rsync /repo/aldor/aldor (objects included, mtimes preserved) to a scratch tree and run
    make there, so exactly the files edited since /repo's own build are recompiled, with
    -DALDOR_VERIF_HOOKS.  Nothing is written under /repo."""
    def __init__(self, hooks=True, need=("src",)):
        t0 = time.time()
        self.top = scratch("aldor-verif-build-")
        self.comp = os.path.join(self.top, "aldor")
        os.makedirs(self.comp)
        self.repo_lib = os.path.join(ALDOR_TOP, "lib")       # used read-only in place
        # top-level autotools files and small directories (not lib/, the 1.2 GB Aldor libraries)
        rc, out, err = run(["rsync", "-a", "--exclude", "/lib", "--exclude", "/aldor", "--exclude", "/aldorug",
                            "--exclude", "/build", "--exclude", "/doc", ALDOR_TOP + "/", self.top + "/"])
        if rc == 0:
            rc, out, err = run(["rsync", "-a", "--exclude", "*.i", "--exclude", "*.s", COMP + "/", self.comp + "/"])
        if rc not in (0, 24):          # 24 = some files vanished while copying (a build running in /repo)
            raise RuntimeError("rsync failed: " + err)
        self.src = os.path.join(self.comp, "src")
        self.hooks = hooks
        self.log = ""
        mk = ["make", "-j%d" % NCPU, "abs_top_builddir=" + self.top, "abs_top_srcdir=" + self.top]
        if hooks:
            mk.append("CPPFLAGS=-D%s" % GUARD)
            # files that contain hooks must be recompiled with the guard on
            for f in self.hooked_files():
                p = os.path.join(self.src, f)
                if os.path.exists(p):
                    os.utime(p, None)
        os.makedirs(os.path.join(self.top, "build", "tmp"), exist_ok=True)
        targets = ["libport.a", "libgen.a", "libstruct.a", "libphase.a", "aldor"]
        rc, out, err = run(mk + targets, cwd=self.src, timeout=1800)
        self.log += out + err
        if rc != 0:
            raise BuildError("make in src failed:\n" + (out + err)[-4000:])
        self.aldor = os.path.join(self.src, "aldor")
        self.mk = mk
        self.wall = time.time() - t0

    def build_runtime(self):
        """rebuild the runtime library libfoam.a in the scratch tree (its sources are copied from
        src/ by make rules, so edits and the hook guard reach the runtime of compiled programs)"""
        d = os.path.join(self.comp, "lib", "libfoam")
        rc, out, err = run(self.mk + ["libfoam.a"], cwd=d, timeout=1800)
        self.log += out + err
        if rc != 0:
            raise BuildError("make libfoam.a failed:\n" + (out + err)[-4000:])
        self.libfoam_dir = d
        return d

    @staticmethod
    def hooked_files():
        fs = []
        for f in os.listdir(SRC):
            if f.endswith((".c", ".h")):
                try:
                    if GUARD in open(os.path.join(SRC, f), errors="replace").read():
                        fs.append(f)
                except OSError:
                    pass
        return fs

    def libs(self):
        return [os.path.join(self.src, l) for l in ("libphase.a", "libstruct.a", "libgen.a", "libport.a")]

    def cc_driver(self, name, source, extra_flags=(), libs=True, defines=()):
        """compile a harness driver against the scratch tree's headers and freshly built libs"""
        exe = os.path.join(self.top, name)
        cmd = ["gcc", "-O1", "-g", "-w", "-I" + self.src, "-I" + os.path.join(VERIF, "harness")]
        cmd += ["-D" + d for d in defines] + list(extra_flags) + [source, "-o", exe]
        if libs:
            cmd += self.libs() + ["-lm"]
        rc, out, err = run(cmd, timeout=600)
        if rc != 0:
            raise BuildError("driver %s failed to compile:\n%s" % (name, (out + err)[-4000:]))
        return exe

class BuildError(Exception):
    pass

# ---------------------------------------------------------------------------------------
# Lean
# ---------------------------------------------------------------------------------------

def lean_build(targets):
    t0 = time.time()
    rc, out, err = run(["lake", "build"] + list(targets), cwd=LEAN, timeout=3600)
    return rc == 0, (out + err), time.time() - t0

FORBIDDEN = re.compile(r"\b(sorry|admit|native_decide|bv_decide|implemented_by|unsafe)\b|^axiom\s|maxHeartbeats\s+0", re.M)

def strip_lean_comments(text):
    # remove nested block comments and line comments
    out = []; i = 0; depth = 0; n = len(text)
    while i < n:
        if text.startswith("/-", i):
            depth += 1; i += 2; continue
        if depth and text.startswith("-/", i):
            depth -= 1; i += 2; continue
        if depth:
            i += 1; continue
        if text.startswith("--", i):
            j = text.find("\n", i)
            i = n if j < 0 else j
            continue
        out.append(text[i]); i += 1
    return "".join(out)

def lean_grep_forbidden(subdirs=("AldorVerif",)):
    hits = []
    for sd in subdirs:
        for root, _, files in os.walk(os.path.join(LEAN, sd)):
            for f in files:
                if f.endswith(".lean"):
                    p = os.path.join(root, f)
                    txt = strip_lean_comments(open(p).read())
                    for m in FORBIDDEN.finditer(txt):
                        # `partial` is allowed only in Driver/
                        hits.append("%s: %s" % (os.path.relpath(p, LEAN), m.group(0).strip()))
    # no `partial def` inside Model/ Gen/ Lemmas/ Props/
    for sd in ("Model", "Gen", "Lemmas", "Props"):
        for root, _, files in os.walk(os.path.join(LEAN, "AldorVerif", sd)):
            for f in files:
                if f.endswith(".lean"):
                    p = os.path.join(root, f)
                    if re.search(r"\bpartial\s+def\b", strip_lean_comments(open(p).read())):
                        hits.append("%s: partial def" % os.path.relpath(p, LEAN))
    return hits

def lean_axioms(module_theorems):
    """module_theorems: list of (module, fully qualified theorem name).
    Returns {name: [axioms]} ; a name missing from the result did not elaborate."""
    mods = sorted({m for m, _ in module_theorems})
    d = scratch("aldor-verif-ax-")
    f = os.path.join(d, "Axioms.lean")
    with open(f, "w") as h:
        for m in mods:
            h.write("import %s\n" % m)
        for _, t in module_theorems:
            h.write("#print axioms %s\n" % t)
    rc, out, err = run(["lake", "env", "lean", f], cwd=LEAN, timeout=1800)
    res = {}
    txt = out + err
    # "'name' depends on axioms: [a, b]"  or "'name' does not depend on any axioms"
    for m in re.finditer(r"'([^']+)' depends on axioms: \[([^\]]*)\]", txt, re.S):
        res[m.group(1)] = [a.strip() for a in m.group(2).replace("\n", " ").split(",") if a.strip()]
    for m in re.finditer(r"'([^']+)' does not depend on any axioms", txt):
        res[m.group(1)] = []
    return res, txt

def leanchecker(module):
    rc, out, err = run(["lake", "env", "leanchecker", module], cwd=LEAN, timeout=3600)
    return rc == 0, out + err

def lean_driver():
    """wrapper `driver <module>` dispatching to the per-part executable drv_<module>"""
    return os.path.join(LEAN, "driver")

_drivers_built = set()

def ensure_driver(module):
    """(re)build the executable of one part's driver; cheap when up to date.  One executable per part:
    a Gen file regenerated for one property cannot break another property's driver."""
    if module in _drivers_built:
        return
    rc, out, err = run(["lake", "build", "drv_" + module], cwd=LEAN, timeout=3600)
    if rc != 0:
        raise RuntimeError("lake build drv_%s failed:\n%s" % (module, (out + err)[-3000:]))
    _drivers_built.add(module)

def run_model(module, text, timeout=3600):
    ensure_driver(module)
    rc, out, err = run([lean_driver(), module], inp=text, timeout=timeout)
    if rc != 0:
        raise RuntimeError("lean driver %s failed rc=%s: %s" % (module, rc, err[-2000:]))
    return out.split("\n")[:-1] if out.endswith("\n") else out.split("\n")

def drivers_used_by(pymodule):
    """protocol names a part module talks to (scanned from its source)"""
    import inspect
    try:
        src = inspect.getsource(pymodule)
    except Exception:
        return []
    names = set(re.findall(r'run_model\(\s*"(\w+)"', src)) | set(re.findall(r'lean_driver\(\)\s*,\s*"(\w+)"', src))
    if re.search(r"\bminiald\b", src):
        names.add("miniald")
    return sorted(names)

# ---------------------------------------------------------------------------------------
# check context: evidence, violations, known findings
# ---------------------------------------------------------------------------------------

class Ctx:
    def __init__(self, prop, tier, seed):
        self.prop, self.tier, self.seed = prop, tier, seed
        self.t0 = time.time()
        self.rng = random.Random(seed * 1000003 + int(prop[1:]))
        self.violations = []
        self.known_hits = {}
        self.cov = {"samples": [], "evaluations": 0, "distinct_nontrivial": 0}
        self.assumptions = []
        self.obligations = []          # (module, theorem)
        self.discharged = 0
        self.trusted = []
        self.notes = []
        kf = os.path.join(VERIF, "known_findings.json")
        self.known = json.load(open(kf))["findings"] if os.path.exists(kf) else []

    # -- known findings --------------------------------------------------------------
    def _listed(self, signature):
        for k in self.known:
            if k["property"] == self.prop and k["signature"] == signature and k.get("status", "open") == "open":
                return k
        return None

    def finding(self, signature, what, replay, found_input=True):
        """a concrete failure of the property; suppressed only if exactly this signature is
        listed as an open known finding."""
        k = self._listed(signature)
        if k is not None:
            if signature not in self.known_hits:
                self.known_hits[signature] = 0
                print("KNOWN-FINDING: property=%s %s [%s]" % (self.prop, what, signature), flush=True)
            self.known_hits[signature] += 1
            return False
        self.violation(signature, what, replay, found_input)
        return True

    def violation(self, signature, what, replay, found_input=True):
        rpdir = os.environ.get("VERIF_REPLAY_DIR") or os.path.join(VERIF, "replays")
        os.makedirs(rpdir, exist_ok=True)
        body = {"property": self.prop, "signature": signature, "what": what, "seed": self.seed,
                "tier": self.tier, "failing_input_found": found_input, "replay": replay}
        h = hashlib.sha256(json.dumps([self.prop, signature], sort_keys=True).encode()).hexdigest()[:12]
        path = os.path.join(rpdir, "%s-%s.json" % (self.prop, h))
        if signature in [v[0] for v in self.violations]:
            return
        with open(path, "w") as f:
            json.dump(body, f, indent=1, default=str)
        self.violations.append((signature, path))
        line = "VIOLATION property=%s replay=%s" % (self.prop, path)
        if not found_input:
            line += " no-failing-input-found"
        print(line, flush=True)
        print("  -- %s: %s" % (signature, what[:400]), flush=True)

    # -- proof obligations -----------------------------------------------------------
    def prove(self, build_targets, theorems, extra_allowed=()):
        """build the Lean targets, audit the theorem list. Returns True when every
        obligation is discharged."""
        self.obligations = list(theorems)
        ok, log, wall = lean_build(list(build_targets))
        self.cov["lean_build_s"] = round(wall, 1)
        self.cov["checker_cmd"] = "cd /verif/lean && lake build %s && lake env lean <#print axioms of every listed theorem>" % " ".join(build_targets)
        if not ok:
            self.build_log = log
            self.discharged = 0
            return False
        hits = lean_grep_forbidden()
        if hits:
            self.notes.append("forbidden tokens: " + "; ".join(hits[:10]))
        ax, txt = lean_axioms(theorems)
        bad = []
        per = {}
        allowed = ALLOWED_AXIOMS | set(extra_allowed)
        for _, t in theorems:
            if t not in ax:
                bad.append(t + " (not found / does not elaborate)")
            elif not set(ax[t]) <= allowed:
                bad.append(t + " depends on " + ",".join(sorted(set(ax[t]) - allowed)))
            else:
                per[t] = ax[t]
        self.discharged = len(per)
        self.axioms = per
        self.bad_obligations = bad + hits
        self.build_log = log + txt
        if self.tier == "thorough":
            for m in sorted({m for m, _ in theorems}):
                okc, lc = leanchecker(m)
                self.cov.setdefault("leanchecker", {})[m] = "ok" if okc else "FAILED"
                if not okc:
                    self.bad_obligations.append("leanchecker failed on " + m)
        return not self.bad_obligations

    def sample(self, s, limit=8):
        if len(self.cov["samples"]) < limit:
            self.cov["samples"].append(s)

    def write_evidence(self, level="proof"):
        cov = dict(self.cov)
        cov["obligations"] = len(self.obligations)
        cov["discharged"] = self.discharged
        cov.setdefault("checker_cmd", "cd /verif/lean && lake build")
        tb = ["Lean 4.33.0 kernel"] + self.trusted
        for t, a in getattr(self, "axioms", {}).items():
            tb.append("%s: axioms [%s]" % (t, ", ".join(a)))
        cov["trusted_base"] = tb
        cov["known_findings_hit"] = self.known_hits
        if self.notes:
            cov["notes"] = self.notes
        if not cov["samples"]:
            cov["samples"] = [{"obligation": "%s:%s" % mt} for mt in self.obligations[:5]] or ["(none)"]
        ev = {"property_id": self.prop, "tier": self.tier, "seed": self.seed, "level": level,
              "coverage": cov, "assumptions": self.assumptions,
              "wall_s": round(time.time() - self.t0, 2), "violations": len(self.violations)}
        evdir = os.environ.get("VERIF_EVIDENCE_DIR") or os.path.join(VERIF, "evidence")
        os.makedirs(evdir, exist_ok=True)
        with open(os.path.join(evdir, self.prop + ".json"), "w") as f:
            json.dump(ev, f, indent=1, default=str)
        return ev

    def finish(self):
        self.write_evidence()
        return 1 if self.violations else 0


def source_fingerprint(files):
    return {f: sha256_file(os.path.join(SRC, f))[:16] for f in files if os.path.exists(os.path.join(SRC, f))}

def report_proof_failure(ctx, what_corr):
    """obligations not discharged and no failing input found by the caller's search"""
    msg = "; ".join(getattr(ctx, "bad_obligations", [])[:8]) or "lake build failed"
    tail = getattr(ctx, "build_log", "")[-3000:]
    ctx.violation("proof-obligation|" + msg[:200], "proof obligations no longer check: " + msg,
                  {"kind": "proof-broken", "obligations": msg, "log_tail": tail, "note": what_corr},
                  found_input=False)

# ---------------------------------------------------------------------------------------
# line-protocol runs
# ---------------------------------------------------------------------------------------

def run_impl_lines(exe, lines, timeout=600, args=(), stateful=False, env=None):
    """run the C driver on request lines; a crash is attributed to the first line without an
    answer and becomes the answer 'FAULT(<signal or rc>)'.  For stateless protocols the run
    resumes with the following line in a fresh process; for stateful ones the rest of the
    history is answered 'SKIPPED'."""
    outs = []
    i = 0
    n = len(lines)
    restarts = 0
    while i < n:
        chunk = lines[i:]
        rc, out, err = run([exe] + list(args), inp="\n".join(chunk) + "\n", timeout=timeout, env=env)
        got = out.split("\n")
        if got and got[-1] == "":
            got.pop()
        if rc == 0 and len(got) == len(chunk):
            outs.extend(got)
            break
        # crashed / timed out / short output
        k = min(len(got), len(chunk))
        # an incomplete last line (no newline) is not an answer
        if not out.endswith("\n") and k > 0:
            k -= 1
        outs.extend(got[:k])
        if i + k >= n:
            break
        tail = (err or "").strip().split("\n")[-1][:200] if err else ""
        outs.append("FAULT(%s)%s" % (rc, (" " + tail) if tail else ""))
        restarts += 1
        if stateful or restarts > 200:
            outs.extend(["SKIPPED"] * (n - len(outs)))
            break
        i = len(outs)
    return outs

def split_model(lines):
    """model driver prints `result<TAB>tags`"""
    res, tags = [], []
    for l in lines:
        if "\t" in l:
            r, t = l.split("\t", 1)
        else:
            r, t = l, ""
        res.append(r); tags.append(t)
    return res, tags

def tag_hist(tags):
    h = {}
    for t in tags:
        for x in t.split():
            h[x] = h.get(x, 0) + 1
    return h


# ---------------------------------------------------------------------------------------
# a property check composed of parts (one part = one modelled module)
# ---------------------------------------------------------------------------------------

def run_parts(ctx, parts, need_build=True, hooks=True):
    """each part module provides NAME, BUILD_TARGETS, THEOREMS, SOURCES, MODELLED and
    run_part(ctx, build); run_part appends (part, request, impl, model) to ctx.corr_broken for
    requests where model and implementation differ although the implementation's own output
    satisfies the executable property."""
    ctx.corr_broken = []
    build = Build(hooks=hooks) if need_build else None
    if build:
        ctx.cov["repo_build_s"] = round(build.wall, 1)
    theorems, targets, srcs = [], [], []
    for p in parts:
        # translator parts: regenerate Gen/*.lean from the tree before the Lean build.  Hook name
        # `prepare_src(src)`; a `prepare(src|src_dir)` taking the source directory is honoured too.
        hook = getattr(p, "prepare_src", None)
        if hook is None and hasattr(p, "prepare"):
            import inspect
            params = list(inspect.signature(p.prepare).parameters)
            if params and params[0] in ("src", "src_dir"):
                hook = p.prepare
        if hook is not None:
            hook(build.src if build else SRC)
        theorems += p.THEOREMS; targets += p.BUILD_TARGETS; srcs += p.SOURCES
        ctx.trusted.append("modelled (%s): %s" % (p.NAME, p.MODELLED))
    proved = ctx.prove(targets, theorems)
    ctx.trusted.append("source fingerprints: %s" % source_fingerprint(srcs))
    ctx.trusted.append("correspondence drivers under /verif/harness and lean/AldorVerif/Driver, python oracles in checks/parts")
    if True:
        for p in parts:
            for d in drivers_used_by(p):
                try:
                    ensure_driver(d)
                except RuntimeError as e:
                    if d != "miniald":
                        raise
                    ctx.notes.append("miniald driver unavailable: %s" % str(e)[-300:])
            before = len(ctx.corr_broken)
            try:
                p.run_part(ctx, build)
            except BuildError:
                raise
            broken = ctx.corr_broken[before:]
            if broken:
                mod, ln, co, mo = broken[0]
                ctx.violation("%s|correspondence" % p.NAME,
                    "correspondence %s model<->implementation broken on %d request(s), e.g. `%s`: impl %s, model %s; "
                    "the implementation's outputs satisfied the executable property on everything explored"
                    % (p.NAME, len(broken), str(ln)[:300], str(co)[:300], str(mo)[:300]),
                    {"kind": "correspondence-broken", "part": p.NAME,
                     "first": {"request": ln, "impl": co, "model": mo}, "count": len(broken),
                     "theorems_no_longer_tied": [t for _, t in p.THEOREMS]}, found_input=False)
    ctx.cov.setdefault("rule", "request lines (corpus first, then exhaustive small cases, then seeded random); "
                       "distinct_nontrivial counts distinct implementation answers")
    if not proved:
        report_proof_failure(ctx, "Lean obligations of " + ctx.prop)

def show_replay(path):
    r = json.load(open(path))
    print(json.dumps(r, indent=1))
    return 0
