"""Running the scratch-built Aldor compiler: one fresh directory per invocation, parallel pool.

    b = common.Build()                       # or common.Build(); b.build_runtime() for hooked libfoam
    r = aldor.run_source(b, src_text, route="interp", opts=["-Q2"])
    r = aldor.compile(b, {"f.as": text}, ["-Fao", "-Ffm", "f.as"])
    rs = aldor.run_many([(fn, args, kwargs), ...])
"""
import os, shutil, concurrent.futures as cf
from . import common

R = common.ALDOR_TOP                      # /repo/aldor (libraries used read-only in place)

def base_cmd(build):
    S = build.src
    return [build.aldor, "-Nfile=%s/aldor.conf" % S, "-Y%s/aldor/lib/libfoam/al" % R,
            "-I%s/lib/aldor/include" % R, "-Y%s/lib/aldor/src" % R, "-laldor"]

def c_opts(build):
    S = build.src
    libfoam = getattr(build, "libfoam_dir", None) or ("%s/aldor/lib/libfoam" % R)
    return ["-Ccc=%s/aldor/subcmd/unitools/unicl" % R, "-Cargs=-Wconfig=%s/aldor.conf -I%s" % (S, S),
            "-Y" + libfoam]

def compile(build, files, args, timeout=120, env=None, keep=False, cwd_name=None):
    """files: {name: text|bytes} copied into a fresh scratch dir; args appended to the base command.
    Returns dict(rc, stdout, stderr, dir, outputs={name: bytes}) — dir is removed unless keep."""
    d = common.scratch("aldor-verif-run-")
    wd = d
    if cwd_name:
        wd = os.path.join(d, cwd_name); os.makedirs(wd)
    for n, t in files.items():
        p = os.path.join(wd, n)
        os.makedirs(os.path.dirname(p), exist_ok=True)
        with open(p, "wb") as f:
            f.write(t if isinstance(t, bytes) else t.encode("utf-8", "surrogateescape"))
    rc, out, err = common.run(base_cmd(build) + list(args), cwd=wd, timeout=timeout, env=env)
    outputs = {}
    for root, _, fs in os.walk(wd):
        for n in fs:
            rel = os.path.relpath(os.path.join(root, n), wd)
            if rel not in files:
                try:
                    outputs[rel] = open(os.path.join(root, n), "rb").read()
                except OSError:
                    pass
    res = {"rc": rc, "stdout": out, "stderr": err, "dir": wd, "top": d, "outputs": outputs}
    if not keep:
        shutil.rmtree(d, ignore_errors=True)
        res["dir"] = None
    return res

def run_source(build, text, route="interp", opts=(), timeout=120, env=None, name="prog", run_env=None):
    """compile+run one program. route: 'interp' (-Ginterp), 'c' (-Fx then ./prog),
    'ao-interp' (-Fao, then -Ginterp prog.ao in another fresh dir).
    Returns dict(rc, stdout, stderr, compile_rc, compile_out)."""
    src = name + ".as"
    if route == "interp":
        r = compile(build, {src: text}, list(opts) + ["-Ginterp", src], timeout=timeout, env=env)
        return {"rc": r["rc"], "stdout": r["stdout"], "stderr": r["stderr"], "compile_rc": r["rc"], "compile_out": ""}
    if route == "c":
        r = compile(build, {src: text}, list(opts) + ["-Fx"] + c_opts(build) + [src], timeout=timeout, env=env, keep=True)
        try:
            exe = os.path.join(r["dir"], name)
            if r["rc"] != 0 or not os.path.exists(exe):
                return {"rc": None, "stdout": "", "stderr": "", "compile_rc": r["rc"],
                        "compile_out": r["stdout"] + r["stderr"]}
            rc, out, err = common.run([exe], cwd=r["dir"], timeout=timeout, env=run_env)
            return {"rc": rc, "stdout": out, "stderr": err, "compile_rc": 0, "compile_out": r["stdout"] + r["stderr"]}
        finally:
            shutil.rmtree(r["top"], ignore_errors=True)
    if route == "ao-interp":
        r = compile(build, {src: text}, list(opts) + ["-Fao", src], timeout=timeout, env=env)
        ao = r["outputs"].get(name + ".ao")
        if r["rc"] != 0 or ao is None:
            return {"rc": None, "stdout": "", "stderr": "", "compile_rc": r["rc"], "compile_out": r["stdout"] + r["stderr"]}
        r2 = compile(build, {name + ".ao": ao}, ["-Ginterp", name + ".ao"], timeout=timeout, env=env)
        return {"rc": r2["rc"], "stdout": r2["stdout"], "stderr": r2["stderr"], "compile_rc": 0, "compile_out": r["stdout"] + r["stderr"]}
    raise ValueError(route)

def run_many(jobs, workers=None):
    """jobs: list of (callable, args tuple, kwargs dict); results in order; exceptions returned as values"""
    workers = workers or common.NCPU
    res = [None] * len(jobs)
    with cf.ThreadPoolExecutor(max_workers=workers) as ex:
        futs = {ex.submit(fn, *a, **k): i for i, (fn, a, k) in enumerate(jobs)}
        for f in cf.as_completed(futs):
            try:
                res[futs[f]] = f.result()
            except Exception as e:      # noqa
                res[futs[f]] = e
    return res

def exit_class(rc):
    """success / failure classes compared across routes"""
    if rc == 0: return "ok"
    if rc == "TIMEOUT": return "timeout"
    if isinstance(rc, int) and rc < 0: return "signal%d" % (-rc)
    return "fail"

def has_error_lines(text):
    return "(Error)" in text or "(Fatal Error)" in text
