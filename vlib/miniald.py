"""MiniAldor (Layer A of DESIGN.md): python side.

    progs = generate(rng, n, size=..., features=None)   # typed ASTs, JSON-able nested lists
    res   = model(progs, layout=...)                     # reference outcome + renderings (Lean driver)
    out   = compile_and_run(build, source, route)        # the scratch-built compiler, "interp" | "c"
    outs  = run_many(jobs)                               # thread pool over NCPU

The abstract syntax is a nested list whose head is a tag (see `lean/AldorVerif/Driver/MiniAldor.lean`
for the reader and `Model/MiniAldor/Syntax.lean` for the meaning):

  types  "mi" "int" "bool" "str" "unit" ["list",T] ["arr",T] ["named",N] ["fn",A,R] ["pair",A,B] ["gen",T]
  exprs  ["mi",v] ["int",v] ["bool",0|1] ["strlit",text] ["unit"] ["nl"] ["var",x] ["bin",op,a,b] ["un",op,a]
         ["if",c,t,e] ["seq",s…] ["exit",c,v] ["decl",x,T,e] ["assign",x,e] ["call",f,[T…],R,[a…]]
         ["app",f,[a…]] ["lam",[[x,T]…],R,[free…],body] ["mcall",m,[a…]] ["dcall",D,darg,m,R,[a…]]
         ["self",m,R,[a…]] ["list",T,[e…]] ["arr",T,[e…]] ["arrnew",T,n,v] ["index",a,i] ["setidx",a,i,v]
         ["rec",N,[e…]] ["field",r,f] ["setfield",r,f,v] ["uni",N,tag,e] ["case",u,tag] ["uget",u,tag]
         ["while",c,b] ["for",x,lo,hi,step,b] ["forin",x,l,b] ["forgen",x,g,b] ["break"] ["iterate"]
         ["ret",e] ["generate",T,b] ["yield",e] ["throw",Ex,[a…]] ["try",b,E,[[Ex,h]…],catchall|["none"],fin|["none"]]
         ["exnval",E] ["error",text] ["print",[e…]]
  tops   ["fn",f,[[x,T]…],R,[free…],body] ["const",x,T,e] ["var",x,T,e] ["macro",m,[x…],body]
         ["recdef",N,[[f,T]…]] ["unidef",N,[[tag,T]…]] ["exn",Ex,T|["none"]]
         ["cat",C,[[m,[T…],R]…],[fn…]] ["dom",D,p,T,C,[fn…]] ["stmt",e]
  prog   ["prog", top…]

Also here: `shrink(prog, pred)` (hierarchical delta debugging; `pred` takes a list of candidates),
`mutate_illtyped(rng, prog)` (catalogue of ill-typed variants for C06; keep a mutant only if the model's
`reject` starts with "type"), `features_of(prog)`, `agrees(model_result, run)`, `strip_backtrace`.

generate(…, features=…): ALL_FEATURES is the default set.  The generator by default stays away from
forms the unchanged compiler is known to mishandle (each is a minimised entry in corpus/miniald/);
the names in OPTIONAL_FEATURES switch them back on:
  "error"              `error "msg"` statements (exit class failure; the interpreter prints a stack
                       trace on stdout, removed by strip_backtrace / agrees)
  "uncaught"           calls that may end the program with an uncaught exception
  "toplevel-exnval"    `val()$E` in handlers of file-scope `try` (needs model(..., lenient=True))
  "return-in-try"      `return` inside `try` (needs lenient=True; the compiler only leaves the `try`)
  "file-scope-nesting" nested control structure and `try` statements at file scope
  "risky-tests"        `if`/`=>`/`while` tests beyond scalar arithmetic (otherwise stored in a Boolean first)
  "nested-try", "nested-exnval", "rich-throw-arg", "singleton-bracket", "seq-in-and", "int-dom-param"
  "fold-overflow"      constant machine-integer arithmetic that overflows when folded
  "fold-min"           constant machine-integer arithmetic whose folded value is -2^63 (at -Q2 and above the
                       peep-hole pass does not terminate on `a + K`/`a - K` for such K: most_negative_operand)
  "bare-const-body", "ret-callee-in-gen"   the two -Q2 compiler faults (corpus q2-*)
"""
import concurrent.futures, json, os, re, resource, shutil, subprocess, tempfile, time
from vlib import common

FUEL = 20000
MAX_STDOUT = 40000
TEXT_TAGS = ("strlit", "error")

# --------------------------------------------------------------------------------------
# serialisation to the driver's s-expression syntax
# --------------------------------------------------------------------------------------

def _ser(x, out):
    if isinstance(x, list):
        if len(x) == 2 and x[0] in TEXT_TAGS and isinstance(x[1], str):
            out.append("( %s s:%s )" % (x[0], x[1].encode("latin-1", "replace").hex()))
            return
        out.append("(")
        for y in x:
            _ser(y, out)
        out.append(")")
    elif isinstance(x, bool):
        out.append("1" if x else "0")
    elif isinstance(x, int):
        out.append(str(x))
    elif isinstance(x, str):
        assert x and not re.search(r"\s|[()]", x), x
        out.append(x)
    else:
        raise TypeError(repr(x))

def serialize(prog):
    out = []
    _ser(prog, out)
    return " ".join(out)

def request_line(prog, layout=None, fuel=FUEL, lenient=False):
    lay = layout or {}
    return "( req %d %d ( layout %d %d %d ) %s )" % (
        fuel, 1 if lenient else 0, int(lay.get("indent", 4)), 1 if lay.get("tabs") else 0,
        int(lay.get("seed", 0)), serialize(prog))

def _raise_stack():
    try:
        resource.setrlimit(resource.RLIMIT_STACK, (resource.RLIM_INFINITY, resource.RLIM_INFINITY))
    except (ValueError, OSError):
        try:
            soft, hard = resource.getrlimit(resource.RLIMIT_STACK)
            resource.setrlimit(resource.RLIMIT_STACK, (hard, hard))
        except (ValueError, OSError):
            pass

def _run_driver(lines, timeout):
    p = subprocess.run([common.lean_driver(), "miniald"], input="\n".join(lines) + "\n",
                       capture_output=True, text=True, timeout=timeout, preexec_fn=_raise_stack)
    outs = p.stdout.split("\n")
    if outs and outs[-1] == "":
        outs.pop()
    return p.returncode, outs, p.stderr

_DEAD = re.compile(r"^d\d+$")

def static_counts(prog):
    """counts of generator shapes that no evaluator rule witnesses: stores to / effectful initialisers of
    the never-captured dead-store locals d<N>, unused effectful calls in statement position are counted
    with them; `try` whose handler (or missing catch-all) throws; `try` with `finally`"""
    c = {"deadstore": 0, "handler-throws": 0, "finally": 0, "union-same-type-branches": 0}
    def has_throw(x):
        if isinstance(x, list):
            if x and x[0] == "throw": return True
            return any(has_throw(y) for y in x)
        return False
    def walk(x):
        if not isinstance(x, list) or not x: return
        t = x[0]
        if t in ("assign", "decl") and len(x) >= 3 and isinstance(x[1], str) and _DEAD.match(x[1]):
            c["deadstore"] += 1
        if t == "unidef" and len(x) == 3:
            ts = [json.dumps(f[1]) for f in x[2]]
            if len(ts) != len(set(ts)): c["union-same-type-branches"] += 1
        if t == "try" and len(x) == 6:
            if x[4] == ["none"] or has_throw(x[3]) or has_throw(x[4]): c["handler-throws"] += 1
            if x[5] != ["none"]: c["finally"] += 1
        for y in x:
            walk(y)
    walk(prog)
    return c

MI_MIN = -2**63

def most_negative_operand(prog):
    """True if the program has `a + K`, `K + a` or `a - K` on machine integers where K is a constant
    expression the compiler folds to -2^63 (directly, through a constant, or through a local with a single
    definition) and `a` is not constant.  The peep-hole pass (of_peep.c, peepPositive) rewrites `a + K`
    to `a - (-K)` for negative K; -K is again -2^63, so at -Q2 and above it never finishes.  The literal
    -2^63 itself is rendered as the library constant `min`, which is not folded.  Used only to name the
    cause of an observed time-out at an optimisation level, so it may over-approximate."""
    defs, multi = {}, set()
    def collect(n):
        if not isinstance(n, list): return
        if n and isinstance(n[0], str):
            if n[0] in ("const", "decl") and len(n) == 4 and isinstance(n[1], str):
                if n[1] in defs: multi.add(n[1])
                defs[n[1]] = (n[2], n[3])
            elif n[0] == "assign" and len(n) == 3 and isinstance(n[1], str):
                multi.add(n[1])
            elif n[0] in ("for", "forin", "forgen") and isinstance(n[1], str):
                multi.add(n[1])
        for c in n: collect(c)
    collect(prog)
    wrap = lambda v: (v + 2**63) % 2**64 - 2**63
    def cv(e, depth=0):
        if not isinstance(e, list) or not e or depth > 40: return None
        t = e[0]
        if t == "mi" and isinstance(e[1], int):
            return ("lit", e[1])
        if t == "var" and len(e) == 2 and e[1] in defs and e[1] not in multi and defs[e[1]][0] == "mi":
            r = cv(defs[e[1]][1], depth + 1)
            return None if r is None else (("opaque", r[1]) if r == ("lit", MI_MIN) else r)
        if t == "un" and e[1] in ("neg", "abs"):
            a = cv(e[2], depth + 1)
            if a is None or a[0] == "opaque": return None
            return ("fold", wrap(-a[1] if e[1] == "neg" else abs(a[1])))
        if t == "bin" and e[1] in ("add", "sub", "mul"):
            a, b = cv(e[2], depth + 1), cv(e[3], depth + 1)
            if a is None or b is None or "opaque" in (a[0], b[0]): return None
            x, y = a[1], b[1]
            return ("fold", wrap(x + y if e[1] == "add" else x - y if e[1] == "sub" else x * y))
        return None
    def is_min(e):
        return cv(e) == ("fold", MI_MIN)         # ("lit", MI_MIN) is written `min`: not folded
    found = []
    def walk(n):
        if not isinstance(n, list): return
        if len(n) == 4 and n[0] == "bin" and n[1] in ("add", "sub"):
            a, b = n[2], n[3]
            if is_min(b) and cv(a) is None: found.append(n)
            elif n[1] == "add" and is_min(a) and cv(b) is None: found.append(n)
        for c in n: walk(c)
    walk(prog)
    return bool(found)

def features_of(prog):
    """static features: the set of tags (and operators, literal kinds) occurring in the tree"""
    feats = set()
    def walk(x):
        if isinstance(x, list) and x:
            if isinstance(x[0], str) and x[0] in KNOWN_TAGS:
                t = x[0]
                if t in ("bin", "un") and len(x) > 1 and isinstance(x[1], str):
                    feats.add(t + ":" + x[1])
                feats.add(t)
            for y in x:
                walk(y)
    walk(prog)
    fns = [t[1] for t in prog[1:] if t[0] == "fn"]
    if len(fns) != len(set(fns)):
        feats.add("overload")
    st = static_counts(prog)
    if st["deadstore"]: feats.add("deadstore")
    if st["handler-throws"]: feats.add("handler-throws")
    if st["finally"]: feats.add("finally")
    for t in prog[1:]:
        if t[0] == "cat" and t[3]:
            feats.add("default")
    return sorted(feats)

def model(progs, layout=None, fuel=FUEL, lenient=False, timeout=1800, chunk=64, top_exnval=False):
    """reference outcome and renderings of each program (list of dicts, see module doc).
    `layout` = {"indent": 1..8, "tabs": bool, "seed": int (0 = plain)}; or a list, one per program.
    `lenient`: let the checker also accept the forms the compiler is known to mishandle
    (`val()$E` in file-scope handlers, `return` inside `try`) - for defect probes only."""
    lenient = lenient or top_exnval
    lays = layout if isinstance(layout, list) else [layout] * len(progs)
    lines = [request_line(p, l, fuel, lenient) for p, l in zip(progs, lays)]
    res = [None] * len(progs)
    chunks = [list(range(i, min(i + chunk, len(lines)))) for i in range(0, len(lines), chunk)]

    def work(idx):
        todo = list(idx)
        out = {}
        while todo:
            rc, outs, err = _run_driver([lines[i] for i in todo], timeout)
            for i, o in zip(todo, outs):
                out[i] = o
            if len(outs) >= len(todo):
                break
            bad = todo[len(outs)]        # the driver died on this one (stack overflow …)
            out[bad] = json.dumps({"ok": False, "reject": "driver-fault rc=%s %s" % (rc, err[-200:])})
            todo = todo[len(outs) + 1:]
        return out
    with concurrent.futures.ThreadPoolExecutor(max_workers=common.NCPU) as ex:
        for out in ex.map(work, chunks):
            for i, o in out.items():
                try:
                    d = json.loads(o)
                except ValueError:
                    d = {"ok": False, "reject": "driver-output-unparsable: " + o[:200]}
                res[i] = d
    for p, d in zip(progs, res):
        d.setdefault("reject", "")
        d.setdefault("stdout", "")
        d.setdefault("exit", "")
        d.setdefault("rules", {})
        d.setdefault("braced", "")
        d.setdefault("piled", "")
        d.setdefault("forms", [])
        d["features"] = features_of(p)
        if d.get("ok") and d.get("order_check") == "differs":
            d["ok"] = False
            d["reject"] = "model-order-check-differs"
        if d.get("ok") and not (d.get("tokok") and d.get("lexok")):
            d["ok"] = False
            d["reject"] = "renderer-token-check-failed"
        if d.get("ok") and len(d.get("stdout", "")) > MAX_STDOUT:
            # the runtime's big-integer printing is quadratic: such a program is not worth the minutes
            d["ok"] = False
            d["reject"] = "output-too-large"
    return res

# --------------------------------------------------------------------------------------
# the compiler
# --------------------------------------------------------------------------------------

R = common.ALDOR_TOP

def aldor_cmd(build, route, opts=(), name="p"):
    S = build.src
    cmd = [build.aldor, "-Nfile=%s/aldor.conf" % S, "-Y%s/aldor/lib/libfoam/al" % R,
           "-I%s/lib/aldor/include" % R, "-Y%s/lib/aldor/src" % R, "-laldor"]
    cmd += list(opts)
    if route == "interp":
        cmd += ["-Ginterp", name + ".as"]
    elif route == "c":
        cmd += ["-Fx", "-Ccc=%s/aldor/subcmd/unitools/unicl" % R,
                "-Cargs=-Wconfig=%s/aldor.conf -I%s" % (S, S), "-Y%s/aldor/lib/libfoam" % R, name + ".as"]
    else:
        raise ValueError(route)
    return cmd

BACKTRACE = re.compile(r"#0 (0x)?[0-9a-f]+ in <[^\n]*> at unit \[[^\n]*\]\n(#\d+ [^\n]*\n)*(\.\.\.\n)?")

def strip_backtrace(text):
    """the interpreter prints a stack trace on *stdout* when `error` halts the program
    (it may start in the middle of a line the program left unfinished)"""
    return BACKTRACE.sub("", text)

def compile_and_run(build, source, route, opts=(), timeout=120, keep=False, name="p", stdin=None):
    """compile `source` in a fresh scratch directory with the scratch-built compiler and run it.
    route "interp": compile+interpret in one go;  "c": build a native executable, then run it.
    Returns {"rc", "stdout", "stderr", "files", "compile_rc", "compile_out", "cmd", "dir", "wall"}."""
    d = tempfile.mkdtemp(prefix="ma-", dir=os.environ.get("VERIF_TMPDIR") or "/var/tmp")
    t0 = time.time()
    try:
        with open(os.path.join(d, name + ".as"), "w") as f:
            f.write(source)
        cmd = aldor_cmd(build, route, opts, name)
        res = {"cmd": " ".join(cmd), "dir": d if keep else None}
        rc, out, err = common.run(cmd, cwd=d, timeout=timeout, inp=stdin)
        out = out.decode("utf-8", "replace") if isinstance(out, bytes) else (out or "")
        err = err.decode("utf-8", "replace") if isinstance(err, bytes) else (err or "")
        if route == "interp":
            res.update(rc=rc, stdout=out, stderr=err, compile_rc=rc, compile_out="")
        else:
            res.update(compile_rc=rc, compile_out=(out + err)[-4000:])
            exe = os.path.join(d, name)
            if rc == 0 and os.path.exists(exe):
                rc2, out2, err2 = common.run([exe], cwd=d, timeout=timeout, inp=stdin)
                out2 = out2.decode("utf-8", "replace") if isinstance(out2, bytes) else (out2 or "")
                err2 = err2.decode("utf-8", "replace") if isinstance(err2, bytes) else (err2 or "")
                res.update(rc=rc2, stdout=out2, stderr=err2)
            else:
                res.update(rc="COMPILE-FAILED", stdout=out, stderr=err)
        res["files"] = sorted(os.listdir(d))
        res["wall"] = round(time.time() - t0, 2)
        return res
    finally:
        if not keep:
            shutil.rmtree(d, ignore_errors=True)

def run_many(jobs, workers=None):
    """jobs: list of callables or (fn, args, kwargs) tuples; results in order"""
    def call(j):
        if callable(j):
            return j()
        fn, args, kw = (list(j) + [(), {}])[:3]
        return fn(*args, **(kw or {}))
    with concurrent.futures.ThreadPoolExecutor(max_workers=workers or common.NCPU) as ex:
        return list(ex.map(call, jobs))

def exit_class(m_exit):
    """model exit string -> coarse class compared with the process"""
    if m_exit == "ok":
        return "ok"
    if m_exit.startswith("exception:"):
        return "exception"
    if m_exit.startswith("failure:"):
        return "failure"
    return m_exit

def observed_class(run):
    """what a process run shows: "ok" | "exception" (Unhandled Exception: X on stderr, rc≠0) |
    "failure" (error message + halt) | "compile-failed" | "fault:<rc>" | "timeout" """
    rc = run["rc"]
    if rc == "COMPILE-FAILED" or (run.get("compile_rc") not in (0, None) and run.get("rc") == run.get("compile_rc") and "(Error)" in (run.get("stdout", "") + run.get("stderr", ""))):
        return "compile-failed"
    if rc == "TIMEOUT":
        return "timeout"
    if rc == 0:
        return "ok"
    err = run.get("stderr", "")
    m = re.search(r"Unhandled Exception: (\w+)", err)
    if m:
        return "failure" if m.group(1) == "RuntimeError" else "exception"
    return "fault:%s" % rc

def agrees(m, run):
    """does the process run show exactly what the model says?  Returns (bool, reason)"""
    want = exit_class(m["exit"])
    got = observed_class(run)
    out = run.get("stdout", "")
    if want == "failure":
        out = strip_backtrace(out)
    if got != want:
        return False, "exit class: expected %s, got %s (rc=%s)" % (want, got, run["rc"])
    if want == "exception":
        name = m["exit"].split(":", 1)[1]
        if ("Unhandled Exception: %s" % name) not in run.get("stderr", ""):
            return False, "uncaught exception: expected %s, stderr %r" % (name, run.get("stderr", "")[-200:])
    if want == "failure":
        msg = m["exit"].split(":", 1)[1]
        if msg not in run.get("stderr", ""):
            return False, "error message %r not on stderr" % msg
    if out != m["stdout"]:
        return False, "stdout differs"
    return True, ""

# --------------------------------------------------------------------------------------
# the program generator (typed by construction; the Lean checker has the last word)
# --------------------------------------------------------------------------------------

ALL_FEATURES = ("mi", "int", "bool", "str", "list", "arr", "rec", "uni", "closure", "gen", "loop",
                "exit", "return", "exn", "overload", "macro", "dom", "default", "deadstore")
OPTIONAL_FEATURES = ("error", "toplevel-exnval", "uncaught", "file-scope-nesting", "int-dom-param",
                     "risky-tests", "nested-try", "rich-throw-arg", "singleton-bracket", "seq-in-and", "nested-exnval", "return-in-try", "dcall-var-in-try",
                     "loopvar-test-try", "fold-overflow", "fold-min", "bare-const-body", "ret-callee-in-gen")

MI_POOL = [0, 1, -1, 2, 3, 5, 7, 10, 16, 100, 255, 1000, 65535, 2**31 - 1, 2**31, -2**31, 2**32, 2**32 + 1,
           2**62, 2**63 - 1, -2**63, -2**63 + 1, 2**63 - 2, -(2**62), 3037000500, 4294967296 * 3 + 1,
           3 * 2**31, 2**40, -(2**32), 2**62 + 5, 2**31, 2**32, 2**62, -(2**31) * 3, 2**33, 2**62 + 2**31, 5 * 2**31 + 7]
INT_POOL = [0, 1, -1, 2, 3, 7, 10, 100, 2**31, 2**32, 2**63 - 1, 2**63, -2**63, -2**63 - 1, 2**64, 2**64 + 1,
            10**20, -10**20, 10**30 + 7, 2**127 - 1, -(2**100), 123456789012345678901234567890,
            3 * 2**31, 2**40, -(2**32), 2**62 + 5, 2**62, 2**93 + 5, 2**124]
DIV_POOL = [1, 2, 3, 5, 7, 10, 16, 255, -2, -3, -7, 1000, 2**31, 2**32 + 1, 2**62, -(2**31)]
STR_POOL = ["", "a", "abc", "hello world", "x y  z", "q\"uote", "under_score", "__", "_\"", "--", "-- not a comment",
            "{", "}", "( [ {", ";", "a;b", "1+2", "T", "F", "tab?", "#include", "it's", "\\", "%d", "~!@$^&*", "0"]
SCALARS = ["mi", "int", "bool", "str"]

def T_list(t): return ["list", t]
def T_arr(t): return ["arr", t]
def T_named(n): return ["named", n]
def T_fn(args, r):
    a = "unit" if not args else (args[0] if len(args) == 1 else ["pair", args[0], args[1]])
    return ["fn", a, r]
def fn_args(t):
    a = t[1]
    if a == "unit": return []
    if isinstance(a, list) and a[0] == "pair": return [a[1], a[2]]
    return [a]

def mi(v): return ["mi", v]
def tkey(t): return json.dumps(t)

class Var:
    __slots__ = ("name", "ty", "mut", "depth", "protected", "nonempty", "loopvar", "cval")
    def __init__(self, name, ty, mut, depth, nonempty=False, loopvar=False):
        self.name, self.ty, self.mut, self.depth = name, ty, mut, depth
        self.protected = False
        self.nonempty = nonempty
        self.loopvar = loopvar
        self.cval = None

class Fn:
    __slots__ = ("name", "args", "res", "level", "throws", "bounded", "recursive", "effectful", "has_ret")
    def __init__(self, name, args, res):
        self.name, self.args, self.res = name, args, res
        self.level = 0; self.throws = False; self.bounded = False; self.recursive = False
        self.effectful = False
        self.has_ret = False

class Frame:
    """one function / closure / method body under construction"""
    def __init__(self, depth, ret=None, kind="fn"):
        self.depth = depth; self.ret = ret; self.kind = kind
        self.frees = []; self.prologue = []; self.level = 0; self.throws = False
        self.in_gen = None
        self.has_ret = False

class Gen:
    def __init__(self, rng, size=None, features=None):
        self.r = rng
        self.size = size if size is not None else rng.choice([1, 2, 2, 3, 3, 4])
        fs = set(ALL_FEATURES if features is None else features)
        self.feat = fs
        self.n = 0
        self.vars = []          # visible variables, innermost last
        self.fns = []           # Fn
        self.recs = []          # (name, [(f, T)])
        self.unis = []
        self.exns = []          # (name, payload type or None)
        self.macros = []        # (name, [param types], res type)
        self.cats = []          # (name, [(m, args, res)], dom names [(dom, pty)])
        self.tops = []
        self.frames = [Frame(0, kind="top")]
        self.loop = 0
        self.hot = 0
        self.nest = 0
        self.noif = 0
        self.in_handler = 0
        self.in_try = 0
        self.handler_vars = []  # (E, exn name, payload type) usable for exnval

    # ---- helpers
    def on(self, f): return f in self.feat
    def fresh(self, p):
        self.n += 1
        return "%s%d" % (p, self.n)
    def chance(self, p): return self.r.random() < p
    def frame(self): return self.frames[-1]
    def use(self, level, throws=False):
        f = self.frame()
        f.level = max(f.level, level)
        if throws and not self.in_try: f.throws = True

    def scalar_types(self):
        ts = [t for t in SCALARS if self.on(t)]
        return ts or ["mi"]

    def pick_type(self, d=2, storable=True):
        r = self.r.random()
        sc = self.scalar_types()
        if d <= 0 or r < 0.55:
            return self.r.choice(sc)
        opts = []
        if self.on("list"): opts.append("list")
        if self.on("arr"): opts.append("arr")
        if self.on("rec") and self.recs: opts.append("rec")
        if self.on("uni") and self.unis: opts.append("uni")
        if self.on("closure") and d >= 2: opts.append("fn")
        if not opts: return self.r.choice(sc)
        k = self.r.choice(opts)
        if k == "list": return T_list(self.r.choice(sc) if self.chance(0.85) else self.pick_type(d - 1))
        if k == "arr": return T_arr(self.r.choice(sc) if self.chance(0.9) else self.pick_type(d - 1))
        if k == "rec": return T_named(self.r.choice(self.recs)[0])
        if k == "uni": return T_named(self.r.choice(self.unis)[0])
        na = self.r.choice([0, 1, 1, 1, 2])
        return T_fn([self.r.choice(sc) for _ in range(na)], self.r.choice(sc))

    def vars_of(self, ty, mut=None):
        k = tkey(ty)
        return [v for v in self.vars if tkey(v.ty) == k and (mut is None or v.mut == mut)]

    def assignable(self, ty):
        return [v for v in self.vars_of(ty, True) if not v.protected and self.can_assign(v)]

    def can_assign(self, v):
        # a generator body is not a function of its own; methods may not assign outer variables here
        return True

    def note_assign(self, v):
        f = self.frame()
        if v.depth < f.depth and v.name not in f.frees:
            f.frees.append(v.name)

    # ---- known weak spots of the compiler's type inference (see the findings list): an `if`/`=>`/
    # `while` whose test is more than scalar arithmetic while the guarded code carries an
    # aggregate type annotation.  By default such tests are first stored in a Boolean variable.
    SIMPLE_TEST_TAGS = {"var", "mi", "int", "bool", "strlit", "bin", "un"}
    AGG_TAGS = {"list", "arr", "arrnew"}

    def simple_test(self, c):
        if not isinstance(c, list): return True
        if c and isinstance(c[0], str) and c[0] in EXPR_TAGS:
            if c[0] not in self.SIMPLE_TEST_TAGS: return False
            if c[0] == "un" and c[1] in ("len", "first", "rest", "isempty", "reverse"): return False
            if c[0] == "bin" and c[1] == "cons": return False
        return all(self.simple_test(x) for x in c[1:])

    def has_agg(self, *es):
        def walk(x):
            if isinstance(x, list):
                if x and isinstance(x[0], str) and x[0] in self.AGG_TAGS and x[0] in EXPR_TAGS and len(x) >= 3:
                    return True
                if x and x[0] in ("list", "arr") and len(x) == 2:     # a type annotation List(T) / Array(T)
                    return True
                return any(walk(y) for y in x)
            return False
        return any(walk(e) for e in es)

    def mentions_loopvar(self, c):
        lv = {v.name for v in self.vars if v.loopvar}
        def walk(x):
            if isinstance(x, list):
                if len(x) == 2 and x[0] == "var" and x[1] in lv: return True
                return any(walk(y) for y in x)
            return False
        return bool(lv) and walk(c)

    def has_tag(self, tag, *es):
        def walk(x):
            if isinstance(x, list):
                if x and x[0] == tag: return True
                return any(walk(y) for y in x)
            return False
        return any(walk(e) for e in es)

    def guard(self, c, lvl, *guarded):
        """(prefix statements, test) for a test `c` guarding the expressions `guarded`"""
        risky_lv = (not self.on("loopvar-test-try")) and self.mentions_loopvar(c) and self.has_tag("try", *guarded)
        if (self.on("risky-tests") or self.simple_test(c)) and not risky_lv:
            return [], c
        fr = self.frame()
        if lvl == 2 and fr.in_gen is None and fr.kind != "macro":
            v = self.new_local("bool", ["bool", 0])
            self.note_assign(v); self.use(2)
            return [["assign", v.name, c]], ["var", v.name]
        vs = [v for v in self.vars_of("bool") if not v.mut or lvl >= 1]
        if vs and self.chance(0.7):
            v = self.r.choice(vs)
            if v.mut: self.use(1)
            return [], ["var", v.name]
        return [], ["bool", self.r.randint(0, 1)]

    def mk_if(self, c, t, e, lvl, essential=False):
        """`essential`: the test protects `t` (union branch, index): if it cannot be kept, use `e`"""
        pre, c2 = self.guard(c, lvl, t, e)
        if essential and not pre and c2 is not c:
            return e
        node = ["if", c2, t, e]
        return ["seq"] + pre + [node] if pre else node

    def throw_arg(self, pt):
        """the argument of an exception constructor is part of a type: keep it to names, literals
        and arithmetic on them"""
        vs = [v for v in self.vars_of(pt) if not v.mut and not v.loopvar]
        a = ["var", self.r.choice(vs).name] if vs and self.chance(0.5) else self.lit(pt)
        if pt in ("mi", "int") and self.chance(0.3):
            return self.no_fold_overflow(["bin", self.r.choice(["add", "sub", "mul"]), a, [pt, self.r.randint(-5, 5)]])
        return a

    # ---- -Q2 weak spots of the compiler (findings q2-*): constant machine-integer arithmetic that
    # overflows when folded, functions whose body is a bare file-scope constant, callees with `return`
    # inside generator bodies
    def cval(self, e):
        """exact value of a constant machine-integer expression, None if not constant"""
        if not isinstance(e, list) or not e: return None
        t = e[0]
        if t == "mi": return e[1]
        if t == "var":
            for v in self.vars:
                if v.name == e[1]: return v.cval
            return None
        if t == "un" and e[1] in ("neg", "abs"):
            a = self.cval(e[2])
            return None if a is None else (-a if e[1] == "neg" else abs(a))
        if t == "bin" and e[1] in ("add", "sub", "mul", "pow", "max", "min"):
            a, b = self.cval(e[2]), self.cval(e[3])
            if a is None or b is None: return None
            if e[1] == "pow": return a ** b if 0 <= b <= 64 else None
            return {"add": a + b, "sub": a - b, "mul": a * b, "max": max(a, b), "min": min(a, b)}[e[1]]
        return None

    def no_fold_overflow(self, e):
        """a constant machine-integer expression whose exact value leaves the word is replaced by the
        wrapped literal (opt-in "fold-overflow" keeps it)"""
        v = self.cval(e)
        if v is None or e[0] == "mi": return e
        w = (v + 2**63) % 2**64 - 2**63
        if w == -2**63 and not self.on("fold-min"):
            # finding q2-folded-overflow-hang: what hangs the peep-hole pass is a *folded* constant equal to
            # -2^63 next to `+`/`-` (overflow or not); the literal is rendered as the library constant `min`
            return mi(w)
        if not (-2**63 <= v < 2**63) and not self.on("fold-overflow"):
            return mi(w)
        return e

    def no_bare_const(self, e, ty):
        """the value of a function body may not be a bare file-scope constant (finding q2-inline-constant-body)"""
        if self.on("bare-const-body") or not (isinstance(e, list) and e and e[0] == "var"): return e
        for v in self.vars:
            if v.name == e[1] and v.depth == 0 and not v.mut:
                if ty == "mi": return ["bin", "add", e, mi(0)]
                if ty == "int": return ["bin", "add", e, ["int", 0]]
                if ty == "str": return ["bin", "concat", e, ["strlit", ""]]
                if ty == "bool": return ["un", "not", ["un", "not", e]]
                return self.lit(ty)
        return e

    # ---- literals
    def lit(self, ty):
        r = self.r
        if ty == "mi":
            if self.chance(0.5): return mi(r.choice(MI_POOL))
            if self.chance(0.7): return mi(r.randint(-20, 20))
            return mi(r.randint(-2**63, 2**63 - 1))
        if ty == "int":
            if self.chance(0.5): return ["int", r.choice(INT_POOL)]
            if self.chance(0.6): return ["int", r.randint(-50, 50)]
            return ["int", r.randint(-2**80, 2**80)]
        if ty == "bool": return ["bool", r.randint(0, 1)]
        if ty == "str":
            if self.chance(0.7): return ["strlit", r.choice(STR_POOL)]
            return ["strlit", "".join(r.choice("abcXYZ 019_\"-{};,.") for _ in range(r.randint(0, 8)))]
        if ty == "unit": return ["unit"]
        k = ty[0]
        if k == "list": return ["list", ty[1], [self.lit(ty[1]) for _ in range(r.randint(0, 3))]]
        if k == "arr": return ["arr", ty[1], [self.lit(ty[1]) for _ in range(r.randint(1, 3))]]
        if k == "named":
            rec = [x for x in self.recs if x[0] == ty[1]]
            if rec: return ["rec", ty[1], [self.lit(t) for _, t in rec[0][1]]]
            uni = [x for x in self.unis if x[0] == ty[1]][0]
            tag, t = r.choice(uni[1])
            return ["uni", ty[1], tag, self.lit(t)]
        if k == "fn":
            return self.lam(ty, 0)
        raise ValueError(ty)

    # ---- expressions.  `lvl`: 0 = constant, 1 = may read mutable state, 2 = anything
    def expr(self, ty, d, lvl=2):
        if d <= 0:
            return self.leaf(ty, lvl)
        k = ty if isinstance(ty, str) else ty[0]
        for _ in range(6):
            e = getattr(self, "e_" + k)(ty, d, lvl)
            if e is not None:
                return self.no_fold_overflow(e) if ty == "mi" else e
        return self.leaf(ty, lvl)

    def leaf(self, ty, lvl):
        vs = self.vars_of(ty)
        if lvl == 0: vs = [v for v in vs if not v.mut]
        if vs and self.chance(0.6):
            v = self.r.choice(vs)
            if v.mut: self.use(1)
            return ["var", v.name]
        return self.lit(ty)

    def elems_for(self, tys, d, lvl):
        """elements of a bracket literal: a one-element bracket whose element is an `if`, a sequence
        or a `try` is miscompiled (finding), so such an element is replaced by default"""
        es = self.args_for(tys, d, lvl)
        if len(es) == 1 and not self.on("singleton-bracket") and es[0][0] in ("if", "seq", "try", "mcall"):
            es = [self.leaf(tys[0], min(lvl, 1))]
        return es

    def args_for(self, tys, d, lvl):
        """argument list: at most one argument above level 0, unless all are ≤ 1"""
        if lvl == 2 and self.chance(0.35) and tys:
            hot = self.r.randrange(len(tys))
            return [self.expr(t, d, 2 if i == hot else 0) for i, t in enumerate(tys)]
        l = min(lvl, 1)
        return [self.expr(t, d, l) for t in tys]

    def two(self, ta, tb, d, lvl):
        a, b = self.args_for([ta, tb], d, lvl)
        return a, b

    def common(self, ty, d, lvl):
        """constructs available at every type"""
        for hv, en, pt in self.handler_vars:
            if tkey(pt) == tkey(ty) and self.chance(0.4):
                return ["exnval", hv]
        r = self.r.random()
        if r < 0.10 and not self.noif:
            # (self.noif: inside a file-scope loop no conditional expressions - imports get lost there)
            c = self.expr("bool", d - 1, lvl)
            return self.mk_if(c, self.expr(ty, d - 1, lvl), self.expr(ty, d - 1, lvl), lvl)
        if r < 0.20:
            fs = [f for f in self.fns if tkey(f.res) == tkey(ty) and f.level <= lvl and (not f.throws or self.in_try or self.chance(0.02) and self.on("uncaught"))]
            if self.frame().in_gen is not None and not self.on("ret-callee-in-gen"):
                fs = [f for f in fs if not f.has_ret]      # finding q2-return-in-generator-callee
            if fs:
                return self.call(self.r.choice(fs), d, lvl)
        if r < 0.24 and lvl == 2 and self.on("closure"):
            cs = [v for v in self.vars if isinstance(v.ty, list) and v.ty[0] == "fn" and tkey(v.ty[2]) == tkey(ty)]
            if cs:
                v = self.r.choice(cs)
                self.use(2, throws=False)
                if v.mut: self.use(1)
                return ["app", ["var", v.name], [self.expr(t, d - 1, 0) for t in fn_args(v.ty)]]
        if r < 0.27 and self.on("exit") and d >= 2 and not self.noif:
            c = self.expr("bool", d - 1, lvl)
            v1 = self.expr(ty, d - 1, lvl); v2 = self.expr(ty, d - 1, lvl)
            pre, c = self.guard(c, lvl, v1, v2)
            return ["seq"] + pre + [["exit", c, v1], v2]
        if r < 0.30 and self.on("macro") and not self.noif:
            ms = [m for m in self.macros if tkey(m[2]) == tkey(ty)]
            if ms:
                m = self.r.choice(ms)
                return ["mcall", m[0], [self.expr(t, min(d - 1, 1), min(lvl, 1)) for t in m[1]]]
        if r < 0.33 and self.on("dom"):
            e = self.dcall(ty, d, lvl)
            if e is not None: return e
        if r < 0.36 and self.on("rec"):
            for rn, fs in self.r.sample(self.recs, len(self.recs)):
                cand = [f for f, t in fs if tkey(t) == tkey(ty)]
                vs = self.vars_of(T_named(rn))
                if cand and vs and lvl >= 1:
                    v = self.r.choice(vs); self.use(1)
                    return ["field", ["var", v.name], self.r.choice(cand)]
        if r < 0.39 and self.on("uni") and not self.noif:
            for un, fs in self.r.sample(self.unis, len(self.unis)):
                cand = [f for f, t in fs if tkey(t) == tkey(ty)]
                vs = self.vars_of(T_named(un))
                if lvl == 0: vs = []          # `case` and branch selection read the (shared) union object
                if cand and vs:
                    v = self.r.choice(vs); tag = self.r.choice(cand)
                    self.use(1)
                    return self.mk_if(["case", ["var", v.name], tag], ["uget", ["var", v.name], tag], self.expr(ty, d - 1, lvl), lvl, essential=True)
        if r < 0.43 and lvl >= 1 and (self.on("list") or self.on("arr")) and not self.noif:
            vs = [v for v in self.vars if isinstance(v.ty, list) and v.ty[0] in ("arr", "list") and tkey(v.ty[1]) == tkey(ty)]
            if vs:
                v = self.r.choice(vs); self.use(1)
                ix = self.expr("mi", d - 1, min(lvl, 1))
                if v.ty[0] == "arr":
                    return ["index", ["var", v.name], ["bin", "mod", ix, ["un", "len", ["var", v.name]]]]
                dflt = self.expr(ty, d - 1, min(lvl, 1))
                return self.mk_if(["un", "not", ["un", "isempty", ["var", v.name]]],
                        ["index", ["var", v.name], ["bin", "add", ["bin", "mod", ix, ["un", "len", ["var", v.name]]], mi(1)]],
                        dflt, lvl, essential=True)
        if r < 0.46 and lvl == 2 and not self.frame().in_gen:
            vs = self.assignable(ty)
            if vs:
                v = self.r.choice(vs)
                e = self.expr(ty, d - 1, 1) if not self.hot else self.hot_rhs(v, d - 1)
                self.note_assign(v); self.use(2)
                return ["assign", v.name, e]
        if r < 0.49 and self.on("exn") and self.exns and lvl == 2 and self.frame().depth > 0 and not self.frame().in_gen \
                and (not (self.in_handler or self.in_try) or self.on("nested-try")):
            return self.try_expr(ty, d)
        return None

    def hot_rhs(self, v, d):
        """right-hand side for an assignment inside a loop or a recursive function: values may
        not grow faster than linearly in the number of iterations"""
        ty = v.ty
        self.use(1)
        if ty == "int":
            op = self.r.choice(["add", "sub", "add", "quo", "rem", "mod"])
            if op in ("quo", "rem", "mod"):
                return ["bin", op, ["var", v.name], ["int", abs(self.r.choice(DIV_POOL))]]
            return ["bin", op, ["var", v.name], ["int", self.r.randint(-1000, 1000)] if self.chance(0.5) else self.leaf("int", 1)]
        if ty == "str":
            return ["bin", "concat", ["var", v.name], ["strlit", self.r.choice(["", "a", "xy", "_", "\"", " "])]]
        if isinstance(ty, list) and ty[0] == "list":
            return ["bin", "cons", self.expr(ty[1], min(d, 1), 0), ["var", v.name]] if self.chance(0.7) else self.lit(ty)
        return self.expr(ty, d, 1)

    def e_mi(self, ty, d, lvl):
        e = self.common(ty, d, lvl)
        if e is not None: return e
        r = self.r.random()
        if r < 0.40:
            op = self.r.choice(["add", "sub", "mul", "add", "sub", "mul", "max", "min"])
            a, b = self.two("mi", "mi", d - 1, lvl)
            return ["bin", op, a, b]
        if r < 0.52:
            op = self.r.choice(["quo", "rem", "mod"])
            a = self.expr("mi", d - 1, lvl)
            dv = self.r.choice(DIV_POOL)
            if op == "mod" and self.chance(0.5): dv = abs(dv)
            return ["bin", op, a, mi(dv)]
        if r < 0.58:
            return ["bin", "pow", self.expr("mi", d - 1, lvl), mi(self.r.choice([1, 2, 3, 5, 8, 31, 63, 64]))]
        if r < 0.66:
            return ["un", self.r.choice(["neg", "abs"]), self.expr("mi", d - 1, lvl)]
        if r < 0.74:
            t = self.r.choice([x for x in ("str", "list", "arr") if self.on(x)] or ["str"])
            if t == "str": return ["un", "len", self.expr("str", d - 1, lvl)]
            tt = [t, self.r.choice(self.scalar_types())]
            if lvl == 0: return ["un", "len", self.lit(tt)] if t == "list" else None
            self.use(1)
            return ["un", "len", self.expr(tt, d - 1, min(lvl, 1))]
        if r < 0.80 and self.on("int"):
            return ["un", "tomi", ["bin", "mod", self.expr("int", d - 1, lvl), ["int", self.r.choice([2, 10, 1000, 2**31, 2**63])]]]
        return self.leaf(ty, lvl)

    def e_int(self, ty, d, lvl):
        e = self.common(ty, d, lvl)
        if e is not None: return e
        r = self.r.random()
        if r < 0.40:
            ops = ["add", "sub", "add", "sub", "max", "min"] + ([] if self.hot else ["mul", "mul"])
            a, b = self.two("int", "int", d - 1, lvl)
            return ["bin", self.r.choice(ops), a, b]
        if r < 0.55:
            op = self.r.choice(["quo", "rem", "mod"])
            return ["bin", op, self.expr("int", d - 1, lvl), ["int", self.r.choice(DIV_POOL + [10**20, -(2**64), 2**64 + 1])]]
        if r < 0.62 and not self.hot:
            # keep big integers printable in reasonable time: large exponents only on literals
            base = self.leaf("int", lvl)
            ex = self.r.choice([1, 2, 3, 5, 10, 17, 64]) if base[0] == "int" else self.r.choice([1, 2, 3])
            return ["bin", "pow", base, mi(ex)]
        if r < 0.70:
            return ["un", self.r.choice(["neg", "abs"]), self.expr("int", d - 1, lvl)]
        if r < 0.82 and self.on("mi"):
            return ["un", "toint", self.expr("mi", d - 1, lvl)]
        return self.leaf(ty, lvl)

    def e_bool(self, ty, d, lvl):
        e = self.common(ty, d, lvl)
        if e is not None: return e
        r = self.r.random()
        if r < 0.45:
            t = self.r.choice([x for x in ("mi", "int") if self.on(x)] or ["mi"])
            a, b = self.two(t, t, d - 1, lvl)
            return ["bin", self.r.choice(["eq", "ne", "lt", "le", "gt", "ge"]), a, b]
        if r < 0.55:
            t = self.r.choice(self.scalar_types())
            a, b = self.two(t, t, d - 1, lvl)
            return ["bin", self.r.choice(["eq", "ne"]), a, b]
        if r < 0.72:
            a = self.expr("bool", d - 1, lvl); b = self.expr("bool", d - 1, lvl)
            op = self.r.choice(["and", "or"])
            if not self.on("seq-in-and"):
                # findings: `x and (c => a; b)` and `(if c then (x and y) else z) and w` crash the compiler:
                # no conditional or sequence operands of `and`/`or`, and no `and` in macro bodies (an argument
                # may be such an expression)
                if a[0] in ("seq", "mcall", "if", "try"): a = self.leaf("bool", lvl)
                if b[0] in ("seq", "mcall", "if", "try"): b = self.leaf("bool", lvl)
                if self.frame().kind == "macro": op = "or"
            return ["bin", op, a, b]
        if r < 0.80:
            return ["un", "not", self.expr("bool", d - 1, lvl)]
        if r < 0.86 and self.on("list"):
            return ["un", "isempty", self.expr(T_list(self.r.choice(self.scalar_types())), d - 1, lvl)]
        if r < 0.92 and self.on("uni") and self.unis and lvl >= 1:
            un, fs = self.r.choice(self.unis)
            self.use(1)
            return ["case", self.expr(T_named(un), d - 1, lvl), self.r.choice(fs)[0]]
        return self.leaf(ty, lvl)

    def e_str(self, ty, d, lvl):
        e = self.common(ty, d, lvl)
        if e is not None: return e
        if self.chance(0.5):
            if self.hot: return ["bin", "concat", self.leaf("str", lvl), self.lit("str")]
            a, b = self.two("str", "str", d - 1, lvl)
            return ["bin", "concat", a, b]
        return self.leaf(ty, lvl)

    def e_list(self, ty, d, lvl):
        e = self.common(ty, d, lvl)
        if e is not None: return e
        r = self.r.random()
        if r < 0.35:
            n = self.r.randint(0, 4)
            return ["list", ty[1], self.elems_for([ty[1]] * n, d - 1, lvl)]
        if r < 0.55:
            a, b = self.two(ty[1], ty, d - 1, lvl)
            return ["bin", "cons", a, b]
        if r < 0.65:
            a, b = self.two(ty[1], ty, d - 1, lvl)
            return ["un", "rest", ["bin", "cons", a, b]]
        if r < 0.78:
            return ["un", "reverse", self.expr(ty, d - 1, lvl)]
        return self.leaf(ty, lvl)

    def e_arr(self, ty, d, lvl):
        e = self.common(ty, d, lvl)
        if e is not None: return e
        r = self.r.random()
        if r < 0.5:
            n = self.r.randint(1, 4)
            return ["arr", ty[1], self.elems_for([ty[1]] * n, d - 1, lvl)]
        if r < 0.75:
            return ["arrnew", ty[1], mi(self.r.randint(1, 5)), self.expr(ty[1], d - 1, lvl)]
        return self.leaf(ty, lvl)

    def e_named(self, ty, d, lvl):
        e = self.common(ty, d, lvl)
        if e is not None: return e
        if self.chance(0.3): return self.leaf(ty, lvl)
        rec = [x for x in self.recs if x[0] == ty[1]]
        if rec:
            return ["rec", ty[1], self.elems_for([t for _, t in rec[0][1]], d - 1, lvl)]
        uni = [x for x in self.unis if x[0] == ty[1]][0]
        tag, t = self.r.choice(uni[1])
        return ["uni", ty[1], tag, self.elems_for([t], d - 1, lvl)[0]]

    def e_fn(self, ty, d, lvl):
        vs = self.vars_of(ty)
        if lvl == 0: vs = [v for v in vs if not v.mut]
        if vs and self.chance(0.3):
            v = self.r.choice(vs)
            if v.mut: self.use(1)
            return ["var", v.name]
        fs = [f for f in self.fns if tkey(f.res) == tkey(ty) and f.level <= lvl and not f.throws]
        if fs and self.chance(0.4):
            return self.call(self.r.choice(fs), d, lvl)
        return self.lam(ty, d)

    def e_unit(self, ty, d, lvl): return ["unit"]

    def lam(self, ty, d):
        args = fn_args(ty); res = ty[2]
        ps = [[self.fresh("x"), t] for t in args]
        outer = self.frame()
        fr = Frame(outer.depth + 1, ret=res, kind="lam")
        self.frames.append(fr)
        saved = (len(self.vars), self.loop, self.hot, self.in_try, self.handler_vars)
        self.loop = 0; self.in_try = 0; self.handler_vars = []
        saved_nest, self.nest = self.nest, 0
        saved_noif, self.noif = self.noif, 0
        for x, t in ps: self.vars.append(Var(x, t, False, fr.depth))
        stmts = []
        if d >= 1 and self.chance(0.5):
            for _ in range(self.r.randint(1, 2)):
                s = self.stmt(d - 1)
                if s is not None: stmts.append(s)
        final = self.expr(res, max(d - 1, 0), 2) if res != "unit" else (self.stmt(d - 1) or ["unit"])
        if res != "unit": final = self.no_bare_const(final, res)
        body = ["seq"] + fr.prologue + stmts + [final] if (stmts or fr.prologue) else final
        del self.vars[saved[0]:]
        self.loop, self.hot, self.in_try, self.handler_vars = saved[1:]
        self.nest = saved_nest
        self.noif = saved_noif
        self.frames.pop()
        self.use(0)
        return ["lam", ps, res, fr.frees, body]

    def call(self, f, d, lvl=2):
        if f.has_ret: self.frame().has_ret = True
        tys = list(f.args)
        args = self.args_for(tys, d - 1, lvl if f.level < 2 else 0) if f.level == 2 else self.args_for(tys, d - 1, lvl)
        if f.bounded and args:
            args[0] = ["bin", "mod", args[0], mi(self.r.choice([3, 4, 6]))] if tys[0] == "mi" else ["bin", "mod", args[0], ["int", self.r.choice([3, 4, 6])]]
        self.use(f.level, throws=f.throws)
        return ["call", f.name, tys, f.res, args]

    def dcall(self, ty, d, lvl):
        cands = []
        for cn, sigs, doms in self.cats:
            for m, args, res, mlevel in sigs:
                if tkey(res) == tkey(ty) and mlevel <= lvl and doms:
                    cands.append((sigs, doms, m, args, res, mlevel))
        if not cands: return None
        sigs, doms, m, args, res, mlevel = self.r.choice(cands)
        dn, pty = self.r.choice(doms)
        cs = [v for v in self.vars if not v.mut and not v.loopvar and v.ty == pty]
        if (self.in_try or self.in_handler) and not self.on("dcall-var-in-try"):
            cs = []       # finding: `m()$Dom(x)` with a variable argument inside `try` is miscompiled
        darg = ["var", self.r.choice(cs).name] if cs and self.chance(0.4) else (mi(self.r.randint(-3, 9)) if pty == "mi" else ["int", self.r.choice([0, 1, 2, 5, 10**20, -3])])
        self.use(mlevel)
        return ["dcall", dn, darg, m, res, self.args_for(args, d - 1, lvl if mlevel < 2 else 0)]

    def try_expr(self, ty, d, top=False):
        """try <throwing expression> catch E in { … } [finally …] of type ty (inside a function)"""
        ev = self.fresh("E")
        self.in_try += 1
        saved_loop = self.loop; self.loop = 0
        thr = [f for f in self.fns if tkey(f.res) == tkey(ty) and f.throws]
        if thr and self.chance(0.7):
            body = self.call(self.r.choice(thr), d, 2)
        else:
            en, pt = self.r.choice(self.exns)
            c = self.expr("bool", d - 1, 1)
            body = ["seq", ["if", c, ["throw", en, [self.throw_arg(pt) if not self.on("rich-throw-arg") else self.expr(pt, d - 1, 0)] if pt else []], ["unit"]], self.expr(ty, d - 1, 1)]
        self.in_try -= 1
        hs = []
        self.in_handler += 1
        for en, pt in self.r.sample(self.exns, self.r.randint(0, len(self.exns))):
            if pt is not None and (self.frame().depth > 0 or self.on("toplevel-exnval")) and (top or self.on("nested-exnval")):
                self.handler_vars.append((ev, en, pt))
                h = self.expr(ty, d - 1, 1)
                self.handler_vars.pop()
            else:
                h = self.expr(ty, d - 1, 1)
            hs.append([en, h])
        ca = self.expr(ty, d - 1, 1) if self.chance(0.8) else ["none"]
        self.in_handler -= 1
        if ca == ["none"]: self.use(2, throws=True)
        fin = ["none"]
        if self.chance(0.3):
            fin = ["print", [["strlit", self.r.choice(["fin", "F", "finally "])], ["nl"]]]
        self.loop = saved_loop
        self.use(2)
        return ["try", body, ev, hs, ca, fin]

    # ---- statements
    def print_stmt(self, d):
        n = self.r.randint(1, 3)
        items = []
        first = True
        for i in range(n):
            ty = self.r.choice(self.scalar_types() + self.scalar_types() + [T_list(t) for t in self.scalar_types() if self.on("list")] + [T_arr(t) for t in self.scalar_types() if self.on("arr")])
            lvl = 2 if (first and self.chance(0.3)) else 1
            before = self.frame().level
            self.frame().level = 0
            e = self.expr(ty, d, lvl)
            used = self.frame().level
            self.frame().level = max(before, used)
            if i > 0 and items_level == 2:
                e = self.expr(ty, min(d, 1), 0)
            items.append(e)
            if i == 0: items_level = used
            if self.chance(0.5) and i < n - 1: items.append(["strlit", self.r.choice([" ", ",", ":", "|", " - "])])
            first = False
        if self.chance(0.92): items.append(["nl"])
        self.use(2)
        return ["print", items]

    def block(self, d, n=None, loop_body=False):
        n = n if n is not None else self.r.randint(1, 3)
        ss = [s for s in (self.stmt(d) for _ in range(n)) if s is not None]
        if not ss: ss = [self.print_stmt(0)]
        if loop_body and self.on("loop") and self.chance(0.4):
            # leave or continue the loop early under a simple condition
            c = self.simple_cond()
            ss.insert(self.r.randint(0, len(ss)), ["if", c, [self.r.choice(["break", "iterate"])], ["unit"]])
        return ["seq"] + ss

    def simple_cond(self):
        t = self.r.choice([x for x in ("mi", "int") if self.on(x)] or ["mi"])
        vs = self.vars_of(t)
        a = ["var", self.r.choice(vs).name] if vs else self.lit(t)
        if vs and a[0] == "var" and [v for v in vs if v.name == a[1]][0].mut: self.use(1)
        return ["bin", self.r.choice(["eq", "lt", "gt", "ge", "ne"]), a, [t, self.r.randint(-2, 6)]]

    def new_local(self, ty, init=None, nonempty=False):
        """declare a fresh mutable variable in the current function body (hoisted) or at top level"""
        name = self.fresh("v")
        f = self.frame()
        init = init if init is not None else self.lit(ty)
        if f.kind == "top":
            self.tops.append(["var", name, ty, init])
        else:
            f.prologue.append(["decl", name, ty, init])
        v = Var(name, ty, True, f.depth, nonempty)
        self.vars.append(v)
        return v

    def stmt(self, d, top=False):
        """`top`: a statement directly in a function body (only there may a handler use the
        exception's value, see the findings)"""
        r = self.r.random()
        self.use(2)
        fr = self.frame()
        if top and self.on("exn") and self.exns and fr.kind == "fn" and fr.in_gen is None and self.chance(0.12):
            if self.chance(0.5):
                return self.try_stmt(max(d, 1), top=True)
            ty = self.r.choice(self.scalar_types())
            v = self.new_local(ty)
            self.note_assign(v)
            return ["assign", v.name, self.try_expr(ty, max(d, 1), top=True)]
        if fr.kind == "top" and not self.on("file-scope-nesting"):
            # file scope: at most one level of control structure (deeper nesting goes into functions)
            if self.nest >= 1:
                d = 0
                if self.loop and self.on("loop") and self.chance(0.15):
                    return ["if", self.expr("bool", 1, 1), [self.r.choice(["break", "iterate"])], ["unit"]]
        if d <= 0 or r < 0.30:
            return self.print_stmt(max(d, 1))
        if r < 0.45:
            ty = self.pick_type(1)
            vs = self.assignable(ty)
            if not vs or fr.in_gen and self.chance(0.5):
                if fr.in_gen is not None or len(self.vars) > 40: return self.print_stmt(d)
                v = self.new_local(ty)
                vs = [v]
            v = self.r.choice(vs)
            e = self.hot_rhs(v, d - 1) if self.hot else self.expr(v.ty, d - 1, 2)
            self.note_assign(v)
            return ["assign", v.name, e]
        if r < 0.50 and self.on("arr"):
            vs = [v for v in self.vars if isinstance(v.ty, list) and v.ty[0] == "arr"]
            if vs:
                v = self.r.choice(vs); self.use(1)
                return ["setidx", ["var", v.name], ["bin", "mod", self.expr("mi", d - 1, 1), ["un", "len", ["var", v.name]]], self.expr(v.ty[1], d - 1, 0)]
        if r < 0.52 and self.on("uni") and self.unis and self.chance(0.5):
            un, fs = self.r.choice(self.unis)
            vs = self.vars_of(T_named(un))
            if vs:
                v = self.r.choice(vs); f, t = self.r.choice(fs); self.use(2)
                return ["setfield", ["var", v.name], f, self.expr(t, d - 1, 0)]
        if r < 0.55 and self.on("rec") and self.recs:
            rn, fs = self.r.choice(self.recs)
            vs = self.vars_of(T_named(rn))
            if vs:
                v = self.r.choice(vs); f, t = self.r.choice(fs); self.use(1)
                if self.hot and t in ("int", "str"): return self.print_stmt(d)
                return ["setfield", ["var", v.name], f, self.expr(t, d - 1, 0)]
        if r < 0.65:
            c = self.expr("bool", d - 1, 2)
            self.nest += 1
            try:
                return self.mk_if(c, self.block(d - 1), self.block(d - 1) if self.chance(0.5) else ["unit"], 2)
            finally:
                self.nest -= 1
        if r < 0.80 and self.on("loop") and d >= 1:
            return self.loop_stmt(d)
        if r < 0.84 and self.loop and self.on("loop"):
            c = self.expr("bool", d - 1, 1)
            return ["if", c, [self.r.choice(["break", "iterate"])], ["unit"]]
        if r < 0.88 and fr.ret is not None and fr.in_gen is None and self.on("return") and fr.ret != "unit" \
                and (not (self.in_try or self.in_handler) or self.on("return-in-try")):
            c = self.expr("bool", d - 1, 1)
            fr.has_ret = True
            return ["if", c, ["ret", self.expr(fr.ret, d - 1, 1)], ["unit"]]
        if r < 0.91 and fr.in_gen is not None and not self.in_try:
            return ["yield", self.expr(fr.in_gen, d - 1, 1)]
        if r < 0.95:
            fs = [f for f in self.fns if (not f.throws or self.in_try) and (f.res == "unit" or self.chance(0.3)) and not (isinstance(f.res, list) and f.res[0] == "gen")]
            if fr.in_gen is not None and not self.on("ret-callee-in-gen"):
                fs = [f for f in fs if not f.has_ret]
            if fs: return self.call(self.r.choice(fs), d)
        if r < 0.98 and self.on("exn") and self.exns and fr.in_gen is None and (fr.kind != "top" or self.on("file-scope-nesting")) \
                and (not (self.in_handler or self.in_try) or self.on("nested-try")):
            return self.try_stmt(d)
        return self.print_stmt(d)

    def try_stmt(self, d, top=False):
        ev = self.fresh("E")
        self.in_try += 1
        saved_loop = self.loop; self.loop = 0
        body = self.block(d - 1, self.r.randint(1, 2))
        en, pt = self.r.choice(self.exns)
        c = self.expr("bool", d - 1, 1)
        thr = ["if", c, ["throw", en, [self.throw_arg(pt) if not self.on("rich-throw-arg") else self.expr(pt, d - 1, 0)] if pt else []], ["unit"]]
        body.insert(self.r.randint(1, len(body)), thr)
        body.append(self.print_stmt(1))
        self.in_try -= 1
        hs = []
        self.in_handler += 1
        chosen = self.r.sample(self.exns, self.r.randint(0, len(self.exns)))
        if top and (en, pt) not in chosen and self.chance(0.8): chosen.append((en, pt))
        for en2, pt2 in chosen:
            usable = pt2 is not None and (self.frame().depth > 0 or self.on("toplevel-exnval")) and (top or self.on("nested-exnval"))
            if usable: self.handler_vars.append((ev, en2, pt2))
            hb = self.block(d - 1, 1) + [self.print_stmt(1)]
            if usable and self.chance(0.7):
                hb.insert(1, ["print", [["strlit", "caught "], ["exnval", ev], ["nl"]]])
            hs.append([en2, hb])
            if usable: self.handler_vars.pop()
        ca = self.block(d - 1, 1) + [self.print_stmt(1)] if self.chance(0.85) else ["none"]
        self.in_handler -= 1
        if ca == ["none"] and not [h for h in hs if h[0] == en]: self.use(2, throws=True)
        fin = self.print_stmt(1) if self.chance(0.3) else ["none"]
        self.loop = saved_loop
        return ["try", body, ev, hs, ca, fin]

    def loop_stmt(self, d):
        k = self.r.random()
        fr = self.frame()
        xv = None
        self.loop += 1; self.hot += 1; self.nest += 1
        top_loop = fr.kind == "top" and not self.on("file-scope-nesting")
        if top_loop: self.noif += 1
        try:
            if k < 0.3:
                t = "mi" if self.on("mi") or not self.on("int") else "int"
                x = self.fresh("x")
                lo = self.r.randint(-3, 5); n = self.r.randint(0, 6)
                step = self.r.choice([1, 1, 1, 2, 3, -1, -2])
                lo_e, hi_e = ([t, lo], [t, lo + n]) if step > 0 else ([t, lo + n], [t, lo])
                xv = Var(x, t, False, fr.depth, loopvar=True); self.vars.append(xv)
                body = self.block(d - 1, loop_body=True)
                return ["for", x, lo_e, hi_e, step, body]
            if k < 0.5 and (self.on("list") or self.on("arr")):
                kind = self.r.choice([x for x in ("list", "arr") if self.on(x)])
                et = self.r.choice(self.scalar_types())
                self.hot -= 1
                coll = self.expr([kind, et], d - 1, 1)
                self.hot += 1
                x = self.fresh("x")
                xv = Var(x, et, False, fr.depth, loopvar=True); self.vars.append(xv)
                return ["forin", x, coll, self.block(d - 1, loop_body=True)]
            if k < 0.7 and self.on("gen") and fr.in_gen is None:
                gs = [f for f in self.fns if isinstance(f.res, list) and f.res[0] == "gen" and not f.throws]
                if gs and self.chance(0.7):
                    g = self.r.choice(gs); et = g.res[1]
                    gexpr = self.call(g, d, 0)
                else:
                    et = self.r.choice(self.scalar_types())
                    gexpr = self.inline_generate(et, d - 1)
                x = self.fresh("x")
                xv = Var(x, et, False, fr.depth, loopvar=True); self.vars.append(xv)
                self.use(2)
                return ["forgen", x, gexpr, self.block(d - 1, loop_body=True)]
            # while with a protected counter
            if fr.in_gen is not None and fr.kind != "genfn":
                return self.print_stmt(d)
            t = "mi" if self.on("mi") or not self.on("int") else "int"
            self.loop -= 1; self.hot -= 1
            v = self.new_local(t, [t, 0])
            self.loop += 1; self.hot += 1
            v.protected = True
            n = self.r.randint(0, 6)
            body = self.block(d - 1, loop_body=True)
            v.protected = False
            self.note_assign(v)
            inc = ["assign", v.name, ["bin", "add", ["var", v.name], [t, 1]]]
            return ["seq", ["assign", v.name, [t, 0]],
                    ["while", ["bin", "lt", ["var", v.name], [t, n]], ["seq", inc] + body[1:]]]
        finally:
            self.loop -= 1; self.hot -= 1; self.nest -= 1
            if top_loop: self.noif -= 1
            if xv is not None:
                self.vars.remove(xv)      # the loop variable goes, hoisted locals stay

    def inline_generate(self, et, d):
        fr = self.frame()
        saved = fr.in_gen
        fr.in_gen = et
        saved_loop = self.loop; self.loop = 0
        ss = []
        for _ in range(self.r.randint(1, 3)):
            if self.chance(0.6): ss.append(["yield", self.expr(et, d, 1)])
            else:
                s = self.stmt(d)
                if s is not None: ss.append(s)
        ss.append(["yield", self.expr(et, d, 1)])
        self.loop = saved_loop
        fr.in_gen = saved
        return ["generate", et, ["seq"] + ss]

    # ---- top-level definitions
    def def_types(self):
        if self.on("rec"):
            for _ in range(self.r.choice([0, 1, 1, 2])):
                n = self.fresh("R")
                fs = [[self.fresh("f"), self.pick_type(1) if self.chance(0.3) else self.r.choice(self.scalar_types())] for _ in range(self.r.randint(1, 3))]
                fs = [[f, t if not (isinstance(t, list) and t[0] == "fn") else "mi"] for f, t in fs]
                self.tops.append(["recdef", n, fs]); self.recs.append((n, [(f, t) for f, t in fs]))
        if self.on("uni"):
            for _ in range(self.r.choice([0, 1, 1, 2])):
                n = self.fresh("U")
                pool = self.scalar_types() + ([T_list("mi")] if self.on("list") else [])
                if self.chance(0.65):
                    # 2-4 branches, some of one type (the label, not the type, says which branch a value is in)
                    k = self.r.randint(2, 4)
                    ts = [self.r.choice(pool) for _ in range(k)]
                    i, j = self.r.sample(range(k), 2)
                    ts[j] = ts[i]
                    if k == 4 and self.chance(0.4): ts[self.r.randrange(4)] = ts[i]
                else:
                    ts = self.r.sample(pool, self.r.randint(1, min(3, len(pool))))
                fs = [[self.fresh("t"), t] for t in ts]
                self.tops.append(["unidef", n, fs]); self.unis.append((n, [(f, t) for f, t in fs]))
        if self.on("exn"):
            for _ in range(self.r.choice([1, 1, 2, 3])):
                n = self.fresh("Ex")
                pt = self.r.choice(self.scalar_types()) if self.chance(0.6) else None
                self.tops.append(["exn", n, pt if pt else ["none"]]); self.exns.append((n, pt))

    def def_macro(self):
        n = self.fresh("m")
        pts = [self.r.choice(self.scalar_types()) for _ in range(self.r.randint(1, 2))]
        res = self.r.choice(self.scalar_types())
        ps = [self.fresh("a") for _ in pts]
        saved_vars, saved_fns, saved_macros, saved_cats = self.vars, self.fns, self.macros, self.cats
        self.vars = [Var(p, t, False, 0) for p, t in zip(ps, pts)]
        self.fns = [f for f in saved_fns if f.level == 0 and not f.throws and not f.recursive]
        self.cats = []
        feat = self.feat
        self.feat = feat - {"exit", "exn", "closure", "rec", "uni", "dom", "arr"}
        fr = Frame(0, kind="macro"); self.frames.append(fr)
        body = self.expr(res, 2, 0)
        self.frames.pop()
        self.feat = feat
        self.vars, self.fns, self.macros, self.cats = saved_vars, saved_fns, saved_macros, saved_cats
        # every parameter should occur; otherwise the argument is dropped, which is fine too
        self.tops.append(["macro", n, ps, body])
        self.macros.append((n, pts, res))

    def def_global(self):
        ty = self.pick_type(2)
        if self.chance(0.3) and not (isinstance(ty, list) and ty[0] == "fn"):
            n = self.fresh("c")
            e = self.expr(ty, 2, 0)
            self.tops.append(["const", n, ty, e]); self.vars.append(Var(n, ty, False, 0))
            if ty == "mi":
                cv = self.cval(e)
                self.vars[-1].cval = cv if cv is not None else None
        else:
            n = self.fresh("g")
            e = self.expr(ty, 2, 1)
            self.tops.append(["var", n, ty, e]); self.vars.append(Var(n, ty, True, 0))

    def fun_body(self, fr, params, res, d, style):
        """statements + final value, with the hoisted locals in front"""
        base = len(self.vars)
        for x, t in params: self.vars.append(Var(x, t, False, fr.depth))
        saved = (self.loop, self.hot, self.in_try, self.handler_vars)
        self.loop = 0; self.in_try = 0; self.handler_vars = []
        stmts = []
        for _ in range(self.r.randint(0, 1 + self.size)):
            s = self.stmt(d, top=True)
            if s is not None: stmts.append(s)
        if self.on("deadstore") and fr.kind == "fn" and self.chance(0.2):
            pos = self.r.randint(0, len(stmts))
            stmts[pos:pos] = self.deadstore_shape()
        if res == "unit":
            final = self.print_stmt(1)
        else:
            final = self.expr(res, d, 2)
            if self.on("return") and self.chance(0.3) and not (isinstance(res, list) and res[0] == "gen"):
                # an early return under a simple condition, somewhere among the statements
                stmts.insert(self.r.randint(0, len(stmts)), ["if", self.simple_cond(), ["ret", self.expr(res, 1, 1)], ["unit"]])
                fr.has_ret = True
        self.loop, self.hot, self.in_try, self.handler_vars = saved
        del self.vars[base:]
        return stmts + [final]

    def def_fun(self, name=None, args=None, res=None, style=None):
        style = style or self.r.choice(["plain", "plain", "plain", "rec", "thrower", "pure", "mk"])
        sc = self.scalar_types()
        if args is None:
            args = [self.pick_type(1) if self.chance(0.25) else self.r.choice(sc) for _ in range(self.r.randint(0, 3))]
        if res is None:
            res = self.r.choice(sc + sc + ["unit"] + ([self.pick_type(2)] if self.chance(0.3) else []))
        if style == "mk" and self.on("closure"):
            res = T_fn([self.r.choice(sc)], self.r.choice(sc))
        if style == "rec" and (not args or args[0] not in ("mi", "int")):
            args = [("mi" if self.on("mi") or not self.on("int") else "int")] + args[:2]
        if style == "rec" and (res == "unit" or isinstance(res, list)):
            res = self.r.choice(sc)
        name = name or self.fresh("f")
        f = Fn(name, args, res)
        params = [[self.fresh("x"), t] for t in args]
        fr = Frame(1, ret=res)
        self.frames.append(fr)
        d = 1 + (self.size > 2)
        if style == "pure":
            base = len(self.vars)
            for x, t in params: self.vars.append(Var(x, t, False, 1))
            saved = self.vars
            self.vars = [v for v in self.vars if not v.mut]
            body = self.expr(res, d + 1, 0) if res != "unit" else self.print_stmt(1)
            self.vars = saved
            del self.vars[base:]
            items = [body]
        elif style == "rec":
            f.bounded = True; f.recursive = True; f.level = 2
            self.fns.append(f)
            base = len(self.vars)
            for x, t in params: self.vars.append(Var(x, t, False, 1))
            self.hot += 1
            n = ["var", params[0][0]]; t0 = args[0]
            rec = ["call", name, args, res, [["bin", "sub", n, [t0, 1]]] + [self.expr(t, 1, 0) for t in args[1:]]]
            stop = self.expr(res, 1, 1)
            if res in ("mi", "int"):
                comb = ["bin", self.r.choice(["add", "sub", "mul"] if res == "mi" else ["add", "sub"]), rec, self.expr(res, 1, 0)]
            elif res == "str":
                comb = ["bin", "concat", rec, self.lit("str")]
            elif res == "bool":
                comb = ["un", "not", rec]
            else:
                comb = rec
            pre = [self.print_stmt(1)] if self.chance(0.4) else []
            items = pre + [["if", ["bin", "le", n, [t0, 0]], stop, comb]]
            self.hot -= 1
            del self.vars[base:]
            self.fns.pop()
        elif style == "hof":
            base = len(self.vars)
            for x, t in params: self.vars.append(Var(x, t, False, 1))
            fvar, xvar = params[0][0], params[1][0]
            inner = ["app", ["var", fvar], [["var", xvar]]]
            if args[1] == res and self.chance(0.5):
                inner = ["app", ["var", fvar], [inner]]
            fr.level = 2
            items = ([self.print_stmt(1)] if self.chance(0.3) else []) + [inner]
            del self.vars[base:]
        elif style == "thrower" and self.on("exn") and self.exns:
            base = len(self.vars)
            for x, t in params: self.vars.append(Var(x, t, False, 1))
            en, pt = self.r.choice(self.exns)
            c = self.expr("bool", 2, 1)
            thr = ["throw", en, [self.throw_arg(pt)] if pt else []]
            final = self.expr(res, d, 1) if res != "unit" else self.print_stmt(1)
            items = ([self.print_stmt(1)] if self.chance(0.5) else []) + [["if", c, thr, ["unit"]], final]
            fr.throws = True
            del self.vars[base:]
        else:
            items = self.fun_body(fr, params, res, d, style)
        self.frames.pop()
        f.level = max(fr.level, f.level); f.throws = fr.throws; f.has_ret = fr.has_ret
        if res != "unit" and not (isinstance(res, list) and res[0] == "gen"):
            items[-1] = self.no_bare_const(items[-1], res)
        items = fr.prologue + items          # hoisted locals of whatever the body needed
        body = ["seq"] + items if len(items) > 1 or items[0][0] in ("decl", "exit") else items[0]
        self.tops.append(["fn", name, params, res, fr.frees, body])
        self.fns.append(f)
        return f

    def def_genfun(self):
        sc = self.scalar_types()
        et = self.r.choice(sc)
        t0 = "mi" if self.on("mi") or not self.on("int") else "int"
        name = self.fresh("f")
        args = [t0] + [self.r.choice(sc) for _ in range(self.r.randint(0, 1))]
        f = Fn(name, args, ["gen", et]); f.bounded = True
        params = [[self.fresh("x"), t] for t in args]
        fr = Frame(1, ret=None, kind="genfn"); fr.in_gen = et
        self.frames.append(fr)
        base = len(self.vars)
        for x, t in params: self.vars.append(Var(x, t, False, 1))
        saved = (self.loop, self.hot, self.in_try, self.handler_vars)
        self.loop = 0; self.in_try = 0; self.handler_vars = []
        x = self.fresh("x")
        xv = Var(x, t0, False, 1, loopvar=True); self.vars.append(xv)
        self.loop += 1; self.hot += 1
        inner = [["yield", self.expr(et, 1, 1)]]
        if self.chance(0.5): inner.insert(0, self.stmt(1) or self.print_stmt(1))
        if self.chance(0.3): inner.append(self.stmt(1) or self.print_stmt(1))
        self.loop -= 1; self.hot -= 1
        self.vars.remove(xv)
        items = []
        if self.chance(0.4): items.append(self.print_stmt(1))
        items.append(["for", x, [t0, 0], ["var", params[0][0]], 1, ["seq"] + [s for s in inner if s]])
        if self.chance(0.4): items.append(["yield", self.expr(et, 1, 1)])
        if self.chance(0.3): items.append(self.print_stmt(1))
        self.loop, self.hot, self.in_try, self.handler_vars = saved
        del self.vars[base:]
        self.frames.pop()
        f.level = 0       # creating the generator does nothing; running it is accounted at the loop
        self.tops.append(["fn", name, params, ["gen", et], fr.frees, ["generate", et, ["seq"] + fr.prologue + items]])
        self.fns.append(f)

    def def_overloads(self):
        name = self.fresh("f")
        sc = self.scalar_types()
        k = self.r.choice([2, 2, 3])
        sigs = []
        for _ in range(k * 3):
            if len(sigs) >= k: break
            if sigs and self.chance(0.4) and len(sc) > 1:
                a = sigs[0][0]; r = self.r.choice([t for t in sc if t != sigs[0][1]])
            else:
                a = [self.r.choice(sc) for _ in range(self.r.randint(1, 2))]; r = self.r.choice(sc)
            if all(not (tkey(a) == tkey(a2) and r == r2) for a2, r2 in sigs):
                sigs.append((a, r))
        for a, r in sigs:
            self.def_fun(name=name, args=a, res=r, style=self.r.choice(["plain", "pure"]))

    def def_cat(self):
        cn = self.fresh("Cat")
        sc = self.scalar_types()
        nm = self.r.randint(2, 4)
        sigs = [(self.fresh("m"), [self.r.choice(sc) for _ in range(self.r.randint(0, 2))], self.r.choice(sc)) for _ in range(nm)]
        levels = {}
        ndef = self.r.randint(1, nm - 1) if self.on("default") else 0
        default_ix = set(self.r.sample(range(1, nm), min(ndef, nm - 1))) if ndef else set()
        def meth(i, extra_vars, allow_self):
            m, args, res = sigs[i]
            params = [[self.fresh("x"), t] for t in args]
            fr = Frame(1, ret=res, kind="meth"); self.frames.append(fr)
            base = len(self.vars)
            for x, t in params + extra_vars: self.vars.append(Var(x, t, False, 1))
            saved_fns = self.fns
            self.fns = [f for f in saved_fns if not f.throws]
            body = self.no_bare_const(self.expr(res, 2, 1), res)
            if allow_self and i > 0 and self.chance(0.8):
                j = self.r.randrange(i)
                m2, a2, r2 = sigs[j]
                sc_call = ["self", m2, r2, [self.expr(t, 1, 0) for t in a2]]
                fr.level = max(fr.level, levels.get(j, 2))
                if r2 == res and res in ("mi", "int"): body = ["bin", "add", sc_call, body]
                elif r2 == res and res == "str": body = ["bin", "concat", sc_call, body]
                elif r2 == "bool": body = ["if", sc_call, body, self.expr(res, 1, 0)]
                elif r2 == "mi" and res == "bool": body = ["bin", "gt", sc_call, mi(0)]
                elif r2 == "mi": body = ["if", ["bin", "gt", sc_call, mi(0)], body, self.expr(res, 1, 0)]
                elif r2 == "int": body = ["if", ["bin", "gt", sc_call, ["int", 0]], body, self.expr(res, 1, 0)]
                elif r2 == "str": body = ["if", ["bin", "eq", sc_call, self.lit("str")], body, self.expr(res, 1, 0)]
            if self.chance(0.25):
                body = ["seq", ["print", [["strlit", m], ["nl"]]], body]; fr.level = 2
            if fr.prologue:
                body = ["seq"] + fr.prologue + (body[1:] if body[0] == "seq" else [body])
            self.fns = saved_fns
            del self.vars[base:]
            self.frames.pop()
            return ["fn", m, params, res, fr.frees, body], fr.level
        defaults = []
        for i in sorted(default_ix):
            fd, lv = meth(i, [], True)
            defaults.append(fd); levels[i] = lv
        self.tops.append(["cat", cn, [[m, a, r] for m, a, r in sigs], defaults])
        doms = []
        for _ in range(self.r.randint(1, 2)):
            dn = self.fresh("Dom"); p = self.fresh("p")
            pty = "mi" if self.on("mi") or not self.on("int") else self.r.choice(["mi", "int"])
            if self.on("int") and self.on("int-dom-param") and self.chance(0.25): pty = "int"
            ms = []
            for i in range(nm):
                if i in default_ix and self.chance(0.7): continue
                fd, lv = meth(i, [[p, pty]], True)
                ms.append(fd); levels[i] = max(levels.get(i, 0), lv)
            self.tops.append(["dom", dn, p, pty, cn, ms])
            doms.append((dn, pty))
        # levels must be closed under self calls in later methods; be conservative
        top = max(levels.values()) if levels else 0
        self.cats.append((cn, [(m, a, r, top) for (m, a, r) in sigs], doms))

    def showcase_cat(self):
        """use every method of the newest category once (own, inherited default, overridden default)"""
        cn, sigs, doms = self.cats[-1]
        for dn, pty in doms:
            for m, args, res, lv in sigs:
                if res not in SCALARS or self.chance(0.3): continue
                darg = mi(self.r.randint(-3, 9)) if pty == "mi" else ["int", self.r.choice([0, 1, 2, 5, 10**20, -3])]
                call = ["dcall", dn, darg, m, res, [self.expr(t, 1, 0) for t in args]]
                self.tops.append(["stmt", ["print", [call, ["nl"]]]])

    def showcase_gen(self):
        """consume the newest generator function in a file-scope loop"""
        g = self.fns[-1]
        x = self.fresh("x")
        et = g.res[1]
        if et not in SCALARS: return
        body = ["seq", ["print", [["var", x], ["strlit", " "]]]]
        if self.chance(0.5):
            t = "mi" if et == "mi" else None
            if t: body.insert(1, ["if", ["bin", "gt", ["var", x], mi(self.r.randint(0, 20))], [self.r.choice(["break", "iterate"])], ["unit"]])
        self.tops.append(["stmt", ["forgen", x, self.call(g, 1, 0), body]])
        self.tops.append(["stmt", ["print", [["nl"]]]])

    def showcase_union(self, un, fs):
        """a union value built in its LAST branch of a repeated type, examined label by label in a procedure
        that also re-assigns every branch of the (shared) object; the caller looks again afterwards"""
        u = T_named(un)
        tys = [t for _, t in fs]
        dup = [i for i, t in enumerate(tys) if tys.count(t) > 1]
        i0 = dup[-1] if dup else self.r.randrange(len(fs))
        g = self.fresh("g")
        self.tops.append(["var", g, u, ["uni", un, fs[i0][0], self.lit(fs[i0][1])]])
        self.vars.append(Var(g, u, True, 0))
        name = self.fresh("f"); x = self.fresh("x")
        fr = Frame(1, ret="unit"); self.frames.append(fr)
        base = len(self.vars)
        self.vars.append(Var(x, u, False, 1))
        def look():
            items = [["print", [["strlit", un + " is"]] + sum(([["strlit", " "], ["case", ["var", x], f]] for f, _ in fs), []) + [["nl"]]]]
            for f, t in fs:
                if t in SCALARS or (isinstance(t, list) and t[0] == "list"):
                    items.append(self.mk_if(["case", ["var", x], f], ["print", [["strlit", f + "="], ["uget", ["var", x], f], ["nl"]]], ["unit"], 2))
            return items
        items = look()
        order = list(range(len(fs))); self.r.shuffle(order)
        for i in order:
            f, t = fs[i]
            items.append(["setfield", ["var", x], f, self.lit(t)])
            items += look() if self.chance(0.6) else []
        items.append(["print", [["strlit", name + " done"], ["nl"]]])
        del self.vars[base:]
        self.frames.pop()
        self.tops.append(["fn", name, [[x, u]], "unit", fr.frees, ["seq"] + fr.prologue + items])
        fn = Fn(name, [u], "unit"); fn.level = 2
        self.fns.append(fn)
        self.tops.append(["stmt", ["call", name, [u], "unit", [["var", g]]]])
        # the caller sees the branch the procedure left the shared object in
        self.tops.append(["stmt", ["print", [["strlit", g + " is"]] + sum(([["strlit", " "], ["case", ["var", g], f]] for f, _ in fs), []) + [["nl"]]]])
        # and a fresh value in every branch, passed directly
        for f, t in fs:
            if self.chance(0.5):
                self.tops.append(["stmt", ["call", name, [u], "unit", [["uni", un, f, self.lit(t)]]]])

    CHUNKS = [2**31, 2**32, 3 * 2**31, 2**40, 2**62, -(2**32), 2**62 + 5, 2**33, 5 * 2**31, -(2**31), 2**62 + 2**31]

    def showcase_chunks(self):
        """machine-integer constants that are multiples of 2^31 or have a zero middle chunk, printed and
        used in arithmetic - between constants (folded by the optimiser) and with a variable"""
        if not self.on("mi"): return
        r = self.r
        g = self.fresh("g")
        self.tops.append(["var", g, "mi", mi(r.choice([1, 2, 3, 7, -1]))])
        self.vars.append(Var(g, "mi", True, 0))
        for _ in range(r.randint(2, 4)):
            a, b = r.choice(self.CHUNKS), r.choice(self.CHUNKS)
            op = r.choice(["add", "sub", "mul", "quo", "rem", "max", "min"])
            items = [mi(a), ["strlit", " "], self.no_fold_overflow(["bin", op, mi(a), mi(b)]), ["strlit", " "],
                     ["bin", r.choice(["add", "sub", "mul"]), ["var", g], mi(b)], ["strlit", " "],
                     ["bin", r.choice(["lt", "eq", "ge"]), mi(a), ["bin", "add", mi(b), ["var", g]]]]
            if self.on("int") and r.random() < 0.5:
                items += [["strlit", " "], ["bin", "mul", ["un", "toint", mi(a)], ["int", b]]]
            self.tops.append(["stmt", ["print", items + [["nl"]]]])
        c = self.fresh("c")
        ce = self.no_fold_overflow(["bin", r.choice(["add", "mul", "sub"]), mi(r.choice(self.CHUNKS)), mi(r.choice(self.CHUNKS))])
        self.tops.append(["const", c, "mi", ce])
        self.vars.append(Var(c, "mi", False, 0)); self.vars[-1].cval = self.cval(ce)

    def showcase_calls(self):
        """call every overload of an overloaded name and every macro at least once"""
        names = [f.name for f in self.fns]
        for f in self.fns:
            if names.count(f.name) > 1 and f.res in SCALARS and not f.throws and self.chance(0.8):
                self.tops.append(["stmt", ["print", [["call", f.name, list(f.args), f.res, [self.expr(t, 1, 0) for t in f.args]], ["nl"]]]])
        for m, pts, res in self.macros:
            if res in SCALARS and self.chance(0.8):
                self.tops.append(["stmt", ["print", [["mcall", m, [self.expr(t, 1, 0) for t in pts]], ["nl"]]]])

    # ---- dead stores with side effects (feature "deadstore").  Locals named d<N> are never captured by
    # a closure: they are taken out of scope as soon as the shape has been emitted.
    def effect_fun(self, ty):
        """a function of result type `ty` whose call prints and/or assigns a global (never throws)"""
        fs = [f for f in self.fns if getattr(f, "effectful", False) and f.res == ty]
        if fs and self.chance(0.7):
            return self.r.choice(fs)
        name = self.fresh("f")
        a = self.r.choice(self.scalar_types())
        x = self.fresh("x")
        gs = [v for v in self.vars if v.depth == 0 and v.mut and v.ty in ("mi", "int", "str") and not v.protected]
        body = []; frees = []
        kind = self.r.choice(["print", "mutate", "both"]) if gs else "print"
        if kind in ("print", "both"):
            body.append(["print", [["strlit", name + ":"], ["var", x], ["nl"]]])
        if kind in ("mutate", "both"):
            g = self.r.choice(gs); frees.append(g.name)
            rhs = {"mi": ["bin", "add", ["var", g.name], mi(1)], "int": ["bin", "add", ["var", g.name], ["int", 1]],
                   "str": ["bin", "concat", ["var", g.name], ["strlit", "+"]]}[g.ty]
            body.append(["assign", g.name, rhs])
        saved = self.vars
        self.vars = [v for v in self.vars if not v.mut and v.depth == 0] + [Var(x, a, False, 1)]
        fr = Frame(1, ret=ty); self.frames.append(fr)
        saved_hv, self.handler_vars = self.handler_vars, []
        body.append(self.no_bare_const(self.expr(ty, 1, 0), ty))
        self.handler_vars = saved_hv
        self.frames.pop()
        self.vars = saved
        self.tops.append(["fn", name, [[x, a]], ty, frees, ["seq"] + body])
        f = Fn(name, [a], ty); f.level = 2
        self.fns.append(f)
        f.effectful = True
        return f

    def eff_call(self, ty):
        f = self.effect_fun(ty)
        self.use(2)
        return ["call", f.name, list(f.args), f.res, [self.expr(t, 1, 0) for t in f.args]]

    def pure_rhs(self, ty):
        if ty in ("mi", "int") and self.chance(0.5):
            return self.no_fold_overflow(["bin", self.r.choice(["add", "sub", "mul"]), self.lit(ty), self.lit(ty)])
        return self.lit(ty)

    def dead_local(self, ty, init):
        name = self.fresh("d")
        self.frame().prologue.append(["decl", name, ty, init])
        return name

    def deadstore_shape(self, kind=None):
        """a list of statements for the body of the function under construction"""
        ty = self.r.choice([t for t in ("mi", "int", "str", "bool") if self.on(t)] or ["mi"])
        kind = kind or self.r.choice(["eff-pure", "pure-eff", "eff-eff", "three", "read-once", "read-once-eff",
                                      "in-loop", "in-if", "unused-call", "eff-init", "eff-init-overwritten"])
        E = lambda: self.eff_call(ty)
        P = lambda: self.pure_rhs(ty)
        self.use(2)
        if kind == "unused-call":
            return [E()] + ([E()] if self.chance(0.3) else [])
        if kind == "eff-init":
            self.dead_local(ty, E())
            return []
        if kind == "eff-init-overwritten":
            d = self.dead_local(ty, E())
            return [["assign", d, P() if self.chance(0.6) else E()]]
        d = self.dead_local(ty, self.lit(ty))
        A = lambda e: ["assign", d, e]
        if kind == "eff-pure": return [A(E()), A(P())]
        if kind == "pure-eff": return [A(P()), A(E())]
        if kind == "eff-eff": return [A(E()), A(E())]
        if kind == "three":
            seq = self.r.choice([(E, P, E), (E, E, P), (P, E, P), (E, P, P), (E, E, E)])
            return [A(f()) for f in seq]
        if kind in ("read-once", "read-once-eff"):
            rd = ["print", [["strlit", d + "="], ["var", d], ["nl"]]]
            last = A(P()) if kind == "read-once" else A(E())
            return [A(E()), rd, last] + ([A(P())] if self.chance(0.3) else [])
        if kind == "in-loop":
            x = self.fresh("x")
            t = "mi" if self.on("mi") or not self.on("int") else "int"
            body = ["seq", A(E())] + ([A(P())] if self.chance(0.5) else [])
            return [["for", x, [t, 1], [t, self.r.randint(1, 3)], 1, body]]
        if kind == "in-if":
            c = self.simple_cond()
            return [["if", c, ["seq", A(E())] + ([A(P())] if self.chance(0.4) else []),
                     ["seq", A(P()), A(E())] if self.chance(0.6) else ["unit"]]]
        return []

    def def_deadstore_fun(self):
        """a procedure made of dead-store shapes between prints, called from file scope"""
        name = self.fresh("f")
        res = self.r.choice(self.scalar_types() + ["unit"])
        fr = Frame(1, ret=res); self.frames.append(fr)
        base = len(self.vars)
        items = []
        for _ in range(self.r.randint(1, 3)):
            items += self.deadstore_shape()
            if self.chance(0.4): items.append(self.print_stmt(1))
        items.append(self.print_stmt(1) if res == "unit" else self.no_bare_const(self.expr(res, 1, 1), res))
        self.frames.pop()
        del self.vars[base:]
        items = fr.prologue + items
        self.tops.append(["fn", name, [], res, fr.frees, ["seq"] + items if len(items) > 1 else items[0]])
        f = Fn(name, [], res); f.level = 2
        self.fns.append(f)
        call = ["call", name, [], res, []]
        self.tops.append(["stmt", call if res == "unit" else ["print", [call, ["nl"]]]])

    # ---- handlers that throw themselves, and finally (feature "exn")
    def def_handler_throws(self):
        if len(self.exns) < 1: return
        exa = self.r.choice(self.exns)
        exb = self.r.choice(self.exns)
        inner = self.fresh("f"); outer = self.fresh("f")
        x = self.fresh("x")
        t0 = "mi" if self.on("mi") or not self.on("int") else "int"
        def thr(ex):
            en, pt = ex
            return ["throw", en, [self.lit(pt)] if pt else []]
        e1 = self.fresh("E")
        mode = self.r.choice(["other", "other", "rethrow", "catchall-throws"])
        handlers = []; ca = ["seq", ["print", [["strlit", inner + " other"], ["nl"]]]]
        if mode == "other":
            handlers = [[exa[0], ["seq", ["print", [["strlit", inner + " handler"], ["nl"]]], thr(exb)]]]
        elif mode == "rethrow":
            ca = ["none"]
        else:
            ca = ["seq", ["print", [["strlit", inner + " any"], ["nl"]]], thr(exb)]
        fin = ["print", [["strlit", inner + " finally"], ["nl"]]] if self.chance(0.8) else ["none"]
        body = ["seq", ["print", [["strlit", inner + " body "], ["var", x], ["nl"]]],
                ["if", ["bin", "gt", ["var", x], [t0, 0]], thr(exa), ["unit"]],
                ["print", [["strlit", inner + " no throw"], ["nl"]]]]
        self.tops.append(["fn", inner, [[x, t0]], "unit", [], ["seq", ["try", body, e1, handlers, ca, fin],
                                                                  ["print", [["strlit", inner + " end"], ["nl"]]]]])
        fi = Fn(inner, [t0], "unit"); fi.level = 2; fi.throws = True
        self.fns.append(fi)
        e2 = self.fresh("E")
        hs2 = []
        for en, pt in self.r.sample(self.exns, self.r.randint(0, len(self.exns))):
            hb = ["seq", ["print", [["strlit", outer + " caught " + en], ["nl"]]]]
            if pt is not None and self.chance(0.6):
                hb.insert(1, ["print", [["strlit", "value "], ["exnval", e2], ["nl"]]])
            hs2.append([en, hb])
        y = self.fresh("x")
        fin2 = ["print", [["strlit", outer + " finally"], ["nl"]]] if self.chance(0.6) else ["none"]
        self.tops.append(["fn", outer, [[y, t0]], "unit", [],
                          ["seq", ["try", ["seq", ["call", inner, [t0], "unit", [["var", y]]], ["print", [["strlit", outer + " returned"], ["nl"]]]],
                                   e2, hs2, ["seq", ["print", [["strlit", outer + " caught something"], ["nl"]]]], fin2],
                                  ["print", [["strlit", outer + " end"], ["nl"]]]]])
        fo = Fn(outer, [t0], "unit"); fo.level = 2
        self.fns.append(fo)
        for v in self.r.sample([0, 1, 1, 2, -1], 2):
            self.tops.append(["stmt", ["call", outer, [t0], "unit", [[t0, v]]]])

    def final_prints(self):
        for v in self.vars:
            if v.depth == 0 and (v.ty in SCALARS or (isinstance(v.ty, list) and v.ty[0] in ("list", "arr") and v.ty[1] in SCALARS)):
                self.tops.append(["stmt", ["print", [["strlit", v.name + "="], ["var", v.name], ["nl"]]]])

    def program(self):
        s = self.size
        self.def_types()
        for _ in range(self.r.randint(1, 1 + s)): self.def_global()
        if self.on("uni"):
            for un, fs in self.unis:
                if self.chance(0.7): self.showcase_union(un, fs)
        if self.chance(0.5): self.showcase_chunks()
        if self.on("overload") and self.chance(0.6): self.def_overloads()
        for _ in range(self.r.randint(1, 1 + s)):
            self.def_fun()
        if self.on("macro"):
            for _ in range(self.r.choice([0, 1, 1, 2])): self.def_macro()
        if self.on("gen") and self.chance(0.7):
            self.def_genfun()
            self.showcase_gen()
        if self.on("dom") and self.chance(0.75):
            self.def_cat()
            self.showcase_cat()
        if self.on("closure") and self.chance(0.6): self.def_fun(style="mk")
        if self.on("closure"):
            for _ in range(self.r.choice([0, 1, 1, 2])):
                sc = self.scalar_types()
                ty = T_fn([self.r.choice(sc) for _ in range(self.r.choice([0, 1, 1, 2]))], self.r.choice(sc))
                n = self.fresh("g")
                mks = [f for f in self.fns if tkey(f.res) == tkey(ty) and not f.throws]
                e = self.call(self.r.choice(mks), 2, 1) if mks and self.chance(0.5) else self.lam(ty, 2)
                self.tops.append(["var", n, ty, e]); self.vars.append(Var(n, ty, True, 0))
                args = [self.expr(t, 1, 0) for t in fn_args(ty)]
                self.tops.append(["stmt", ["print", [["app", ["var", n], args], ["nl"]]]])
            if self.chance(0.4):
                # a higher-order function
                sc = self.scalar_types()
                a = self.r.choice(sc); r_ = self.r.choice(sc)
                self.def_fun(args=[T_fn([a], r_), a], res=r_, style="hof")
        for _ in range(self.r.randint(0, s)): self.def_global()
        if self.on("exn") and self.exns and self.chance(0.6): self.def_fun(style="thrower")
        if self.chance(0.5): self.def_fun(style="rec")
        if self.on("exn") and self.exns and self.chance(0.45): self.def_handler_throws()
        if self.on("deadstore"):
            for _ in range(self.r.choice([0, 1, 1, 2])): self.def_deadstore_fun()
        self.showcase_calls()
        for _ in range(self.r.randint(2, 3 + 2 * s)):
            if self.chance(0.5):
                # a procedure holding a richer statement list, called once or twice
                f = self.def_fun(args=[], res="unit", style="plain")
                for _ in range(self.r.choice([1, 1, 2])):
                    if not f.throws or self.on("uncaught") and self.chance(0.1):
                        self.tops.append(["stmt", ["call", f.name, [], "unit", []]])
                    elif self.on("file-scope-nesting"):
                        ev = self.fresh("E")
                        self.tops.append(["stmt", ["try", ["call", f.name, [], "unit", []], ev, [], ["print", [["strlit", "caught"], ["nl"]]], ["none"]]])
            else:
                st = self.stmt(1 + (s > 1))
                if st is not None:
                    self.tops.append(["stmt", st])
            if self.chance(0.15): self.def_global()
        if self.on("error") and self.chance(0.15):
            self.tops.append(["stmt", ["if", self.expr("bool", 1, 1), ["error", self.r.choice(["boom", "bad thing", "E42"])], ["unit"]]])
        self.final_prints()
        return ["prog"] + self.tops

def generate(rng, n, size=None, features=None):
    """n programs; `size` 1..4 (None: drawn per program); `features`: iterable of feature names
    (ALL_FEATURES, plus the opt-in OPTIONAL_FEATURES), None = all standard ones"""
    import random
    out = []
    for _ in range(n):
        sub = random.Random(rng.getrandbits(64))
        for attempt in range(20):
            try:
                out.append(Gen(sub, size, features).program())
                break
            except (IndexError, ValueError, KeyError, RecursionError):
                continue
        else:
            out.append(["prog", ["stmt", ["print", [["strlit", "fallback"], ["nl"]]]]])
    return out

# --------------------------------------------------------------------------------------
# shrinking (hierarchical delta debugging over the tree)
# --------------------------------------------------------------------------------------

EXPR_TAGS = {"mi", "int", "bool", "strlit", "unit", "nl", "var", "bin", "un", "if", "seq", "exit", "decl", "assign",
             "call", "app", "lam", "mcall", "dcall", "self", "list", "arr", "arrnew", "index", "setidx", "rec",
             "field", "setfield", "uni", "case", "uget", "while", "for", "forin", "forgen", "break", "iterate",
             "ret", "generate", "yield", "throw", "try", "exnval", "error", "print"}
TOP_TAGS = {"fn", "const", "var", "macro", "recdef", "unidef", "exn", "cat", "dom", "stmt"}
KNOWN_TAGS = EXPR_TAGS | TOP_TAGS | {"prog"}
# positions of a node that hold types / names / signatures rather than expressions
_TYPE_POS = {"decl": (2,), "call": (2, 3), "lam": (1, 2, 3), "dcall": (4,), "self": (2,), "list": (1,), "arr": (1,),
             "arrnew": (1,), "generate": (1,), "fn": (2, 3, 4), "const": (2,), "var": (2,)}

def is_expr(x, parent_tag=None, pos=None):
    return isinstance(x, list) and x and isinstance(x[0], str) and x[0] in EXPR_TAGS

def expr_paths(node, path=(), top=True):
    """paths (tuples of indices) to every expression node below `node`, outermost first"""
    out = []
    if not isinstance(node, list):
        return out
    tag = node[0] if node and isinstance(node[0], str) else None
    skip = _TYPE_POS.get(tag, ()) if tag in KNOWN_TAGS else ()
    for i, ch in enumerate(node):
        if i == 0 and tag is not None:
            continue
        if i in skip:
            continue
        if isinstance(ch, list):
            if ch and isinstance(ch[0], str) and ch[0] in EXPR_TAGS and not (tag in ("recdef", "unidef", "cat", "exn")):
                # a list whose head is an expression tag: could still be a type like ["list", T] in a
                # type position we do not know about; the model rejects nonsense, so it is harmless
                out.append(path + (i,))
            out.extend(expr_paths(ch, path + (i,), False))
    return out

def get_at(node, path):
    for i in path:
        node = node[i]
    return node

def set_at(node, path, val):
    """copy of `node` with the subtree at `path` replaced"""
    if not path:
        return val
    c = list(node)
    c[path[0]] = set_at(node[path[0]], path[1:], val)
    return c

def node_size(x):
    return 1 + sum(node_size(y) for y in x) if isinstance(x, list) else 0

SIMPLE = [["mi", 0], ["int", 0], ["bool", 0], ["bool", 1], ["strlit", ""], ["unit"], ["mi", 1], ["int", 1]]

def _assigned(x, acc):
    if isinstance(x, list) and x:
        if x[0] == "assign" and len(x) == 3 and isinstance(x[1], str):
            acc.add(x[1])
        if x[0] == "lam":          # a closure's own `free` list covers what it assigns
            return
        for y in x:
            _assigned(y, acc)

def normalize_frees(x):
    """drop `free` names a function or closure no longer assigns (keeps shrunk programs natural)"""
    if not isinstance(x, list) or not x:
        return x
    y = [normalize_frees(c) for c in x]
    if y[0] == "fn" and len(y) == 6 and isinstance(y[4], list):
        acc = set(); _assigned(y[5], acc)
        y[4] = [n for n in y[4] if n in acc]
    elif y[0] == "lam" and len(y) == 5 and isinstance(y[3], list):
        acc = set(); _assigned(y[4], acc)
        y[3] = [n for n in y[3] if n in acc]
    return y

def shrink(prog, pred, budget=400, log=None):
    """smallest program found (by tree size) on which `pred` still holds.  `pred(list of progs)`
    returns a list of booleans (batch form, so the model can be asked for many candidates at once)."""
    best = prog
    used = 0
    def try_batch(cands):
        nonlocal best, used
        if not cands:
            return False
        cands = [normalize_frees(c) for c in cands[:max(1, budget - used)]]
        used += len(cands)
        oks = pred(cands)
        good = [c for c, ok in zip(cands, oks) if ok]
        if good:
            best = min(good, key=node_size)
            return True
        return False
    # 1. drop top-level forms (chunks, then singles)
    chunk = max(1, (len(best) - 1) // 2)
    while chunk >= 1 and used < budget:
        i = 1
        progressed = False
        while i < len(best) and used < budget:
            cand = best[:i] + best[i + chunk:]
            if len(cand) > 1 and try_batch([cand]):
                progressed = True
            else:
                i += chunk
        if chunk == 1 and not progressed:
            break
        chunk = max(1, chunk // 2) if chunk > 1 else (1 if progressed else 0)
    # 2. replace subexpressions (outermost first), drop sequence items
    changed = True
    while changed and used < budget:
        changed = False
        for path in expr_paths(best):
            try:
                node = get_at(best, path)
            except (IndexError, TypeError):
                break
            if not isinstance(node, list) or node_size(node) <= 1:
                continue
            cands = []
            for s in SIMPLE:
                if node != s:
                    cands.append(set_at(best, path, s))
            for ch in node[1:]:
                if isinstance(ch, list) and ch and isinstance(ch[0], str) and ch[0] in EXPR_TAGS:
                    cands.append(set_at(best, path, ch))
                elif isinstance(ch, list):
                    for g in ch:
                        if isinstance(g, list) and g and isinstance(g[0], str) and g[0] in EXPR_TAGS:
                            cands.append(set_at(best, path, g))
            if node[0] == "seq" and len(node) > 2:
                for k in range(1, len(node)):
                    cands.append(set_at(best, path, node[:k] + node[k + 1:]))
            if node[0] == "print" and len(node[1]) > 1:
                for k in range(len(node[1])):
                    cands.append(set_at(best, path, ["print", node[1][:k] + node[1][k + 1:]]))
            before = node_size(best)
            if try_batch(cands) and node_size(best) < before:
                changed = True
                break
            if used >= budget:
                break
    if log is not None:
        log.append("shrink: %d candidates tried, size %d -> %d" % (used, node_size(prog), node_size(best)))
    return best

# --------------------------------------------------------------------------------------
# typed mutations: ill-typed variants of a well-typed program (for C06)
# --------------------------------------------------------------------------------------

MUTATION_KINDS = ("literal-of-wrong-type", "unknown-variable", "unknown-function", "extra-argument",
                  "missing-argument", "assign-wrong-type", "string-plus-integer", "condition-not-boolean",
                  "break-outside-loop", "wrong-result-annotation", "unknown-field", "call-non-function")

def _lit_of_other_type(t, rng):
    other = {"mi": ["strlit", "oops"], "int": ["strlit", "oops"], "strlit": ["mi", 7], "bool": ["strlit", "no"]}
    return other[t]

def mutate_illtyped(rng, prog, kinds=None, tries=40):
    """(mutant, kind, path) or None.  Every mutant violates the typing rules of the subset in a way
    Aldor's own rules reject as well (no meaning for the application / identifier / mismatched types);
    the model's checker must answer `reject` = "type: …" for it."""
    kinds = list(kinds or MUTATION_KINDS)
    paths = expr_paths(prog)
    for _ in range(tries):
        kind = rng.choice(kinds)
        cand = [p for p in paths]
        rng.shuffle(cand)
        for path in cand[:200]:
            node = get_at(prog, path)
            if not (isinstance(node, list) and node and isinstance(node[0], str)):
                continue
            tag = node[0]
            parent = get_at(prog, path[:-1]) if path else None
            ptag = parent[0] if isinstance(parent, list) and parent and isinstance(parent[0], str) else None
            m = None
            if kind == "literal-of-wrong-type" and tag in ("mi", "int") and ptag in ("bin",) and parent[1] in ("add", "sub", "mul", "quo", "rem", "lt", "le", "gt", "ge"):
                m = ["strlit", "oops"]
            elif kind == "unknown-variable" and tag == "var":
                m = ["var", "zz9"]
            elif kind == "unknown-function" and tag == "call":
                m = ["call", "zzf9"] + node[2:]
            elif kind == "extra-argument" and tag == "call":
                m = ["call", node[1], node[2] + ["mi"], node[3], node[4] + [["mi", 1]]]
            elif kind == "missing-argument" and tag == "call" and node[4]:
                m = ["call", node[1], node[2][:-1], node[3], node[4][:-1]]
            elif kind == "assign-wrong-type" and tag == "assign" and node[2][0] in ("mi", "int", "bool"):
                m = ["assign", node[1], ["strlit", "oops"]]
            elif kind == "string-plus-integer" and tag == "bin" and node[1] in ("add", "mul", "sub") and node[2][0] in ("mi", "int", "var"):
                m = ["bin", node[1], node[2], ["strlit", "oops"]]
            elif kind == "condition-not-boolean" and tag in ("if", "while") and node[1][0] != "strlit":
                m = [tag, ["strlit", "yes"]] + node[2:]
            elif kind == "break-outside-loop" and tag == "print" and len(path) == 2 and get_at(prog, path[:1])[0] == "stmt":
                m = ["break"]
            elif kind == "wrong-result-annotation" and tag == "call" and node[3] in ("mi", "int", "bool"):
                m = ["call", node[1], node[2], "str", node[4]]
            elif kind == "unknown-field" and tag == "field":
                m = ["field", node[1], "zzfield9"]
            elif kind == "call-non-function" and tag == "app" and node[1][0] == "var":
                m = ["app", ["mi", 3], node[2]]
            if m is not None and m != node:
                return set_at(prog, path, m), kind, list(path)
    return None
