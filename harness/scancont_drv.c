/* C13 / scan.c driver: asks the repository's scanIsContinued (exported by scan.h, linked from the
 * scratch build of the current tree) about the lines of one interactive session.
 *
 * request:  S <line> <line> ...     each <line> = the bytes of the line in hex (normally ending 0a),
 *                                   `.` = the empty string, `-` = the NULL pointer
 * answer:   one digit per line, 1 = "continued", 0 = "complete"   (`e` for a malformed token)
 *
 * scanIsContinued keeps its state in function-local statics.  Every request must start from the
 * initial state, as the first step of a fresh `aldor -Gloop` does.  Two ways:
 *  - SIC_RESET defined: the driver is linked with a copy of the build's scan.o in which objcopy
 *    has renamed and globalised the statics (`unmatchedBraces.N` -> sic_unmatchedBraces …; done by
 *    checks/parts/replcont.py); they are set to their initial values before each request;
 *  - otherwise every request is answered by a forked child (slower, no tool needed). */
#include "axlgen.h"
#include "scan.h"
#include "fint.h"
#include "store.h"
#include "opsys.h"
#include "debug.h"
#include "drv_common.h"
#include <unistd.h>
#include <sys/wait.h>

#ifdef SIC_RESET
extern int sic_unmatchedBraces;
extern Bool sic_isDefining, sic_inStringLiteral, sic_sawEscape;
#ifdef SIC_HAVE_TOPLINE
extern Bool sic_topLine;
#endif
/* the initial values are read from the object itself before the first call, so that an edited
 * initialiser in scan.c is seen, not papered over */
static int sic0_ub;
static Bool sic0_def, sic0_str, sic0_esc, sic0_top;
static void sic_snapshot(void)
{
	sic0_ub = sic_unmatchedBraces;
	sic0_def = sic_isDefining;
	sic0_str = sic_inStringLiteral;
	sic0_esc = sic_sawEscape;
#ifdef SIC_HAVE_TOPLINE
	sic0_top = sic_topLine;
#endif
}
static void sic_reset(void)
{
	sic_unmatchedBraces = sic0_ub;
	sic_isDefining = sic0_def;
	sic_inStringLiteral = sic0_str;
	sic_sawEscape = sic0_esc;
#ifdef SIC_HAVE_TOPLINE
	sic_topLine = sic0_top;
#endif
}
#endif

static int hexv(int c)
{
	if (c >= '0' && c <= '9') return c - '0';
	if (c >= 'a' && c <= 'f') return c - 'a' + 10;
	if (c >= 'A' && c <= 'F') return c - 'A' + 10;
	return -1;
}

/* decode in place; returns 0 on malformed input or an embedded NUL */
static int unhex(char *t, char *out)
{
	size_t n = strlen(t), i;
	if (n % 2) return 0;
	for (i = 0; i < n; i += 2) {
		int a = hexv(t[i]), b = hexv(t[i + 1]);
		if (a < 0 || b < 0 || (a == 0 && b == 0)) return 0;
		out[i / 2] = (char) (a * 16 + b);
	}
	out[n / 2] = 0;
	return 1;
}

static void session(void)
{
	int i;
	for (i = 1; i < drv_ntok; i++) {
		char *t = drv_tok[i];
		Bool r;
		if (!strcmp(t, "-")) r = scanIsContinued((String) 0);
		else if (!strcmp(t, ".")) { char e[1]; e[0] = 0; r = scanIsContinued(e); }
		else {
			char *buf = (char *) malloc(strlen(t) / 2 + 2);
			if (!unhex(t, buf)) { putchar('e'); free(buf); continue; }
			r = scanIsContinued(buf);
			free(buf);
		}
		putchar(r ? '1' : '0');
	}
}

int main(int argc, char **argv)
{
	osInit();
	dbInit();
#ifdef SIC_RESET
	sic_snapshot();
#endif
	while (drv_read()) {
		pid_t pid;
		int status = 0;
		if (drv_ntok == 0 || strcmp(drv_tok[0], "S")) { printf("bad-op"); DRV_EMIT(); continue; }
#ifdef SIC_RESET
		sic_reset();
		session();
		DRV_EMIT();
		continue;
#endif
		fflush(stdout);
		pid = fork();
		if (pid < 0) { printf("fork-failed"); DRV_EMIT(); continue; }
		if (pid == 0) {
			session();
			fflush(stdout);
			_exit(0);
		}
		while (waitpid(pid, &status, 0) < 0)
			;
		if (WIFSIGNALED(status)) printf("FAULT(-%d)", WTERMSIG(status));
		else if (WEXITSTATUS(status) != 0) printf("FAULT(%d)", WEXITSTATUS(status));
		DRV_EMIT();
	}
	return 0;
}
