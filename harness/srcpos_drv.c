/* C15 / srcpos.c + include.c driver.  srcpos.c is #included so that the SPOS_* field widths
 * (macros private to srcpos.c) and the static global line table can be printed; everything
 * else comes from the scratch build's libraries.
 *
 * requests (one per line, one answer line each):
 *   consts
 *   pack <line> <col>              sposGet, then global line / char / flags
 *   offset <line> <col> <delta>    sposOffset(sposGet(line,col), delta)
 *   mac <line> <col> <delta>       sposOffset(sposMacroExpanded(sposGet(line,col)), delta)
 *   cmp <l1> <c1> <l2> <c2>        sposCmp sposEqual sposMin sposMax
 *   special <line> <col>           sposIsSpecial, sposTop, sposEnd
 *   H op ; op ; ...                history on a fresh global line table:
 *        new <file|-> <flno> <glno> <cno>   sposNew
 *        grow <file> <flno> <glno>          sposGrowGloLineTbl
 *        pos <glno> <cno>                   sposGet
 *        off <delta>                        sposOffset(previous position, delta)
 *      every op that makes a position prints  hex:gline:file:line:char  decoded at once;
 *      at the end the table is printed and every position is decoded again.
 *   I ev ev ...                    materialise source files from the events, run the real
 *                                  includer (includeFile) on them, print every source line's
 *                                  position decoded, and the table.
 *        open <f> | line | lines <n> | ifz | skip | endif | hl <n> <f|-> | inc <f> | close
 *   R ev ev ...                    as I, with `err <d> <id> <prio>` after an event that makes a source
 *                                  line: after the real includer has run, comsgError(ExplicitMsg "m<id>")
 *                                  is issued at sposOffset(that line's position, d), in the order of
 *                                  <prio>; then the real comsgFini prints its report, which is
 *                                  returned as  H:file:line  M:line:col:serial:text ...  n=<count>
 */
#include "srcpos.c"
#include "include.h"
#include "srcline.h"
#include "fname.h"
#include "file.h"
#include "fluid.h"
#include "opsys.h"
#include "debug.h"
#include "comsg.h"
#include "list.h"
#include "drv_common.h"
#include "absyn.h"
#include "comsgdb.h"
#include <unistd.h>
#include <sys/stat.h>

static ULong num(const char *s) { return strtoull(s, NULL, 0); }
static long  snum(const char *s) { return strtol(s, NULL, 0); }

static const char *fnm(FileName fn)
{
	return fn ? fnameUnparseStatic(fn) : "-";
}

static void showpos(SrcPos p)
{
	printf("%lx:%lu:%s:%lu:%lu", (ULong) p, (ULong) sposGlobalLine(p), fnm(sposFile(p)),
	       (ULong) sposLine(p), (ULong) sposChar(p));
}

static void showtable(void)
{
	int i;
	printf("T%d/%d[", gloPos, gloArgc);
	for (i = 0; i < gloArgc; i++)
		printf("%s%lu,%s,%lu", i ? " " : "", (ULong) gloLineTbl[i].glno, fnm(gloLineTbl[i].fn),
		       (ULong) gloLineTbl[i].flno);
	printf("]");
}

#define MAXPOS 100000
static SrcPos posv[MAXPOS];
static int    posc;

static void history(void)
{
	int i = 1, j;
	SrcPos cur = sposNone;
	sposInit();
	posc = 0;
	while (i < drv_ntok) {
		char *op = drv_tok[i];
		int n = 0;
		while (i + 1 + n < drv_ntok && strcmp(drv_tok[i + 1 + n], ";")) n++;
		if (!strcmp(op, "new") && n == 4) {
			FileName fn = strcmp(drv_tok[i + 1], "-") ? fnameParse(drv_tok[i + 1]) : 0;
			cur = sposNew(fn, num(drv_tok[i + 2]), num(drv_tok[i + 3]), num(drv_tok[i + 4]));
			showpos(cur); putchar(' ');
			if (posc < MAXPOS) posv[posc++] = cur;
		}
		else if (!strcmp(op, "grow") && n == 3) {
			FileName fn = fnameParse(drv_tok[i + 1]);
			sposGrowGloLineTbl(fn, num(drv_tok[i + 2]), num(drv_tok[i + 3]));
		}
		else if (!strcmp(op, "pos") && n == 2) {
			cur = sposGet(num(drv_tok[i + 1]), num(drv_tok[i + 2]));
			showpos(cur); putchar(' ');
			if (posc < MAXPOS) posv[posc++] = cur;
		}
		else if (!strcmp(op, "off") && n == 1) {
			cur = sposOffset(cur, (int) snum(drv_tok[i + 1]));
			showpos(cur); putchar(' ');
			if (posc < MAXPOS) posv[posc++] = cur;
		}
		else { printf("bad-op"); return; }
		i += 1 + n;
		if (i < drv_ntok) i++;		/* the ';' */
	}
	showtable();
	for (j = 0; j < posc; j++) { putchar(' '); showpos(posv[j]); }
	sposFini();
}

/* ---- the real includer on materialised files ---- */
static char workdir[256];

static int padfiles = 0;

static int materialise(void)
{
	FILE *stack[64];
	int sp = 0, i = 1;
	while (i < drv_ntok) {
		char *op = drv_tok[i];
		if (!strcmp(op, "open") && i + 1 < drv_ntok && sp == 0) {
			stack[sp++] = fopen(drv_tok[i + 1], "w"); i += 2;
			if (!stack[sp - 1]) return 0;
		}
		else if (sp == 0) return 0;
		else if (!strcmp(op, "line"))  { fputs("-- l\n", stack[sp - 1]); i++; }
		else if (!strcmp(op, "lines") && i + 1 < drv_ntok) {
			long n = snum(drv_tok[i + 1]);
			while (n-- > 0) fputs(n & 1 ? "\n" : "-- l\n", stack[sp - 1]);
			i += 2;
		}
		else if (!strcmp(op, "ifz"))   { fputs("#if NeverAssertedZz\n", stack[sp - 1]); i++; }
		else if (!strcmp(op, "skip"))  { fputs("skipped line\n", stack[sp - 1]); i++; }
		else if (!strcmp(op, "endif")) { fputs("#endif\n", stack[sp - 1]); i++; }
		else if (!strcmp(op, "err") && i + 3 < drv_ntok) i += 4;
		else if (!strcmp(op, "hl") && i + 2 < drv_ntok) {
			if (padfiles && strcmp(drv_tok[i + 2], "-") && access(drv_tok[i + 2], F_OK)) {
				FILE *pf = fopen(drv_tok[i + 2], "w"); int k;
				if (!pf) return 0;
				for (k = 0; k < 3000; k++) fputs("-- pad\n", pf);
				fclose(pf);
			}
			if (strcmp(drv_tok[i + 2], "-")) fprintf(stack[sp - 1], "#line %s \"%s\"\n", drv_tok[i + 1], drv_tok[i + 2]);
			else fprintf(stack[sp - 1], "#line %s\n", drv_tok[i + 1]);
			i += 3;
		}
		else if (!strcmp(op, "inc") && i + 1 < drv_ntok && sp < 63) {
			fprintf(stack[sp - 1], "#include \"%s\"\n", drv_tok[i + 1]);
			stack[sp++] = fopen(drv_tok[i + 1], "w"); i += 2;
			if (!stack[sp - 1]) return 0;
		}
		else if (!strcmp(op, "close")) { fclose(stack[--sp]); i++; }
		else return 0;
	}
	while (sp > 0) fclose(stack[--sp]);
	return 1;
}

static void cleanup(void)
{
	int i;
	for (i = 1; i + 1 < drv_ntok; i++)
		if (!strcmp(drv_tok[i], "open") || !strcmp(drv_tok[i], "inc")) unlink(drv_tok[i + 1]);
		else if (padfiles && !strcmp(drv_tok[i], "hl") && i + 2 < drv_ntok && strcmp(drv_tok[i + 2], "-")) unlink(drv_tok[i + 2]);
}

static void includer(void)
{
	SrcLineList sll, l;
	FileName top;
	if (drv_ntok < 3 || strcmp(drv_tok[1], "open") || !materialise()) { cleanup(); printf("bad-op"); return; }
	sposInit();
	comsgInit();
	top = fnameParse(drv_tok[2]);
	sll = includeFile(top);
	for (l = sll; l; l = cdr(l)) {
		SrcLine sl = car(l);
		printf("%lu:%s:%lu:%lu ", (ULong) sposGlobalLine(sl->spos), fnm(sposFile(sl->spos)),
		       (ULong) sposLine(sl->spos), (ULong) sposChar(sl->spos));
	}
	showtable();
	printf(" total=%ld", inclTotalLineCount());
	inclFree(sll);
	comsgFini();
	sposFini();
	cleanup();
}

/* ---- the real report (comsgFini -> comsgReportFile) on messages at includer-made positions ---- */
struct errreq { int mark, d, prio, seq; char *id; };
static int errcmp(const void *a, const void *b)
{
	const struct errreq *x = a, *y = b;
	return x->prio != y->prio ? (x->prio < y->prio ? -1 : 1) : x->seq - y->seq;
}

static void reporter(void)
{
	static struct errreq errs[4096];
	static SrcPos marks[MAXPOS];
	SrcLineList sll, l;
	int nerr = 0, nmark = 0, i, count = 0;
	char *buf = NULL; size_t sz = 0; FILE *save, *mem; char *ln, *nx;
	padfiles = 1;
	if (drv_ntok < 3 || strcmp(drv_tok[1], "open") || !materialise()) { cleanup(); padfiles = 0; printf("bad-op"); return; }
	/* which source line does each err belong to */
	for (i = 3; i < drv_ntok; ) {
		char *op = drv_tok[i];
		if (!strcmp(op, "line") || !strcmp(op, "ifz") || !strcmp(op, "endif")) { nmark++; i++; }
		else if (!strcmp(op, "lines")) { nmark += atoi(drv_tok[i + 1]); i += 2; }
		else if (!strcmp(op, "inc")) { nmark++; i += 2; }
		else if (!strcmp(op, "hl")) i += 3;
		else if (!strcmp(op, "err")) {
			if (nerr < 4096 && nmark > 0) {
				errs[nerr].mark = nmark - 1; errs[nerr].d = atoi(drv_tok[i + 1]); errs[nerr].id = drv_tok[i + 2];
				errs[nerr].prio = atoi(drv_tok[i + 3]); errs[nerr].seq = nerr; nerr++;
			}
			i += 4;
		}
		else i++;
	}
	qsort(errs, nerr, sizeof errs[0], errcmp);
	sposInit();
	comsgInit();
	comsgSetOption("no-emax");
	sll = includeFile(fnameParse(drv_tok[2]));
	nmark = 0;
	for (l = sll; l && nmark < MAXPOS; l = cdr(l)) marks[nmark++] = car(l)->spos;
	for (i = 0; i < nerr; i++) {
		char text[80];
		if (errs[i].mark >= nmark) continue;
		snprintf(text, sizeof text, "m%s", errs[i].id);
		comsgError(abNewNothing(sposOffset(marks[errs[i].mark], errs[i].d)), ALDOR_E_ExplicitMsg, text);
	}
	fflush(stdout);
	save = osStdout;
	mem = open_memstream(&buf, &sz);
	osStdout = mem;
	comsgFini();
	osStdout = save;
	fclose(mem);
	for (ln = buf; ln && *ln; ln = nx) {
		int a, b, c; char t[80], fn[256];
		nx = strchr(ln, '\n');
		if (nx) *nx++ = 0;
		if (ln[0] == '"') {
			char *q = strchr(ln + 1, '"');
			if (q && sscanf(q, "\", line %d:", &a) == 1) { *q = 0; printf("H:%s:%d ", ln + 1, a); }
		}
		else if (sscanf(ln, "[L%d C%d] #%d (Error) %79s", &a, &b, &c, t) == 4) { printf("M:%d:%d:%d:%s ", a, b, c, t); count++; }
	}
	printf("n=%d", count);
	free(buf);
	inclFree(sll);
	sposFini();
	cleanup();
	padfiles = 0;
}

int main(int argc, char **argv)
{
	osInit();
	dbInit();
	snprintf(workdir, sizeof workdir, "%s/srcpos-drv-XXXXXX", getenv("TMPDIR") ? getenv("TMPDIR") : "/tmp");
	if (!mkdtemp(workdir) || chdir(workdir)) { perror("workdir"); return 2; }
	while (drv_read()) {
		if (drv_ntok == 0) { printf("bad-op"); DRV_EMIT(); continue; }
		if (!strcmp(drv_tok[0], "consts") && drv_ntok == 1) {
			printf("stk=%d mac=%d cno=%d lno=%d macshift=%d cnoshift=%d lnoshift=%d ulong=%d macmask=%lx cnomask=%lx lnomask=%lx none=%lx top=%lx end=%lx",
			       (int) SPOS_STK_NBITS, (int) SPOS_MAC_NBITS, (int) SPOS_CNO_NBITS, (int) SPOS_LNO_NBITS,
			       (int) SPOS_MAC_SHIFT, (int) SPOS_CNO_SHIFT, (int) SPOS_LNO_SHIFT, (int) bitsizeof(ULong),
			       (ULong) SPOS_MAC_MASK, (ULong) SPOS_CNO_MASK, (ULong) SPOS_LNO_MASK,
			       (ULong) sposNone, (ULong) sposTop(), (ULong) sposEnd());
		}
		else if (!strcmp(drv_tok[0], "pack") && drv_ntok == 3) {
			SrcPos p = sposGet(num(drv_tok[1]), num(drv_tok[2]));
			printf("%lx %lu %lu %d", (ULong) p, (ULong) sposGlobalLine(p), (ULong) sposChar(p), (int) sposIsMacroExpanded(p));
		}
		else if ((!strcmp(drv_tok[0], "offset") || !strcmp(drv_tok[0], "mac")) && drv_ntok == 4) {
			SrcPos p = sposGet(num(drv_tok[1]), num(drv_tok[2]));
			if (drv_tok[0][0] == 'm') p = sposMacroExpanded(p);
			p = sposOffset(p, (int) snum(drv_tok[3]));
			printf("%lx %lu %lu %d", (ULong) p, (ULong) sposGlobalLine(p), (ULong) sposChar(p), (int) sposIsMacroExpanded(p));
		}
		else if (!strcmp(drv_tok[0], "cmp") && drv_ntok == 5) {
			SrcPos p = sposGet(num(drv_tok[1]), num(drv_tok[2]));
			SrcPos q = sposGet(num(drv_tok[3]), num(drv_tok[4]));
			printf("%d %d %lx %lx", sposCmp(p, q), (int) sposEqual(p, q), (ULong) sposMin(p, q), (ULong) sposMax(p, q));
		}
		else if (!strcmp(drv_tok[0], "special") && drv_ntok == 3) {
			SrcPos p = sposGet(num(drv_tok[1]), num(drv_tok[2]));
			printf("%d", (int) sposIsSpecial(p));
		}
		else if (!strcmp(drv_tok[0], "H")) history();
		else if (!strcmp(drv_tok[0], "I")) includer();
		else if (!strcmp(drv_tok[0], "R")) reporter();
		else printf("bad-op");
		DRV_EMIT();
	}
	chdir("/");
	rmdir(workdir);
	return 0;
}
