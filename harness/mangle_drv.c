/* C16 / part `mangle`: driver around the repository's genc.c (C identifier generation and the
 * file-splitting loop).  genc.c is #included so that its static functions and option variables
 * are reachable; the copy of genc.o inside libphase.a is never pulled in by the linker because
 * every external symbol it defines is already defined here.
 *
 * requests (names are hex byte strings, `-` = empty string):
 *   hash <hex>                              -> <strHash decimal> =<gc0IdHashInBuf text>
 *   valid <idlen> <hex>                     -> =<gc0ValidIdInBuf text>
 *   global <idlen> <idhash 0/1> <hex>       -> =<gc0MultVarId("G",0,name)> =<gc0MultVarId("pG",0,name)>
 *   local <idlen> <kindhex> <index> <hex>   -> =<gc0MultVarId(kind,index,name)> =<gc0VarId(kind,index)>
 *   lit <std 0/1> <s|c> <hex>               -> hex of what the real ccoPrint writes for a string (s) or
 *                                              character (c) literal token with that text, old or standard C
 *   inits <idlen> <smax> <unithex> <importhex>...
 *        -> the sorted set of INIT__... identifiers occurring anywhere in genC's code for a unit that
 *           imports the initialisers of the named units ; the same for genAXLmainC(unit)
 *   split <smax> <nglo> <basehex> <body sizes...>      (old C;  `splitS ...` = standard C)
 *        -> <n> [CF indices/INIT indices defined by code-list element 0] ... ;
 *           <file>=<CF indices/INIT indices defined in the written file> ... (sorted by name)
 */
#include "genc.c"
#include "sexpr.h"
#include "emit.h"
#include "fname.h"
#include "drv_common.h"
extern int ccDoStandardCFlag;	/* ccomp.c */

static char *unhex(const char *h)
{
	size_t n, i;
	char *r;
	if (!strcmp(h, "-")) { r = malloc(1); r[0] = 0; return r; }
	n = strlen(h) / 2;
	r = malloc(n + 1);
	for (i = 0; i < n; i++) {
		unsigned v;
		sscanf(h + 2 * i, "%2x", &v);
		r[i] = (char) v;
	}
	r[n] = 0;
	return r;
}

static String ccoIdText(CCode cc)
{
	return symString(cc->ccoToken.symbol);
}

/* ------------------------------------------------------------------ split
 * Builds a Foam unit with 1 + k program constants whose bodies have the requested number of
 * statements and `nglo` non-program definitions, runs genC on it and reports, for every element
 * of the returned code list, which program functions (CF<n>) it defines.
 */
static Buffer sxbuf;

static void put_prog(int nstmts, int isTop, int k, int nglo)
{
	int j;
	bufPrintf(sxbuf, "(Prog 0 0 NOp 0 0 0 0 0 (DDecl Params) (DDecl Locals) (DFluid) (DEnv 4) (Seq");
	for (j = 0; j < nstmts; j++) bufPrintf(sxbuf, " (NOp)");
	bufPrintf(sxbuf, "))");
}

static Foam make_unit(int nglo, int nb, int *bodies)
{
	int i;
	SExpr sx;
	FILE *f;
	Foam foam;
	if (!sxbuf) sxbuf = bufNew();
	bufStart(sxbuf);
	bufPrintf(sxbuf, "(Unit (DFmt (DDecl Globals (GDecl Clos \"u\" -1 4 0 Init)");
	for (i = 0; i < nglo; i++)
		bufPrintf(sxbuf, " (GDecl Word \"g%d\" -1 4 0 Foam)", i);
	bufPrintf(sxbuf, ") (DDecl Consts");
	for (i = 0; i < nb; i++)
		bufPrintf(sxbuf, " (Decl Prog \"c%d\" -1 4)", i);
	bufPrintf(sxbuf, ") (DDecl LocalEnv) (DDecl Fluids) (DDecl Locals) (DDecl LocalEnv)) (DDef");
	for (i = 0; i < nb; i++) {
		bufPrintf(sxbuf, " (Def (Const %d c%d) ", i, i);
		put_prog(bodies[i], i == 0, nb, nglo);
		bufPrintf(sxbuf, ")");
	}
	for (i = 0; i < nglo; i++)
		bufPrintf(sxbuf, " (Def (Glo %d g%d) (SInt %d))", i + 1, i, i);
	bufPrintf(sxbuf, "))");
	bufAdd1(sxbuf, char0);
	f = tmpfile();
	fputs(bufChars(sxbuf), f);
	rewind(f);
	foam = foamRdSExpr(f, NULL, NULL);
	fclose(f);
	return foam;
}

static void list_funs(CCode cc, Buffer out, Buffer inits)
{
	/* walk a CCode tree; for every function definition (CCO_FDef) whose name is CF<n>_...
	 * append n to `out`, for every INIT__<k>_... append k to `inits` */
	int i;
	if (!cc) return;
	if (ccoInfo(ccoTag(cc)).kind == CCOK_Token) return;
	if (ccoTag(cc) == CCO_FDef) {
		CCode d = ccoArgv(cc)[1];
		while (d && ccoInfo(ccoTag(d)).kind != CCOK_Token && ccoArgc(d) > 0) d = ccoArgv(d)[0];
		if (d && ccoInfo(ccoTag(d)).kind == CCOK_Token) {
			String s = symString(d->ccoToken.symbol);
			if (s[0] == 'C' && s[1] == 'F' && isdigit(s[2]))
				bufPrintf(out, "%s%d", bufPosition(out) ? "," : "", atoi(s + 2));
			else if (!strncmp(s, "INIT__", 6) && isdigit(s[6]))
				bufPrintf(inits, "%s%d", bufPosition(inits) ? "," : "", atoi(s + 6));
		}
		return;
	}
	for (i = 0; i < ccoArgc(cc); i++) list_funs(ccoArgv(cc)[i], out, inits);
}

static int cmpstr(const void *a, const void *b) { return strcmp(*(char **) a, *(char **) b); }

#include <dirent.h>
#include <unistd.h>

/* which CF<n> functions are defined in a written file: lines that start with CF<digits>_ */
static void file_funs(const char *path, Buffer out, Buffer inits)
{
	FILE *f = fopen(path, "r");
	char *ln = NULL; size_t cap = 0;
	if (!f) { bufPrintf(out, "unreadable"); return; }
	while (getline(&ln, &cap, f) >= 0) {
		if (ln[0] == 'C' && ln[1] == 'F' && isdigit(ln[2]))
			bufPrintf(out, "%s%d", bufPosition(out) ? "," : "", atoi(ln + 2));
		else if (!strncmp(ln, "INIT__", 6) && isdigit(ln[6]))
			bufPrintf(inits, "%s%d", bufPosition(inits) ? "," : "", atoi(ln + 6));
	}
	free(ln);
	fclose(f);
}

static void run_split(void)
{
	int smax, nglo, nb, i, nf = 0, *bodies;
	char *base, dir[256], path[1024], *names[8192];
	const char *tmp = getenv("VERIF_TMPDIR");
	Foam foam;
	CCodeList l, l0;
	EmitInfo finfo;
	FileName srcfn;
	DIR *d;
	struct dirent *e;
	Buffer out = bufNew(), inits = bufNew();
	if (drv_ntok < 5) { printf("bad-op"); return; }
	/* `split` prints old C, `splitS` standard C (emitTheC asks ccDoStandardC()) */
	ccDoStandardCFlag = !strcmp(drv_tok[0], "splitS");
	smax = atoi(drv_tok[1]);
	nglo = atoi(drv_tok[2]);
	base = unhex(drv_tok[3]);
	nb = drv_ntok - 4;
	bodies = malloc(sizeof(int) * nb);
	for (i = 0; i < nb; i++) bodies[i] = atoi(drv_tok[4 + i]);
	genCSetSMax(smax);
	genCSetIdLen(0);
	genCSetIdHash(true);
	foam = make_unit(nglo, nb, bodies);
	l0 = l = genC(foam, base);
	printf("%d", (int) listLength(CCode)(l));
	for (; l; l = cdr(l)) {
		bufStart(out); bufStart(inits);
		list_funs(car(l), out, inits);
		bufAdd1(out, char0); bufAdd1(inits, char0);
		printf(" [%s/%s]", bufChars(out), bufChars(inits));
	}
	/* now let the real emitTheC write the files into a fresh directory */
	snprintf(dir, sizeof dir, "%s/mangle-drv-XXXXXX", tmp && *tmp ? tmp : "/var/tmp");
	if (!mkdtemp(dir)) { printf(" ; mkdtemp-failed"); return; }
	emitSetOutputDir(dir);
	srcfn = fnameNew(dir, base, "as");
	finfo = emitInfoNew(srcfn);
	emitTheC(finfo, l0);
	d = opendir(dir);
	while (d && (e = readdir(d)) != NULL) {
		if (e->d_name[0] == '.') continue;
		if (nf < 8192) names[nf++] = strdup(e->d_name);
	}
	if (d) closedir(d);
	qsort(names, nf, sizeof(char *), cmpstr);
	printf(" ;");
	for (i = 0; i < nf; i++) {
		snprintf(path, sizeof path, "%s/%s", dir, names[i]);
		bufStart(out); bufStart(inits);
		file_funs(path, out, inits);
		bufAdd1(out, char0); bufAdd1(inits, char0);
		printf(" %s=%s/%s", names[i], bufChars(out), bufChars(inits));
		unlink(path);
		free(names[i]);
	}
	rmdir(dir);
	listFreeDeeply(CCode)(l0, ccoFree);
	free(bodies); free(base);
	bufFree(out); bufFree(inits);
}


/* ------------------------------------------------------------------ literals through ccoPrint */
static void run_lit(void)
{
	char *s = unhex(drv_tok[3]), *mem = NULL;
	size_t len = 0, i, a, b;
	FILE *f = open_memstream(&mem, &len);
	CCode cc = ccoNewToken(drv_tok[2][0] == 'c' ? CCO_CharVal : CCO_StringVal, symIntern(s));
	ccoPrint(f, cc, atoi(drv_tok[1]) ? CCOM_StandardC : CCOM_OldC);
	fclose(f);
	/* strip the layout ccoPrint adds around the token (newlines, blanks) */
	a = 0; b = len;
	while (a < b && (mem[a] == '\n' || mem[a] == ' ' || mem[a] == '\t')) a++;
	while (b > a && (mem[b-1] == '\n' || mem[b-1] == ' ' || mem[b-1] == '\t')) b--;
	if (a == b) printf("-");
	for (i = a; i < b; i++) printf("%02x", (unsigned char) mem[i]);
	free(mem); free(s);
}

/* ------------------------------------------------------------------ module initialiser names */
static char *initv[4096];
static int initc;

static void collect_inits(CCode cc)
{
	int i;
	if (!cc) return;
	if (ccoInfo(ccoTag(cc)).kind == CCOK_Token) {
		if (ccoTag(cc) == CCO_Id) {
			String s = symString(cc->ccoToken.symbol);
			if (!strncmp(s, "INIT_", 5)) {
				for (i = 0; i < initc; i++) if (!strcmp(initv[i], s)) return;
				if (initc < 4096) initv[initc++] = s;
			}
		}
		return;
	}
	for (i = 0; i < ccoArgc(cc); i++) collect_inits(ccoArgv(cc)[i]);
}

static void print_inits(void)
{
	int i;
	qsort(initv, initc, sizeof(char *), cmpstr);
	for (i = 0; i < initc; i++) printf("%s%s", i ? " " : "", initv[i]);
}

static void run_inits(void)
{
	int i, bodies[3] = {2, 1, 1};
	char *unit = unhex(drv_tok[3]);
	Foam foam;
	CCodeList l, l0;
	SExpr sx;
	FILE *f;
	genCSetIdLen(atoi(drv_tok[1]));
	genCSetSMax(atoi(drv_tok[2]));
	genCSetIdHash(true);
	if (!sxbuf) sxbuf = bufNew();
	bufStart(sxbuf);
	bufPrintf(sxbuf, "(Unit (DFmt (DDecl Globals (GDecl Clos \"%s\" -1 4 0 Init)", unit);
	for (i = 4; i < drv_ntok; i++) {
		char *im = unhex(drv_tok[i]);
		bufPrintf(sxbuf, " (GDecl Clos \"%s\" -1 4 1 Init)", im);
		free(im);
	}
	bufPrintf(sxbuf, ") (DDecl Consts");
	for (i = 0; i < 3; i++) bufPrintf(sxbuf, " (Decl Prog \"c%d\" -1 4)", i);
	bufPrintf(sxbuf, ") (DDecl LocalEnv) (DDecl Fluids) (DDecl Locals) (DDecl LocalEnv)) (DDef");
	for (i = 0; i < 3; i++) {
		bufPrintf(sxbuf, " (Def (Const %d c%d) ", i, i);
		put_prog(bodies[i], i == 0, 3, 0);
		bufPrintf(sxbuf, ")");
	}
	bufPrintf(sxbuf, "))");
	bufAdd1(sxbuf, char0);
	f = tmpfile();
	fputs(bufChars(sxbuf), f);
	rewind(f);
	foam = foamRdSExpr(f, NULL, NULL);
	fclose(f);
	l0 = genC(foam, unit);
	initc = 0;
	for (l = l0; l; l = cdr(l)) collect_inits(car(l));
	print_inits();
	printf(" ; ");
	initc = 0;
	collect_inits(genAXLmainC(unit));
	print_inits();
	free(unit);
}

int main(int argc, char **argv)
{
	osInit();
	dbInit();
	sxiInit();
	keyInit();
	ssymInit();
	foamInit();
	while (drv_read()) {
		if (drv_ntok == 0) { printf("bad-op"); DRV_EMIT(); continue; }
		if (!strcmp(drv_tok[0], "hash") && drv_ntok == 2) {
			char *s = unhex(drv_tok[1]);
			Buffer b = bufNew();
			bufStart(b);
			gc0IdHashInBuf(b, s);
			printf("%lu =%s", (unsigned long) strHash(s), bufChars(b));
			bufFree(b); free(s);
		}
		else if (!strcmp(drv_tok[0], "valid") && drv_ntok == 3) {
			char *s = unhex(drv_tok[2]);
			Buffer b = bufNew();
			int n;
			genCSetIdLen(atoi(drv_tok[1]));
			gc0InitSpecialChars();
			bufStart(b);
			n = gc0ValidIdInBuf(b, s);
			printf("=%s", bufChars(b));
			if (n != (int) strlen(bufChars(b))) printf(" returned-length-%d", n);
			bufFree(b); free(s);
		}
		else if (!strcmp(drv_tok[0], "global") && drv_ntok == 4) {
			char *s = unhex(drv_tok[3]);
			genCSetIdLen(atoi(drv_tok[1]));
			genCSetIdHash(atoi(drv_tok[2]) != 0);
			gc0InitSpecialChars();
			printf("=%s", ccoIdText(gc0MultVarId("G", 0, s)));
			printf(" =%s", ccoIdText(gc0MultVarId("pG", 0, s)));
			free(s);
		}
		else if (!strcmp(drv_tok[0], "local") && drv_ntok == 5) {
			char *k = unhex(drv_tok[2]);
			char *s = unhex(drv_tok[4]);
			int ix = atoi(drv_tok[3]);
			genCSetIdLen(atoi(drv_tok[1]));
			genCSetIdHash(true);
			gc0InitSpecialChars();
			printf("=%s", ccoIdText(gc0MultVarId(k, ix, s)));
			printf(" =%s", ccoIdText(gc0VarId(k, ix)));
			free(k); free(s);
		}
		else if (!strcmp(drv_tok[0], "lit") && drv_ntok == 4) run_lit();
		else if (!strcmp(drv_tok[0], "inits") && drv_ntok >= 4) run_inits();
		else if (!strcmp(drv_tok[0], "split") || !strcmp(drv_tok[0], "splitS")) run_split();
		else printf("bad-op");
		DRV_EMIT();
	}
	return 0;
}
