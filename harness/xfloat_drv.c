/* C19 / xfloat.c driver: runs the repository's xfloat.c, util.c (bf*), buffer.c (bufWr/RdSFloat,
 * bufWr/RdDFloat) and foam_c.c (fiSFloDissemble/Assemble, fiDFloDissemble/Assemble) -- linked
 * from the scratch build of the current tree -- and prints results in the model driver's format.
 *
 * requests (all numbers hex without prefix unless noted; byte strings are 2 hex digits per byte):
 *   consts                               format parameters of this build
 *   xsf <hex32>                          portable bytes, xsfToNative(xsfFrNative(x))
 *   xdf <hex64>
 *   sfdis <hex32>                        sign expon(dec) sig0 iszero class reassembled
 *   dfdis <hex64>
 *   buf (s <hex32> | d <hex64>)+         bytes written, values read back
 *   shup <bytes> <nsh dec> <bF> <aliased>       bfShiftUp
 *   shdn <bytes> <nsh dec> <b0> <b1> <aliased>  bfShiftDn
 *   first1 <bytes>                       bfFirst1 (dec)
 *   norm <expon dec> <bytes>             fracNormalize
 *   denorm <expon dec> <expmin dec> <bytes> <lglgBase dec> <hasNorm1>
 *   sfasm <sign> <expon dec> <bytes4>    sfAssemble -> hex32      dfasm likewise (bytes8)
 *   xsfasm <sign> <expon dec> <bytes4>   xsfAssemble -> bytes6    xdfasm likewise
 *   xsfdis <bytes6>                      sign expon frac class    xdfdis <bytes10>
 *   xsfto <bytes6>                       xsfToNative -> hex32     xdfto <bytes10>
 *   sweep32 <lo> <hi>                    executable property on every pattern in [lo,hi)
 *   hash32 <lo> <hi> <stride>            hash of (portable bytes, round trip) over lo, lo+stride, ..
 *   hash64 <seed> <count dec>            same over a splitmix64 stream of double patterns
 *   lit s <decimal>  |  lit d <decimal>  the literal folded by of_cfold.c (BCall ArrToSFlo/ArrToDFlo on a
 *                                        character array) and converted by the runtime (fiArrToSFlo/fiArrToDFlo)
 *
 * of_cfold.c is included textually: the folder's entry for one builtin call (`cfoldBCall`) is a
 * static function.  This file then defines every external symbol of of_cfold.o, so the archive
 * member is not linked a second time.
 */
#include "of_cfold.c"
#include "axlgen.h"
#include "store.h"
#include "opsys.h"
#include "debug.h"
#include "util.h"
#include "buffer.h"
#include "xfloat.h"
#include "foam_c.h"
#include "drv_common.h"
#include <stdint.h>

static int hexval(int c)
{
	if (c >= '0' && c <= '9') return c - '0';
	if (c >= 'a' && c <= 'f') return c - 'a' + 10;
	if (c >= 'A' && c <= 'F') return c - 'A' + 10;
	return -1;
}

/* parse a byte string; returns the number of bytes or -1 */
static int parse_bytes(const char *s, UByte *out, int max)
{
	int n = 0;
	if (!strcmp(s, "-")) return 0;
	while (s[0]) {
		int a = hexval(s[0]), b;
		if (a < 0 || !s[1]) return -1;
		b = hexval(s[1]);
		if (b < 0 || n >= max) return -1;
		out[n++] = (UByte) (a * 16 + b);
		s += 2;
	}
	return n;
}

static int parse_hex(const char *s, uint64_t *out, int maxdig)
{
	uint64_t v = 0; int n = 0;
	if (!*s) return 0;
	for (; *s; s++, n++) {
		int a = hexval(*s);
		if (a < 0 || n >= maxdig) return 0;
		v = (v << 4) | (uint64_t) a;
	}
	*out = v;
	return 1;
}

static int parse_dec(const char *s, long *out)
{
	char *e;
	if (!*s) return 0;
	*out = strtol(s, &e, 10);
	return *e == 0;
}

static int parse_bit(const char *s, int *out)
{
	if (!strcmp(s, "0")) { *out = 0; return 1; }
	if (!strcmp(s, "1")) { *out = 1; return 1; }
	return 0;
}

static void put_bytes(const UByte *p, int n)
{
	int i;
	if (n == 0) putchar('-');
	for (i = 0; i < n; i++) printf("%02x", p[i]);
}

static const char *clsname(FloatCase c)
{
	switch (c) {
	case FLOAT_NORM:   return "norm";
	case FLOAT_DENORM: return "denorm";
	case FLOAT_ZERO:   return "zero";
	case FLOAT_NAN:    return "nan";
	case FLOAT_INF:    return "inf";
	}
	return "?";
}

static float  f_of(uint32_t x) { float f;  memcpy(&f, &x, 4); return f; }
static double d_of(uint64_t x) { double d; memcpy(&d, &x, 8); return d; }
static uint32_t bits_f(float f)  { uint32_t x; memcpy(&x, &f, 4); return x; }
static uint64_t bits_d(double d) { uint64_t x; memcpy(&x, &d, 8); return x; }

static int isnan32(uint32_t x) { return (x & 0x7f800000u) == 0x7f800000u && (x & 0x007fffffu); }
static int isnan64(uint64_t x) { return (x & 0x7ff0000000000000ull) == 0x7ff0000000000000ull && (x & 0x000fffffffffffffull); }

static uint32_t rt32(uint32_t x, XSFloat *pxs)
{
	float f = f_of(x), g;
	xsfFrNative(pxs, &f);
	xsfToNative(pxs, &g);
	return bits_f(g);
}

static uint64_t rt64(uint64_t x, XDFloat *pxd)
{
	double d = d_of(x), g;
	xdfFrNative(pxd, &d);
	xdfToNative(pxd, &g);
	return bits_d(g);
}

static uint32_t redis32(uint32_t x)
{
	float f = f_of(x), g;
	Bool sign; int expon; UByte fr[sizeof(float)];
	sfDissemble(&f, &sign, &expon, fr, NULL);
	sfAssemble(&g, sign, expon, fr);
	return bits_f(g);
}

static uint64_t fnv(uint64_t h, const UByte *p, int n)
{
	int i;
	for (i = 0; i < n; i++) { h ^= p[i]; h *= 0x100000001b3ull; }
	return h;
}

static uint64_t fnv_word(uint64_t h, uint64_t w, int nbytes)
{
	int i;
	for (i = nbytes - 1; i >= 0; i--) { h ^= (w >> (8 * i)) & 0xff; h *= 0x100000001b3ull; }
	return h;
}

static uint64_t sm_state;
static uint64_t splitmix(void)
{
	uint64_t z = (sm_state += 0x9e3779b97f4a7c15ull);
	z = (z ^ (z >> 30)) * 0xbf58476d1ce4e5b9ull;
	z = (z ^ (z >> 27)) * 0x94d049bb133111ebull;
	return z ^ (z >> 31);
}

#define BAD() do { printf("bad-op"); goto done; } while (0)

int main(int argc, char **argv)
{
	osInit();
	dbInit();
	sxiInit();	/* foamInit (run by the first foamNew) interns symbols */
	while (drv_read()) {
		char *op;
		uint64_t x;
		if (drv_ntok == 0) BAD();
		op = drv_tok[0];
		if (!strcmp(op, "consts")) {
			if (drv_ntok != 1) BAD();
			printf("SF %d %d %d %d %d %d", (int) sizeof(ALDOR_SF_TYPE), SF_HasNANs, SF_HasNorm1, SF_LgLgBase, SF_Excess, SF_FracOff);
			printf(" DF %d %d %d %d %d %d", (int) sizeof(double), DF_HasNANs, DF_HasNorm1, DF_LgLgBase, DF_Excess, DF_FracOff);
			printf(" XSF %d %d %d %d %d %d", (int) sizeof(XSFloat), XSF_HasNANs, XSF_HasNorm1, XSF_LgLgBase, XSF_Excess, XSF_FracOff);
			printf(" XDF %d %d %d %d %d %d", (int) sizeof(XDFloat), XDF_HasNANs, XDF_HasNorm1, XDF_LgLgBase, XDF_Excess, XDF_FracOff);
			printf(" min/nan %d %d %d %d %d %d %d %d", sfExponMin(), sfExponNAN(), dfExponMin(), dfExponNAN(),
			       xsfExponMin(), xsfExponNAN(), xdfExponMin(), xdfExponNAN());
			printf(" bytes %d %d", XSFLOAT_BYTES, XDFLOAT_BYTES);
			printf(" word %d sflo %d float %d ushort %d charbit %d", (int) sizeof(FiWord), (int) sizeof(FiSFlo),
			       (int) sizeof(float), (int) sizeof(UShort), CHAR_BIT);
			{	/* byte order as SF_UByte sees it */
				float f = f_of(0x01020304u); double d = d_of(0x0102030405060708ull);
				printf(" order %d%d%d%d %d%d", SF_UByte(&f, 0), SF_UByte(&f, 1), SF_UByte(&f, 2), SF_UByte(&f, 3),
				       DF_UByte(&d, 0), DF_UByte(&d, 7));
			}
		}
		else if (!strcmp(op, "xsf")) {
			XSFloat xs;
			uint32_t r;
			if (drv_ntok != 2 || !parse_hex(drv_tok[1], &x, 8)) BAD();
			r = rt32((uint32_t) x, &xs);
			put_bytes((UByte *) &xs, XSFLOAT_BYTES);
			printf(" %08x", r);
		}
		else if (!strcmp(op, "xdf")) {
			XDFloat xd;
			uint64_t r;
			if (drv_ntok != 2 || !parse_hex(drv_tok[1], &x, 16)) BAD();
			r = rt64(x, &xd);
			put_bytes((UByte *) &xd, XDFLOAT_BYTES);
			printf(" %016llx", (unsigned long long) r);
		}
		else if (!strcmp(op, "sfdis")) {
			FiBool sign; FiSInt expon; FiWord sig0 = 0;
			FiSFlo f, g; Bool isz;
			if (drv_ntok != 2 || !parse_hex(drv_tok[1], &x, 8)) BAD();
			f = f_of((uint32_t) x);
			fiSFloDissemble(f, &sign, &expon, &sig0);
			sfDissemble(&f, NULL, NULL, NULL, &isz);
			g = fiSFloAssemble(sign, expon, sig0);
			printf("%d %ld %016lx %d %s %08x", (int) sign, (long) expon, (unsigned long) sig0, isz ? 1 : 0,
			       clsname(sfClassify(&f)), bits_f(g));
		}
		else if (!strcmp(op, "dfdis")) {
			FiBool sign; FiSInt expon; FiWord sig0 = 0, sig1 = 0;
			FiDFlo d, g; Bool isz;
			if (drv_ntok != 2 || !parse_hex(drv_tok[1], &x, 16)) BAD();
			d = d_of(x);
			fiDFloDissemble(d, &sign, &expon, &sig0, &sig1);
			dfDissemble(&d, NULL, NULL, NULL, &isz);
			g = fiDFloAssemble(sign, expon, sig0, sig1);
			/* sig1 is whatever fracb[1] held (never written when FiWord has 8 bytes): not printed */
			printf("%d %ld %016lx %d %s %016llx", (int) sign, (long) expon, (unsigned long) sig0, isz ? 1 : 0,
			       clsname(dfClassify(&d)), (unsigned long long) bits_d(g));
		}
		else if (!strcmp(op, "buf")) {
			Buffer b;
			int i, ok = (drv_ntok >= 3 && (drv_ntok % 2) == 1);
			for (i = 1; ok && i < drv_ntok; i += 2) {
				if (!strcmp(drv_tok[i], "s")) ok = parse_hex(drv_tok[i + 1], &x, 8);
				else if (!strcmp(drv_tok[i], "d")) ok = parse_hex(drv_tok[i + 1], &x, 16);
				else ok = 0;
			}
			if (!ok) BAD();
			b = bufNew();
			for (i = 1; i < drv_ntok; i += 2) {
				parse_hex(drv_tok[i + 1], &x, 16);
				if (drv_tok[i][0] == 's') bufWrSFloat(b, f_of((uint32_t) x));
				else bufWrDFloat(b, d_of(x));
			}
			put_bytes(bufData(b), (int) bufPosition(b));
			bufStart(b);
			for (i = 1; i < drv_ntok; i += 2) {
				if (drv_tok[i][0] == 's') printf(" %08x", bits_f(bufRdSFloat(b)));
				else printf(" %016llx", (unsigned long long) bits_d(bufRdDFloat(b)));
			}
			bufFree(b);
		}
		else if (!strcmp(op, "shup")) {
			UByte bv[64], br[64]; int nb, bF, al; long nsh;
			if (drv_ntok != 5 || (nb = parse_bytes(drv_tok[1], bv, 64)) < 0 || !parse_dec(drv_tok[2], &nsh) || nsh < 0
			    || !parse_bit(drv_tok[3], &bF) || !parse_bit(drv_tok[4], &al)) BAD();
			memset(br, 0xa5, sizeof br);
			if (al) { bfShiftUp(nb, bv, (int) nsh, bv, bF); put_bytes(bv, nb); }
			else    { bfShiftUp(nb, br, (int) nsh, bv, bF); put_bytes(br, nb); }
		}
		else if (!strcmp(op, "shdn")) {
			UByte bv[64], br[64]; int nb, b0, b1, al; long nsh;
			if (drv_ntok != 6 || (nb = parse_bytes(drv_tok[1], bv, 64)) < 0 || !parse_dec(drv_tok[2], &nsh) || nsh < 0
			    || !parse_bit(drv_tok[3], &b0) || !parse_bit(drv_tok[4], &b1) || !parse_bit(drv_tok[5], &al)) BAD();
			memset(br, 0xa5, sizeof br);
			if (al) { bfShiftDn(nb, bv, (int) nsh, bv, b0, b1); put_bytes(bv, nb); }
			else    { bfShiftDn(nb, br, (int) nsh, bv, b0, b1); put_bytes(br, nb); }
		}
		else if (!strcmp(op, "first1")) {
			UByte bv[64]; int nb;
			if (drv_ntok != 2 || (nb = parse_bytes(drv_tok[1], bv, 64)) < 0) BAD();
			printf("%d", bfFirst1(nb, bv));
		}
		else if (!strcmp(op, "norm")) {
			UByte bv[64]; int nb, e; long expon;
			if (drv_ntok != 3 || !parse_dec(drv_tok[1], &expon) || (nb = parse_bytes(drv_tok[2], bv, 64)) < 0) BAD();
			e = (int) expon;
			fracNormalize(&e, nb, bv);
			printf("%d ", e); put_bytes(bv, nb);
		}
		else if (!strcmp(op, "denorm")) {
			UByte bv[64]; int nb, e, h1; long expon, expmin, lglg;
			if (drv_ntok != 6 || !parse_dec(drv_tok[1], &expon) || !parse_dec(drv_tok[2], &expmin)
			    || (nb = parse_bytes(drv_tok[3], bv, 64)) < 0 || !parse_dec(drv_tok[4], &lglg) || lglg < 0 || lglg > 3
			    || !parse_bit(drv_tok[5], &h1)) BAD();
			e = (int) expon;
			fracDenormalize(&e, (int) expmin, nb, bv, (int) lglg, h1);
			printf("%d ", e); put_bytes(bv, nb);
		}
		else if (!strcmp(op, "sfasm") || !strcmp(op, "dfasm")) {
			UByte fr[16]; int sign, n, want = op[0] == 's' ? (int) sizeof(ALDOR_SF_TYPE) : (int) sizeof(double); long expon;
			if (drv_ntok != 4 || !parse_bit(drv_tok[1], &sign) || !parse_dec(drv_tok[2], &expon)
			    || (n = parse_bytes(drv_tok[3], fr, 16)) != want) BAD();
			if (op[0] == 's') { ALDOR_SF_TYPE f; sfAssemble(&f, sign, (int) expon, fr); printf("%08x", bits_f(f)); }
			else { double d; dfAssemble(&d, sign, (int) expon, fr); printf("%016llx", (unsigned long long) bits_d(d)); }
		}
		else if (!strcmp(op, "xsfasm") || !strcmp(op, "xdfasm")) {
			UByte fr[16]; int sign, n, want = op[1] == 's' ? 4 : 8; long expon;
			if (drv_ntok != 4 || !parse_bit(drv_tok[1], &sign) || !parse_dec(drv_tok[2], &expon)
			    || (n = parse_bytes(drv_tok[3], fr, 16)) != want) BAD();
			if (op[1] == 's') { XSFloat xs; xsfAssemble(&xs, sign, (int) expon, fr); put_bytes((UByte *) &xs, XSFLOAT_BYTES); }
			else { XDFloat xd; xdfAssemble(&xd, sign, (int) expon, fr); put_bytes((UByte *) &xd, XDFLOAT_BYTES); }
		}
		else if (!strcmp(op, "xsfdis") || !strcmp(op, "xdfdis")) {
			UByte in[16], fr[16]; int n, want = op[1] == 's' ? XSFLOAT_BYTES : XDFLOAT_BYTES; Bool sign; int expon;
			if (drv_ntok != 2 || (n = parse_bytes(drv_tok[1], in, 16)) != want) BAD();
			if (op[1] == 's') {
				XSFloat xs; memcpy(&xs, in, want);
				xsfDissemble(&xs, &sign, &expon, fr);
				printf("%d %d ", sign ? 1 : 0, expon); put_bytes(fr, want - 2); printf(" %s", clsname(xsfClassify(&xs)));
			} else {
				XDFloat xd; memcpy(&xd, in, want);
				xdfDissemble(&xd, &sign, &expon, fr);
				printf("%d %d ", sign ? 1 : 0, expon); put_bytes(fr, want - 2); printf(" %s", clsname(xdfClassify(&xd)));
			}
		}
		else if (!strcmp(op, "xsfto") || !strcmp(op, "xdfto")) {
			UByte in[16]; int n, want = op[1] == 's' ? XSFLOAT_BYTES : XDFLOAT_BYTES;
			if (drv_ntok != 2 || (n = parse_bytes(drv_tok[1], in, 16)) != want) BAD();
			if (op[1] == 's') { XSFloat xs; ALDOR_SF_TYPE f; memcpy(&xs, in, want); xsfToNative(&xs, &f); printf("%08x", bits_f(f)); }
			else { XDFloat xd; double d; memcpy(&xd, in, want); xdfToNative(&xd, &d); printf("%016llx", (unsigned long long) bits_d(d)); }
		}
		else if (!strcmp(op, "sweep32")) {
			uint64_t lo, hi, v, cnt = 0, nfail = 0, first = 0;
			if (drv_ntok != 3 || !parse_hex(drv_tok[1], &lo, 9) || !parse_hex(drv_tok[2], &hi, 9) || hi > 0x100000000ull) BAD();
			for (v = lo; v < hi; v++) {
				XSFloat xs;
				uint32_t u = (uint32_t) v, r = rt32(u, &xs), a = redis32(u);
				int ok = isnan32(u) ? (isnan32(r) && isnan32(a)) : (r == u && a == u);
				cnt++;
				if (!ok && !nfail++) first = v;
			}
			if (nfail) printf("%llu %llu %08llx", (unsigned long long) cnt, (unsigned long long) nfail, (unsigned long long) first);
			else printf("%llu 0 none", (unsigned long long) cnt);
		}
		else if (!strcmp(op, "hash32")) {
			uint64_t lo, hi, st, v, h = 0xcbf29ce484222325ull, cnt = 0;
			if (drv_ntok != 4 || !parse_hex(drv_tok[1], &lo, 9) || !parse_hex(drv_tok[2], &hi, 9) || !parse_hex(drv_tok[3], &st, 9)
			    || st == 0 || hi > 0x100000000ull) BAD();
			for (v = lo; v < hi; v += st) {
				XSFloat xs;
				uint32_t r = rt32((uint32_t) v, &xs);
				h = fnv(h, (UByte *) &xs, XSFLOAT_BYTES);
				h = fnv_word(h, r, 4);
				cnt++;
			}
			printf("%llu %016llx", (unsigned long long) cnt, (unsigned long long) h);
		}
		else if (!strcmp(op, "hash64")) {
			uint64_t seed, h = 0xcbf29ce484222325ull, i; long cnt;
			if (drv_ntok != 3 || !parse_hex(drv_tok[1], &seed, 16) || !parse_dec(drv_tok[2], &cnt) || cnt < 0) BAD();
			sm_state = seed;
			for (i = 0; i < (uint64_t) cnt; i++) {
				XDFloat xd;
				uint64_t r = rt64(splitmix(), &xd);
				h = fnv(h, (UByte *) &xd, XDFLOAT_BYTES);
				h = fnv_word(h, r, 8);
			}
			printf("%ld %016llx", cnt, (unsigned long long) h);
		}
		else if (!strcmp(op, "lit")) {
			Foam arr, bcall, res;
			int i, len, dbl;
			if (drv_ntok != 3 || (strcmp(drv_tok[1], "s") && strcmp(drv_tok[1], "d"))) BAD();
			dbl = drv_tok[1][0] == 'd';
			len = (int) strlen(drv_tok[2]);
			/* as genfoam.c:gen0CharArray builds the array of a literal */
			arr = foamNewEmpty(FOAM_Arr, 1 + len);
			arr->foamArr.baseType = FOAM_Char;
			for (i = 0; i < len; i++) arr->foamArr.eltv[i] = drv_tok[2][i];
			bcall = foamNewBCall(dbl ? FOAM_BVal_ArrToDFlo : FOAM_BVal_ArrToSFlo, arr, NULL);
			cfoldFoldAll = true; cfoldFoldFloat = true;
			res = cfoldBCall(bcall);
			if (dbl) {
				if (foamTag(res) != FOAM_DFlo) printf("unfolded");
				else printf("%016llx", (unsigned long long) bits_d(foamToDFlo(res)));
				printf(" %016llx", (unsigned long long) bits_d(fiArrToDFlo((FiArr) drv_tok[2])));
			} else {
				if (foamTag(res) != FOAM_SFlo) printf("unfolded");
				else printf("%08x", bits_f(foamToSFlo(res)));
				printf(" %08x", bits_f(fiArrToSFlo((FiArr) drv_tok[2])));
			}
		}
		else printf("bad-op");
	done:
		DRV_EMIT();
	}
	return 0;
}
