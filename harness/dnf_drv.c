/* C20 / dnf.c driver: builds normal forms with the repository's dnf.c (linked from the
 * scratch build of the current tree) and prints them in the model driver's format. */
#include "axlgen.h"
#include "dnf.h"
#include "store.h"
#include "opsys.h"
#include "debug.h"
#include "drv_common.h"

static int pos;

static DNF build(void)
{
	char *t;
	DNF a, b, r;
	if (pos >= drv_ntok) return 0;
	t = drv_tok[pos++];
	if (!strcmp(t, "T")) return dnfCopy(dnfTrue());
	if (!strcmp(t, "F")) return dnfCopy(dnfFalse());
	if (!strcmp(t, "~")) { a = build(); if (!a) return 0; r = dnfNot(a); return r; }
	if (!strcmp(t, "&")) { a = build(); b = build(); if (!a || !b) return 0; return dnfAnd(a, b); }
	if (!strcmp(t, "|")) { a = build(); b = build(); if (!a || !b) return 0; return dnfOr(a, b); }
	if (!strcmp(t, ";")) return 0;
	{ int v = atoi(t); if (v == 0) return 0; return dnfAtom(v); }
}

static void show(DNF d)
{
	int i; unsigned j;
	printf("DNF{");
	for (i = 0; i < d->argc; i++) {
		DNF_And c = d->argv[i];
		if (i) putchar(' ');
		putchar('[');
		for (j = 0; j < c->argc; j++) printf("%s%d", j ? " " : "", c->argv[j]);
		putchar(']');
	}
	putchar('}');
}

int main(int argc, char **argv)
{
	osInit();
	dbInit();
	while (drv_read()) {
		DNF f, g;
		if (drv_ntok == 0) { printf("bad-op"); DRV_EMIT(); continue; }
		pos = 1;
		if (!strcmp(drv_tok[0], "B")) {
			f = build();
			if (!f || pos != drv_ntok) printf("bad-op"); else show(f);
		}
		else if (!strcmp(drv_tok[0], "I") || !strcmp(drv_tok[0], "E")) {
			f = build();
			if (!f || pos >= drv_ntok || strcmp(drv_tok[pos], ";")) printf("bad-op");
			else {
				pos++;
				g = build();
				if (!g || pos != drv_ntok) printf("bad-op");
				else {
					printf("%d ", drv_tok[0][0] == 'I' ? (int) dnfImplies(f, g) : (int) dnfEqual(f, g));
					show(f); putchar(' '); show(g);
				}
			}
		}
		else printf("bad-op");
		stoAudit();
		DRV_EMIT();
	}
	return 0;
}
