/* C18 fault injection: LD_PRELOAD shim (glibc) that makes the n-th stdio operation of a chosen
 * kind on output streams whose path contains a pattern fail with ENOSPC, the way a full device
 * does: the data of a failing write is not stored, a failing flush/close loses what is still
 * buffered, the stream's error indicator is set and errno = ENOSPC.
 *
 *   FAULTIO_PATTERN   substring of the path given to fopen (required)
 *   FAULTIO_OP        write | flush | close          (which kind of call fails)
 *                     space: the device is full beyond FAULTIO_LIMIT bytes of the file: every write call
 *                     that would store a byte at an offset >= FAULTIO_LIMIT fails, writes that stay below
 *                     (a later rewrite of the beginning of the file) succeed
 *   FAULTIO_LIMIT     byte offset for `space` 
 *   FAULTIO_N         1-based index of the failing call among the calls of that kind on
 *                     matching streams (0 = never; "write" counts fwrite/fputs/fputc/putc/
 *                     fprintf/vfprintf calls)
 *   FAULTIO_STICKY    1: every later call of that kind on the stream fails too (device stays full)
 *   FAULTIO_LOG       file to which "op index path result" lines are appended (for counting)
 *
 * build: gcc -shared -fPIC -O1 -o faultio.so faultio.c -ldl
 */
#define _GNU_SOURCE
#include <dlfcn.h>
#include <errno.h>
#include <stdarg.h>
#include <stdio.h>
#include <stdlib.h>
#include <string.h>
#include <unistd.h>

#define MAXTRACK 256
static FILE	*tracked[MAXTRACK];
static char	*tracked_path[MAXTRACK];
static int	ntracked;
static long	count_write, count_flush, count_close;
static int	tripped;

static FILE *(*real_fopen)(const char *, const char *);
static FILE *(*real_fopen64)(const char *, const char *);
static int (*real_fclose)(FILE *);
static int (*real_fflush)(FILE *);
static size_t (*real_fwrite)(const void *, size_t, size_t, FILE *);
static int (*real_fputs)(const char *, FILE *);
static int (*real_fputc)(int, FILE *);
static int (*real_putc)(int, FILE *);
static int (*real_vfprintf)(FILE *, const char *, va_list);

static void init(void)
{
	if (real_fopen) return;
	real_fopen = dlsym(RTLD_NEXT, "fopen");
	real_fopen64 = dlsym(RTLD_NEXT, "fopen64");
	real_fclose = dlsym(RTLD_NEXT, "fclose");
	real_fflush = dlsym(RTLD_NEXT, "fflush");
	real_fwrite = dlsym(RTLD_NEXT, "fwrite");
	real_fputs = dlsym(RTLD_NEXT, "fputs");
	real_fputc = dlsym(RTLD_NEXT, "fputc");
	real_putc = dlsym(RTLD_NEXT, "putc");
	real_vfprintf = dlsym(RTLD_NEXT, "vfprintf");
}

static int slot(FILE *f)
{
	int i;
	if (!f) return -1;
	for (i = 0; i < ntracked; i++) if (tracked[i] == f) return i;
	return -1;
}

static void track(FILE *f, const char *path, const char *mode)
{
	const char *pat = getenv("FAULTIO_PATTERN");
	int i;
	if (!f || !pat || !*pat || !strstr(path, pat)) return;
	if (!strchr(mode, 'w') && !strchr(mode, 'a') && !strchr(mode, '+')) return;
	for (i = 0; i < ntracked; i++) if (!tracked[i]) break;
	if (i == MAXTRACK) return;
	if (i == ntracked) ntracked++;
	tracked[i] = f;
	tracked_path[i] = strdup(path);
}

static void logop(const char *op, long idx, int s, const char *res)
{
	const char *lg = getenv("FAULTIO_LOG");
	int fd; char buf[600]; int n;
	if (!lg) return;
	n = snprintf(buf, sizeof buf, "%s %ld %s %s\n", op, idx, s >= 0 ? tracked_path[s] : "?", res);
	{
		FILE *(*fo)(const char *, const char *) = real_fopen;
		FILE *f = fo(lg, "a");
		if (f) { real_fwrite(buf, 1, (size_t) n, f); real_fclose(f); }
	}
	(void) fd;
}

/* does this call (of kind op, on tracked slot s) fail? */
static int fails(const char *op, long *counter, int s)
{
	const char *want = getenv("FAULTIO_OP");
	const char *ns = getenv("FAULTIO_N");
	long n = ns ? atol(ns) : 0;
	int sticky = getenv("FAULTIO_STICKY") && atoi(getenv("FAULTIO_STICKY"));
	int f;
	if (s < 0) return 0;
	*counter += 1;
	f = want && !strcmp(want, op) && n > 0 && (*counter == n || (sticky && tripped && *counter > n));
	if (f) tripped = 1;
	logop(op, *counter, s, f ? "FAIL" : "ok");
	return f;
}

/* write-type call of `len` bytes on f: does it fail? */
static int fails_write(FILE *f, size_t len)
{
	const char *want = getenv("FAULTIO_OP");
	int s = slot(f);
	if (s >= 0 && want && !strcmp(want, "space")) {
		const char *ls = getenv("FAULTIO_LIMIT");
		long limit = ls ? atol(ls) : 0, pos = ftell(f);
		int bad = pos < 0 || pos + (long) len > limit;
		count_write += 1;
		if (bad) tripped = 1;
		logop("write", count_write, s, bad ? "FAIL" : "ok");
		return bad;
	}
	return fails("write", &count_write, s);
}

static void drop_pending(FILE *f)
{
	/* glibc: forget the bytes that are buffered but not yet written */
	f->_IO_write_ptr = f->_IO_write_base;
}

static void mark_error(FILE *f)
{
	f->_flags |= 0x0020;	/* _IO_ERR_SEEN */
	errno = ENOSPC;
}

FILE *fopen(const char *path, const char *mode)
{
	FILE *f;
	init();
	f = real_fopen(path, mode);
	track(f, path, mode);
	return f;
}

FILE *fopen64(const char *path, const char *mode)
{
	FILE *f;
	init();
	f = (real_fopen64 ? real_fopen64 : real_fopen)(path, mode);
	track(f, path, mode);
	return f;
}

int fclose(FILE *f)
{
	int s, r;
	init();
	s = slot(f);
	if (fails("close", &count_close, s)) {
		drop_pending(f);
		real_fclose(f);
		tracked[s] = NULL;
		errno = ENOSPC;
		return EOF;
	}
	if (s >= 0 && tripped && getenv("FAULTIO_STICKY") && atoi(getenv("FAULTIO_STICKY")))
		drop_pending(f);	/* the device is still full: nothing more reaches it */
	r = real_fclose(f);
	if (s >= 0) tracked[s] = NULL;
	return r;
}

int fflush(FILE *f)
{
	int s;
	init();
	s = slot(f);
	if (fails("flush", &count_flush, s)) {
		drop_pending(f);
		mark_error(f);
		return EOF;
	}
	return real_fflush(f);
}

size_t fwrite(const void *p, size_t sz, size_t n, FILE *f)
{
	init();
	if (fails_write(f, sz * n)) { mark_error(f); return 0; }
	return real_fwrite(p, sz, n, f);
}

int fputs(const char *s, FILE *f)
{
	init();
	if (fails_write(f, strlen(s))) { mark_error(f); return EOF; }
	return real_fputs(s, f);
}

int fputc(int c, FILE *f)
{
	init();
	if (fails_write(f, 1)) { mark_error(f); return EOF; }
	return real_fputc(c, f);
}

int putc(int c, FILE *f)
{
	init();
	if (fails_write(f, 1)) { mark_error(f); return EOF; }
	return real_putc(c, f);
}

static size_t fmt_len(const char *fmt, va_list ap)
{
	va_list aq;
	int n;
	va_copy(aq, ap);
	n = vsnprintf(NULL, 0, fmt, aq);
	va_end(aq);
	return n < 0 ? 0 : (size_t) n;
}

int vfprintf(FILE *f, const char *fmt, va_list ap)
{
	init();
	if (fails_write(f, slot(f) >= 0 ? fmt_len(fmt, ap) : 0)) { mark_error(f); return -1; }
	return real_vfprintf(f, fmt, ap);
}

int fprintf(FILE *f, const char *fmt, ...)
{
	va_list ap;
	int r;
	init();
	va_start(ap, fmt);
	if (fails_write(f, slot(f) >= 0 ? fmt_len(fmt, ap) : 0)) { va_end(ap); mark_error(f); return -1; }
	r = real_vfprintf(f, fmt, ap);
	va_end(ap);
	return r;
}
