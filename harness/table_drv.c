/* C20 / table.c driver: runs one operation history per input line on the repository's
 * table.c (linked from the scratch build of the current tree) and prints the results in the
 * model driver's format.
 *   H <m> op op ...      hash function k mod m, equality ==, starting from tblNew
 *   ops: s:k:e tblSetElt | g:k tblElt (default 4294967295) | d:k tblDrop (prints tblSize)
 *        z tblSize | i iteration (tblITER/tblMORE/tblSTEP) | b bucket layout
 *        m tblNMap (e -> 2e+1) | r tblRemoveIf (e mod 3 == 0) | c tblCopy (continue with copy)
 */
#include "axlgen.h"
#include "table.h"
#include "store.h"
#include "opsys.h"
#include "debug.h"
#include "drv_common.h"

static unsigned long hmod = 1;
static unsigned long nfreed;

static Hash hfun(TblKey k)            { return (Hash) ((unsigned long) k % hmod); }
static Bool efun(TblKey a, TblKey b)  { return a == b; }
static TblElt mapf(TblElt e)          { return (TblElt) ((unsigned long) e * 2 + 1); }
static Bool testf(TblElt e)           { return (unsigned long) e % 3 == 0; }
static void freef(TblElt e)           { nfreed++; }

static void show_iter(Table t)
{
	TableIterator it;
	int first = 1;
	for (tblITER(it, t); tblMORE(it); tblSTEP(it)) {
		printf("%s%lu=%lu", first ? "" : ",", (unsigned long) tblKEY(it), (unsigned long) tblELT(it));
		first = 0;
	}
}

static void show_buckets(Table t)
{
	Length i;
	int first = 1;
	struct TblSlot *b;
	/* "buckc|" followed by the non-empty buckets "index:k=e,k=e" joined by "|" */
	printf("%lu|", (unsigned long) t->buckc);
	for (i = 0; i < t->buckc; i++) {
		if (!t->buckv[i]) continue;
		printf("%s%lu:", first ? "" : "|", (unsigned long) i);
		first = 0;
		for (b = t->buckv[i]; b; b = b->next)
			printf("%s%lu=%lu", b == t->buckv[i] ? "" : ",", (unsigned long) b->key, (unsigned long) b->elt);
	}
}

static int parse2(char *s, unsigned long *a, unsigned long *b)
{
	/* s = "x:A" or "x:A:B"; returns number of integers read */
	char *p = s + 1, *end;
	int n = 0;
	if (*p != ':') return 0;
	p++;
	if (*p < '0' || *p > '9') return -1;
	*a = strtoul(p, &end, 10); n = 1;
	if (*end == 0) return n;
	if (*end != ':') return -1;
	p = end + 1;
	if (*p < '0' || *p > '9') return -1;
	*b = strtoul(p, &end, 10); n = 2;
	if (*end != 0) return -1;
	return n;
}

int main(int argc, char **argv)
{
	osInit();
	dbInit();
	while (drv_read()) {
		Table t;
		int i;
		char *end;
		if (drv_ntok < 2 || strcmp(drv_tok[0], "H")) { printf("bad-op"); DRV_EMIT(); continue; }
		hmod = strtoul(drv_tok[1], &end, 10);
		if (*end || hmod == 0) { printf("bad-op"); DRV_EMIT(); continue; }
		t = tblNew((TblHashFun) hfun, (TblEqFun) efun);
		for (i = 2; i < drv_ntok; i++) {
			char *op = drv_tok[i];
			unsigned long a = 0, b = 0;
			int n = (op[0] && op[1]) ? parse2(op, &a, &b) : 0;
			if (i > 2) putchar(';');
			if (op[0] == 's' && n == 2)
				printf("%lu", (unsigned long) tblSetElt(t, (TblKey) a, (TblElt) b));
			else if (op[0] == 'g' && n == 1)
				printf("%lu", (unsigned long) tblElt(t, (TblKey) a, (TblElt) 4294967295UL));
			else if (op[0] == 'd' && n == 1) {
				t = tblDrop(t, (TblKey) a);
				printf("%lu", (unsigned long) tblSize(t));
			}
			else if (!strcmp(op, "z")) printf("%lu", (unsigned long) tblSize(t));
			else if (!strcmp(op, "i")) show_iter(t);
			else if (!strcmp(op, "b")) { show_buckets(t); }
			else if (!strcmp(op, "m")) { t = tblNMap((TblMapEltFun) mapf, t); putchar('m'); }
			else if (!strcmp(op, "r")) { t = tblRemoveIf(t, (TblFreeEltFun) freef, (TblTestEltFun) testf); putchar('r'); }
			else if (!strcmp(op, "c")) { Table n2 = tblCopy(t); tblFree(t); t = n2; putchar('c'); }
			else printf("bad-op");
		}
		tblFree(t);
		stoAudit();
		DRV_EMIT();
	}
	return 0;
}
