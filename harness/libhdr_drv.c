/* C17 / lib.c driver: feeds byte strings to the repository's libGetHeader / libChkHeader /
 * libGetSection (lib.c of the scratch build's tree is #included so that the `local`
 * functions can be called) and prints the parsed header and the verdict in the model
 * driver's format.  Diagnostics (comsgError / comsgFatal / bug) are intercepted and turned
 * into the verdict; strAlloc's uninitialised bytes are pre-set to the requested junk byte.
 *
 *   consts
 *   G <hex|-> <junk>            header as read by libGetHeader + verdict of libChkHeader
 *   S <hex|-> <junk> <name>     libGetSection(name) after libGetHeader
 */
#include "axlobs.h"
#include "lib.h"
#include "comsg.h"
#include "comsgdb.h"
#include "store.h"
#include "opsys.h"
#include "debug.h"
#include "strops.h"
#include "util.h"
#include "file.h"
#include <setjmp.h>
#include <stdarg.h>
#include <unistd.h>
#include "drv_common.h"

static jmp_buf	drv_jmp;
static int	drv_first_tag;		/* first diagnostic since reset, -1 none */
static int	drv_bugged;
static int	drv_junk;

static void drv_note(int tag) { if (drv_first_tag < 0) drv_first_tag = tag; }

static void drv_comsgError(AbSyn ab, Msg tag, ...) { drv_note((int) tag); }
static void drv_comsgFatal(AbSyn ab, Msg tag, ...) { drv_note((int) tag); longjmp(drv_jmp, 1); }
static void drv_bug(String fmt, ...) { drv_bugged = 1; longjmp(drv_jmp, 2); }

static String drv_strAlloc(Length n)
{
	String s = strAlloc(n);
	Length i;
	for (i = 1; i < n; i++) s[i] = (char) drv_junk;
	return s;
}

#define comsgError	drv_comsgError
#define comsgFatal	drv_comsgFatal
#define bug		drv_bug
#define strAlloc	drv_strAlloc
#include "lib.c"
#undef strAlloc
#undef bug
#undef comsgFatal
#undef comsgError

static const char *verdict_of(int ok, int how)
{
	if (how == 2 || drv_bugged) return "bugIndex";
	switch (drv_first_tag) {
	case -1: return ok ? "ok" : "false-without-message";
	case ALDOR_E_LibBadMagic:    return "badMagic";
	case ALDOR_F_LibBadVersion:  return "badVersion";
	case ALDOR_E_LibBadNumSect:  return "badNumSect";
	case ALDOR_E_LibBadSectName: return "badSectName";
	case ALDOR_E_LibBadSectHdr:  return "badSectHdr";
	case ALDOR_E_LibSectDup:     return "dupSect";
	case ALDOR_E_LibSectOffset:  return "badOffset";
	case ALDOR_F_CantOpen:	     return "cantOpen";
	default: return "other-message";
	}
}

static char drv_path[256];

static FILE *file_of_hex(const char *hex)
{
	FILE *f = fopen(drv_path, "wb+");
	size_t n, i;
	if (!f) { perror(drv_path); exit(3); }
	if (strcmp(hex, "-")) {
		n = strlen(hex) / 2;
		for (i = 0; i < n; i++) {
			unsigned v;
			sscanf(hex + 2 * i, "%2x", &v);
			fputc((int) v, f);
		}
	}
	fflush(f);
	rewind(f);
	return f;
}

static void show_header(Lib lib)
{
	int i;
	printf("hdr %u %lu %lu %u T", (unsigned) lib->hdr.magic, (unsigned long) lib->hdr.verMajor,
	       (unsigned long) lib->hdr.verMinor, (unsigned) lib->hdr.numSect);
	for (i = 0; i < LIB_HDR_LIMIT; i++)
		printf(" %u:%lu:%lu", (unsigned) lib->hdr.Section[i].name,
		       (unsigned long) lib->hdr.Section[i].offset, (unsigned long) lib->hdr.Section[i].length);
	printf(" I");
	for (i = 0; i < LIB_HDR_LIMIT; i++) printf(" %u", (unsigned) lib->hdr.Index[i]);
}

int main(int argc, char **argv)
{
	struct lib	L;
	Lib		lib = &L;
	osInit();
	dbInit();
	snprintf(drv_path, sizeof drv_path, "%s/libhdr-drv-%d.ao", getenv("DRV_TMP") ? getenv("DRV_TMP") : "/tmp", (int) getpid());
	while (drv_read()) {
		if (drv_ntok == 0) { printf("bad-op"); DRV_EMIT(); continue; }
		if (!strcmp(drv_tok[0], "consts")) {
			printf("magic=%u major=%u minor=%u namelimit=%d hdrlimit=%d fixed=%d sectsize=%d hdrsize=%d",
			       (unsigned) libHdrMagic, (unsigned) libMajorVersion, (unsigned) libMinorVersion,
			       (int) LIB_NAME_LIMIT, (int) LIB_HDR_LIMIT, (int) (2 * HINT_BYTES + 2 * SINT_BYTES),
			       (int) libSectSize, (int) libHdrSize);
			DRV_EMIT(); continue;
		}
		if ((!strcmp(drv_tok[0], "G") && drv_ntok == 3) || (!strcmp(drv_tok[0], "S") && drv_ntok == 4)) {
			FILE *f = file_of_hex(drv_tok[1]);
			int how, ok = 0;
			drv_junk = atoi(drv_tok[2]);
			memset(lib, 0, sizeof L);
			lib->name = fnameParse("drv.ao");
			lib->file = f;
			lib->offset = 0;
			lib->rdOnly = 1;
			libNewHeader(lib);
			drv_first_tag = -1; drv_bugged = 0;
			how = setjmp(drv_jmp);
			if (how == 0) libGetHeader(lib);
			if (how == 1) {
				/* a fatal error inside libGetHeader: the repaired reader, or an obsolete version */
				printf("fatal %s", verdict_of(0, how));
			}
			else if (drv_tok[0][0] == 'G') {
				show_header(lib);
				/* the verdict libGetHeader has just thrown away */
				drv_first_tag = -1; drv_bugged = 0;
				how = setjmp(drv_jmp);
				if (how == 0) ok = libChkHeader(lib);
				printf(" V %s", verdict_of(ok, how));
			}
			else {
				int name = atoi(drv_tok[3]);
				Buffer b = 0;
				if (name < 0 || name >= LIB_HDR_LIMIT) printf("bad-op");
				else if (libHasSection(lib, name) && libSectLength(lib, name) > (1UL << 16)) printf("toolarge");
				else {
					drv_first_tag = -1; drv_bugged = 0;
					how = setjmp(drv_jmp);
					if (how == 0) {
						b = libGetSection(lib, name, false);
						if (!b) printf("none");
						else {
							Length i, cc = libSectLength(lib, name);
							printf("want=%lu data=", (unsigned long) cc);
							for (i = 0; i < cc; i++) printf("%02x", (unsigned) (UByte) bufChars(b)[i]);
						}
					}
					else printf("fatal %s", verdict_of(0, how));
				}
			}
			fclose(f);
			DRV_EMIT(); continue;
		}
		printf("bad-op"); DRV_EMIT();
	}
	unlink(drv_path);
	return 0;
}
